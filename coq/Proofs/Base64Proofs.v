(** Proofs about lib/base64.c (through the consuming view of Base64L2.v). *)
From Qv Require Import Common.Bytes Gen.GenBase64 Model.Base64 Spec.Base64Spec Proofs.Base64L2.

(** ------------------------------------------------------------ ranges, reflection *)

Definition nrange (n : nat) : list N := map N.of_nat (seq 0 n).

Lemma in_nrange n a : (a < N.of_nat n)%N -> In a (nrange n).
Proof.
  intros H. unfold nrange. apply in_map_iff. exists (N.to_nat a). split; [apply N2Nat.id|].
  apply in_seq. lia.
Qed.

Lemma forall2_range (P : N -> N -> bool) n m :
  forallb (fun a => forallb (P a) (nrange m)) (nrange n) = true ->
  forall a b, (a < N.of_nat n)%N -> (b < N.of_nat m)%N -> P a b = true.
Proof.
  intros H a b Ha Hb. rewrite forallb_forall in H. specialize (H a (in_nrange _ _ Ha)).
  rewrite forallb_forall in H. exact (H b (in_nrange _ _ Hb)).
Qed.

(** recombination in the decoder, for sextets *)
Lemma dec_b0_spec a0 a1 : (a0 < 64 -> a1 < 64 -> dec_b0 a0 a1 = a0 * 4 + a1 / 16)%N.
Proof.
  intros H0 H1. apply N.eqb_eq.
  apply (forall2_range (fun a0 a1 => N.eqb (dec_b0 a0 a1) (a0 * 4 + a1 / 16)) 64 64); [vm_compute; reflexivity|exact H0|exact H1].
Qed.
Lemma dec_b1_spec a1 a2 : (a1 < 64 -> a2 < 64 -> dec_b1 a1 a2 = (a1 mod 16) * 16 + a2 / 4)%N.
Proof.
  intros H0 H1. apply N.eqb_eq.
  apply (forall2_range (fun a1 a2 => N.eqb (dec_b1 a1 a2) ((a1 mod 16) * 16 + a2 / 4)) 64 64); [vm_compute; reflexivity|exact H0|exact H1].
Qed.
Lemma dec_b2_spec a2 a3 : (a2 < 64 -> a3 < 64 -> dec_b2 a2 a3 = (a2 mod 4) * 64 + a3)%N.
Proof.
  intros H0 H1. apply N.eqb_eq.
  apply (forall2_range (fun a2 a3 => N.eqb (dec_b2 a2 a3) ((a2 mod 4) * 64 + a3)) 64 64); [vm_compute; reflexivity|exact H0|exact H1].
Qed.

(** ------------------------------------------------------------ alphabet *)

Lemma alpha_len : length B64_ALPHA = 64.
Proof. reflexivity. Qed.

Lemma pos_in_lt c s v : pos_in c s = Some v -> (v < N.of_nat (length s))%N /\ nth_error s (N.to_nat v) = Some c.
Proof.
  revert v; induction s as [|x s IH]; intros v H; simpl in H; [discriminate|].
  destruct (N.eqb x c) eqn:E.
  - inversion H; subst. apply N.eqb_eq in E. subst. simpl. split; [lia|reflexivity].
  - destruct (pos_in c s) as [k|]; [|discriminate]. inversion H; subst.
    destruct (IH k eq_refl) as [I1 I2]. split; [simpl length; lia|].
    rewrite N2Nat.inj_succ. simpl. exact I2.
Qed.

Lemma val_lt c v : val c = Some v -> (v < 64)%N.
Proof. intros H. apply pos_in_lt in H as [H _]. rewrite alpha_len in H. exact H. Qed.

Lemma val_in c v : val c = Some v -> In c B64_ALPHA.
Proof. intros H. apply pos_in_lt in H as [_ H]. eapply nth_error_In; eauto. Qed.

Lemma in_val c : In c B64_ALPHA -> exists v, val c = Some v.
Proof.
  unfold val. induction B64_ALPHA as [|x s IH]; intros H; [contradiction|]. simpl.
  destruct (N.eqb x c) eqn:E; [eauto|].
  destruct H as [H|H]; [subst; rewrite N.eqb_refl in E; discriminate|].
  destruct (IH H) as [v ->]. eauto.
Qed.

Lemma val_specials : val 0 = None /\ val CR = None /\ val LF = None /\ val B64_PAD = None.
Proof. repeat split; reflexivity. Qed.

Lemma pad_specials : N.eqb CR B64_PAD = false /\ N.eqb LF B64_PAD = false /\ is_brk B64_PAD = false.
Proof. repeat split; reflexivity. Qed.

Lemma index_of_pos_in c s k :
  index_of c (s ++ [0%N]) k =
  match pos_in c s with
  | Some v => Some (k + N.to_nat v)
  | None => if N.eqb c 0 then Some (k + length s) else None
  end.
Proof.
  revert k; induction s as [|x s IH]; intros k; simpl.
  - destruct c; simpl; [f_equal; lia|reflexivity].
  - destruct (N.eqb x c); [f_equal; simpl; lia|].
    rewrite IH. destruct (pos_in c s) as [v|].
    + f_equal. rewrite N2Nat.inj_succ. lia.
    + destruct (N.eqb c 0); [f_equal; lia|reflexivity].
Qed.

Definition opt_sal (o : option N) : option sym := match o with Some v => Some (SAl v) | None => None end.

Lemma classify_val c : classify_sym c = if N.eqb c B64_PAD then Some SPad else opt_sal (val c).
Proof.
  unfold classify_sym, strchr_alpha. destruct (N.eqb c B64_PAD); [reflexivity|].
  rewrite index_of_pos_in. fold (val c).
  destruct (val c) as [v|] eqn:EV.
  - destruct (N.eqb c 0) eqn:E0.
    + apply N.eqb_eq in E0. subst c. destruct val_specials as [Z _]. congruence.
    + simpl. now rewrite N2Nat.id.
  - destruct (N.eqb c 0); reflexivity.
Qed.

Lemma val_not_brk c v : val c = Some v -> is_brk c = false /\ N.eqb c B64_PAD = false.
Proof.
  intros H. destruct val_specials as (_ & V1 & V2 & V3).
  unfold is_brk. split.
  - destruct (N.eqb c 13) eqn:E1; [apply N.eqb_eq in E1; subst; unfold CR in V1; congruence|].
    destruct (N.eqb c 10) eqn:E2; [apply N.eqb_eq in E2; subst; unfold LF in V2; congruence|]. reflexivity.
  - destruct (N.eqb c B64_PAD) eqn:E; [apply N.eqb_eq in E; subst; congruence|reflexivity].
Qed.

(** ------------------------------------------------------------ strip0 / drop0 *)

Lemma strip0_app_zero d : strip0 (d ++ [0%N]) = strip0 d.
Proof.
  induction d as [|b d IH]; [reflexivity|]. simpl. rewrite IH. reflexivity.
Qed.

Lemma strip0_app_zeros d z : strip0 (d ++ repeat 0%N z) = strip0 d.
Proof.
  induction z as [|z IH]; simpl; [now rewrite app_nil_r|].
  replace (d ++ 0%N :: repeat 0%N z) with ((d ++ repeat 0%N z) ++ [0%N]).
  - now rewrite strip0_app_zero.
  - rewrite <- app_assoc. f_equal. clear. induction z; simpl; [reflexivity|]. now rewrite <- IHz.
Qed.

Lemma strip0_app_nz d b : b <> 0%N -> strip0 (d ++ [b]) = d ++ [b].
Proof.
  intros H. induction d as [|x d IH]; simpl.
  - apply N.eqb_neq in H. now rewrite H.
  - rewrite IH. destruct (d ++ [b]) eqn:E; [destruct d; discriminate|reflexivity].
Qed.

Lemma rev_drop0 acc : rev (drop0 acc) = strip0 (rev acc).
Proof.
  induction acc as [|b acc IH]; [reflexivity|]. simpl.
  destruct (N.eqb b 0) eqn:E.
  - apply N.eqb_eq in E. subst. now rewrite strip0_app_zero.
  - apply N.eqb_neq in E. now rewrite strip0_app_nz.
Qed.

(** ------------------------------------------------------------ skip1 / take against the specification *)

Definition ocons (c : N) (o : option bytes) : option bytes :=
  match o with Some t => Some (c :: t) | None => None end.

Lemma unwrap_nobrk c r b : is_brk c = false -> unwrap (c :: r) b = ocons c (unwrap r false).
Proof.
  unfold is_brk. intros H. apply orb_false_iff in H as [H1 H2]. simpl.
  unfold CR, LF. rewrite H1, H2. reflexivity.
Qed.

(** from the specification to [skip1] *)
Lemma unwrap_skip1 con t :
  unwrap con false = Some t ->
  exists r k, skip1 con = Some (r, k) /\
    match r with
    | [] => t = []
    | c :: r' => is_brk c = false /\ exists t', t = c :: t' /\ unwrap r' false = Some t'
    end.
Proof.
  intros H. destruct con as [|c r].
  - simpl in H. inversion H. exists [], false. auto.
  - assert (NB : forall c r b t, unwrap (c :: r) b = Some t -> N.eqb c CR = false ->
                  is_brk c = false /\ exists t', t = c :: t' /\ unwrap r false = Some t').
    { clear. intros c r b t H HC. simpl in H. rewrite HC in H.
      destruct (N.eqb c LF) eqn:HL; [discriminate|].
      destruct (unwrap r false) as [t'|]; [|discriminate]. inversion H; subst.
      split; [unfold is_brk; unfold CR in HC; unfold LF in HL; now rewrite HC, HL|eauto]. }
    unfold skip1. destruct (N.eqb c CR) eqn:HC.
    + simpl in H. rewrite HC in H. destruct r as [|c2 r2]; [discriminate|].
      destruct (N.eqb c2 LF); [|discriminate].
      exists r2, true. split; auto.
      destruct r2 as [|c' r']; [simpl in H; inversion H; auto|].
      destruct (N.eqb c' CR) eqn:HC'.
      * simpl in H. rewrite HC' in H. destruct r' as [|x r'']; [discriminate|].
        destruct (N.eqb x LF); discriminate.
      * eapply NB; eauto.
    + exists (c :: r), false. split; auto. eapply NB; eauto.
Qed.

(** from [skip1] to the specification, the line-break count and the padding split *)
Lemma skip1_facts con r k :
  skip1 con = Some (r, k) ->
  nsym con = nsym r /\ (forall lst, pad_split con lst = pad_split r lst) /\ length r <= length con /\
  match r with
  | [] => unwrap con false = Some []
  | c :: r' => is_brk c = false -> unwrap con false = ocons c (unwrap r' false)
  end.
Proof.
  unfold skip1. destruct con as [|c con'].
  - intros H. inversion H; subst. auto.
  - destruct (N.eqb c CR) eqn:HC.
    + destruct con' as [|c2 r2]; [discriminate|]. destruct (N.eqb c2 LF) eqn:HL; [|discriminate].
      intros H. inversion H; subst. apply N.eqb_eq in HC, HL. subst c c2.
      repeat split; try (simpl; lia); try reflexivity.
      destruct r as [|c r']; [reflexivity|]. intros NB.
      change (unwrap (CR :: LF :: c :: r') false) with (unwrap (c :: r') true).
      now apply unwrap_nobrk.
    + intros H. inversion H; subst. repeat split; auto.
      intros NB. now apply unwrap_nobrk.
Qed.

Lemma take_facts con s r k :
  take con = Some (s, r, k) ->
  length r <= length con /\
  match s with
  | SEnd => r = [] /\ nsym con = 0 /\ (forall lst, pad_split con lst = None) /\ unwrap con false = Some []
  | SPad => nsym con = S (nsym r) /\ (forall lst, pad_split con lst = Some (lst, r))
            /\ unwrap con false = ocons B64_PAD (unwrap r false) /\ length r < length con
  | SAl v => exists c, val c = Some v /\ N.eqb c B64_PAD = false /\ nsym con = S (nsym r)
            /\ (forall lst, pad_split con lst = pad_split r (Some c))
            /\ unwrap con false = ocons c (unwrap r false) /\ length r < length con
  end.
Proof.
  unfold take. destruct (skip1 con) as [[r0 k0]|] eqn:ES; [|discriminate].
  apply skip1_facts in ES as (N1 & P1 & L1 & U1).
  destruct r0 as [|c r'].
  - intros H. inversion H; subst. split; [simpl; lia|]. repeat split; auto.
  - rewrite classify_val. destruct (N.eqb c B64_PAD) eqn:EP.
    + intros H. inversion H; subst. apply N.eqb_eq in EP. subst c.
      destruct pad_specials as (_ & _ & PB).
      split; [simpl in L1; lia|]. repeat split.
      * rewrite N1. cbn [nsym]. now rewrite PB.
      * intros lst. rewrite P1. cbn [pad_split]. now rewrite N.eqb_refl.
      * now apply U1.
      * simpl in L1. lia.
    + destruct (val c) as [v|] eqn:EV; [|discriminate]. intros H. inversion H; subst.
      destruct (val_not_brk _ _ EV) as [NB _].
      split; [simpl in L1; lia|]. exists c. repeat split; auto.
      * rewrite N1. cbn [nsym]. now rewrite NB.
      * intros lst. rewrite P1. cbn [pad_split]. now rewrite EP, NB.
Qed.

(** from the specification to [take] *)
Lemma unwrap_take con t :
  unwrap con false = Some t ->
  match t with
  | [] => exists k, take con = Some (SEnd, [], k)
  | c :: t' => exists r k, unwrap r false = Some t' /\ length r < length con /\
                 take con = match classify_sym c with Some s => Some (s, r, k) | None => None end
  end.
Proof.
  intros H. apply unwrap_skip1 in H as (r & k & ES & H). unfold take. rewrite ES.
  pose proof (skip1_facts _ _ _ ES) as (_ & _ & L & _).
  destruct r as [|c r'].
  - subst t. eauto.
  - destruct H as (NB & t' & -> & U). exists r', k. repeat split; auto.
Qed.

Lemma classify_of_val c v : val c = Some v -> classify_sym c = Some (SAl v).
Proof. intros H. rewrite classify_val. destruct (val_not_brk _ _ H) as [_ ->]. now rewrite H. Qed.

Lemma classify_pad : classify_sym B64_PAD = Some SPad.
Proof. rewrite classify_val. now rewrite N.eqb_refl. Qed.

Lemma take_nil : take [] = Some (SEnd, [], false).
Proof. reflexivity. Qed.

Lemma dec_b0_00 : dec_b0 0 0 = 0%N.
Proof. reflexivity. Qed.

(** ------------------------------------------------------------ every canonical text is decoded right *)

Lemma loop2_valid : forall fuel con acc t d,
  length con <= fuel -> unwrap con false = Some t -> std_decode t = Some d ->
  exists a z, loop2 fuel con acc = Some a /\ rev a = rev acc ++ d ++ repeat 0%N z.
Proof.
  induction fuel as [|f IH]; intros con acc t d HL HU HD.
  - destruct con; [|simpl in HL; lia]. simpl in HU. inversion HU; subst. simpl in HD. inversion HD; subst.
    exists acc, 0. simpl. now rewrite app_nil_r.
  - destruct con as [|x con'].
    { simpl in HU. inversion HU; subst. simpl in HD. inversion HD; subst.
      exists acc, 0. simpl. now rewrite app_nil_r. }
    cbn [loop2]. set (con := x :: con') in *.
    pose proof (unwrap_take _ _ HU) as T0.
    destruct t as [|c0 t].
    { (* only a line break is left *)
      destruct T0 as [k T0]. simpl in HD. inversion HD; subst.
      unfold quad2. rewrite T0, !take_nil. cbn [sval stops negb andb]. rewrite dec_b0_00.
      exists (0%N :: acc), 1. split; [reflexivity|]. simpl. reflexivity. }
    destruct t as [|c1 [|c2 [|c3 rest]]]; try (simpl in HD; discriminate).
    simpl in HD.
    destruct (val c0) as [v0|] eqn:V0; [|discriminate].
    destruct (val c1) as [v1|] eqn:V1; [|discriminate].
    pose proof (val_lt _ _ V0) as L0. pose proof (val_lt _ _ V1) as L1.
    destruct T0 as (r1 & k0 & U1 & LL1 & T0). rewrite (classify_of_val _ _ V0) in T0.
    pose proof (unwrap_take _ _ U1) as T1.
    destruct T1 as (r2 & k1 & U2 & LL2 & T1). rewrite (classify_of_val _ _ V1) in T1.
    pose proof (unwrap_take _ _ U2) as T2.
    destruct T2 as (r3 & k2 & U3 & LL3 & T2).
    pose proof (unwrap_take _ _ U3) as T3.
    destruct T3 as (r4 & k3 & U4 & LL4 & T3).
    unfold quad2. rewrite T0, T1, T2.
    destruct (N.eqb c2 B64_PAD) eqn:P2.
    + (* xx== *)
      apply N.eqb_eq in P2. subst c2. rewrite classify_pad.
      destruct rest; [|discriminate].
      destruct (N.eqb c3 B64_PAD) eqn:P3; [|discriminate]. apply N.eqb_eq in P3. subst c3.
      destruct (N.eqb (v1 mod 16) 0) eqn:B; [|discriminate]. apply N.eqb_eq in B.
      simpl in HD. inversion HD; subst d.
      rewrite T3, classify_pad. cbn [sval stops].
      rewrite dec_b0_spec by assumption.
      destruct k3; cbn [negb andb].
      * rewrite dec_b1_spec by (auto; lia). rewrite B.
        exists (0%N :: (v0 * 4 + v1 / 16)%N :: acc), 1. split; [reflexivity|].
        simpl. rewrite <- !app_assoc. reflexivity.
      * exists ((v0 * 4 + v1 / 16)%N :: acc), 0. split; [reflexivity|]. simpl. reflexivity.
    + destruct (val c2) as [v2|] eqn:V2; [|discriminate].
      pose proof (val_lt _ _ V2) as L2.
      rewrite (classify_of_val _ _ V2). rewrite T3.
      destruct (N.eqb c3 B64_PAD) eqn:P3.
      * (* xxx= *)
        apply N.eqb_eq in P3. subst c3. rewrite classify_pad.
        destruct rest; [|discriminate].
        destruct (N.eqb (v2 mod 4) 0) eqn:B; [|discriminate].
        inversion HD; subst d. cbn [sval stops]. rewrite andb_false_r.
        rewrite dec_b0_spec, dec_b1_spec by assumption.
        eexists _, 0. split; [reflexivity|]. simpl. rewrite <- !app_assoc. reflexivity.
      * destruct (val c3) as [v3|] eqn:V3; [|discriminate].
        pose proof (val_lt _ _ V3) as L3.
        destruct (std_decode rest) as [d'|] eqn:DR; [|discriminate].
        inversion HD; subst d.
        rewrite (classify_of_val _ _ V3). cbn [sval stops]. rewrite andb_false_r.
        rewrite dec_b0_spec, dec_b1_spec, dec_b2_spec by assumption.
        destruct (IH r4 (((v2 mod 4) * 64 + v3) :: ((v1 mod 16) * 16 + v2 / 4) :: (v0 * 4 + v1 / 16) :: acc)%N rest d')
          as (a & z & E & R); auto.
        { unfold con in *. simpl in *. lia. }
        exists a, z. split; [exact E|]. rewrite R. simpl. rewrite <- !app_assoc. reflexivity.
Qed.

Theorem decode2_valid inp d : strict_decode inp = Some d -> decode2 inp = Some (strip0 d).
Proof.
  unfold strict_decode, decode2. destruct (unwrap inp false) as [t|] eqn:U; [|discriminate].
  intros D. destruct inp as [|x inp'].
  - simpl in U. inversion U; subst. simpl in D. inversion D; subst. reflexivity.
  - destruct (loop2_valid (S (length (x :: inp'))) (x :: inp') [] t d) as (a & z & E & R); auto.
    rewrite E. rewrite rev_drop0, R. simpl. now rewrite strip0_app_zeros.
Qed.

(** ------------------------------------------------------------ regular padding: accepted implies canonical *)

Definition tail_ok (p : option (option N * bytes)) : bool :=
  match p with
  | None => true
  | Some (last, []) => pad_bits_zero last 1
  | Some (last, [c]) => N.eqb c B64_PAD && pad_bits_zero last 2
  | Some _ => false
  end.

Definition regular_from (con : bytes) (lst : option N) : Prop :=
  Nat.modulo (nsym con) 4 = 0 /\ tail_ok (pad_split con lst) = true.

Lemma pad_regular_from inp : pad_regular inp = true -> regular_from inp None.
Proof.
  unfold pad_regular, regular_from. intros H. apply andb_true_iff in H as [H1 H2].
  apply Nat.eqb_eq in H1. split; [exact H1|].
  unfold tail_ok. destruct (pad_split inp None) as [[last [|c [|c' r]]]|]; auto.
Qed.

Lemma nsym_tail_ok lst r : tail_ok (Some (lst, r)) = true -> (r = [] /\ nsym r = 0) \/ (r = [B64_PAD] /\ nsym r = 1).
Proof.
  unfold tail_ok. destruct r as [|c [|c' r]]; [auto| |discriminate].
  intros H. apply andb_true_iff in H as [H _]. apply N.eqb_eq in H. subst. right. split; reflexivity.
Qed.

Lemma take_pad1 : take [B64_PAD] = Some (SPad, [], false).
Proof. reflexivity. Qed.

Lemma loop2_regular : forall fuel con acc a lst,
  length con <= fuel -> regular_from con lst -> loop2 fuel con acc = Some a ->
  exists t d z, unwrap con false = Some t /\ std_decode t = Some d /\ rev a = rev acc ++ d ++ repeat 0%N z.
Proof.
  induction fuel as [|f IH]; intros con acc a lst HL [HM HT] HA.
  - destruct con; [|simpl in HL; lia]. simpl in HA. inversion HA; subst.
    exists [], [], 0. simpl. now rewrite app_nil_r.
  - destruct con as [|x con'].
    { simpl in HA. inversion HA; subst. exists [], [], 0. simpl. now rewrite app_nil_r. }
    cbn [loop2] in HA. set (con := x :: con') in *.
    unfold quad2 in HA.
    destruct (take con) as [[[s0 r1] k0]|] eqn:T0; [|discriminate].
    destruct (take r1) as [[[s1 r2] k1]|] eqn:T1; [|discriminate].
    destruct (take r2) as [[[s2 r3] k2]|] eqn:T2; [|discriminate].
    destruct (take r3) as [[[s3 r4] k3]|] eqn:T3; [|discriminate].
    apply take_facts in T0 as [LL0 F0].
    destruct s0 as [v0| |].
    3: { (* nothing but a line break *)
      destruct F0 as (-> & N0 & P0 & U0).
      rewrite take_nil in T1. inversion T1; subst. rewrite take_nil in T2. inversion T2; subst.
      rewrite take_nil in T3. inversion T3; subst.
      cbn [sval stops negb andb] in HA. rewrite dec_b0_00 in HA. inversion HA; subst.
      exists [], [], 1. repeat split; auto. }
    2: { (* '=' first *)
      destruct F0 as (N0 & P0 & _). rewrite P0 in HT.
      destruct (nsym_tail_ok _ _ HT) as [[_ E]|[_ E]]; rewrite N0, E in HM; simpl in HM; discriminate. }
    destruct F0 as (c0 & V0 & NP0 & N0 & P0 & U0 & LT0).
    apply take_facts in T1 as [LL1 F1].
    destruct s1 as [v1| |].
    3: { destruct F1 as (_ & N1 & _). rewrite N0, N1 in HM. simpl in HM. discriminate. }
    2: { destruct F1 as (N1 & P1 & _). rewrite P0, P1 in HT.
         destruct (nsym_tail_ok _ _ HT) as [[_ E]|[_ E]]; rewrite N0, N1, E in HM; simpl in HM; discriminate. }
    destruct F1 as (c1 & V1 & NP1 & N1 & P1 & U1 & LT1).
    apply take_facts in T2 as [LL2 F2].
    pose proof (val_lt _ _ V0) as L0. pose proof (val_lt _ _ V1) as L1.
    destruct s2 as [v2| |].
    3: { destruct F2 as (_ & N2 & _). rewrite N0, N1, N2 in HM. simpl in HM. discriminate. }
    2: { (* xx= : the tail must be one more '=' *)
      destruct F2 as (N2 & P2 & U2 & LT2). rewrite P0, P1, P2 in HT.
      destruct (nsym_tail_ok _ _ HT) as [[_ E]|[E3 E]].
      { rewrite N0, N1, N2, E in HM. simpl in HM. discriminate. }
      subst r3. rewrite take_pad1 in T3. inversion T3; subst.
      cbn [sval stops negb andb] in HA. inversion HA; subst.
      unfold tail_ok, pad_bits_zero in HT. rewrite N.eqb_refl, V1 in HT. simpl in HT.
      exists [c0; c1; B64_PAD; B64_PAD], [(v0 * 4 + v1 / 16)%N], 0. repeat split.
      - rewrite U0, U1, U2. reflexivity.
      - simpl. rewrite V0, V1. simpl. now rewrite HT.
      - simpl. rewrite dec_b0_spec by assumption. reflexivity. }
    destruct F2 as (c2 & V2 & NP2 & N2 & P2 & U2 & LT2).
    pose proof (val_lt _ _ V2) as L2.
    apply take_facts in T3 as [LL3 F3].
    cbn [sval stops] in HA. rewrite andb_false_r in HA.
    destruct s3 as [v3| |].
    3: { destruct F3 as (_ & N3 & _). rewrite N0, N1, N2, N3 in HM. simpl in HM. discriminate. }
    2: { (* xxx= : nothing may follow *)
      destruct F3 as (N3 & P3 & U3 & LT3). rewrite P0, P1, P2, P3 in HT.
      destruct (nsym_tail_ok _ _ HT) as [[E4 E]|[_ E]].
      2: { rewrite N0, N1, N2, N3, E in HM. simpl in HM. discriminate. }
      subst r4. cbn [stops] in HA. inversion HA; subst.
      unfold tail_ok, pad_bits_zero in HT. rewrite V2 in HT. simpl in HT.
      exists [c0; c1; c2; B64_PAD], [(v0 * 4 + v1 / 16)%N; ((v1 mod 16) * 16 + v2 / 4)%N], 0. repeat split.
      - rewrite U0, U1, U2, U3. reflexivity.
      - simpl. rewrite V0, V1, NP2, V2. simpl. now rewrite HT.
      - simpl. rewrite dec_b0_spec, dec_b1_spec by assumption. rewrite <- !app_assoc. reflexivity. }
    destruct F3 as (c3 & V3 & NP3 & N3 & P3 & U3 & LT3).
    pose proof (val_lt _ _ V3) as L3.
    cbn [stops sval] in HA.
    assert (HM4 : Nat.modulo (nsym r4) 4 = 0).
    { rewrite N0, N1, N2, N3 in HM.
      replace (S (S (S (S (nsym r4))))) with (nsym r4 + 1 * 4) in HM by lia.
      rewrite Nat.mod_add in HM by lia. exact HM. }
    assert (HT4 : tail_ok (pad_split r4 (Some c3)) = true) by (now rewrite <- (P3 (Some c2)), <- (P2 (Some c1)), <- (P1 (Some c0)), <- (P0 lst)).
    assert (HL4 : length r4 <= f) by (unfold con in *; simpl in *; lia).
    destruct (IH r4 _ a (Some c3) HL4 (conj HM4 HT4) HA)
      as (t' & d' & z & U' & D' & R').
    exists (c0 :: c1 :: c2 :: c3 :: t'),
           ((v0 * 4 + v1 / 16) :: ((v1 mod 16) * 16 + v2 / 4) :: ((v2 mod 4) * 64 + v3) :: d')%N, z.
    repeat split.
    + rewrite U0, U1, U2, U3, U'. reflexivity.
    + simpl. rewrite V0, V1, NP2, V2, NP3, V3, D'. reflexivity.
    + rewrite R'. simpl. rewrite dec_b0_spec, dec_b1_spec, dec_b2_spec by assumption.
      rewrite <- !app_assoc. reflexivity.
Qed.

Theorem decode2_regular inp o :
  pad_regular inp = true -> decode2 inp = Some o ->
  exists d, strict_decode inp = Some d /\ o = strip0 d.
Proof.
  intros HR HD. unfold decode2 in HD. destruct inp as [|x inp'].
  - inversion HD; subst. exists []. split; reflexivity.
  - destruct (loop2 (S (length (x :: inp'))) (x :: inp') []) as [a|] eqn:E; [|discriminate].
    inversion HD; subst o.
    destruct (loop2_regular _ _ _ _ None (Nat.le_succ_diag_r _) (pad_regular_from _ HR) E) as (t & d & z & U & D & R).
    exists d. unfold strict_decode. rewrite U. split; [exact D|].
    rewrite rev_drop0, R. simpl. now rewrite strip0_app_zeros.
Qed.

Theorem decode2_regular_eq inp :
  pad_regular inp = true -> decode2 inp = option_map strip0 (strict_decode inp).
Proof.
  intros HR. destruct (strict_decode inp) as [d|] eqn:S.
  - simpl. now apply decode2_valid.
  - simpl. destruct (decode2 inp) as [o|] eqn:D; [|reflexivity].
    destruct (decode2_regular _ _ HR D) as (d & S' & _). congruence.
Qed.

(** ------------------------------------------------------------ what is consumed is alphabet, '=' or CRLF *)

Definition b64_char (c : N) : Prop := In c B64_ALPHA \/ c = B64_PAD \/ c = CR \/ c = LF.

Lemma take_consumed con s r k :
  take con = Some (s, r, k) ->
  exists u, con = u ++ r /\ Forall b64_char u /\ (s = SPad -> In B64_PAD u) /\ (s = SEnd -> r = []).
Proof.
  unfold take, skip1. intros H.
  assert (G : forall pre rest k0,
             match rest with
             | [] => Some (SEnd, [], k0)
             | c :: r' => match classify_sym c with Some s => Some (s, r', k0) | None => None end
             end = Some (s, r, k) -> Forall b64_char pre ->
             exists u, pre ++ rest = u ++ r /\ Forall b64_char u /\ (s = SPad -> In B64_PAD u) /\ (s = SEnd -> r = [])).
  { clear. intros pre rest k0 H HP. destruct rest as [|c r'].
    - inversion H; subst. exists pre. repeat split; auto. discriminate.
    - rewrite classify_val in H. destruct (N.eqb c B64_PAD) eqn:EP.
      + inversion H; subst. apply N.eqb_eq in EP. subst c. exists (pre ++ [B64_PAD]).
        rewrite <- app_assoc. repeat split; auto.
        * apply Forall_app. split; auto. constructor; [right; left; reflexivity|constructor].
        * intros _. apply in_or_app. right. left. reflexivity.
        * discriminate.
      + destruct (val c) as [v|] eqn:EV; [|discriminate]. inversion H; subst.
        exists (pre ++ [c]). rewrite <- app_assoc. repeat split; auto; try discriminate.
        apply Forall_app. split; auto. constructor; [left; eapply val_in; eauto|constructor]. }
  destruct con as [|c con'].
  - apply (G [] [] false) in H; auto.
  - destruct (N.eqb c CR) eqn:EC.
    + destruct con' as [|c2 r2]; [discriminate|]. destruct (N.eqb c2 LF) eqn:EL; [|discriminate].
      apply N.eqb_eq in EC, EL. subst.
      apply (G [CR; LF] r2 true) in H; auto.
      constructor; [right; right; left; reflexivity|]. constructor; [right; right; right; reflexivity|constructor].
    + apply (G [] (c :: con') false) in H; auto.
Qed.

Lemma quad2_consumed con acc :
  match quad2 con acc with
  | QRej => True
  | QStop _ => exists u junk, con = u ++ junk /\ Forall b64_char u /\ (junk = [] \/ In B64_PAD u)
  | QCont c _ => exists u, con = u ++ c /\ Forall b64_char u /\ length c < length con
  end.
Proof.
  unfold quad2.
  destruct (take con) as [[[s0 c1] k0]|] eqn:T0; auto.
  destruct (take c1) as [[[s1 c2] k1]|] eqn:T1; auto.
  destruct (take c2) as [[[s2 c3] k2]|] eqn:T2; auto.
  destruct (take c3) as [[[s3 c4] k3]|] eqn:T3; auto.
  pose proof (take_facts _ _ _ _ T0) as [LL0 _]. pose proof (take_facts _ _ _ _ T1) as [LL1 _].
  pose proof (take_facts _ _ _ _ T2) as [LL2 _]. pose proof (take_facts _ _ _ _ T3) as [LL3 F3].
  apply take_consumed in T0 as (u0 & E0 & A0 & Q0 & Z0).
  apply take_consumed in T1 as (u1 & E1 & A1 & Q1 & Z1).
  apply take_consumed in T2 as (u2 & E2 & A2 & Q2 & Z2).
  apply take_consumed in T3 as (u3 & E3 & A3 & Q3 & Z3).
  assert (EC : con = (u0 ++ u1 ++ u2 ++ u3) ++ c4).
  { rewrite E0, E1, E2, E3. now rewrite <- !app_assoc. }
  assert (AC : Forall b64_char (u0 ++ u1 ++ u2 ++ u3)).
  { repeat (apply Forall_app; split; auto). }
  destruct (negb k3 && stops s2) eqn:B1.
  { exists (u0 ++ u1 ++ u2 ++ u3), c4. repeat split; auto.
    apply andb_true_iff in B1 as [_ B1]. destruct s2; [discriminate| |].
    - right. apply in_or_app. right. apply in_or_app. right. apply in_or_app. left. auto.
    - left. rewrite (Z2 eq_refl) in E3. destruct u3; [|discriminate]. simpl in E3. auto. }
  destruct (stops s3) eqn:B2.
  { exists (u0 ++ u1 ++ u2 ++ u3), c4. repeat split; auto.
    destruct s3; [discriminate| |].
    - right. apply in_or_app. right. apply in_or_app. right. apply in_or_app. right. auto.
    - left. auto. }
  exists (u0 ++ u1 ++ u2 ++ u3). repeat split; auto.
  destruct s3; try discriminate. destruct F3 as (c & _ & _ & _ & _ & _ & LT). lia.
Qed.

Lemma loop2_consumed : forall fuel con acc a,
  length con <= fuel -> loop2 fuel con acc = Some a ->
  exists u junk, con = u ++ junk /\ Forall b64_char u /\ (junk = [] \/ In B64_PAD u).
Proof.
  induction fuel as [|f IH]; intros con acc a HL HA.
  - destruct con; [|simpl in HL; lia]. exists [], []. auto.
  - destruct con as [|x con']; [exists [], []; auto|].
    cbn [loop2] in HA. pose proof (quad2_consumed (x :: con') acc) as Q.
    destruct (quad2 (x :: con') acc) as [|a'|c a']; [discriminate| |].
    + exact Q.
    + destruct Q as (u & E & A & LT).
      apply IH in HA as (u' & junk & E' & A' & J); [|simpl in *; lia].
      exists (u ++ u'), junk. rewrite E, E', app_assoc. repeat split; auto.
      * apply Forall_app; auto.
      * destruct J; auto. right. apply in_or_app. auto.
Qed.

Theorem decode2_alphabet inp o :
  decode2 inp = Some o ->
  exists used junk, inp = used ++ junk /\ Forall b64_char used /\ (junk = [] \/ In B64_PAD used).
Proof.
  unfold decode2. destruct inp as [|x inp']; [exists [], []; auto|].
  destruct (loop2 (S (length (x :: inp'))) (x :: inp') []) as [a|] eqn:E; [|discriminate].
  intros _. eapply loop2_consumed; [|exact E]. lia.
Qed.

(** The multipart walk of send_qp as a composition of pieces: literal writes (delimiter lines, the
    texts for a discarded preamble / epilogue, CRLF) between the parts.  [good0] is [good] without the
    clause on lastlf: the literal writes do not maintain it, and nothing reads it before the terminator. *)
From Qv Require Import Common.Bytes Gen.GenQrdata Model.Mime Model.QrData Model.QrDataL2 Proofs.QrMemLemmas
  Spec.SmtpDataSpec Spec.DeliverSpec Proofs.QrPlainProofs Proofs.QrNeedRecodeProofs Proofs.QrPlainSpecProofs
  Proofs.QrQpProofs Proofs.QrQpDecodeProofs Proofs.QrQpLegalProofs Proofs.QrWireProofs Proofs.QrFoldProofs
  Proofs.MimeTotalProofs Proofs.QrWrapHeaderProofs Proofs.QrPiecesProofs Proofs.QrQpTailProofs Proofs.QrBoundaryProofs.
Require Import Lia.

Definition good0 (ext8 : bool) (D0 : bytes) (st : St) (t : bytes) : Prop :=
  exists X, outof st = D0 ++ X /\ wire ext8 X t /\ legal_line ext8 t.

Lemma good_good0 ext8 D0 st t : good ext8 D0 st t -> good0 ext8 D0 st t.
Proof. intros (X & A & B & C & _). exists X. auto. Qed.

Lemma good0_good ext8 D0 st : good0 ext8 D0 st [] -> good ext8 D0 st [].
Proof. intros (X & A & B & C). exists X. auto. Qed.

Lemma good0_app ext8 D0 st st' t x t' : good0 ext8 D0 st t -> outof st' = outof st ++ x ->
  wire ext8 (t ++ x) t' -> legal_line ext8 t' -> good0 ext8 D0 st' t'.
Proof.
  intros (X & E & Hw & _) Ho Hx Hl. exists (X ++ x). split; [rewrite Ho, E; now rewrite app_assoc|].
  split; [apply (wire_app ext8 X t x t'); assumption|exact Hl].
Qed.

Lemma good0_lastlf ext8 D0 st t v : good0 ext8 D0 st t -> good0 ext8 D0 (set_lastlf st v) t.
Proof. intros (X & A & B & C). exists X. auto. Qed.

(* ------------------------------------------------------------------ lines *)
Lemma wire_lines0 ext8 ls z : Forall (legal_line ext8) ls -> line_clean z -> wire ext8 (join_crlf ls ++ z) z.
Proof. intros H Hz. exists ls. auto. Qed.

(** closing the open line [t] and writing complete lines, then the beginning [z] of a line *)
Lemma wire_lines ext8 t ls z : legal_line ext8 t -> Forall (legal_line ext8) ls -> line_clean z ->
  wire ext8 (t ++ CRLF ++ join_crlf ls ++ z) z.
Proof.
  intros Ht H Hz. rewrite app_assoc. apply (wire_app ext8 (t ++ CRLF) [] (join_crlf ls ++ z) z).
  - apply wire_close. exact Ht.
  - apply wire_lines0; assumption.
Qed.

Lemma clean_nil : line_clean [].
Proof. constructor. Qed.

(* ------------------------------------------------------------------ the boundary *)
Definition bnd_ok (bnd : bytes) : Prop := Forall (fun x => (32 <= x <= 122)%N) bnd /\ length bnd <= BOUNDARY_MAX.

Definition DL (bnd tail : bytes) : bytes := [DASH; DASH] ++ bnd ++ tail.

Lemma DL_legal ext8 bnd tail : bnd_ok bnd -> tail = [] \/ tail = [DASH; DASH] -> legal_line ext8 (DL bnd tail).
Proof. intros [A B] C. apply boundary_line_legal; assumption. Qed.

Lemma DL_clean (ext8 : bool) bnd tail : bnd_ok bnd -> tail = [] \/ tail = [DASH; DASH] -> line_clean (DL bnd tail).
Proof. intros A B. apply (DL_legal ext8 bnd tail A B). Qed.

(* ------------------------------------------------------------------ the fixed texts *)
Definition PRE_MID : bytes := firstn (length PREAMBLE_TXT - 4) (skipn 2 PREAMBLE_TXT).
Definition EPI_REST : bytes := skipn 2 EPILOGUE_TXT.

Lemma preamble_split : PREAMBLE_TXT = CRLF ++ PRE_MID ++ S_DD.
Proof. vm_compute. reflexivity. Qed.

Lemma pre_mid_lines : exists ls, PRE_MID = join_crlf ls /\ Forall (legal_line false) ls.
Proof. apply (legal_data_b_sound false PRE_MID). vm_compute. reflexivity. Qed.

Lemma epilogue_split : EPILOGUE_TXT = CRLF ++ EPI_REST.
Proof. vm_compute. reflexivity. Qed.

Lemma epi_rest_lines : exists ls, EPI_REST = join_crlf ls /\ Forall (legal_line false) ls.
Proof. apply (legal_data_b_sound false EPI_REST). vm_compute. reflexivity. Qed.

Lemma Forall_legal_mono ext8 ls : Forall (legal_line false) ls -> Forall (legal_line ext8) ls.
Proof. intros H. eapply Forall_impl; [|exact H]. intros l. apply legal_line_mono. Qed.

(* ------------------------------------------------------------------ the literal writes of the walk *)
Section Lits.
Variable ext8 : bool.
Variable D0 : bytes.
Variable bnd : bytes.
Variable Hbnd : bnd_ok bnd.

Lemma join1 (l : bytes) : join_crlf [l] = l ++ CRLF.
Proof. unfold join_crlf. cbn [map concat]. now rewrite app_nil_r. Qed.

Lemma join2 (l1 l2 : bytes) : join_crlf [l1; l2] = l1 ++ CRLF ++ l2 ++ CRLF.
Proof. unfold join_crlf. cbn [map concat]. rewrite app_nil_r. now rewrite <- app_assoc. Qed.

(** CRLF "--" boundary CRLF *)
Lemma lit_open_delim st t : good0 ext8 D0 st t -> good ext8 D0 (wr (wr (wr st S_CRLF_DD) bnd) CRLF) [].
Proof.
  intros H. apply good0_good. destruct H as (X & E & Hw & Hl).
  apply (good0_app ext8 D0 st _ t (CRLF ++ join_crlf [DL bnd []] ++ []) []); [exists X; auto| | |apply legal_nil].
  - rewrite !outof_wr, <- !app_assoc. f_equal. rewrite join1. unfold DL, S_CRLF_DD. cbn [app]. now rewrite !app_nil_r.
  - apply wire_lines; [exact Hl| |apply clean_nil]. constructor; [|constructor]. apply DL_legal; auto.
Qed.

(** CRLF "--" boundary "--" CRLF *)
Lemma lit_close_delim st t : good0 ext8 D0 st t -> good ext8 D0 (wr (wr (wr st S_CRLF_DD) bnd) S_DD_CRLF) [].
Proof.
  intros H. apply good0_good. destruct H as (X & E & Hw & Hl).
  apply (good0_app ext8 D0 st _ t (CRLF ++ join_crlf [DL bnd [DASH; DASH]] ++ []) []); [exists X; auto| | |apply legal_nil].
  - rewrite !outof_wr, <- !app_assoc. f_equal. rewrite join1. unfold DL, S_CRLF_DD, S_DD_CRLF, CRLF. cbn [app].
    rewrite !app_nil_r. rewrite <- app_assoc. reflexivity.
  - apply wire_lines; [exact Hl| |apply clean_nil]. constructor; [|constructor]. apply DL_legal; auto.
Qed.

(** the text for a discarded preamble, "--" boundary: the delimiter line stays open *)
Lemma lit_preamble st t : good0 ext8 D0 st t -> good0 ext8 D0 (wr (wr st PREAMBLE_TXT) bnd) (DL bnd []).
Proof.
  intros H. destruct H as (X & E & Hw & Hl). destruct pre_mid_lines as (ls & Els & Fls).
  apply (good0_app ext8 D0 st _ t (CRLF ++ join_crlf ls ++ DL bnd []) (DL bnd [])); [exists X; auto| | |apply DL_legal; auto].
  - rewrite !outof_wr, <- !app_assoc. f_equal. rewrite preamble_split, Els. unfold DL, S_DD. rewrite <- !app_assoc.
    cbn [app]. now rewrite app_nil_r.
  - apply wire_lines; [exact Hl|apply Forall_legal_mono; exact Fls|apply (DL_clean ext8); auto].
Qed.

(** CRLF behind an open line *)
Lemma lit_crlf st t : good0 ext8 D0 st t -> good ext8 D0 (wr st CRLF) [].
Proof.
  intros H. apply good0_good. destruct H as (X & E & Hw & Hl).
  apply (good0_app ext8 D0 st _ t (CRLF ++ join_crlf [] ++ []) []); [exists X; auto| | |apply legal_nil].
  - rewrite outof_wr. reflexivity.
  - apply wire_lines; [exact Hl|constructor|apply clean_nil].
Qed.

(** CRLF CRLF "--" boundary "--" behind an open line: the close delimiter stays open *)
Lemma lit_first_is_last st t : good0 ext8 D0 st t ->
  good0 ext8 D0 (wr (wr (wr st S_CRLFCRLF_DD) bnd) S_DD) (DL bnd [DASH; DASH]).
Proof.
  intros H. destruct H as (X & E & Hw & Hl).
  apply (good0_app ext8 D0 st _ t (CRLF ++ join_crlf [[]] ++ DL bnd [DASH; DASH]) (DL bnd [DASH; DASH]));
    [exists X; auto| | |apply DL_legal; auto].
  - rewrite !outof_wr, <- !app_assoc. f_equal.
  - apply wire_lines; [exact Hl|constructor; [apply legal_nil|constructor]|apply (DL_clean ext8); auto].
Qed.

(** "--" boundary at the start of a line, open *)
Lemma lit_delim st : good ext8 D0 st [] -> good0 ext8 D0 (wr (wr st S_DD) bnd) (DL bnd []).
Proof.
  intros H. apply good_good0 in H. destruct H as (X & E & Hw & Hl).
  apply (good0_app ext8 D0 st _ [] (join_crlf [] ++ DL bnd []) (DL bnd [])); [exists X; auto| | |apply DL_legal; auto].
  - rewrite !outof_wr, <- !app_assoc. f_equal. unfold DL, S_DD. cbn [app]. now rewrite app_nil_r.
  - cbn [app]. apply wire_lines0; [constructor|apply (DL_clean ext8); auto].
Qed.

(** "--" behind the open delimiter *)
Lemma lit_delim_dd st : good0 ext8 D0 st (DL bnd []) -> good0 ext8 D0 (wr st S_DD) (DL bnd [DASH; DASH]).
Proof.
  intros H. destruct H as (X & E & Hw & Hl).
  apply (good0_app ext8 D0 st _ (DL bnd []) S_DD (DL bnd [DASH; DASH])); [exists X; auto| | |apply DL_legal; auto].
  - now rewrite outof_wr.
  - assert (Eq : DL bnd [] ++ S_DD = DL bnd [DASH; DASH]).
    { unfold DL, S_DD. rewrite app_nil_r. rewrite <- !app_assoc. reflexivity. }
    rewrite Eq. apply wire_open. apply (DL_clean ext8); auto.
Qed.

(** "--" CRLF behind the open delimiter *)
Lemma lit_delim_close st : good0 ext8 D0 st (DL bnd []) -> good ext8 D0 (set_lastlf (wr st S_DD_CRLF) true) [].
Proof.
  intros H. apply good0_good. apply good0_lastlf. destruct H as (X & E & Hw & Hl).
  apply (good0_app ext8 D0 st _ (DL bnd []) S_DD_CRLF []); [exists X; auto| | |apply legal_nil].
  - now rewrite outof_wr.
  - assert (Eq : DL bnd [] ++ S_DD_CRLF = DL bnd [DASH; DASH] ++ CRLF).
    { unfold DL, S_DD_CRLF, CRLF. rewrite app_nil_r. rewrite <- !app_assoc. reflexivity. }
    rewrite Eq. apply wire_close. apply DL_legal; auto.
Qed.

(** the text for a discarded epilogue *)
Lemma lit_epilogue st t : good0 ext8 D0 st t -> good ext8 D0 (set_lastlf (wr st EPILOGUE_TXT) true) [].
Proof.
  intros H. apply good0_good. apply good0_lastlf. destruct H as (X & E & Hw & Hl). destruct epi_rest_lines as (ls & Els & Fls).
  apply (good0_app ext8 D0 st _ t (CRLF ++ join_crlf ls ++ []) []); [exists X; auto| | |apply legal_nil].
  - rewrite outof_wr. f_equal. rewrite epilogue_split, Els. now rewrite app_nil_r.
  - apply wire_lines; [exact Hl|apply Forall_legal_mono; exact Fls|apply clean_nil].
Qed.

(** the lines of recodeheader() and the empty line behind them *)
Lemma lit_recodeheader helo st : helo_ok helo -> good ext8 D0 st [] -> good ext8 D0 (wr (recodeheader helo st) CRLF) [].
Proof.
  intros Hh H. apply (lit_crlf _ []). apply good_good0. unfold recodeheader. apply good_lit; [exact H|].
  apply recoded_legal. exact Hh.
Qed.

End Lits.

(** C11, stage 3 (proved part): the redirect= / exp= modifiers as find_modifier() of the model finds
    them in the text of a record, against the parsed terms of Spec/SpfRfc.v. *)
From Coq Require Import Lia ZifyBool ZifyN.
From Qv Require Import Common.Bytes Gen.GenSpf Model.SpfBase Model.SpfEnv Model.SpfMacro Model.Spf Spec.SpfRfc
  Proofs.SpfStr Proofs.SpfAgreeParse Proofs.SpfAgreeMech Proofs.SpfAgreeLoop.
Local Open Scope N_scope.

(** a keyword none of whose characters is (or lower-cases to) a space *)
Definition nosp (K : bytes) : bool := forallb (fun k => negb (to_lower k =? 32)) K.

Lemma to_lower_32 c : (to_lower c =? 32) = (c =? 32).
Proof. unfold to_lower, is_upper. destruct ((65 <=? c) && (c <=? 90)) eqn:E; lia. Qed.

Lemma cp_space K t : nosp K = true -> K <> [] -> case_prefix K (32 :: t) = false.
Proof.
  destruct K as [|k K']; [congruence|]. intros H _. cbn in H. apply andb_true_iff in H as [H _].
  cbn [case_prefix]. change (to_lower 32) with 32. destruct (to_lower k =? 32); [discriminate|reflexivity].
Qed.

Lemma cp_nosp K : nosp K = true -> forall s, case_prefix K s = true ->
  forallb not_sp (firstn (length K) s) = true /\ (length K <= length s)%nat.
Proof.
  induction K as [|k K IH]; intros HK s H; [split; [reflexivity|cbn; lia]|].
  cbn in HK. apply andb_true_iff in HK as [Hk HK].
  destruct s as [|c s]; [discriminate|]. cbn in H. apply andb_true_iff in H as [H1 H2].
  destruct (IH HK s H2) as [A B]. cbn [length firstn forallb]. split; [|lia].
  rewrite A, andb_true_r. unfold not_sp. rewrite <- to_lower_32.
  apply N.eqb_eq in H1. rewrite <- H1. exact Hk.
Qed.

(** the keyword at the start of a term: what follows the term does not matter *)
Lemma cp_tok K : nosp K = true -> forall tok rest, sp_tail rest = true ->
  case_prefix K (tok ++ rest) = case_prefix K tok.
Proof.
  induction K as [|k K IH]; intros HK tok rest Hr; [reflexivity|].
  cbn in HK. apply andb_true_iff in HK as [Hk HK].
  destruct tok as [|c tok].
  - cbn [app]. destruct rest as [|e r]; [reflexivity|]. cbn in Hr. apply N.eqb_eq in Hr. subst e.
    cbn [case_prefix]. change (to_lower 32) with 32. destruct (to_lower k =? 32); [discriminate|reflexivity].
  - cbn [app case_prefix]. rewrite IH; auto.
Qed.

(** the texts behind the keyword [K] at the starts of the terms that begin with it *)
Fixpoint mod_hits (K s : bytes) (intok : bool) : list bytes :=
  match s with
  | [] => []
  | c :: t => if c =? 32 then mod_hits K t false
              else if intok then mod_hits K t true
              else (if case_prefix K s then [skipn (length K) s] else []) ++ mod_hits K t true
  end.

Lemma fm_hits K : nosp K = true -> K <> [] -> forall s prev intok,
  forallb rec_char s = true -> wspace prev = negb intok ->
  find_modifier K s prev = hd_error (mod_hits K s intok).
Proof.
  intros HK Hne. induction s as [|c t IH]; intros prev intok Hs Hp; [reflexivity|].
  cbn [forallb] in Hs. apply andb_true_iff in Hs as [Hc Hs]. cbn [find_modifier mod_hits].
  destruct (rec_char_cases c Hc) as [->|(E32 & W & _)].
  - rewrite (cp_space K t HK Hne), andb_false_r. change (32 =? 32) with true. cbn iota. apply IH; auto.
  - rewrite E32. destruct intok.
    + rewrite Hp. cbn [negb andb]. apply IH; auto.
    + rewrite Hp. cbn [negb andb]. destruct (case_prefix K (c :: t)); [reflexivity|]. cbn [app]. apply IH; auto.
Qed.

Lemma hits_skip K : forall j s, (j <= length s)%nat -> forallb not_sp (firstn j s) = true ->
  mod_hits K (skipn j s) true = mod_hits K s true.
Proof.
  induction j as [|j IH]; intros s L H; [reflexivity|].
  destruct s as [|c s]; [cbn in L; lia|]. cbn [firstn forallb] in H. apply andb_true_iff in H as [H1 H2].
  cbn [skipn mod_hits]. unfold not_sp in H1. destruct (c =? 32); [discriminate|]. apply IH; [cbn in L; lia|exact H2].
Qed.

Lemma forallb_skipn {A} (f : A -> bool) n l : forallb f l = true -> forallb f (skipn n l) = true.
Proof.
  revert l; induction n as [|n IH]; intros l H; [exact H|]. destruct l as [|x l]; [reflexivity|].
  cbn in *. apply andb_true_iff in H as [_ H]. auto.
Qed.

(** a second term with the same keyword is what the second call of find_modifier() finds *)
Lemma hits_second K : nosp K = true -> K <> [] -> forall s intok, forallb rec_char s = true ->
  match mod_hits K s intok with
  | [] => True
  | nx :: H' => find_modifier K nx 61 = hd_error H'
  end.
Proof.
  intros HK Hne. induction s as [|c t IH]; intros intok Hs; [exact I|].
  pose proof Hs as Hs0. cbn [forallb] in Hs. apply andb_true_iff in Hs as [Hc Hs]. cbn [mod_hits].
  destruct (rec_char_cases c Hc) as [->|(E32 & W & _)]; [change (32 =? 32) with true; cbn iota; apply IH; auto|].
  rewrite E32. destruct intok; [apply IH; auto|].
  destruct (case_prefix K (c :: t)) eqn:E; [|cbn [app]; apply IH; auto].
  cbn [app].
  destruct (cp_nosp K HK _ E) as [A B].
  destruct K as [|k K']; [congruence|]. cbn [length skipn firstn forallb] in *. apply andb_true_iff in A as [_ A].
  rewrite (fm_hits (k :: K') HK Hne (skipn (length K') t) 61 true); [|apply forallb_skipn, Hs|reflexivity].
  rewrite hits_skip; [reflexivity|lia|exact A].
Qed.

(* ------------------------------------------------------------------ against the parsed terms *)
Lemma name_char_lower_not_eq c : name_char c = true -> (to_lower c =? 61) = false.
Proof. unfold name_char, to_lower, is_alpha, is_upper, is_lower, is_digit. intros H. destruct ((65 <=? c) && (c <=? 90)) eqn:E; lia. Qed.

Lemma prefix_eq_name A : forallb (fun a => negb (a =? 61)) A = true -> forall ln lv,
  forallb (fun c => negb (c =? 61)) ln = true ->
  is_prefix (A ++ [61]) (ln ++ 61 :: lv) = bytes_eqb ln A.
Proof.
  induction A as [|a A IH]; intros HA ln lv Hl.
  - destruct ln as [|c ln]; [reflexivity|]. cbn in Hl. apply andb_true_iff in Hl as [Hc _].
    cbn [app is_prefix bytes_eqb]. destruct (c =? 61) eqn:E; [discriminate|]. rewrite N.eqb_sym, E. reflexivity.
  - cbn in HA. apply andb_true_iff in HA as [Ha HA].
    destruct ln as [|c ln].
    + cbn. destruct (a =? 61); [discriminate|reflexivity].
    + cbn in Hl. apply andb_true_iff in Hl as [Hc Hl]. cbn [app is_prefix bytes_eqb]. rewrite IH; auto.
      rewrite (N.eqb_sym a c). reflexivity.
Qed.

Lemma modifier_kw (A : bytes) n v : lowerb A = A -> forallb (fun a => negb (a =? 61)) A = true ->
  forallb name_char n = true -> case_prefix (A ++ [61]) (n ++ 61 :: v) = bytes_eqb (lowerb n) A.
Proof.
  intros HA HA' Hn. rewrite case_prefix_lower, !lowerb_app, HA. cbn [lowerb map].
  change (to_lower 61) with 61. apply prefix_eq_name; auto.
  unfold lowerb. rewrite forallb_forall. intros x Hx. apply in_map_iff in Hx as (c & <- & Hc).
  rewrite forallb_forall in Hn. rewrite (name_char_lower_not_eq c (Hn c Hc)). reflexivity.
Qed.

(** the parts of a term that is a modifier *)
Lemma parse_modifier_parts tok x : parse_modifier tok = Some x ->
  exists n v, tok = n ++ 61 :: v /\ forallb name_char n = true /\
    ((bytes_eqb (lowerb n) N_REDIRECT = true /\ x = TRedirect v /\ domain_spec v = true)
     \/ (bytes_eqb (lowerb n) N_REDIRECT = false /\ bytes_eqb (lowerb n) N_EXP = true /\ x = TExp v /\ domain_spec v = true)
     \/ (bytes_eqb (lowerb n) N_REDIRECT = false /\ bytes_eqb (lowerb n) N_EXP = false /\ x = TUnknown)).
Proof.
  unfold parse_modifier. intros H.
  set (n := take_while not_eq_sign tok) in *. set (r := drop_while not_eq_sign tok) in *.
  assert (Et : tok = n ++ r) by (symmetry; apply take_drop).
  assert (Hsr : stops not_eq_sign r = true) by apply drop_while_stops.
  clearbody n r. destruct r as [|c v]; [discriminate|].
  assert (c = 61) by (cbn in Hsr; unfold not_eq_sign in Hsr; lia). subst c.
  destruct (is_alpha (hd0 n) && forallb name_char n) eqn:C; cbn [negb] in H; [|discriminate].
  apply andb_true_iff in C as [_ Cn]. exists n, v. split; [exact Et|]. split; [exact Cn|].
  unfold str_eq in H. change (lower n) with (lowerb n) in H.
  destruct (bytes_eqb (lowerb n) N_REDIRECT) eqn:E1.
  - destruct (domain_spec v) eqn:Dv; [|discriminate]. injection H as <-. left. auto.
  - destruct (bytes_eqb (lowerb n) N_EXP) eqn:E2.
    + destruct (domain_spec v) eqn:Dv; [|discriminate]. injection H as <-. right. left. auto.
    + destruct (forallb mod_value_char v); [|discriminate]. injection H as <-. right. right. auto.
Qed.

Lemma mod_term tok x : parse_term tok = Some x ->
  case_prefix MOD_REDIRECT tok = is_redirect x /\ case_prefix MOD_EXP tok = is_exp x
  /\ (is_redirect x = true -> exists d, x = TRedirect d /\ domain_spec d = true /\ (9 <= length tok)%nat /\ skipn 9 tok = d).
Proof.
  unfold parse_term. destruct (parse_qual (hd0 tok)) as [q|] eqn:Eq.
  - destruct (parse_mech (tl tok)); [|discriminate]. intros H. injection H as <-.
    cbn [is_redirect is_exp]. split; [|split; [|discriminate]].
    + destruct tok as [|c t]; [reflexivity|]. cbn [hd0] in Eq. unfold parse_qual in Eq.
      unfold MOD_REDIRECT. cbn [case_prefix].
      destruct (c =? 43) eqn:E1; [apply N.eqb_eq in E1; subst; reflexivity|].
      destruct (c =? 45) eqn:E2; [apply N.eqb_eq in E2; subst; reflexivity|].
      destruct (c =? 126) eqn:E3; [apply N.eqb_eq in E3; subst; reflexivity|].
      destruct (c =? 63) eqn:E4; [apply N.eqb_eq in E4; subst; reflexivity|discriminate].
    + destruct tok as [|c t]; [reflexivity|]. cbn [hd0] in Eq. unfold parse_qual in Eq.
      unfold MOD_EXP. cbn [case_prefix].
      destruct (c =? 43) eqn:E1; [apply N.eqb_eq in E1; subst; reflexivity|].
      destruct (c =? 45) eqn:E2; [apply N.eqb_eq in E2; subst; reflexivity|].
      destruct (c =? 126) eqn:E3; [apply N.eqb_eq in E3; subst; reflexivity|].
      destruct (c =? 63) eqn:E4; [apply N.eqb_eq in E4; subst; reflexivity|discriminate].
  - destruct (parse_mech tok) as [m|] eqn:Em.
    + intros H. injection H as <-. destruct (parse_mech_not_mod _ _ Em) as [A B].
      rewrite A, B. cbn. split; [reflexivity|split; [reflexivity|discriminate]].
    + intros H. destruct (parse_modifier_parts tok x H) as (n & v & -> & Hn & Cases).
      change MOD_REDIRECT with (N_REDIRECT ++ [61]). change MOD_EXP with (N_EXP ++ [61]).
      rewrite !modifier_kw; auto.
      destruct Cases as [(E1 & -> & Dv)|[(E1 & E2 & -> & Dv)|(E1 & E2 & ->)]].
      * rewrite E1. apply bytes_eqb_eq in E1. rewrite E1. cbn [is_redirect is_exp]. split; [reflexivity|]. split; [reflexivity|].
        intros _. exists v. split; [reflexivity|]. split; [exact Dv|].
        assert (L : length n = 8%nat) by (rewrite <- (lowerb_length n), E1; reflexivity).
        split; [rewrite app_length; cbn; lia|].
        change (n ++ 61 :: v) with (n ++ [61] ++ v). rewrite app_assoc.
        replace 9%nat with (length (n ++ [61])) by (rewrite app_length; cbn; lia). apply skipn_app_exact.
      * rewrite E1, E2. cbn. split; [reflexivity|split; [reflexivity|discriminate]].
      * rewrite E1, E2. cbn. split; [reflexivity|split; [reflexivity|discriminate]].
Qed.

(** the hits of a keyword are the terms it stands for *)
Lemma hits_count (K : bytes) (isk : term -> bool) : nosp K = true ->
  (forall tok x, parse_term tok = Some x -> case_prefix K tok = isk x) ->
  forall s intok ts, forallb rec_char s = true -> parse_terms (tokens s intok) = Some ts ->
  length (mod_hits K s intok) = length (filter isk ts).
Proof.
  intros HK Hk. induction s as [|c t IH]; intros intok ts Hs Hp.
  - cbn in Hp. injection Hp as <-. reflexivity.
  - cbn [forallb] in Hs. apply andb_true_iff in Hs as [Hc Hs]. cbn [mod_hits]. cbn [tokens] in Hp.
    destruct (rec_char_cases c Hc) as [->|(E32 & W & Nsp)]; [change (32 =? 32) with true in *; cbn iota in *; eapply IH; eauto|].
    rewrite E32 in *. destruct intok; [eapply IH; eauto|].
    set (tok := take_while not_sp (c :: t)) in *. set (rest := drop_while not_sp (c :: t)).
    assert (Es : c :: t = tok ++ rest) by (symmetry; apply take_drop).
    assert (Hr : sp_tail rest = true).
    { pose proof (drop_while_stops not_sp (c :: t)) as Q. fold rest in Q. destruct rest as [|e r]; [reflexivity|].
      cbn in Q |- *. unfold not_sp in Q. lia. }
    cbn [parse_terms] in Hp.
    destruct (parse_term tok) as [x|] eqn:Ex; [|discriminate].
    destruct (parse_terms (tokens t true)) as [xs|] eqn:Exs; [|discriminate]. injection Hp as <-.
    rewrite Es, (cp_tok K HK tok rest Hr), (Hk tok x Ex). cbn [filter].
    pose proof (IH true xs Hs Exs) as IH'. destruct (isk x); cbn [app length]; rewrite IH'; reflexivity.
Qed.

Lemma hits_first : forall s intok ts, forallb rec_char s = true -> parse_terms (tokens s intok) = Some ts ->
  match mod_hits MOD_REDIRECT s intok with
  | [] => first_redirect ts = None
  | nx :: _ => exists d rest, first_redirect ts = Some d /\ nx = d ++ rest /\ sp_tail rest = true /\ domain_spec d = true
  end.
Proof.
  induction s as [|c t IH]; intros intok ts Hs Hp.
  - cbn in Hp. injection Hp as <-. reflexivity.
  - cbn [forallb] in Hs. apply andb_true_iff in Hs as [Hc Hs]. cbn [mod_hits]. cbn [tokens] in Hp.
    destruct (rec_char_cases c Hc) as [->|(E32 & W & Nsp)]; [change (32 =? 32) with true in *; cbn iota in *; eapply IH; eauto|].
    rewrite E32 in *. destruct intok; [eapply IH; eauto|].
    set (tok := take_while not_sp (c :: t)) in *. set (rest := drop_while not_sp (c :: t)).
    assert (Es : c :: t = tok ++ rest) by (symmetry; apply take_drop).
    assert (Hr : sp_tail rest = true).
    { pose proof (drop_while_stops not_sp (c :: t)) as Q. fold rest in Q. destruct rest as [|e r]; [reflexivity|].
      cbn in Q |- *. unfold not_sp in Q. lia. }
    cbn [parse_terms] in Hp.
    destruct (parse_term tok) as [x|] eqn:Ex; [|discriminate].
    destruct (parse_terms (tokens t true)) as [xs|] eqn:Exs; [|discriminate]. injection Hp as <-.
    destruct (mod_term tok x Ex) as (A & _ & B).
    rewrite Es, (cp_tok MOD_REDIRECT eq_refl tok rest Hr), A.
    destruct (is_redirect x) eqn:Ir.
    + destruct (B eq_refl) as (d & -> & Dd & L & Sk). cbn [app first_redirect].
      exists d, rest. split; [reflexivity|]. split; [|split; assumption].
      change (length MOD_REDIRECT) with 9%nat. rewrite skipn_app. rewrite Sk.
      replace (9 - length tok)%nat with 0%nat by lia. reflexivity.
    + cbn [app]. specialize (IH true xs Hs Exs).
      destruct x; cbn [first_redirect]; try exact IH. discriminate.
Qed.

(** qremote/qrdata.c, literal model: send_qp (the multipart walk, recursive over the parts) and
    send_data on the recoding path return for every message and either extension setting — no [Crash]
    (no read outside the message mapping, no store outside a staging buffer, none of the "cannot
    happen" guards), no [OutOfFuel] with the fuel the model gives itself: length of the window + 1 for
    the recursion, and the same for the loop over the parts. *)
From Qv Require Import Common.Bytes Gen.GenQrdata Model.Mime Model.QrData Proofs.QrMemLemmas
  Proofs.QrPlainProofs Proofs.QrNeedRecodeProofs Proofs.QrQpProofs Proofs.MimeTotalProofs Proofs.QrHeaderTotalProofs.
Require Import Lia.

Lemma recode_qp_total m b len st : b + len <= length m -> exists st', recode_qp m b len st = Ok st'.
Proof. intros H. destruct (recode_qp_ok m b len H st) as (vs & st' & E & _). eauto. Qed.

Lemma tpad_blanks_total m b len : b + len <= length m -> forall fuel off, off <= len -> len - off < fuel ->
  exists o, tpad_blanks fuel m b len off = Ok o /\ off <= o <= len.
Proof.
  intros Hw. induction fuel as [|fuel IH]; intros off Ho Hf; [lia|]. cbn [tpad_blanks].
  destruct (Nat.ltb_spec off len).
  - rewrite rd_at by lia. cbn [bind]. destruct (is_blank (at_ m (b + off))).
    + destruct (IH (S off)) as (o & E & H1); [lia|lia|]. exists o. split; [exact E|lia].
    + exists off. split; [reflexivity|lia].
  - exists off. split; [reflexivity|lia].
Qed.

Lemma skip_tpad_total m b len : b + len <= length m -> exists t, skip_tpad m b len = Ok t /\ t <= len.
Proof.
  intros Hw. unfold skip_tpad.
  destruct (tpad_blanks_total m b len Hw (S len) 0) as (o & E & Ho); [lia|lia|]. rewrite E. cbn [bind].
  assert (H1 : exists o1, (if Nat.ltb o len then do c <- rd m (b + o); Ok (if N.eqb c CR then S o else o) else Ok o) = Ok o1 /\ o1 <= len).
  { destruct (Nat.ltb_spec o len); [rewrite rd_at by lia; cbn [bind]; destruct (N.eqb _ CR)|]; eexists; split; try reflexivity; lia. }
  destruct H1 as (o1 & E1 & Ho1). rewrite E1. cbn [bind].
  assert (H2 : exists o2, (if Nat.ltb o1 len then do c <- rd m (b + o1); Ok (if N.eqb c LF then S o1 else o1) else Ok o1) = Ok o2 /\ o2 <= len).
  { destruct (Nat.ltb_spec o1 len); [rewrite rd_at by lia; cbn [bind]; destruct (N.eqb _ LF)|]; eexists; split; try reflexivity; lia. }
  destruct H2 as (o2 & E2 & Ho2). rewrite E2. cbn [bind]. eauto.
Qed.

(** the loop over the parts of send_qp with the recursive call abstracted *)
Definition parts_fix (rec : nat -> nat -> St -> Cres (Run unit)) (m : bytes) (ext8 : bool) (b len : nat) (bnd : bytes) (bl : nat) :=
  fix parts (fuel2 : nat) (off : nat) (islast : bool) (st : St) {struct fuel2} : Cres (Run unit) :=
    match fuel2 with
    | O => OutOfFuel
    | S f2 =>
        do nextoff <- (if Nat.ltb off len && negb islast then find_boundary m (b + off) (len - off) bnd else Ok 0);
        if negb (Nat.eqb nextoff 0) then
          if Nat.ltb nextoff (bl + 2) then Crash 42%N else
          let partlen := nextoff - bl - 2 in
          do nr <- need_recode m (b + off) partlen;
          bindR (if nr_match ext8 nr then rec (b + off) partlen st
                 else liftS (send_plain m (b + off) partlen st)) (fun _ st =>
          let st := wr (wr st S_DD) bnd in
          let off := off + nextoff in
          do e <- (if Nat.ltb off len then do c <- rd m (b + off); Ok (N.eqb c DASH) else Ok false);
          let '(st, islast, off) := if e then (wr st S_DD, true, off + 2) else (st, islast, off) in
          if Nat.ltb len off then Crash 43%N else
          do t <- skip_tpad m (b + off) (len - off);
          let off := off + t in
          if Nat.eqb off len && negb islast then Ok (Done tt (set_lastlf (wr st S_DD_CRLF) true))
          else
            let st := wr st CRLF in
            if Nat.eqb off len then Ok (Done tt st) else parts f2 off islast st)
        else
          if negb islast then
            if Nat.ltb len off then Crash 44%N else
            bindR (rec (b + off) (len - off) st) (fun _ st =>
            Ok (Done tt (wr (wr (wr st S_CRLF_DD) bnd) S_DD_CRLF)))
          else
            if Nat.ltb len off then Crash 45%N else
            do epi <- need_recode m (b + off) (len - off);
            if flags_any epi then Ok (Done tt (set_lastlf (wr st EPILOGUE_TXT) true))
            else liftS (send_plain m (b + off) (len - off) st)
    end.

Lemma send_qp_S fu m helo ext8 b len st :
  send_qp (S fu) m helo ext8 b len st =
      do recodeflag <- need_recode m b len;
      if Nat.eqb len 0 then Ok (Done tt st) else
      let body_recode := f8 recodeflag || fline recodeflag in
      bindR (qp_header m helo b len body_recode st) (fun hm st =>
      let '(off, mp) := hm in
      if Nat.ltb len off then Crash 40%N else
      match mp with
      | MpYes bs bl =>
          do bnd <- rdn m bs bl;
          do nextoff <- find_boundary m (b + off) (len - off) bnd;
          if Nat.eqb nextoff 0 then
            let st := wr (wr (wr st S_CRLF_DD) bnd) CRLF in
            let st := wr (recodeheader helo st) CRLF in
            do st <- recode_qp m (b + off) (len - off) st;
            let st := wr (wr (wr st S_CRLF_DD) bnd) S_DD_CRLF in
            Ok (Done tt (set_lastlf st true))
          else
            do pre <- need_recode m (b + off) nextoff;
            do st <- (if flags_any pre then Ok (wr (wr st PREAMBLE_TXT) bnd)
                      else send_plain m (b + off) nextoff st);
            let off := off + nextoff in
            do e1 <- (if Nat.ltb off len then do c <- rd m (b + off); Ok (N.eqb c DASH) else Ok false);
            let '(st, islast, off) :=
              if e1 then (wr (wr (wr st S_CRLFCRLF_DD) bnd) S_DD, true, off + 2) else (st, false, off) in
            if Nat.ltb len off then Crash 41%N else
            do t <- skip_tpad m (b + off) (len - off);
            let off := off + t in
            let st := wr st CRLF in
            parts_fix (send_qp fu m helo ext8) m ext8 b len bnd bl (S len) off islast st
      | _ =>
          if body_recode then liftS (recode_qp m (b + off) (len - off) st)
          else liftS (send_plain m (b + off) (len - off) st)
      end).
Proof. reflexivity. Qed.

Lemma liftS_total (x : Cres St) : (exists st', x = Ok st') -> exists r, liftS x = Ok r.
Proof. intros (st' & ->). cbn. eauto. Qed.

Lemma dash_step m b len (off : nat) (nextoff : nat) bnd : b + len <= length m -> off <= len ->
  fb_good m (b + off) (len - off) bnd nextoff -> nextoff <> 0 ->
  exists e, (if Nat.ltb (off + nextoff) len then do c <- rd m (b + (off + nextoff)); Ok (N.eqb c DASH) else Ok false) = Ok e /\
            off + nextoff <= len /\ (e = true -> off + nextoff + 2 <= len).
Proof.
  intros Hw Ho [Hz|(Hr & Hd)] Hn; [contradiction|].
  destruct (Nat.ltb_spec (off + nextoff) len) as [Hlt|Hge].
  - rewrite rd_at by lia. cbn [bind]. eexists. split; [reflexivity|]. split; [lia|].
    intros E. apply N.eqb_eq in E. specialize (Hd ltac:(lia)).
    replace (b + off + nextoff) with (b + (off + nextoff)) in Hd by lia. specialize (Hd E). lia.
  - exists false. split; [reflexivity|]. split; [lia|discriminate].
Qed.

Lemma parts_fix_total rec m ext8 b len bnd bl : b + len <= length m -> bl = length bnd ->
  (forall b' len' st', b' + len' <= b + len -> len' < len -> exists r, rec b' len' st' = Ok r) ->
  forall fuel2 off islast st, 1 <= off <= len -> len - off < fuel2 ->
  exists r, parts_fix rec m ext8 b len bnd bl fuel2 off islast st = Ok r.
Proof.
  intros Hw Hbl Hrec. induction fuel2 as [|f2 IH]; intros off islast st Ho Hf; [lia|].
  cbn [parts_fix].
  assert (Hfb : exists nextoff, (if Nat.ltb off len && negb islast then find_boundary m (b + off) (len - off) bnd else Ok 0) = Ok nextoff /\
                  fb_good m (b + off) (len - off) bnd nextoff).
  { destruct (Nat.ltb off len && negb islast).
    - apply find_boundary_ok. lia.
    - exists 0. split; [reflexivity|left; reflexivity]. }
  destruct Hfb as (nextoff & Efb & Hfbg). rewrite Efb. cbn [bind].
  destruct (Nat.eqb_spec nextoff 0) as [Hz|Hnz]; cbn [negb].
  - (* behind the loop *)
    destruct (negb islast).
    + destruct (Nat.ltb_spec len off) as [|_]; [lia|].
      destruct (Hrec (b + off) (len - off) st) as (r & Er); [lia|lia|]. rewrite Er.
      destruct r as [u st1|w st1]; cbn [bindR]; eauto.
    + destruct (Nat.ltb_spec len off) as [|_]; [lia|].
      destruct (need_recode_total m (b + off) (len - off)) as (epi & Eepi); [lia|]. rewrite Eepi. cbn [bind].
      destruct (flags_any epi); [eauto|]. apply liftS_total. apply send_plain_total. lia.
  - destruct Hfbg as [|(Hr & Hd)]; [contradiction|]. rewrite <- Hbl in Hr.
    destruct (Nat.ltb_spec nextoff (bl + 2)) as [|_]; [lia|]. cbv zeta.
    destruct (need_recode_total m (b + off) (nextoff - bl - 2)) as (nr & Enr); [lia|]. rewrite Enr. cbn [bind].
    assert (Hpart : exists r, (if nr_match ext8 nr then rec (b + off) (nextoff - bl - 2) st
                               else liftS (send_plain m (b + off) (nextoff - bl - 2) st)) = Ok r).
    { destruct (nr_match ext8 nr).
      - apply Hrec; lia.
      - apply liftS_total. apply send_plain_total. lia. }
    destruct Hpart as (r & Er). rewrite Er.
    destruct r as [u st1|w st1]; cbn [bindR]; [|eauto].
    destruct (dash_step m b len off nextoff bnd Hw ltac:(lia)) as (e & Ee & Hin & He); [right; rewrite <- Hbl; auto|exact Hnz|].
    rewrite Ee. cbn [bind].
    set (st2 := wr (wr st1 S_DD) bnd).
    assert (Hrest : forall st3 il off3, off + nextoff <= off3 <= len ->
      exists r,
        (if Nat.ltb len off3 then Crash 43%N else
         do t <- skip_tpad m (b + off3) (len - off3);
         let off4 := off3 + t in
         if Nat.eqb off4 len && negb il then Ok (Done tt (set_lastlf (wr st3 S_DD_CRLF) true))
         else
           let st4 := wr st3 CRLF in
           if Nat.eqb off4 len then Ok (Done tt st4) else
           parts_fix rec m ext8 b len bnd bl f2 off4 il st4) = Ok r).
    { intros st3 il off3 Ho3. destruct (Nat.ltb_spec len off3) as [|_]; [lia|].
      destruct (skip_tpad_total m (b + off3) (len - off3)) as (t & Et & Ht); [lia|]. rewrite Et. cbn [bind]. cbv zeta.
      destruct (Nat.eqb (off3 + t) len && negb il); [eauto|].
      destruct (Nat.eqb_spec (off3 + t) len); [eauto|]. apply IH; lia. }
    destruct e.
    + specialize (He eq_refl). apply Hrest. lia.
    + apply Hrest. lia.
Qed.

Theorem send_qp_total m helo ext8 : forall fuel b len st, b + len <= length m -> len < fuel ->
  exists r, send_qp fuel m helo ext8 b len st = Ok r.
Proof.
  induction fuel as [|fu IH]; intros b len st Hw Hf; [lia|].
  rewrite send_qp_S.
  destruct (need_recode_total m b len Hw) as (rf & Erf). rewrite Erf. cbn [bind].
  destruct (Nat.eqb_spec len 0) as [|Hl]; [eauto|]. cbv zeta.
  destruct (qp_header_total m helo b len (f8 rf || fline rf) st Hw ltac:(lia)) as (rh & Erh & Hgood). rewrite Erh.
  destruct rh as [[off mp] st1|w st1]; cbn [bindR]; [|eauto].
  destruct (Hgood off mp st1 eq_refl) as (Hoff & Hbnd).
  destruct (Nat.ltb_spec len off) as [|_]; [lia|].
  assert (Hbody : exists r, (if f8 rf || fline rf then liftS (recode_qp m (b + off) (len - off) st1)
                             else liftS (send_plain m (b + off) (len - off) st1)) = Ok r).
  { destruct (f8 rf || fline rf); apply liftS_total; [apply recode_qp_total|apply send_plain_total]; lia. }
  destruct mp as [bs bl| | |w]; try exact Hbody.
  destruct (Hbnd bs bl eq_refl) as (Hbl & Hbin).
  rewrite rdn_ok by exact Hbin. cbn [bind]. set (bnd := sub m bs bl).
  assert (Hblen : bl = length bnd) by (unfold bnd; rewrite sub_length by lia; reflexivity).
  destruct (find_boundary_ok m (b + off) (len - off) bnd) as (nextoff & Efb & Hfb); [lia|]. rewrite Efb. cbn [bind].
  destruct (Nat.eqb_spec nextoff 0) as [Hz|Hnz].
  - cbv zeta.
    match goal with |- context [recode_qp m (b + off) (len - off) ?s] =>
      destruct (recode_qp_total m (b + off) (len - off) s) as (st2 & E2); [lia|]; rewrite E2 end.
    cbn [bind]. eauto.
  - destruct Hfb as [|(Hr & Hd)]; [contradiction|].
    destruct (need_recode_total m (b + off) nextoff) as (pre & Epre); [lia|]. rewrite Epre. cbn [bind].
    assert (Hpre : exists st2, (if flags_any pre then Ok (wr (wr st1 PREAMBLE_TXT) bnd) else send_plain m (b + off) nextoff st1) = Ok st2).
    { destruct (flags_any pre); [eauto|]. apply send_plain_total. lia. }
    destruct Hpre as (st2 & E2). rewrite E2. cbn [bind]. cbv zeta.
    destruct (dash_step m b len off nextoff bnd Hw ltac:(lia)) as (e & Ee & Hin & He); [right; auto|exact Hnz|].
    rewrite Ee. cbn [bind].
    assert (Hrest : forall st3 il off3, off + nextoff <= off3 <= len ->
      exists r,
        (if Nat.ltb len off3 then Crash 41%N else
         do t <- skip_tpad m (b + off3) (len - off3);
         parts_fix (send_qp fu m helo ext8) m ext8 b len bnd bl (S len) (off3 + t) il (wr st3 CRLF)) = Ok r).
    { intros st3 il off3 Ho3. destruct (Nat.ltb_spec len off3) as [|_]; [lia|].
      destruct (skip_tpad_total m (b + off3) (len - off3)) as (t & Et & Ht); [lia|]. rewrite Et. cbn [bind].
      apply (parts_fix_total (send_qp fu m helo ext8) m ext8 b len bnd bl Hw Hblen); [|lia|lia].
      intros b' len' st' H1 H2. apply IH; lia. }
    destruct e.
    + specialize (He eq_refl). apply Hrest. lia.
    + apply Hrest. lia.
Qed.

(** send_data, whichever way it goes: for every message, every HELO name and either 8BITMIME setting the
    model returns — Qremote finishes (transfer completed or given up through net_conn_shutdown), having
    read nothing outside the message and written nothing outside its staging buffers *)
Theorem send_data_total (m helo : bytes) (ext8 : bool) :
  exists fl q r, send_data m helo ext8 = Ok (fl, q, r).
Proof.
  unfold send_data.
  destruct (need_recode_total m 0 (length m)) as (fl & Efl); [lia|]. rewrite Efl. cbn [bind]. cbv zeta.
  assert (H : exists r, (if takes_qp ext8 fl then send_qp (S (length m)) m helo ext8 0 (length m) (mkSt [] true)
                         else liftS (send_plain m 0 (length m) (mkSt [] true))) = Ok r).
  { destruct (takes_qp ext8 fl).
    - apply send_qp_total; lia.
    - apply liftS_total. apply send_plain_total. lia. }
  destruct H as (r & Er). rewrite Er. cbn [bind]. destruct r; eauto.
Qed.

(** One buffer of chunk data in smtp_bdat: the memchr-driven CRLF loop never reads outside
    the filled part of inbuf and writes exactly the buffer with CRLF -> LF. *)
From Qv Require Import Common.Bytes Gen.GenBdatRx Model.BdatRx Spec.BdatRxSpec Proofs.BdatTxProofs.
Require Import Lia.

(** * CRLF -> LF with the CR/LF state carried across pieces *)
(** [conv pcr m]: [pcr] = a CR is held back; a held-back CR is dropped before LF, emitted
    before anything else; a trailing CR of [m] is held back (not emitted) *)
Fixpoint conv (pcr : bool) (m : bytes) : bytes :=
  match m with
  | [] => []
  | b :: t =>
      if N.eqb b CR then (if pcr then CR :: conv true t else conv true t)
      else if N.eqb b LF then LF :: conv false t
      else if pcr then CR :: b :: conv false t else b :: conv false t
  end.
Definition pend (b : bool) : bytes := if b then [CR] else [].

Lemma conv_app : forall a p b, conv p (a ++ b) = conv p a ++ conv (endcr p a) b.
Proof.
  induction a as [|x a IH]; intros p b; [reflexivity|].
  cbn [app conv endcr]. destruct (N.eqb_spec x CR) as [->|Hx].
  - destruct p; cbn [app]; rewrite IH; reflexivity.
  - destruct (N.eqb x LF); [cbn [app]; now rewrite IH|].
    destruct p; cbn [app]; rewrite IH; reflexivity.
Qed.

Lemma crlf2lf_cons_ncr b t : b <> CR -> crlf2lf (b :: t) = b :: crlf2lf t.
Proof.
  intros H. destruct t as [|c t]; [reflexivity|]. cbn [crlf2lf].
  replace (N.eqb b CR) with false by (symmetry; now apply N.eqb_neq). reflexivity.
Qed.

Definition starts_lf (m : bytes) : bool := match m with x :: _ => N.eqb x LF | [] => false end.

Lemma crlf2lf_cr t : crlf2lf (CR :: t) = if starts_lf t then LF :: crlf2lf (tl t) else CR :: crlf2lf t.
Proof. destruct t as [|c t]; [reflexivity|]. cbn [crlf2lf starts_lf tl]. change (N.eqb CR CR) with true. reflexivity. Qed.

(** the specification function in terms of the stateful one *)
Lemma conv_crlf2lf : forall m p,
  conv p m ++ pend (endcr p m) = (if p && negb (starts_lf m) then [CR] else []) ++ crlf2lf m.
Proof.
  induction m as [|b t IH]; intros p.
  - cbn. destruct p; reflexivity.
  - cbn [conv endcr starts_lf]. destruct (N.eqb_spec b CR) as [->|Hb].
    + change (N.eqb CR LF) with false. cbn [negb]. rewrite andb_true_r.
      assert (E : conv true t ++ pend (endcr true t) = crlf2lf (CR :: t)).
      { rewrite IH, crlf2lf_cr. cbn [andb]. destruct t as [|c t']; [reflexivity|].
        cbn [starts_lf tl]. destruct (N.eqb_spec c LF) as [->|Hc]; cbn [negb app].
        - rewrite crlf2lf_cons_ncr by discriminate. reflexivity.
        - reflexivity. }
      destruct p; cbn [app]; rewrite E; reflexivity.
    + destruct (N.eqb_spec b LF) as [->|Hl].
      * cbn [negb]. rewrite andb_false_r. cbn [app]. rewrite IH. cbn [andb app].
        rewrite crlf2lf_cons_ncr by discriminate. reflexivity.
      * cbn [negb]. rewrite andb_true_r. rewrite crlf2lf_cons_ncr by exact Hb.
        destruct p; cbn [app]; rewrite IH; reflexivity.
Qed.

Lemma crlf2lf_is_conv m : crlf2lf m = conv false m ++ pend (endcr false m).
Proof. rewrite conv_crlf2lf. reflexivity. Qed.

(** * index lemmas *)
Lemma nth_sub (buf : bytes) pos n j : j < n -> pos + n <= length buf ->
  nth j (sub buf pos n) 0%N = nth (pos + j) buf 0%N.
Proof.
  intros Hj Hn. unfold sub. revert buf Hn. induction pos as [|pos IH]; intros buf Hn.
  - cbn [skipn Nat.add]. revert buf n Hj Hn. induction j as [|j IHj]; intros buf n Hj Hn.
    + destruct n; [lia|]. destruct buf; [cbn in Hn; lia|reflexivity].
    + destruct n; [lia|]. destruct buf as [|x buf]; [cbn in Hn; lia|]. cbn [firstn nth].
      apply IHj; [lia|cbn in Hn; lia].
  - destruct buf as [|x buf]; [cbn in Hn; lia|]. cbn [skipn Nat.add nth]. apply IH. cbn in Hn. lia.
Qed.

Lemma length_set_nth (buf : bytes) k v : k < length buf -> length (set_nth buf k v) = length buf.
Proof.
  intros H. unfold set_nth. rewrite !app_length, firstn_length, skipn_length. cbn [length]. lia.
Qed.

Lemma nth_set_nth (buf : bytes) k v j : k < length buf ->
  nth j (set_nth buf k v) 0%N = if Nat.eqb j k then v else nth j buf 0%N.
Proof.
  intros H. unfold set_nth. destruct (Nat.eqb_spec j k) as [->|Hjk].
  - rewrite app_nth2 by (rewrite firstn_length; lia). rewrite firstn_length.
    replace (k - Nat.min k (length buf)) with 0 by lia. reflexivity.
  - destruct (Nat.lt_ge_cases j k) as [Hlt|Hge].
    + rewrite app_nth1 by (rewrite firstn_length; lia).
      rewrite <- (firstn_skipn k buf) at 2. rewrite app_nth1 by (rewrite firstn_length; lia). reflexivity.
    + rewrite app_nth2 by (rewrite firstn_length; lia). rewrite firstn_length.
      replace (j - Nat.min k (length buf)) with (S (j - S k)) by lia. cbn [app nth].
      rewrite <- (firstn_skipn (S k) buf) at 2. rewrite app_nth2 by (rewrite firstn_length; lia).
      rewrite firstn_length. f_equal. lia.
Qed.

(** no CR LF pair starts in [lo, hi) *)
Definition NPr (buf : bytes) (lo hi : nat) : Prop :=
  forall j, lo <= j < hi -> nth j buf 0%N = CR -> nth (S j) buf 0%N <> LF.
Definition NP (l : bytes) : Prop :=
  forall j, S j < length l -> nth j l 0%N = CR -> nth (S j) l 0%N <> LF.

Lemma NP_tail b t : NP (b :: t) -> NP t.
Proof. intros H j Hj. apply (H (S j)). cbn. lia. Qed.

Lemma crlf2lf_nopair : forall l, NP l -> crlf2lf l = l.
Proof.
  induction l as [|b t IH]; intros H; [reflexivity|].
  destruct t as [|c t']; [reflexivity|]. cbn [crlf2lf].
  destruct (N.eqb_spec b CR) as [->|Hb].
  - pose proof (H 0 ltac:(cbn; lia) eq_refl) as Hc. cbn in Hc.
    replace (N.eqb c LF) with false by (symmetry; now apply N.eqb_neq). cbn [andb].
    f_equal. apply IH. eapply NP_tail; eauto.
  - cbn [andb]. f_equal. apply IH. eapply NP_tail; eauto.
Qed.

Lemma crlf2lf_pair : forall l1 l2, NP (l1 ++ [CR]) -> crlf2lf (l1 ++ CR :: LF :: l2) = l1 ++ LF :: crlf2lf l2.
Proof.
  induction l1 as [|b t IH]; intros l2 H.
  - cbn [app]. rewrite crlf2lf_cr. reflexivity.
  - cbn [app] in *. specialize (IH l2 (NP_tail _ _ H)).
    destruct (N.eqb_spec b CR) as [->|Hb].
    + rewrite crlf2lf_cr.
      assert (Hs : starts_lf (t ++ CR :: LF :: l2) = false).
      { pose proof (H 0 ltac:(cbn [length]; rewrite app_length; cbn [length]; lia) eq_refl) as Hc.
        destruct t as [|c t']; [reflexivity|]. cbn in Hc |- *. now apply N.eqb_neq. }
      rewrite Hs, IH. reflexivity.
    + rewrite crlf2lf_cons_ncr by exact Hb. rewrite IH. reflexivity.
Qed.

Lemma NP_sub buf lo n : lo + n <= length buf -> NPr buf lo (lo + n) -> NP (sub buf lo n).
Proof.
  intros Hl H j Hj. rewrite sub_length in Hj by exact Hl.
  rewrite !nth_sub by lia. replace (lo + S j) with (S (lo + j)) by lia. apply H. lia.
Qed.

Lemma NP_line buf lo c : c < length buf -> lo <= c -> NPr buf lo c -> NP (sub buf lo (c - lo) ++ [CR]).
Proof.
  intros Hl Hlo H j Hj. rewrite app_length, sub_length in Hj by lia. cbn [length] in Hj.
  assert (Hsl : length (sub buf lo (c - lo)) = c - lo) by (apply sub_length; lia).
  rewrite (app_nth1 _ _ _ (ltac:(lia) : j < length (sub buf lo (c - lo)))).
  rewrite nth_sub by lia. intros Hcr.
  destruct (Nat.eq_dec (S j) (c - lo)) as [E|E].
  - rewrite app_nth2 by lia. rewrite Hsl, E, Nat.sub_diag. cbn. discriminate.
  - rewrite app_nth1 by lia. rewrite nth_sub by lia. replace (lo + S j) with (S (lo + j)) by lia.
    apply H; [lia|exact Hcr].
Qed.

(** * memchr *)
Lemma memchr_scan_some : forall n buf from i, memchr_scan buf from n = Some i ->
  from <= i < from + n /\ nth i buf 0%N = CR /\ (forall j, from <= j < i -> nth j buf 0%N <> CR).
Proof.
  induction n as [|n IH]; intros buf from i H; [discriminate|]. cbn [memchr_scan] in H.
  destruct (N.eqb_spec (nth from buf 0%N) CR) as [E|E].
  - injection H as <-. repeat split; try lia; try exact E.
  - destruct (IH _ _ _ H) as (H1 & H2 & H3). repeat split; try lia; try exact H2.
    intros j Hj. destruct (Nat.eq_dec j from) as [->|]; [exact E|apply H3; lia].
Qed.

Lemma memchr_scan_none : forall n buf from, memchr_scan buf from n = None ->
  forall j, from <= j < from + n -> nth j buf 0%N <> CR.
Proof.
  induction n as [|n IH]; intros buf from H j Hj; [lia|]. cbn [memchr_scan] in H.
  destruct (N.eqb_spec (nth from buf 0%N) CR) as [E|E]; [discriminate|].
  destruct (Nat.eq_dec j from) as [->|]; [exact E|apply (IH _ _ H); lia].
Qed.

(** memchr over [from, from+n) inside the filled part of the buffer, whose last octet is the NUL *)
Lemma memchr_cr_ok buf from n E : length buf = E + 1 -> nth E buf 0%N = 0%N -> from + n <= E + 1 ->
  (exists i, memchr_cr buf from n = Ok (Some i) /\ from <= i < from + n /\ i < E /\ nth i buf 0%N = CR
             /\ (forall j, from <= j < i -> nth j buf 0%N <> CR))
  \/ (memchr_cr buf from n = Ok None /\ forall j, from <= j < from + n -> nth j buf 0%N <> CR).
Proof.
  intros Hl Hnul Hr. unfold memchr_cr. destruct (memchr_scan buf from n) as [i|] eqn:Es.
  - destruct (memchr_scan_some _ _ _ _ Es) as (H1 & H2 & H3). left. exists i.
    assert (i <> E) by (intros ->; rewrite Hnul in H2; discriminate).
    destruct (Nat.ltb_spec i (length buf)); [|lia]. repeat split; try lia; assumption.
  - right. destruct (Nat.ltb_spec (length buf) (from + n)); [lia|]. split; [reflexivity|].
    apply memchr_scan_none. exact Es.
Qed.

Lemma rdb_ok buf k : k < length buf -> rdb buf k = Ok (nth k buf 0%N).
Proof. intros H. unfold rdb. destruct (Nat.ltb_spec k (length buf)); [reflexivity|lia]. Qed.

(** * the bare-CR skip loop *)
Lemma skip_bare_ok buf pos rlen : let E := pos + rlen in
  length buf = E + 1 -> nth E buf 0%N = 0%N ->
  forall fuel cr,
    match cr with
    | Some c => pos <= c < E /\ nth c buf 0%N = CR /\ NPr buf pos c /\ E - c < fuel
    | None => NPr buf pos E
    end ->
    (exists c', skip_bare_cr fuel buf pos rlen cr = Ok (Some c') /\ pos <= c' /\ S c' < E
                /\ nth c' buf 0%N = CR /\ nth (S c') buf 0%N = LF /\ NPr buf pos c')
    \/ (skip_bare_cr fuel buf pos rlen cr = Ok None /\ NPr buf pos E).
Proof.
  intros E Hl Hnul. induction fuel as [|f IH]; intros cr Hpre.
  - destruct cr as [c|]; [lia|]. right. split; [reflexivity|exact Hpre].
  - destruct cr as [c|]; [|right; split; [reflexivity|exact Hpre]].
    destruct Hpre as (Hc & Hcr & Hnp & Hf). cbn [skip_bare_cr].
    rewrite rdb_ok by lia. cbn [bind].
    destruct (N.eqb_spec (nth (S c) buf 0%N) LF) as [Elf|Enlf].
    + left. exists c. split; [reflexivity|].
      assert (S c <> E) by (intros Heq; rewrite Heq, Hnul in Elf; discriminate).
      repeat split; try lia; assumption.
    + destruct (Nat.ltb_spec c pos) as [Hx|_]; [lia|].
      destruct (Nat.ltb_spec rlen (c - pos)) as [Hx|_]; [lia|].
      assert (Hnp' : NPr buf pos (S c)).
      { intros j Hj Hjc. destruct (Nat.eq_dec j c) as [->|]; [exact Enlf|apply Hnp; [lia|exact Hjc]]. }
      destruct (memchr_cr_ok buf (S c) (rlen - (c - pos)) E Hl Hnul ltac:(lia))
        as [(i & Em & Hi & HiE & Hicr & Hino)|(Em & Hno)]; rewrite Em; cbn [bind].
      * apply IH. repeat split; try lia; try assumption.
        intros j Hj Hjc. destruct (Nat.lt_ge_cases j (S c)) as [Hlt|Hge]; [apply Hnp'; [lia|exact Hjc]|].
        exfalso. apply (Hino j); [lia|exact Hjc].
      * apply IH. intros j Hj Hjc. destruct (Nat.lt_ge_cases j (S c)) as [Hlt|Hge]; [apply Hnp'; [lia|exact Hjc]|].
        exfalso. apply (Hno j); [lia|exact Hjc].
Qed.

(** * the CRLF loop of one buffer *)
Lemma sub_pair_split (buf : bytes) pos rlen c : pos <= c -> c + 2 <= pos + rlen -> pos + rlen <= length buf ->
  sub buf pos rlen = sub buf pos (c - pos) ++ nth c buf 0%N :: nth (S c) buf 0%N :: sub buf (c + 2) (pos + rlen - (c + 2)).
Proof.
  intros H1 H2 H3.
  replace rlen with ((c - pos) + (2 + (pos + rlen - (c + 2)))) at 1 by lia.
  rewrite sub_split. replace (pos + (c - pos)) with c by lia. rewrite sub_split.
  f_equal. change 2 with (S 1). rewrite sub_snoc by lia. rewrite sub_1 by lia.
  replace (c + 1) with (S c) by lia. replace (c + S 1) with (c + 2) by lia. reflexivity.
Qed.

Lemma crlf_loop_ok : forall fuel buf pos rlen acc,
  length buf = pos + rlen + 1 -> nth (pos + rlen) buf 0%N = 0%N -> rlen < fuel ->
  exists acc' buf' pos' rlen',
    crlf_loop fuel buf pos rlen (Some pos) acc = Ok (acc', buf', pos', rlen')
    /\ pos' + rlen' + 1 = length buf'
    /\ concat acc' ++ sub buf' pos' rlen' = concat acc ++ crlf2lf (sub buf pos rlen).
Proof.
  induction fuel as [|f IH]; intros buf pos rlen acc Hl Hnul Hf; [lia|].
  cbn [crlf_loop]. destruct (Nat.ltb_spec 0 rlen) as [Hr|Hr].
  2:{ exists acc, buf, pos, rlen. split; [reflexivity|]. split; [lia|].
      assert (rlen = 0) by lia. subst. reflexivity. }
  set (E := pos + rlen) in *.
  assert (Hskip : (exists c', (do cr1 <- memchr_cr buf pos rlen; skip_bare_cr (S rlen) buf pos rlen cr1) = Ok (Some c')
                     /\ pos <= c' /\ S c' < E /\ nth c' buf 0%N = CR /\ nth (S c') buf 0%N = LF /\ NPr buf pos c')
                  \/ ((do cr1 <- memchr_cr buf pos rlen; skip_bare_cr (S rlen) buf pos rlen cr1) = Ok None /\ NPr buf pos E)).
  { destruct (memchr_cr_ok buf pos rlen E Hl Hnul ltac:(lia))
      as [(i & Em & Hi & HiE & Hicr & Hino)|(Em & Hno)]; rewrite Em; cbn [bind].
    - apply (skip_bare_ok buf pos rlen Hl Hnul (S rlen) (Some i)). repeat split; try lia; try assumption.
      intros j Hj Hjc. exfalso. apply (Hino j); [lia|exact Hjc].
    - apply (skip_bare_ok buf pos rlen Hl Hnul (S rlen) None).
      intros j Hj Hjc. exfalso. apply (Hno j); [lia|exact Hjc]. }
  destruct (memchr_cr buf pos rlen) as [cr1| |]; cbn [bind] in Hskip |- *;
    try (destruct Hskip as [(c' & Hs & _)|(Hs & _)]; discriminate).
  destruct Hskip as [(c & Es & Hc1 & Hc2 & Hccr & Hclf & Hnp)|(Es & Hnp)]; rewrite Es; cbn [bind].
  - rewrite rdb_ok by lia. cbn [bind]. rewrite Hclf. change (N.eqb LF LF) with true. cbv iota.
    destruct (Nat.ltb_spec c pos) as [Hx|_]; [lia|].
    assert (Hlen' : length (set_nth buf c LF) = length buf) by (apply length_set_nth; lia).
    rewrite Hlen'.
    destruct (Nat.ltb_spec (length buf) (pos + (c - pos + 1))) as [Hx|_]; [lia|].
    destruct (Nat.ltb_spec rlen (c - pos + 1 + 1)) as [Hx|_]; [lia|].
    set (buf' := set_nth buf c LF) in *.
    set (rlen' := rlen - (c - pos + 1 + 1)).
    assert (HE' : c + 2 + rlen' = E) by (subst rlen' E; lia).
    destruct (IH buf' (c + 2) rlen' (acc ++ [sub buf' pos (c - pos + 1)]) ltac:(lia)
                ltac:(rewrite HE'; subst buf'; rewrite nth_set_nth by lia;
                      destruct (Nat.eqb_spec E c); [lia|exact Hnul]) ltac:(subst rlen'; lia))
      as (acc' & buf'' & pos' & rlen'' & E' & Hinv & Hcat).
    exists acc', buf'', pos', rlen''. split; [exact E'|]. split; [exact Hinv|].
    rewrite Hcat. rewrite concat_app. cbn [concat]. rewrite app_nil_r, <- app_assoc. f_equal.
    (* the write, the rest, and the decomposition of the old rest *)
    assert (Ew : sub buf' pos (c - pos + 1) = sub buf pos (c - pos) ++ [LF]).
    { apply (nth_ext _ _ 0%N 0%N).
      - rewrite app_length, !sub_length by lia. cbn [length]. lia.
      - intros j Hj. rewrite sub_length in Hj by lia. rewrite nth_sub by lia.
        subst buf'. rewrite nth_set_nth by lia.
        destruct (Nat.eqb_spec (pos + j) c) as [Ej|Ej].
        + rewrite app_nth2 by (rewrite sub_length by lia; lia). rewrite sub_length by lia.
          replace (j - (c - pos)) with 0 by lia. reflexivity.
        + rewrite app_nth1 by (rewrite sub_length by lia; lia). rewrite nth_sub by lia. reflexivity. }
    assert (Er : sub buf' (c + 2) rlen' = sub buf (c + 2) rlen').
    { apply (nth_ext _ _ 0%N 0%N).
      - rewrite !sub_length by lia. reflexivity.
      - intros j Hj. rewrite sub_length in Hj by lia. rewrite !nth_sub by lia.
        subst buf'. rewrite nth_set_nth by lia. destruct (Nat.eqb_spec (c + 2 + j) c); [lia|reflexivity]. }
    rewrite Ew, Er.
    rewrite (sub_pair_split buf pos rlen c) by lia. rewrite Hccr, Hclf.
    replace (pos + rlen - (c + 2)) with rlen' by (subst rlen'; lia).
    rewrite crlf2lf_pair by (apply NP_line; [lia|lia|exact Hnp]).
    rewrite <- app_assoc. reflexivity.
  - exists acc, buf, pos, rlen. split; [reflexivity|]. split; [lia|].
    rewrite crlf2lf_nopair by (apply NP_sub; [lia|exact Hnp]). reflexivity.
Qed.

(** * one buffer *)
Lemma last_decomp (d : bytes) : d <> [] ->
  exists body x, d = body ++ [x] /\ nth (length d - 1) d 0%N = x /\ firstn (length d - 1) d = body.
Proof.
  intros H. destruct (exists_last H) as (body & x & ->). exists body, x.
  rewrite app_length. cbn [length]. replace (length body + 1 - 1) with (length body) by lia.
  split; [reflexivity|]. split.
  - rewrite app_nth2 by lia. rewrite Nat.sub_diag. reflexivity.
  - apply firstn_app_exact.
Qed.

Lemma conv_single_cr q : conv q [CR] = pend q.
Proof. destruct q; reflexivity. Qed.

Theorem piece_ok lastcr addcr d : d <> [] ->
  exists w0 ws, piece lastcr addcr d = Ok (w0, endcr lastcr d, ws)
    /\ concat (w0 ++ ws) = conv lastcr d ++ (if addcr && endcr lastcr d then [CR] else [])
    /\ (w0 = [] \/ w0 = [[CR]]).
Proof.
  intros Hne. destruct (last_decomp d Hne) as (body & x & Hd & Hx & Hbody).
  assert (Hlen : length d = length body + 1) by (rewrite Hd, app_length; cbn; lia).
  assert (Hend : endcr lastcr d = N.eqb x CR) by (rewrite Hd; apply endcr_snoc).
  unfold piece. destruct (Nat.eqb_spec (length d) 0) as [E0|_]; [lia|].
  rewrite Hx, Hend.
  set (chunk' := if N.eqb x CR then length d - 1 else length d).
  set (body' := firstn chunk' d).
  assert (Hb' : body' = if N.eqb x CR then body else d).
  { subst body' chunk'. destruct (N.eqb x CR); [exact Hbody|apply firstn_all]. }
  assert (Hbl : length body' = chunk').
  { subst body' chunk'. rewrite firstn_length. destruct (N.eqb x CR); lia. }
  destruct (crlf_loop_ok (S chunk') (body' ++ [0%N]) 0 chunk' []
              ltac:(rewrite app_length; cbn [length]; lia)
              ltac:(cbn [Nat.add]; rewrite app_nth2 by lia; rewrite Hbl, Nat.sub_diag; reflexivity)
              ltac:(lia))
    as (ws & buf' & pos & rlen & El & Hinv & Hcat).
  rewrite El. cbn [bind].
  destruct (Nat.ltb_spec (length buf') (pos + rlen)) as [Hc|_]; [lia|].
  eexists _, _. split; [reflexivity|].
  assert (Hsub : sub (body' ++ [0%N]) 0 chunk' = body').
  { unfold sub. cbn [skipn]. rewrite <- Hbl. apply firstn_app_exact. }
  rewrite Hsub in Hcat. cbn [concat app] in Hcat.
  split.
  - rewrite concat_app, concat_app. cbn [concat]. rewrite app_nil_r.
    rewrite (app_assoc (concat ws)), app_assoc. f_equal. rewrite Hcat.
    assert (Hw0 : concat (if lastcr && negb (N.eqb (nth 0 d 0%N) LF) then [[CR]] else [])
                  = if lastcr && negb (starts_lf body') then [CR] else []).
    { assert (Hs : N.eqb (nth 0 d 0%N) LF = starts_lf body' \/ (body' = [] /\ d = [CR])).
      { rewrite Hb'. destruct (N.eqb_spec x CR) as [->|Hxc].
        - destruct body as [|b0 body0]; [right; split; [reflexivity|exact Hd]|].
          left. rewrite Hd. reflexivity.
        - left. destruct d; [congruence|reflexivity]. }
      destruct Hs as [->|(-> & ->)].
      - destruct (lastcr && negb (starts_lf body')); reflexivity.
      - cbn. destruct lastcr; reflexivity. }
    rewrite Hw0. rewrite Hb'. destruct (N.eqb_spec x CR) as [->|Hxc].
    + rewrite Hd, conv_app, conv_single_cr. apply eq_sym. apply conv_crlf2lf.
    + rewrite <- conv_crlf2lf. rewrite Hend. replace (N.eqb x CR) with false by (symmetry; now apply N.eqb_neq).
      cbn [pend]. rewrite app_nil_r. reflexivity.
  - destruct (lastcr && negb (N.eqb (nth 0 d 0%N) LF)); auto.
Qed.

(** Proofs about the model of finddomain: it never reads outside the mapping and
    answers exactly [fd_spec] (an entry equals the name case-insensitively or is
    a dot-led proper suffix of it). *)
From Qv Require Import Common.Bytes Gen.GenControl Model.FindDomain Spec.ControlSpec.

Ltac consts := unfold FD_LF, FD_COMMENT, FD_BLANK_A, FD_BLANK_B, FD_DOT, MD_DOT in *.

(** ------------------------------------------------------------ list helpers *)
Lemma find_split (c : N) (l : bytes) :
  Forall (fun b => b <> c) l \/
  exists a r, l = a ++ c :: r /\ Forall (fun b => b <> c) a.
Proof.
  induction l as [|x l IH].
  - left. constructor.
  - destruct (N.eq_dec x c) as [E|NE].
    + right. exists [], l. subst. split; [reflexivity|constructor].
    + destruct IH as [IH|(a & r & E & Ha)].
      * left. constructor; assumption.
      * right. exists (x :: a), r. subst. split; [reflexivity|constructor; assumption].
Qed.

Lemma split_on_nosep (sep : N -> bool) (l : bytes) :
  Forall (fun b => sep b = false) l -> split_on sep l = [l].
Proof.
  induction l as [|x l IH]; intros H; [reflexivity|].
  inversion H as [|? ? Hx Hl]; subst. cbn [split_on]. rewrite Hx, (IH Hl). reflexivity.
Qed.

Lemma split_on_app (sep : N -> bool) (a : bytes) (s : N) (r : bytes) :
  Forall (fun b => sep b = false) a -> sep s = true ->
  split_on sep (a ++ s :: r) = a :: split_on sep r.
Proof.
  intros Ha Hs. induction a as [|x a IH]; cbn [app split_on].
  - rewrite Hs. reflexivity.
  - inversion Ha as [|? ? Hx Hl]; subst. rewrite Hx, (IH Hl). reflexivity.
Qed.

Lemma bytes_eqb_length (a b : bytes) : length a <> length b -> bytes_eqb a b = false.
Proof.
  revert b; induction a as [|x a IH]; intros [|y b] H; cbn in *; try reflexivity; try congruence.
  rewrite IH by lia. apply andb_false_r.
Qed.

Lemma lower_length l : length (lower l) = length l.
Proof. apply map_length. Qed.

(** ------------------------------------------------------------ memchr *)
Lemma memchr_none (c : N) (cur : bytes) :
  Forall (fun b => b <> c) cur -> memchr c cur (length cur) = Ok None.
Proof.
  induction cur as [|x cur IH]; intros H; [reflexivity|].
  inversion H as [|? ? Hx Hl]; subst. cbn [length memchr].
  apply N.eqb_neq in Hx. rewrite Hx, (IH Hl). reflexivity.
Qed.

Lemma memchr_some (c : N) (a r : bytes) (n : nat) :
  Forall (fun b => b <> c) a -> length a < n ->
  memchr c (a ++ c :: r) n = Ok (Some (length a)).
Proof.
  revert n; induction a as [|x a IH]; intros n Ha Hn.
  - destruct n as [|n]; [lia|]. cbn [app memchr]. rewrite N.eqb_refl. reflexivity.
  - destruct n as [|n]; [cbn in Hn; lia|].
    inversion Ha as [|? ? Hx Hl]; subst. cbn [app memchr length].
    apply N.eqb_neq in Hx. rewrite Hx, (IH n Hl) by (cbn in Hn; lia). reflexivity.
Qed.

(** ------------------------------------------------------------ trailing blanks *)
Lemma strip_trailing_snoc (l : bytes) (b : N) :
  strip_trailing (l ++ [b]) = if is_blank b then strip_trailing l else l ++ [b].
Proof.
  unfold strip_trailing. rewrite rev_unit. cbn [drop_blanks].
  destruct (is_blank b); [reflexivity|].
  cbn [rev]. rewrite rev_involutive. reflexivity.
Qed.

Lemma strip_trailing_prefix (l : bytes) : exists bl, l = strip_trailing l ++ bl.
Proof.
  induction l as [|b l IH] using rev_ind.
  - exists []. reflexivity.
  - rewrite strip_trailing_snoc. destruct (is_blank b).
    + destruct IH as [bl E]. exists (bl ++ [b]). rewrite app_assoc, <- E. reflexivity.
    + exists []. now rewrite app_nil_r.
Qed.

Lemma rd_app_hit (l : bytes) (b : N) (rest : bytes) : rd ((l ++ [b]) ++ rest) (length l) = Ok b.
Proof.
  unfold rd. rewrite <- app_assoc. rewrite nth_error_app2 by lia.
  rewrite Nat.sub_diag. reflexivity.
Qed.

Lemma strip_len_spec (line rest : bytes) :
  strip_len (line ++ rest) (length line) = Ok (length (strip_trailing line)).
Proof.
  revert rest; induction line as [|b l IH] using rev_ind; intros rest; [reflexivity|].
  rewrite app_length, Nat.add_comm. cbn [length Nat.add strip_len].
  rewrite rd_app_hit. cbn [bind]. rewrite strip_trailing_snoc. consts.
  change (N.eqb b 32 || N.eqb b 9) with (is_blank b).
  destruct (is_blank b).
  - rewrite <- app_assoc. apply IH.
  - rewrite app_length, Nat.add_comm. reflexivity.
Qed.

(** ------------------------------------------------------------ strncasecmp *)
Lemma to_lower_nz (x : N) : x <> 0%N -> to_lower x <> 0%N.
Proof. unfold to_lower. destruct (is_upper x); lia. Qed.

Lemma strncasecmp_spec (a e rest : bytes) :
  length a = length e -> Forall (fun x => x <> 0%N) a ->
  strncasecmp_eq a (e ++ rest) (length e) = Ok (bytes_eqb (lower a) (lower e)).
Proof.
  revert e; induction a as [|x a IH]; intros [|y e] Hl Hnz; cbn in Hl; try discriminate; [reflexivity|].
  inversion Hnz as [|? ? Hx Ha]; subst.
  cbn [length app strncasecmp_eq lower map bytes_eqb].
  destruct (N.eqb (to_lower x) (to_lower y)) eqn:E; [|reflexivity].
  apply to_lower_nz in Hx. apply N.eqb_neq in Hx. rewrite Hx.
  cbn [andb]. apply IH; [lia|assumption].
Qed.

Lemma cstr_nonul (d : bytes) : Forall (fun x => x <> 0%N) (cstr d).
Proof.
  induction d as [|b d IH]; cbn [cstr]; [constructor|].
  destruct (N.eqb b 0) eqn:E; [constructor|].
  apply N.eqb_neq in E. constructor; assumption.
Qed.

Lemma cstr_id (d : bytes) : Forall (fun x => x <> 0%N) d -> cstr d = d.
Proof.
  induction 1 as [|b d Hb Hd IH]; cbn [cstr]; [reflexivity|].
  apply N.eqb_neq in Hb. rewrite Hb, IH. reflexivity.
Qed.

(** ------------------------------------------------------------ one line *)
Definition entry_of (line : bytes) : list bytes :=
  filter (fun e => negb (is_nil e))
    (map strip_trailing (filter (fun l => negb (is_comment_line l)) [line])).

Lemma line_hit_spec (line rest dom : bytes) :
  Forall (fun x => x <> 0%N) dom ->
  (line <> [] \/ exists r, rest = 10%N :: r) ->
  line_hit (line ++ rest) (length line) dom = Ok (existsb (entry_matchb dom) (entry_of line)).
Proof.
  intros Hnz Hne. unfold line_hit.
  destruct line as [|c l].
  - destruct Hne as [Hne|(r & ->)]; [congruence|]. reflexivity.
  - clear Hne. set (line := c :: l).
    change (rd (line ++ rest) 0) with (Ok (A := N) c). cbn [bind].
    unfold entry_of. cbn [filter].
    assert (Hc : is_comment_line line = N.eqb c 35) by reflexivity. rewrite Hc. clear Hc. consts.
    destruct (N.eqb c 35) eqn:Ec; [reflexivity|]. cbn [negb map filter].
    rewrite strip_len_spec. cbn [bind].
    destruct (strip_trailing_prefix line) as [bl Ebl].
    destruct (strip_trailing line) as [|c' e'] eqn:Es; [reflexivity|].
    assert (c' = c) by (unfold line in Ebl; cbn in Ebl; congruence). subst c'.
    set (e := c :: e') in *.
    change (negb (is_nil e)) with true. cbn iota. cbn [existsb]. rewrite orb_false_r.
    change (Nat.eqb (length e) 0) with false. cbn iota.
    unfold entry_matchb. change (dot_led e) with (N.eqb c 46).
    rewrite Ebl, <- app_assoc.
    destruct (N.eqb c 46) eqn:Ed.
    + destruct (Nat.ltb (length e) (length dom)) eqn:El; [|reflexivity].
      apply Nat.ltb_lt in El. cbn [andb].
      apply strncasecmp_spec.
      * rewrite skipn_length. lia.
      * apply Forall_skipn. assumption.
    + destruct (Nat.eqb (length dom) (length e)) eqn:El.
      * apply Nat.eqb_eq in El. apply strncasecmp_spec; assumption.
      * apply Nat.eqb_neq in El. rewrite bytes_eqb_length; [reflexivity|].
        rewrite !lower_length. assumption.
Qed.

(** ------------------------------------------------------------ entries of a list with a first line *)
Lemma fd_entries_nolf (cur : bytes) :
  Forall (fun b => b <> 10%N) cur -> fd_entries cur = entry_of cur.
Proof.
  intros H. unfold fd_entries, entry_of. rewrite split_on_nosep; [reflexivity|].
  eapply Forall_impl; [|exact H]. intros b Hb. apply N.eqb_neq. congruence.
Qed.

Lemma fd_entries_app (a r : bytes) :
  Forall (fun b => b <> 10%N) a -> fd_entries (a ++ 10%N :: r) = entry_of a ++ fd_entries r.
Proof.
  intros H. unfold fd_entries, entry_of. rewrite split_on_app.
  - cbn [filter]. destruct (negb (is_comment_line a)); [|reflexivity].
    cbn [map filter app]. destruct (negb (is_nil (strip_trailing a))); reflexivity.
  - eapply Forall_impl; [|exact H]. intros b Hb. apply N.eqb_neq. congruence.
  - reflexivity.
Qed.

Lemma fd_entries_lf (r : bytes) : fd_entries (10%N :: r) = fd_entries r.
Proof. apply (fd_entries_app [] r). constructor. Qed.

Lemma fd_entries_skip_lf (r : bytes) : fd_entries (skip_lf r) = fd_entries r.
Proof.
  induction r as [|b r IH]; [reflexivity|]. cbn [skip_lf]. consts.
  destruct (N.eqb b 10) eqn:E; [|reflexivity].
  apply N.eqb_eq in E. subst b. rewrite fd_entries_lf. exact IH.
Qed.

Lemma skip_lf_length (r : bytes) : length (skip_lf r) <= length r.
Proof.
  induction r as [|b r IH]; [cbn; lia|]. cbn [skip_lf].
  destruct (N.eqb b FD_LF); cbn [length]; lia.
Qed.

(** ------------------------------------------------------------ the loop *)
Lemma fd_loop_spec (fuel : nat) : forall (cur dom : bytes),
  Forall (fun x => x <> 0%N) dom -> cur <> [] -> length cur < fuel ->
  fd_loop fuel cur dom = Ok (existsb (entry_matchb dom) (fd_entries cur)).
Proof.
  induction fuel as [|fuel IH]; intros cur dom Hnz Hne Hf; [lia|].
  cbn [fd_loop]. consts.
  destruct (find_split 10%N cur) as [Hno|(a & r & E & Ha)].
  - rewrite memchr_none by assumption. cbn [bind].
    rewrite <- (app_nil_r cur) at 1.
    rewrite line_hit_spec by (auto). cbn [bind].
    rewrite fd_entries_nolf by assumption.
    destruct (existsb (entry_matchb dom) (entry_of cur)); reflexivity.
  - subst cur. rewrite memchr_some by (auto; rewrite app_length; cbn; lia). cbn [bind].
    rewrite line_hit_spec by (auto; right; eexists; reflexivity). cbn [bind].
    rewrite fd_entries_app by assumption. rewrite existsb_app.
    destruct (existsb (entry_matchb dom) (entry_of a)); [reflexivity|]. cbn [orb].
    rewrite skipn_app, skipn_all, Nat.sub_diag. cbn [app skipn skip_lf].
    rewrite N.eqb_refl.
    rewrite <- (fd_entries_skip_lf r).
    pose proof (skip_lf_length r) as Hlen.
    destruct (skip_lf r) as [|x cur'] eqn:Es; [reflexivity|].
    apply IH; [assumption|discriminate|].
    rewrite app_length in Hf. cbn [length] in *. lia.
Qed.

Theorem finddomain_correct (buf domain : bytes) :
  finddomain buf domain = Ok (fd_spec buf (cstr domain)).
Proof.
  unfold finddomain, fd_spec. destruct buf as [|b buf]; [reflexivity|].
  apply fd_loop_spec; [apply cstr_nonul|discriminate|lia].
Qed.

(** ------------------------------------------------------------ meaning of fd_spec *)
Lemma lower_app a b : lower (a ++ b) = lower a ++ lower b.
Proof. apply map_app. Qed.

Lemma entry_matchb_iff (name e : bytes) : entry_matchb name e = true <-> entry_matches e name.
Proof.
  unfold entry_matchb, entry_matches. destruct (dot_led e).
  - rewrite andb_true_iff, Nat.ltb_lt, bytes_eqb_eq. split.
    + intros [Hl He]. split; [assumption|].
      exists (firstn (length name - length e) name), (skipn (length name - length e) name).
      split; [symmetry; apply firstn_skipn|assumption].
    + intros [Hl (pre & rest & En & Er)]. split; [assumption|].
      assert (Hlen : length rest = length e) by (rewrite <- (lower_length rest), Er; apply lower_length).
      subst name. rewrite app_length, Hlen, Nat.add_sub.
      rewrite skipn_app, skipn_all, Nat.sub_diag. exact Er.
  - apply bytes_eqb_eq.
Qed.

Lemma fd_spec_iff (buf name : bytes) :
  fd_spec buf name = true <-> exists e, In e (fd_entries buf) /\ entry_matches e name.
Proof.
  unfold fd_spec. rewrite existsb_exists. split; intros (e & Hin & Hm); exists e; split; auto;
    now apply entry_matchb_iff.
Qed.

Lemma fd_entries_In (buf e : bytes) :
  In e (fd_entries buf) <->
  e <> [] /\ exists l, In l (split_on (N.eqb 10) buf) /\ is_comment_line l = false /\ e = strip_trailing l.
Proof.
  unfold fd_entries. rewrite filter_In, in_map_iff. split.
  - intros [(l & El & Hl) Hn]. apply filter_In in Hl as [Hl Hc]. split.
    + destruct e; [discriminate|discriminate].
    + exists l. repeat split; auto. now destruct (is_comment_line l).
  - intros [Hn (l & Hl & Hc & El)]. split.
    + exists l. split; [auto|]. apply filter_In. split; [assumption|]. now rewrite Hc.
    + destruct e; [congruence|reflexivity].
Qed.

(** the wording of the property: for a name that does not itself start with a
    dot, "equals an entry case-insensitively or ends with an entry that starts with a dot" *)
Lemma to_lower_dot (x : N) : to_lower x = 46%N -> x = 46%N.
Proof.
  unfold to_lower, is_upper. destruct (N.leb 65 x && N.leb x 90) eqn:E; [|auto].
  apply andb_true_iff in E as [E1 E2]. apply N.leb_le in E1, E2. lia.
Qed.

Lemma entry_matches_property (e name : bytes) :
  dot_led name = false ->
  (entry_matches e name <-> lower name = lower e \/ (dot_led e = true /\ ci_suffix e name)).
Proof.
  intros Hn. unfold entry_matches. destruct (dot_led e) eqn:Ed.
  - split.
    + intros [_ H]. right. auto.
    + intros [H|[_ H]].
      * exfalso. destruct e as [|c e]; [discriminate|]. cbn in Ed. apply N.eqb_eq in Ed. subst c.
        destruct name as [|x name]; [discriminate|]. cbn in H. injection H as H _.
        apply to_lower_dot in H. subst x. cbn in Hn. discriminate.
      * split; [|assumption].
        destruct H as (pre & rest & En & Er).
        assert (Hlen : length rest = length e) by (rewrite <- (lower_length rest), Er; apply lower_length).
        destruct pre as [|p pre].
        -- exfalso. cbn in En. subst rest.
           destruct e as [|c e]; [discriminate|]. cbn in Ed. apply N.eqb_eq in Ed. subst c.
           destruct name as [|x name]; [discriminate|]. cbn in Er. injection Er as H _.
           apply to_lower_dot in H. subst x. cbn in Hn. discriminate.
        -- subst name. rewrite app_length. cbn [length]. lia.
  - split; [auto|]. intros [H|[H _]]; [assumption|discriminate].
Qed.

(** ------------------------------------------------------------ the unpatched code (F-C16-1) *)
Lemma finddomain_orig_overread :
  finddomain_orig [101; 120; 97; 109; 112; 108; 101; 46; 111; 114; 103; 10]%N [120; 46; 111; 114; 103]%N = Crash 4.
Proof. vm_compute. reflexivity. Qed.

(** ------------------------------------------------------------ matchdomain *)
Lemma strcasecmp_eq_spec : forall a b, strcasecmp_eq a b = bytes_eqb (lower a) (lower b).
Proof.
  induction a as [|x a IH]; intros [|y b]; cbn [strcasecmp_eq lower map bytes_eqb]; try reflexivity.
  rewrite IH. destruct (N.eqb (to_lower x) (to_lower y)); reflexivity.
Qed.

Theorem matchdomain_correct (domain expr : bytes) :
  matchdomain domain expr = expr_matchb (cstr domain) (cstr expr).
Proof.
  unfold matchdomain, expr_matchb. set (dom := cstr domain). set (ex := cstr expr). consts.
  assert (Hd : N.eqb (hd 0%N ex) 46 = dot_led ex) by (destruct ex; reflexivity). rewrite Hd.
  rewrite !strcasecmp_eq_spec.
  destruct (Nat.ltb (length dom) (length ex)) eqn:El.
  - apply Nat.ltb_lt in El. destruct (dot_led ex).
    + replace (Nat.leb (length ex) (length dom)) with false by (symmetry; apply Nat.leb_gt; lia). reflexivity.
    + symmetry. apply bytes_eqb_length. rewrite !lower_length. lia.
  - apply Nat.ltb_ge in El. destruct (dot_led ex).
    + replace (Nat.leb (length ex) (length dom)) with true by (symmetry; apply Nat.leb_le; lia). reflexivity.
    + destruct (Nat.eqb (length ex) (length dom)) eqn:Ee; [reflexivity|].
      apply Nat.eqb_neq in Ee. symmetry. apply bytes_eqb_length. rewrite !lower_length. lia.
Qed.

Lemma expr_matchb_iff (name e : bytes) : expr_matchb name e = true <-> expr_matches e name.
Proof.
  unfold expr_matchb, expr_matches. destruct (dot_led e).
  - rewrite andb_true_iff, Nat.leb_le, bytes_eqb_eq. split.
    + intros [Hl He].
      exists (firstn (length name - length e) name), (skipn (length name - length e) name).
      split; [symmetry; apply firstn_skipn|assumption].
    + intros (pre & rest & En & Er).
      assert (Hlen : length rest = length e) by (rewrite <- (lower_length rest), Er; apply lower_length).
      subst name. rewrite app_length, Hlen. split; [lia|].
      rewrite Nat.add_sub, skipn_app, skipn_all, Nat.sub_diag. exact Er.
  - apply bytes_eqb_eq.
Qed.

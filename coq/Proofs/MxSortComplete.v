(** The boolean sort checker decides the specification: spec_ok_C20_sort inp out = true <-> sort_spec inp out.
    (Soundness is in MxSortProofs.v; here completeness.) *)
From Coq Require Import List NArith Bool Arith Lia Sorting.Permutation Sorting.Sorted.
From Qv Require Import Common.Bytes Gen.GenMx Model.Mx Spec.MxSpec Proofs.MxSortProofs.
Import ListNotations.
Local Open Scope bool_scope.

Section Greedy.
  Variable A : Type.
  Variable eqb : A -> A -> bool.
  Variable eqb_refl : forall a, eqb a a = true.
  Variable eqb_sym : forall a b, eqb a b = true -> eqb b a = true.
  Variable eqb_trans : forall a b c, eqb a b = true -> eqb b c = true -> eqb a c = true.

  Definition cnt (z : A) (l : list A) : nat := length (filter (eqb z) l).

  Lemma eqb_class z x y : eqb x y = true -> eqb z x = eqb z y.
  Proof.
    intros H. destruct (eqb z x) eqn:E1, (eqb z y) eqn:E2; try reflexivity.
    - rewrite (eqb_trans z x y E1 H) in E2. discriminate.
    - rewrite (eqb_trans z y x E2 (eqb_sym _ _ H)) in E1. discriminate.
  Qed.

  Lemma remove_first_cnt x : forall l,
    0 < cnt x l ->
    exists y l', remove_first (eqb x) l = Some l' /\ eqb x y = true
                 /\ forall z, cnt z l = cnt z l' + (if eqb z y then 1 else 0).
  Proof.
    unfold cnt. induction l as [|a r IH]; cbn [filter length]; intros H; [lia|].
    cbn [remove_first]. destruct (eqb x a) eqn:E.
    - exists a, r. repeat split; [exact E|]. intros z. cbn [filter]. destruct (eqb z a); cbn [length]; lia.
    - destruct (IH H) as (y & l' & Hr & Hy & Hc). rewrite Hr. exists y, (a :: l'). repeat split; [exact Hy|].
      intros z. cbn [filter]. destruct (eqb z a); cbn [length]; rewrite Hc; lia.
  Qed.

  Lemma perm_by_complete_cnt : forall l1 l2, (forall z, cnt z l1 = cnt z l2) -> perm_by eqb l1 l2 = true.
  Proof.
    induction l1 as [|x r IH]; intros l2 H; cbn [perm_by].
    - destruct l2 as [|y l2]; [reflexivity|]. specialize (H y). unfold cnt in H. cbn [filter length] in H.
      rewrite eqb_refl in H. cbn [length] in H. lia.
    - assert (Hp : 0 < cnt x l2).
      { rewrite <- H. unfold cnt. cbn [filter]. rewrite eqb_refl. cbn [length]. lia. }
      destruct (remove_first_cnt x l2 Hp) as (y & l' & Hr & Hy & Hc). rewrite Hr. apply IH.
      intros z. specialize (H z). rewrite Hc in H. unfold cnt in H |- *. cbn [filter] in H.
      rewrite (eqb_class z x y Hy) in H. destruct (eqb z y); cbn [length] in H; lia.
  Qed.

  Lemma cnt_perm z l l' : Permutation l l' -> cnt z l = cnt z l'.
  Proof. intros H. unfold cnt. induction H; cbn [filter]; try destruct (eqb z x); try destruct (eqb z y); cbn [length]; lia. Qed.

  Lemma cnt_Forall2 z l l' : Forall2 (fun a b => eqb a b = true) l l' -> cnt z l = cnt z l'.
  Proof.
    intros H. unfold cnt. induction H as [|a b ra rb Hab HF IH]; [reflexivity|]. cbn [filter].
    rewrite (eqb_class z a b Hab). destruct (eqb z b); cbn [length]; lia.
  Qed.

  Lemma perm_by_complete l1 l2 p :
    Permutation l1 p -> Forall2 (fun a b => eqb a b = true) p l2 -> perm_by eqb l1 l2 = true.
  Proof.
    intros Hp HF. apply perm_by_complete_cnt. intros z. rewrite (cnt_perm z l1 p Hp). apply cnt_Forall2. exact HF.
  Qed.
End Greedy.

(* ---- addresses: list_eqb is equality ---- *)
Lemma list_eqb_refl a : list_eqb a a = true.
Proof. apply list_eqb_eq. reflexivity. Qed.

Lemma perm_by_list_eqb_complete l1 l2 : Permutation l1 l2 -> perm_by list_eqb l1 l2 = true.
Proof.
  intros H. apply (perm_by_complete (list N) list_eqb list_eqb_refl) with (p := l2).
  - intros a b Hab. apply list_eqb_eq in Hab. subst. apply list_eqb_refl.
  - intros a b c H1 H2. apply list_eqb_eq in H1. apply list_eqb_eq in H2. subst. apply list_eqb_refl.
  - exact H.
  - clear. induction l2; constructor; [apply list_eqb_refl|assumption].
Qed.

Lemma same_entry_b_iff a b : same_entry_b a b = true <-> same_entry a b.
Proof.
  split; [apply same_entry_b_sound|]. intros (H1 & H2 & H3). unfold same_entry_b.
  rewrite H1, H2, !N.eqb_refl. cbn [andb]. apply perm_by_list_eqb_complete. exact H3.
Qed.

Lemma same_entry_refl a : same_entry a a.
Proof. repeat split; reflexivity. Qed.
Lemma same_entry_sym a b : same_entry a b -> same_entry b a.
Proof. intros (H1 & H2 & H3). repeat split; try (symmetry; assumption). Qed.
Lemma same_entry_trans a b c : same_entry a b -> same_entry b c -> same_entry a c.
Proof. intros (H1 & H2 & H3) (H4 & H5 & H6). repeat split; try congruence. eapply Permutation_trans; eassumption. Qed.

Lemma rearranged_perm_by inp out : rearranged inp out -> perm_by same_entry_b inp out = true.
Proof.
  intros (p & Hp & HF).
  apply (perm_by_complete mx same_entry_b) with (p := p).
  - intros a. apply same_entry_b_iff, same_entry_refl.
  - intros a b H. apply same_entry_b_iff, same_entry_sym, same_entry_b_iff, H.
  - intros a b c H1 H2. apply same_entry_b_iff. eapply same_entry_trans; apply same_entry_b_iff; eassumption.
  - exact Hp.
  - clear Hp. induction HF; constructor; [apply same_entry_b_iff; assumption|assumption].
Qed.

Lemma mx_leb_complete a b : mx_le a b -> mx_leb a b = true.
Proof.
  unfold mx_le, mx_leb. intros [H|[H1 H2]].
  - apply orb_true_iff. left. apply N.ltb_lt. exact H.
  - apply orb_true_iff. right. rewrite H1, N.eqb_refl. cbn [andb].
    destruct (has_v6 b); [rewrite (H2 eq_refl); reflexivity|reflexivity].
Qed.

Lemma ssorted_b_complete l : StronglySorted mx_le l -> ssorted_b l = true.
Proof.
  induction 1 as [|a r Hr IH Ha]; [reflexivity|]. cbn [ssorted_b]. rewrite IH, andb_true_r.
  apply forallb_forall. intros b Hb. apply mx_leb_complete. rewrite Forall_forall in Ha. exact (Ha b Hb).
Qed.

Lemma v6_first_b_complete l : v6_first l -> v6_first_b l = true.
Proof.
  intros (l6 & l4 & -> & H6 & H4). induction H6 as [|a r Ha Hr IH]; cbn [app].
  - destruct l4 as [|b t]; [reflexivity|]. cbn [v6_first_b]. inversion H4 as [|x y Hb Ht]; subst. rewrite Hb.
    apply forallb_forall. intros c Hc. rewrite Forall_forall in Ht. rewrite (Ht c Hc). reflexivity.
  - cbn [v6_first_b]. rewrite Ha. exact IH.
Qed.

Theorem spec_ok_sort_complete inp out : sort_spec inp out -> spec_ok_C20_sort inp out = true.
Proof.
  intros (H1 & H2 & H3). unfold spec_ok_C20_sort.
  rewrite (rearranged_perm_by inp out H1), (ssorted_b_complete out H2). cbn [andb].
  apply forallb_forall. intros e He. apply v6_first_b_complete. rewrite Forall_forall in H3. exact (H3 e He).
Qed.

Theorem spec_ok_sort_iff inp out : spec_ok_C20_sort inp out = true <-> sort_spec inp out.
Proof. split; [apply spec_ok_sort_sound|apply spec_ok_sort_complete]. Qed.

Theorem checker_accepts_sortmx l :
  l <> [] -> Forall nonempty l -> exists out, sortmx l = Ok out /\ spec_ok_C20_sort l out = true.
Proof.
  intros H1 H2. destruct (sortmx_correct l H1 H2) as (out & Hs & Hspec).
  exists out. split; [exact Hs|apply spec_ok_sort_complete; exact Hspec].
Qed.

(** domainvalid() returns 0 exactly for the names that are [fqdn_strict]. *)
From Qv Require Import Common.Bytes Gen.GenAddr Model.Addr Spec.AddrSpec Proofs.AddrTables.

Ltac ulia := unfold bytes, byte in *; lia.
Ltac dv_consts := unfold DV_DT_SKIP, DV_LABEL_MAX, DV_TOTAL_MAX, DV_LAST_MIN, DV_LAST_MAX in *.

(* ------------------------------------------------------------------ split_dots / join_dots *)

Lemma split_dots_nonnil s : split_dots s <> [].
Proof.
  destruct s as [|c s]; simpl; [discriminate|].
  destruct (N.eqb c DOT); [discriminate|]. destruct (split_dots s); discriminate.
Qed.

Lemma join_dots_cons2 l l2 ls : join_dots (l :: l2 :: ls) = l ++ DOT :: join_dots (l2 :: ls).
Proof. reflexivity. Qed.

Lemma join_split s : join_dots (split_dots s) = s.
Proof.
  induction s as [|c s IH]; [reflexivity|]. simpl split_dots.
  destruct (split_dots s) as [|l ls] eqn:E; [now apply split_dots_nonnil in E|].
  destruct (N.eqb_spec c DOT) as [->|Hc].
  - rewrite join_dots_cons2, IH. reflexivity.
  - destruct ls as [|l2 ls].
    + simpl in *. now rewrite IH.
    + rewrite join_dots_cons2 in *. rewrite <- IH. reflexivity.
Qed.

Definition nodot (l : bytes) : Prop := ~ In DOT l.

Lemma split_dots_nodot s : Forall nodot (split_dots s).
Proof.
  induction s as [|c s IH]; simpl.
  - constructor; [intros []|constructor].
  - destruct (N.eqb_spec c DOT) as [->|Hc].
    + constructor; [intros []|exact IH].
    + destruct (split_dots s) as [|l ls]; [constructor; [|constructor]|].
      * intros [H|[]]. congruence.
      * inversion IH as [|? ? Hl Hls]; subst. constructor; [|exact Hls].
        intros [H|H]; [congruence|contradiction].
Qed.

Lemma split_nodot l : nodot l -> split_dots l = [l].
Proof.
  induction l as [|c l IH]; intros H; [reflexivity|]. simpl.
  destruct (N.eqb_spec c DOT) as [->|Hc]; [exfalso; apply H; now left|].
  rewrite IH; [reflexivity|]. intros X; apply H; now right.
Qed.

Lemma split_app_dot l r : nodot l -> split_dots (l ++ DOT :: r) = l :: split_dots r.
Proof.
  induction l as [|c l IH]; intros H; simpl.
  - reflexivity.
  - destruct (N.eqb_spec c DOT) as [->|Hc]; [exfalso; apply H; now left|].
    rewrite IH; [reflexivity|]. intros X; apply H; now right.
Qed.

Lemma split_join ls : ls <> [] -> Forall nodot ls -> split_dots (join_dots ls) = ls.
Proof.
  induction ls as [|l ls IH]; intros Hne HF; [congruence|].
  inversion HF as [|? ? Hl Hls]; subst.
  destruct ls as [|l2 ls].
  - simpl. now apply split_nodot.
  - rewrite join_dots_cons2, split_app_dot by assumption. f_equal. apply IH; [discriminate|assumption].
Qed.

Lemma split_single s l : split_dots s = [l] -> s = l.
Proof. intros H. rewrite <- (join_split s), H. reflexivity. Qed.

(** the name starts with a dot iff its first label is empty and another follows *)
Lemma split_head_dot s l0 tl : split_dots s = l0 :: tl ->
  (l0 = [] /\ tl <> []) <-> (exists s', s = DOT :: s').
Proof.
  intros H. destruct s as [|c s].
  - simpl in H. inversion H; subst. split; [intros [_ X]; exfalso; apply X; reflexivity|intros [? X]; discriminate].
  - simpl in H. destruct (N.eqb_spec c DOT) as [->|Hc].
    + inversion H; subst. split; [eauto|]. intros _. split; [reflexivity|apply split_dots_nonnil].
    + split.
      * intros [-> _]. destruct (split_dots s); inversion H.
      * intros [s' X]. inversion X. congruence.
Qed.

Lemma length_join_last ls : ls <> [] -> length (last ls []) <= length (join_dots ls).
Proof.
  induction ls as [|l ls IH]; intros H; [congruence|].
  destruct ls as [|l2 ls]; [simpl; ulia|].
  rewrite join_dots_cons2, app_length. cbn [length].
  change (last (l :: l2 :: ls) []) with (last (l2 :: ls) []).
  assert (X : l2 :: ls <> []) by discriminate. specialize (IH X). ulia.
Qed.

Lemma last_join ls : ls <> [] -> last ls [] <> [] -> last (join_dots ls) 0%N = last (last ls []) 0%N.
Proof.
  induction ls as [|l ls IH]; intros H Hl; [congruence|].
  destruct ls as [|l2 ls]; [reflexivity|].
  rewrite join_dots_cons2.
  change (last (l :: l2 :: ls) []) with (last (l2 :: ls) []) in *.
  assert (X : l2 :: ls <> []) by discriminate. specialize (IH X Hl).
  rewrite <- IH.
  assert (Y : join_dots (l2 :: ls) <> []).
  { intros E. pose proof (length_join_last (l2 :: ls) X) as L. rewrite E in L.
    destruct (last (l2 :: ls) []); [congruence|simpl in L; ulia]. }
  clear -Y. unfold bytes, byte in *. remember (join_dots (l2 :: ls)) as j eqn:Ej. clear Ej.
  induction l as [|c l IHl]; simpl.
  - destruct j; [exfalso; apply Y; reflexivity|reflexivity].
  - destruct (l ++ DOT :: j) eqn:E; [destruct l; discriminate|]. exact IHl.
Qed.

(* ------------------------------------------------------------------ the loop, without pointers *)

(** what the loop tests, as a function of the length [cur] of the label begun before [s] *)
Fixpoint mid_ok (cur : nat) (s : bytes) : bool :=
  match s with
  | [] => true
  | c :: s' =>
      domch c &&
      (if N.eqb c DOT then
         Nat.leb cur 63 && match s' with c2 :: _ => negb (N.eqb c2 DOT) | [] => true end && mid_ok 0 s'
       else mid_ok (S cur) s')
  end.

Fixpoint dt_after (h : nat) (dt : option nat) (s : bytes) : option nat :=
  match s with
  | [] => dt
  | c :: s' => if N.eqb c DOT then dt_after (S h) (Some h) s' else dt_after (S h) dt s'
  end.

Definition lstart (dt : option nat) : nat := match dt with None => 0 | Some d => d + 1 end.

Lemma dv_loop_run s : forall rest h dt, ~ In NUL s -> lstart dt <= h ->
  dv_loop (s ++ NUL :: rest) h dt =
  Ok (if mid_ok (h - lstart dt) s then Some (h + length s, dt_after h dt s) else None).
Proof.
  induction s as [|c s IH]; intros rest h dt Hn Hl.
  - simpl. rewrite Nat.add_0_r. reflexivity.
  - assert (Hc : c <> NUL) by (intros E; apply Hn; now left).
    assert (Hn' : ~ In NUL s) by (intros E; apply Hn; now right).
    simpl app. cbn [dv_loop mid_ok dt_after].
    destruct (N.eqb_spec c NUL) as [E|_]; [congruence|].
    rewrite DV_CHAR_OK_spec. destruct (domch c) eqn:Ed; cbn [negb andb]; [|reflexivity].
    destruct (N.eqb_spec c DOT) as [->|Hd].
    + dv_consts. fold (lstart dt).
      replace (Z.ltb (Z.of_nat 63) (Z.of_nat h - Z.of_nat (lstart dt))) with (negb (Nat.leb (h - lstart dt) 63)).
      2:{ destruct (Nat.leb_spec (h - lstart dt) 63); destruct (Z.ltb_spec (Z.of_nat 63) (Z.of_nat h - Z.of_nat (lstart dt))); simpl; try reflexivity; ulia. }
      destruct (Nat.leb (h - lstart dt) 63); cbn [negb andb]; [|reflexivity].
      destruct s as [|c2 s].
      * cbn [app]. change (N.eqb NUL DOT) with false. cbn iota.
        change (dv_loop (NUL :: rest) (S h) (Some h)) with (dv_loop ([] ++ NUL :: rest) (S h) (Some h)).
        rewrite IH; [|assumption|unfold lstart; ulia]. simpl. rewrite Nat.add_0_r. replace (h + 1) with (S h) by ulia. reflexivity.
      * cbn [app]. destruct (N.eqb c2 DOT) eqn:E2; cbn [negb andb]; [reflexivity|].
        change (c2 :: s ++ NUL :: rest) with ((c2 :: s) ++ NUL :: rest).
        rewrite IH; [|assumption|unfold lstart; ulia].
        replace (S h - lstart (Some h)) with 0 by (unfold lstart; ulia).
        replace (S h + length (c2 :: s)) with (h + length (DOT :: c2 :: s)) by (cbn [length]; ulia). reflexivity.
    + rewrite IH; [|assumption|ulia].
      replace (S h - lstart dt) with (S (h - lstart dt)) by ulia.
      replace (S h + length s) with (h + length (c :: s)) by (cbn [length]; ulia). reflexivity.
Qed.

(* ------------------------------------------------------------------ what the loop tests, in terms of labels *)

Definition len_ok (l : bytes) : Prop := 1 <= length l <= 63.

Lemma peek_iff (s : bytes) :
  match s with c2 :: _ => negb (N.eqb c2 DOT) | [] => true end = true <-> ~ (exists s', s = DOT :: s').
Proof.
  destruct s as [|c2 s]; split.
  - intros _ [s' X]. discriminate.
  - reflexivity.
  - intros H [s' X]. inversion X; subst. rewrite N.eqb_refl in H. discriminate.
  - intros H. destruct (N.eqb_spec c2 DOT) as [->|]; [exfalso; apply H; eauto|reflexivity].
Qed.

Lemma removelast_cons2 {A} (a b : A) l : removelast (a :: b :: l) = a :: removelast (b :: l).
Proof. reflexivity. Qed.

Lemma mid_ok_split s : forall cur,
  mid_ok cur s = true <->
  Forall (fun c => domch c = true) s /\
  exists l0 tl, split_dots s = l0 :: tl /\ (tl <> [] -> cur + length l0 <= 63) /\ Forall len_ok (removelast tl).
Proof.
  induction s as [|c s IH]; intros cur.
  - simpl. split; [|reflexivity]. intros _. split; [constructor|].
    exists [], []. split; [reflexivity|]. split; [congruence|constructor].
  - cbn [mid_ok]. simpl split_dots.
    destruct (split_dots s) as [|l0' tl'] eqn:E; [now apply split_dots_nonnil in E|].
    destruct (N.eqb_spec c DOT) as [->|Hd].
    + rewrite !andb_true_iff, peek_iff, (IH 0), Nat.leb_le.
      rewrite <- (split_head_dot s l0' tl' E).
      split.
      * intros (Hdom & (Hcur & Hpk) & HF & l0 & tl & E2 & Hl0 & Htl).
        inversion E2; subst l0 tl. clear E2.
        split; [constructor; assumption|].
        exists [], (l0' :: tl'). split; [reflexivity|]. split; [simpl; ulia|].
        destruct tl' as [|t tl']; [constructor|].
        rewrite removelast_cons2. constructor; [|exact Htl].
        assert (X : t :: tl' <> []) by discriminate. specialize (Hl0 X).
        split; [|ulia]. destruct l0'; [exfalso; apply Hpk; split; [reflexivity|exact X]|simpl; ulia].
      * intros (HF & l0 & tl & E2 & Hl0 & Htl).
        inversion E2; subst l0 tl. clear E2.
        inversion HF as [|? ? Hc HF']; subst.
        assert (X : l0' :: tl' <> []) by discriminate. specialize (Hl0 X). simpl in Hl0.
        split; [exact Hc|]. split; [split; [ulia|]|].
        -- intros [-> Hne]. destruct tl' as [|t tl']; [congruence|].
           rewrite removelast_cons2 in Htl. inversion Htl as [|? ? Hlen _]; subst. unfold len_ok in Hlen. simpl in Hlen. ulia.
        -- split; [exact HF'|]. exists l0', tl'. split; [reflexivity|].
           destruct tl' as [|t tl']; [split; [congruence|constructor]|].
           rewrite removelast_cons2 in Htl. inversion Htl as [|? ? Hlen Htl']; subst.
           split; [intros _; unfold len_ok in Hlen; ulia|exact Htl'].
    + rewrite andb_true_iff, (IH (S cur)).
      split.
      * intros (Hdom & HF & l0 & tl & E2 & Hl0 & Htl).
        inversion E2; subst l0 tl. clear E2.
        split; [constructor; assumption|].
        exists (c :: l0'), tl'. split; [reflexivity|]. split; [|exact Htl].
        intros X. specialize (Hl0 X). simpl. ulia.
      * intros (HF & l0 & tl & E2 & Hl0 & Htl).
        inversion E2; subst l0 tl. clear E2.
        inversion HF as [|? ? Hc HF']; subst.
        split; [exact Hc|]. split; [exact HF'|].
        exists l0', tl'. split; [reflexivity|]. split; [|exact Htl].
        intros X. specialize (Hl0 X). simpl in Hl0. ulia.
Qed.

Lemma dt_after_split s : forall h dt l0 tl, split_dots s = l0 :: tl ->
  (tl = [] -> dt_after h dt s = dt) /\
  (tl <> [] -> exists d, dt_after h dt s = Some d /\ d + length (last tl []) + 1 = h + length s).
Proof.
  induction s as [|c s IH]; intros h dt l0 tl E.
  - simpl in E. inversion E; subst. split; [reflexivity|intros X; exfalso; apply X; reflexivity].
  - simpl in E. cbn [dt_after].
    destruct (split_dots s) as [|l0' tl'] eqn:E'; [now apply split_dots_nonnil in E'|].
    destruct (N.eqb_spec c DOT) as [->|Hd].
    + inversion E; subst l0 tl. clear E.
      split; [discriminate|]. intros _.
      destruct (IH (S h) (Some h) l0' tl' eq_refl) as [I1 I2].
      destruct tl' as [|t tl'].
      * exists h. split; [apply I1; reflexivity|].
        apply split_single in E'. subst s. simpl. ulia.
      * assert (X : t :: tl' <> []) by discriminate. destruct (I2 X) as (d & Hd1 & Hd2).
        exists d. split; [exact Hd1|].
        change (last (l0' :: t :: tl') []) with (last (t :: tl') []). cbn [length]. ulia.
    + inversion E; subst l0 tl. clear E.
      destruct (IH (S h) dt l0' tl' eq_refl) as [I1 I2].
      split; [exact I1|].
      intros X. destruct (I2 X) as (d & Hd1 & Hd2). exists d. split; [exact Hd1|]. cbn [length]. ulia.
Qed.

Lemma domch_split s :
  Forall (fun c => domch c = true) s <-> Forall (fun l => Forall (fun c => ldh c = true) l) (split_dots s).
Proof.
  induction s as [|c s IH].
  - simpl. split; intros _; repeat constructor.
  - simpl split_dots.
    destruct (split_dots s) as [|l0' tl'] eqn:E; [now apply split_dots_nonnil in E|].
    destruct (N.eqb_spec c DOT) as [->|Hd].
    + split.
      * intros H. inversion H; subst. constructor; [constructor|]. now apply IH.
      * intros H. inversion H; subst. constructor; [reflexivity|]. now apply IH.
    + assert (Hc : domch c = ldh c).
      { unfold domch. destruct (N.eqb_spec c DOT); [congruence|]. now rewrite orb_false_r. }
      split.
      * intros H. inversion H as [|? ? H1 H2]; subst. apply IH in H2. inversion H2; subst.
        constructor; [|assumption]. constructor; [congruence|assumption].
      * intros H. inversion H as [|? ? H1 H2]; subst. inversion H1; subst.
        constructor; [congruence|]. apply IH. constructor; assumption.
Qed.

(* ------------------------------------------------------------------ domainvalid as a boolean function of the name *)

Definition dv_b (h : bytes) : bool :=
  match h with
  | [] => false
  | c0 :: _ =>
      negb (N.eqb c0 DOT) && mid_ok 0 h && Nat.leb (length h) 255
      && match dt_after 0 None h with
         | None => false
         | Some d => Nat.leb 3 (length h - d) && Nat.leb (length h - d) 64
         end
      && is_alpha (last h 0%N)
  end.

Lemma nth_error_last (c0 : N) (h x : bytes) :
  nth_error ((c0 :: h) ++ x) (length h) = Some (last (c0 :: h) 0%N).
Proof.
  revert c0. induction h as [|c h IH]; intros c0; [reflexivity|].
  change (length (c :: h)) with (S (length h)).
  change (nth_error ((c0 :: c :: h) ++ x) (S (length h))) with (nth_error ((c :: h) ++ x) (length h)).
  rewrite IH. reflexivity.
Qed.

Lemma domainvalid_run h rest : ~ In NUL h ->
  domainvalid (h ++ NUL :: rest) = Ok (if dv_b h then 0 else 1).
Proof.
  intros Hn. destruct h as [|c0 h'].
  - reflexivity.
  - assert (Hc : c0 <> NUL) by (intros E; apply Hn; now left).
    unfold domainvalid. cbn [app].
    destruct (N.eqb_spec c0 NUL) as [E|_]; [congruence|]. cbn [orb].
    unfold dv_b.
    destruct (N.eqb c0 DOT) eqn:Ed; cbn [negb andb]; [reflexivity|].
    change (c0 :: h' ++ NUL :: rest) with ((c0 :: h') ++ NUL :: rest).
    rewrite dv_loop_run by (try assumption; simpl; ulia).
    change (0 - lstart None) with 0. cbn [bind].
    destruct (mid_ok 0 (c0 :: h')); cbn [andb]; [|reflexivity].
    rewrite Nat.add_0_l. dv_consts.
    destruct (Nat.leb_spec (length (c0 :: h')) 255) as [Hlen|Hlen];
      destruct (Z.ltb_spec (Z.of_nat 255) (Z.of_nat (length (c0 :: h')))) as [Hz|Hz]; try ulia; cbn [andb]; [|reflexivity].
    destruct (dt_after 0 None (c0 :: h')) as [d|]; [|reflexivity].
    set (len := length (c0 :: h')) in *.
    replace (Z.ltb (Z.of_nat len - Z.of_nat d) (Z.of_nat 3) || Z.ltb (Z.of_nat 64) (Z.of_nat len - Z.of_nat d))
      with (negb (Nat.leb 3 (len - d) && Nat.leb (len - d) 64)).
    2:{ destruct (Nat.leb_spec 3 (len - d)); destruct (Nat.leb_spec (len - d) 64);
        destruct (Z.ltb_spec (Z.of_nat len - Z.of_nat d) (Z.of_nat 3));
        destruct (Z.ltb_spec (Z.of_nat 64) (Z.of_nat len - Z.of_nat d)); simpl; try reflexivity; ulia. }
    destruct (Nat.leb 3 (len - d) && Nat.leb (len - d) 64); cbn [negb andb]; [|reflexivity].
    subst len. cbn [length]. unfold rd. rewrite nth_error_last. cbn [bind]. rewrite DV_LAST_OK_spec.
    destruct (is_alpha (last (c0 :: h') 0%N)); reflexivity.
Qed.

(* ------------------------------------------------------------------ the boolean and the readable predicate *)

Lemma label_b_iff l : label_b l = true <-> label l.
Proof.
  unfold label_b, label. rewrite !andb_true_iff, !Nat.leb_le, forallb_forall, Forall_forall. tauto.
Qed.

Lemma forallb_label ls : forallb label_b ls = true <-> Forall label ls.
Proof.
  rewrite forallb_forall, Forall_forall. split; intros H l Hl; apply label_b_iff; auto.
Qed.

Lemma in_tl_cases (l : bytes) (tl : list bytes) : tl <> [] -> In l tl -> In l (removelast tl) \/ l = last tl [].
Proof.
  intros Hne Hin. rewrite (app_removelast_last [] Hne) in Hin at 1.
  apply in_app_or in Hin as [H|[H|[]]]; auto.
Qed.

Lemma last_cons_ne {A} (a : A) l d : l <> [] -> last (a :: l) d = last l d.
Proof. destruct l; [congruence|reflexivity]. Qed.

Lemma dv_b_iff h : dv_b h = true <-> fqdn_strict_b h = true.
Proof.
  unfold fqdn_strict_b.
  destruct (split_dots h) as [|l0 tl] eqn:E; [now apply split_dots_nonnil in E|].
  split.
  - intros H. destruct h as [|c0 h']; [discriminate|]. unfold dv_b in H.
    apply andb_true_iff in H as [H Ha]. apply andb_true_iff in H as [H Hdt].
    apply andb_true_iff in H as [H Hlen]. apply andb_true_iff in H as [Hnd Hm].
    apply negb_true_iff, N.eqb_neq in Hnd.
    apply mid_ok_split in Hm as (HF & l0x & tlx & E2 & Hl0 & Htl).
    rewrite E in E2. inversion E2; subst l0x tlx. clear E2.
    destruct (dt_after_split _ 0 None l0 tl E) as [D1 D2].
    destruct tl as [|t tl'].
    { rewrite D1 in Hdt by reflexivity. discriminate. }
    assert (X : t :: tl' <> []) by discriminate.
    destruct (D2 X) as (d & Hd1 & Hd2). rewrite Hd1 in Hdt.
    apply andb_true_iff in Hdt as [Hd3 Hd4]. apply Nat.leb_le in Hd3, Hd4.
    specialize (Hl0 X). simpl in Hl0.
    assert (Hl0' : l0 <> []).
    { intros ->. destruct (proj1 (split_head_dot _ _ _ E) (conj eq_refl X)) as [s' Hs]. inversion Hs. congruence. }
    rewrite (last_cons_ne l0 (t :: tl') [] X).
    rewrite Ha, Hlen. rewrite !andb_true_r.
    apply andb_true_iff. split; [apply andb_true_iff; split; [reflexivity|]|apply Nat.leb_le; ulia].
    apply forallb_label, Forall_forall. intros l Hl.
    assert (Hch : Forall (fun c => ldh c = true) l).
    { apply domch_split in HF. rewrite E in HF. rewrite Forall_forall in HF. auto. }
    split; [|exact Hch].
    destruct Hl as [<-|Hl].
    + destruct l0; [congruence|cbn [length] in *; ulia].
    + apply in_tl_cases in Hl as [Hl| ->]; [|ulia|exact X].
      rewrite Forall_forall in Htl. apply Htl. exact Hl.
  - intros H.
    apply andb_true_iff in H as [H Ha]. apply andb_true_iff in H as [H Hlast].
    apply andb_true_iff in H as [H Hlen]. apply andb_true_iff in H as [H2 Hlab].
    apply Nat.leb_le in H2, Hlast. apply forallb_label in Hlab. rewrite Forall_forall in Hlab.
    destruct tl as [|t tl']; [simpl in H2; ulia|].
    assert (X : t :: tl' <> []) by discriminate.
    rewrite (last_cons_ne l0 (t :: tl') [] X) in Hlast.
    assert (Hl0 : label l0) by (apply Hlab; now left).
    destruct h as [|c0 h']; [simpl in E; inversion E|].
    unfold dv_b. rewrite Ha, Hlen, !andb_true_r.
    assert (Hnd : c0 <> DOT).
    { intros ->. destruct (proj2 (split_head_dot _ _ _ E)) as [-> _]; [eauto|]. destruct Hl0 as [[Hx _] _]. simpl in Hx. ulia. }
    apply N.eqb_neq in Hnd. rewrite Hnd. cbn [negb andb].
    apply andb_true_iff. split.
    + apply mid_ok_split. split.
      * apply domch_split. rewrite E. apply Forall_forall. intros l Hl. apply Hlab in Hl. apply Hl.
      * exists l0, (t :: tl'). split; [exact E|]. split.
        -- intros _. destruct Hl0 as [[_ Hx] _]. simpl. ulia.
        -- apply Forall_forall. intros l Hl. apply Hlab. right.
           rewrite (app_removelast_last [] X). apply in_or_app. now left.
    + destruct (dt_after_split _ 0 None l0 (t :: tl') E) as [_ D2].
      destruct (D2 X) as (d & Hd1 & Hd2). rewrite Hd1.
      assert (Hll : label (last (t :: tl') [])).
      { apply Hlab. right. rewrite (app_removelast_last [] X) at 2. apply in_or_app. right. now left. }
      destruct Hll as [[_ Hx] _].
      apply andb_true_iff; split; apply Nat.leb_le; ulia.
Qed.

Lemma dv_b_eq h : dv_b h = fqdn_strict_b h.
Proof.
  destruct (dv_b h) eqn:A; destruct (fqdn_strict_b h) eqn:B; try reflexivity.
  - apply dv_b_iff in A. congruence.
  - apply dv_b_iff in B. congruence.
Qed.

Lemma fqdn_strict_b_iff h : fqdn_strict_b h = true <-> fqdn_strict h.
Proof.
  unfold fqdn_strict_b, fqdn_strict. split.
  - intros H.
    apply andb_true_iff in H as [H Ha]. apply andb_true_iff in H as [H Hlast].
    apply andb_true_iff in H as [H Hlen]. apply andb_true_iff in H as [H2 Hlab].
    exists (split_dots h). rewrite join_split.
    apply Nat.leb_le in H2, Hlast, Hlen. apply forallb_label in Hlab. auto 10.
  - intros (ls & -> & H2 & Hlab & Hlen & Hlast & Ha).
    assert (Hne : ls <> []) by (destruct ls; [simpl in H2; ulia|discriminate]).
    assert (Hnd : Forall nodot ls).
    { apply Forall_forall. intros l Hl Hin. rewrite Forall_forall in Hlab. destruct (Hlab l Hl) as [_ Hc].
      rewrite Forall_forall in Hc. apply Hc in Hin. vm_compute in Hin. discriminate. }
    rewrite (split_join ls Hne Hnd).
    rewrite Ha. apply forallb_label in Hlab. rewrite Hlab.
    repeat (apply andb_true_iff; split); try reflexivity; apply Nat.leb_le; assumption.
Qed.

Lemma is_alpha_not_digit c : is_alpha c = true -> is_digit c = false.
Proof.
  unfold is_alpha, is_upper, is_lower, is_digit. intros H.
  rewrite ?orb_true_iff, ?andb_true_iff, ?N.leb_le in H.
  destruct (N.leb_spec 48 c); destruct (N.leb_spec c 57); simpl; try reflexivity. lia.
Qed.

Lemma fqdn_strict_fqdn h : fqdn_strict h -> fqdn h.
Proof.
  intros (ls & -> & H2 & Hlab & Hlen & Hlast & Ha).
  exists ls. repeat split; try assumption.
  assert (Hne : ls <> []) by (destruct ls; [simpl in H2; ulia|discriminate]).
  assert (Hl : last ls [] <> []) by (destruct (last ls []); [simpl in Hlast; ulia|discriminate]).
  rewrite (last_join ls Hne Hl) in Ha.
  intros Hnum. unfold all_numeric in Hnum. rewrite Forall_forall in Hnum.
  assert (Hin : In (last (last ls []) 0%N) (last ls [])).
  { destruct (last ls []) as [|x l]; [exfalso; apply Hl; reflexivity|]. rewrite (app_removelast_last 0%N (l := x :: l)) at 2 by discriminate.
    apply in_or_app. right. now left. }
  apply Hnum in Hin. apply is_alpha_not_digit in Ha. unfold bytes, byte in *. congruence.
Qed.

Lemma fqdn_b_iff h : fqdn_b h = true <-> fqdn h.
Proof.
  unfold fqdn_b, fqdn. split.
  - intros H.
    apply andb_true_iff in H as [H Ha]. apply andb_true_iff in H as [H Hlast].
    apply andb_true_iff in H as [H Hlen]. apply andb_true_iff in H as [H2 Hlab].
    exists (split_dots h). rewrite join_split.
    apply Nat.leb_le in H2, Hlast, Hlen. apply forallb_label in Hlab.
    repeat split; try assumption.
    intros Hnum. apply negb_true_iff in Ha.
    assert (X : forallb is_digit (last (split_dots h) []) = true).
    { apply forallb_forall. unfold all_numeric in Hnum. rewrite Forall_forall in Hnum. exact Hnum. }
    congruence.
  - intros (ls & -> & H2 & Hlab & Hlen & Hlast & Ha).
    assert (Hne : ls <> []) by (destruct ls; [simpl in H2; ulia|discriminate]).
    assert (Hnd : Forall nodot ls).
    { apply Forall_forall. intros l Hl Hin. rewrite Forall_forall in Hlab. destruct (Hlab l Hl) as [_ Hc].
      rewrite Forall_forall in Hc. apply Hc in Hin. vm_compute in Hin. discriminate. }
    rewrite (split_join ls Hne Hnd).
    apply forallb_label in Hlab. rewrite Hlab.
    assert (Hd : forallb is_digit (last ls []) = false).
    { destruct (forallb is_digit (last ls [])) eqn:F; [|reflexivity]. exfalso. apply Ha.
      unfold all_numeric. apply Forall_forall. rewrite forallb_forall in F. exact F. }
    rewrite Hd.
    repeat (apply andb_true_iff; split); try reflexivity; apply Nat.leb_le; assumption.
Qed.

(* ------------------------------------------------------------------ the theorems *)

(** domainvalid() on a buffer holding the name [h] and its terminator returns 0 exactly when
    [h] is a fully-qualified name ending in a letter, 1 otherwise, and reads nothing behind
    the terminator ([rest] is arbitrary, the result is never [Crash]) *)
Theorem domainvalid_exact h rest : ~ In NUL h ->
  domainvalid (h ++ NUL :: rest) = Ok (if fqdn_strict_b h then 0 else 1).
Proof. intros H. rewrite domainvalid_run by assumption. now rewrite dv_b_eq. Qed.

Theorem domainvalid_iff h rest : ~ In NUL h ->
  (domainvalid (h ++ NUL :: rest) = Ok 0 <-> fqdn_strict h).
Proof.
  intros H. rewrite domainvalid_exact by assumption. rewrite <- fqdn_strict_b_iff.
  destruct (fqdn_strict_b h); split; intros X; try reflexivity; try discriminate.
Qed.

Theorem domainvalid_sound h rest : ~ In NUL h ->
  domainvalid (h ++ NUL :: rest) = Ok 0 -> fqdn h.
Proof. intros H X. apply fqdn_strict_fqdn. now apply (domainvalid_iff h rest H). Qed.

Theorem domainvalid_01 h rest : ~ In NUL h ->
  domainvalid (h ++ NUL :: rest) = Ok 0 \/ domainvalid (h ++ NUL :: rest) = Ok 1.
Proof. intros H. rewrite domainvalid_exact by assumption. destruct (fqdn_strict_b h); auto. Qed.

(** The IPv4 text the reference inet_pton (Model/InetPton.v, glibc's inet_pton4) accepts is exactly
    Snum "." Snum "." Snum "." Snum with Snum = a decimal number 0..255 without a leading zero. *)
From Qv Require Import Common.Bytes Model.InetPton Spec.AddrSpec Spec.AddrGrammar Proofs.DomainProofs.

Local Arguments N.eqb : simpl never.

Lemma dec_value_app a b acc : dec_value (a ++ b) acc = dec_value b (dec_value a acc).
Proof. revert acc. induction a as [|x a IH]; intros acc; [reflexivity|]. cbn [app dec_value]. apply IH. Qed.

Lemma dec_value_ge l acc : (acc <= dec_value l acc)%N.
Proof. revert acc. induction l as [|x l IH]; intros acc; cbn [dec_value]; [lia|]. specialize (IH (acc * 10 + (x - 48))%N). lia. Qed.

Lemma digit_not_dot c : is_digit c = true -> c <> DOT.
Proof. intros H ->. discriminate. Qed.

(** the digits of the current octet read so far *)
Definition okpre (pre : bytes) : Prop :=
  Forall (fun c => is_digit c = true) pre /\ (dec_value pre 0 <= 255)%N /\ (hd 0%N pre = 48%N -> pre = [48%N]).

Lemma zero_value pre : Forall (fun c => is_digit c = true) pre -> pre <> [] -> dec_value pre 0 = 0%N -> hd 0%N pre = 48%N.
Proof.
  intros HF Hne Hv. destruct pre as [|c pre]; [congruence|]. cbn [hd]. cbn [dec_value] in Hv.
  pose proof (dec_value_ge pre (0 * 10 + (c - 48))%N) as G. inversion HF as [|? ? Hc _]; subst.
  unfold is_digit in Hc. apply andb_true_iff in Hc as [H1 H2]. apply N.leb_le in H1, H2. lia.
Qed.

Lemma pton4_loop_iff src : forall pre oc, okpre pre -> (pre = [] -> oc < 4) -> (pre <> [] -> 1 <= oc) -> oc <= 4 ->
  (pton4_loop src (dec_value pre 0) (negb (Nat.eqb (length pre) 0)) oc = true <->
   exists l0 tl, split_dots src = l0 :: tl /\ snum (pre ++ l0) /\ Forall snum tl
     /\ oc + (if Nat.eqb (length pre) 0 then 1 else 0) + length tl = 4).
Proof.
  induction src as [|c src IH]; intros pre oc (Hd & Hv & Hz) Hlt Hge Hle.
  - cbn [pton4_loop split_dots]. rewrite Nat.leb_le. split.
    + intros H. exists [], []. split; [reflexivity|]. rewrite app_nil_r.
      destruct pre as [|p pre]; [specialize (Hlt eq_refl); lia|].
      split; [split; [discriminate|auto]|]. split; [constructor|]. cbn [length Nat.eqb]. lia.
    + intros (l0 & tl & E & Hs & _ & Hc). inversion E; subst l0 tl. rewrite app_nil_r in Hs.
      destruct pre as [|p pre]; [destruct Hs as [X _]; congruence|]. cbn [length Nat.eqb] in Hc. lia.
  - cbn [pton4_loop]. cbn [split_dots].
    destruct (split_dots src) as [|l0 tl] eqn:Es; [now apply split_dots_nonnil in Es|].
    destruct (is_digit c) eqn:Edig.
    + (* a digit *)
      assert (Hcd : N.eqb c DOT = false) by (apply N.eqb_neq; now apply digit_not_dot). rewrite Hcd.
      set (new := (dec_value pre 0 * 10 + (c - 48))%N).
      assert (Hnew : dec_value (pre ++ [c]) 0 = new) by (rewrite dec_value_app; reflexivity).
      destruct pre as [|p pre'] eqn:Epre.
      * (* first digit of an octet *)
        cbn [length Nat.eqb negb andb]. cbn [dec_value] in new.
        assert (Hc255 : (new <= 255)%N).
        { unfold new. unfold is_digit in Edig. apply andb_true_iff in Edig as [H1 H2]. apply N.leb_le in H1, H2. lia. }
        destruct (N.ltb_spec 255 new) as [X|_]; [lia|].
        specialize (Hlt eq_refl). destruct (Nat.ltb_spec 4 (S oc)) as [X|_]; [lia|].
        assert (Hok : okpre [c]).
        { split; [constructor; [exact Edig|constructor]|]. split; [exact Hc255|]. cbn [hd]. intros ->. reflexivity. }
        specialize (IH [c] (S oc) Hok ltac:(discriminate) ltac:(intros _; lia) ltac:(lia)).
        cbn [length Nat.eqb negb] in IH. change (dec_value [c] 0) with new in IH. rewrite IH.
        split; intros (l0' & tl' & E & Hs & Hf & Hc); inversion E; subst l0' tl'.
        -- exists (c :: l0), tl. split; [reflexivity|]. split; [exact Hs|]. split; [exact Hf|]. cbn [length Nat.eqb] in *. lia.
        -- exists l0, tl. split; [reflexivity|]. split; [exact Hs|]. split; [exact Hf|]. cbn [length Nat.eqb] in *. lia.
      * (* a further digit *)
        rewrite <- Epre in *. assert (Hne : pre <> []) by (rewrite Epre; discriminate).
        assert (Hl : Nat.eqb (length pre) 0 = false) by (rewrite Epre; reflexivity). rewrite Hl. cbn [negb andb].
        destruct (N.eqb_spec (dec_value pre 0) 0) as [E0|E0].
        { (* leading zero *)
          split; [discriminate|]. intros (l0' & tl' & E & Hs & _). inversion E; subst l0' tl'.
          pose proof (zero_value pre Hd Hne E0) as Hh. destruct Hs as (_ & _ & _ & Hz').
          assert (X : hd 0%N (pre ++ c :: l0) = 48%N) by (rewrite Epre in *; exact Hh).
          apply Hz' in X. rewrite Epre in X. destruct pre'; discriminate. }
        destruct (N.ltb_spec 255 new) as [Hbig|Hsmall].
        { split; [discriminate|]. intros (l0' & tl' & E & Hs & _). inversion E; subst l0' tl'.
          destruct Hs as (_ & _ & Hv' & _).
          replace (pre ++ c :: l0) with ((pre ++ [c]) ++ l0) in Hv' by (rewrite <- app_assoc; reflexivity).
          rewrite dec_value_app, Hnew in Hv'. pose proof (dec_value_ge l0 new). lia. }
        assert (Hok : okpre (pre ++ [c])).
        { split; [apply Forall_app; split; [exact Hd|constructor; [exact Edig|constructor]]|].
          split; [rewrite Hnew; exact Hsmall|].
          intros Hh. exfalso. apply E0.
          assert (X : hd 0%N pre = 48%N) by (rewrite Epre in *; exact Hh). apply Hz in X. rewrite X. reflexivity. }
        specialize (IH (pre ++ [c]) oc Hok).
        assert (Hl2 : Nat.eqb (length (pre ++ [c])) 0 = false) by (rewrite app_length; cbn [length]; destruct (length pre); reflexivity).
        rewrite Hl2, Hnew in IH. cbn [negb] in IH.
        rewrite IH; [|intros X; destruct pre; discriminate|intros _; now apply Hge|exact Hle].
        split; intros (l0' & tl' & E & Hs & Hf & Hc); inversion E; subst l0' tl'.
        -- exists (c :: l0), tl. split; [reflexivity|]. rewrite <- app_assoc in Hs. auto.
        -- exists l0, tl. split; [reflexivity|]. rewrite <- app_assoc. auto.
    + destruct (N.eqb_spec c DOT) as [->|Hnd]; cbn [andb].
      * destruct pre as [|p pre'] eqn:Epre.
        { (* a dot without a digit before it *)
          cbn [length Nat.eqb negb]. split; [discriminate|].
          intros (l0' & tl' & E & Hs & _). inversion E; subst l0' tl'. destruct Hs as [X _]. cbn [app] in X. congruence. }
        rewrite <- Epre in *. assert (Hne : pre <> []) by (rewrite Epre; discriminate).
        assert (Hl : Nat.eqb (length pre) 0 = false) by (rewrite Epre; reflexivity). rewrite Hl. cbn [negb].
        assert (Hsp : snum pre) by (split; [exact Hne|]; auto).
        destruct (Nat.eqb_spec oc 4) as [E4|E4].
        { split; [discriminate|]. intros (l0' & tl' & E & _ & _ & Hc). inversion E; subst l0' tl'. cbn [length] in Hc. lia. }
        specialize (IH [] oc). cbn [length Nat.eqb negb dec_value] in IH.
        rewrite IH; [|split; [constructor|split; [cbn; lia|cbn; discriminate]]|intros _; lia|congruence|exact Hle].
        split.
        -- intros (l0' & tl' & E & Hs & Hf & Hc). inversion E; subst l0' tl'.
           exists [], (l0 :: tl). split; [reflexivity|]. rewrite app_nil_r. split; [exact Hsp|].
           split; [constructor; assumption|]. cbn [length]. lia.
        -- intros (l0' & tl' & E & Hs & Hf & Hc). inversion E; subst l0' tl'. inversion Hf; subst.
           exists l0, tl. split; [reflexivity|]. split; [assumption|]. split; [assumption|]. cbn [length] in Hc. lia.
      * (* any other byte *)
        split; [discriminate|]. intros (l0' & tl' & E & Hs & _).
        inversion E; subst l0' tl'.
        destruct Hs as (_ & HF & _). apply Forall_app in HF as [_ HF]. inversion HF; subst. congruence.
Qed.

Lemma snum_nodot l : snum l -> nodot l.
Proof. intros (_ & HF & _) X. rewrite Forall_forall in HF. apply HF in X. discriminate. Qed.

(** IPv4-address-literal: the reference inet_pton(AF_INET) accepts exactly the dotted quads *)
Theorem pton4_ref_iff s : pton4_ref s = true <-> dotted_quad s.
Proof.
  unfold pton4_ref.
  pose proof (pton4_loop_iff s [] 0) as H. cbn [length Nat.eqb negb dec_value app] in H.
  rewrite H; [|split; [constructor|split; [cbn; lia|cbn; discriminate]]|intros _; lia|congruence|lia]. clear H.
  split.
  - intros (a & tl & E & Ha & Hf & Hc).
    destruct tl as [|b [|c [|d [|]]]]; cbn [length] in Hc; try lia.
    inversion Hf as [|? ? Hb Hf2]; subst. inversion Hf2 as [|? ? Hc' Hf3]; subst. inversion Hf3 as [|? ? Hd' _]; subst.
    exists a, b, c, d. split; [|auto]. rewrite <- (join_split s), E. reflexivity.
  - intros (a & b & c & d & -> & Ha & Hb & Hc & Hd).
    exists a, [b; c; d]. split.
    + rewrite split_app_dot by now apply snum_nodot. f_equal.
      rewrite split_app_dot by now apply snum_nodot. f_equal.
      rewrite split_app_dot by now apply snum_nodot. f_equal.
      apply split_nodot. now apply snum_nodot.
    + split; [exact Ha|]. split; [|reflexivity]. constructor; [exact Hb|]. constructor; [exact Hc|]. constructor; [exact Hd|constructor].
Qed.

(** The IPv4 text the reference inet_pton (Model/InetPton.v, glibc's inet_pton4) accepts is exactly
    Snum "." Snum "." Snum "." Snum with Snum = a decimal number 0..255 without a leading zero. *)
From Qv Require Import Common.Bytes Model.InetPton Spec.AddrSpec Spec.AddrGrammar Proofs.DomainProofs.

Local Arguments N.eqb : simpl never.

Lemma dec_value_app a b acc : dec_value (a ++ b) acc = dec_value b (dec_value a acc).
Proof. revert acc. induction a as [|x a IH]; intros acc; [reflexivity|]. cbn [app dec_value]. apply IH. Qed.

Lemma dec_value_ge l acc : (acc <= dec_value l acc)%N.
Proof. revert acc. induction l as [|x l IH]; intros acc; cbn [dec_value]; [lia|]. specialize (IH (acc * 10 + (x - 48))%N). lia. Qed.

Lemma digit_not_dot c : is_digit c = true -> c <> DOT.
Proof. intros H ->. discriminate. Qed.

(** the digits of the current octet read so far *)
Definition okpre (pre : bytes) : Prop :=
  Forall (fun c => is_digit c = true) pre /\ (dec_value pre 0 <= 255)%N /\ (hd 0%N pre = 48%N -> pre = [48%N]).

Lemma zero_value pre : Forall (fun c => is_digit c = true) pre -> pre <> [] -> dec_value pre 0 = 0%N -> hd 0%N pre = 48%N.
Proof.
  intros HF Hne Hv. destruct pre as [|c pre]; [congruence|]. cbn [hd]. cbn [dec_value] in Hv.
  pose proof (dec_value_ge pre (0 * 10 + (c - 48))%N) as G. inversion HF as [|? ? Hc _]; subst.
  unfold is_digit in Hc. apply andb_true_iff in Hc as [H1 H2]. apply N.leb_le in H1, H2. lia.
Qed.

Lemma pton4_loop_iff src : forall pre oc, okpre pre -> (pre = [] -> oc < 4) -> (pre <> [] -> 1 <= oc) -> oc <= 4 ->
  (pton4_loop src (dec_value pre 0) (negb (Nat.eqb (length pre) 0)) oc = true <->
   exists l0 tl, split_dots src = l0 :: tl /\ snum (pre ++ l0) /\ Forall snum tl
     /\ oc + (if Nat.eqb (length pre) 0 then 1 else 0) + length tl = 4).
Proof.
  induction src as [|c src IH]; intros pre oc (Hd & Hv & Hz) Hlt Hge Hle.
  - cbn [pton4_loop split_dots]. rewrite Nat.leb_le. split.
    + intros H. exists [], []. split; [reflexivity|]. rewrite app_nil_r.
      destruct pre as [|p pre]; [specialize (Hlt eq_refl); lia|].
      split; [split; [discriminate|auto]|]. split; [constructor|]. cbn [length Nat.eqb]. lia.
    + intros (l0 & tl & E & Hs & _ & Hc). inversion E; subst l0 tl. rewrite app_nil_r in Hs.
      destruct pre as [|p pre]; [destruct Hs as [X _]; congruence|]. cbn [length Nat.eqb] in Hc. lia.
  - cbn [pton4_loop]. cbn [split_dots].
    destruct (split_dots src) as [|l0 tl] eqn:Es; [now apply split_dots_nonnil in Es|].
    destruct (is_digit c) eqn:Edig.
    + (* a digit *)
      assert (Hcd : N.eqb c DOT = false) by (apply N.eqb_neq; now apply digit_not_dot). rewrite Hcd.
      set (new := (dec_value pre 0 * 10 + (c - 48))%N).
      assert (Hnew : dec_value (pre ++ [c]) 0 = new) by (rewrite dec_value_app; reflexivity).
      destruct pre as [|p pre'] eqn:Epre.
      * (* first digit of an octet *)
        cbn [length Nat.eqb negb andb]. cbn [dec_value] in new.
        assert (Hc255 : (new <= 255)%N).
        { unfold new. unfold is_digit in Edig. apply andb_true_iff in Edig as [H1 H2]. apply N.leb_le in H1, H2. lia. }
        destruct (N.ltb_spec 255 new) as [X|_]; [lia|].
        specialize (Hlt eq_refl). destruct (Nat.ltb_spec 4 (S oc)) as [X|_]; [lia|].
        assert (Hok : okpre [c]).
        { split; [constructor; [exact Edig|constructor]|]. split; [exact Hc255|]. cbn [hd]. intros ->. reflexivity. }
        specialize (IH [c] (S oc) Hok ltac:(discriminate) ltac:(intros _; lia) ltac:(lia)).
        cbn [length Nat.eqb negb] in IH. change (dec_value [c] 0) with new in IH. rewrite IH.
        split; intros (l0' & tl' & E & Hs & Hf & Hc); inversion E; subst l0' tl'.
        -- exists (c :: l0), tl. split; [reflexivity|]. split; [exact Hs|]. split; [exact Hf|]. cbn [length Nat.eqb] in *. lia.
        -- exists l0, tl. split; [reflexivity|]. split; [exact Hs|]. split; [exact Hf|]. cbn [length Nat.eqb] in *. lia.
      * (* a further digit *)
        rewrite <- Epre in *. assert (Hne : pre <> []) by (rewrite Epre; discriminate).
        assert (Hl : Nat.eqb (length pre) 0 = false) by (rewrite Epre; reflexivity). rewrite Hl. cbn [negb andb].
        destruct (N.eqb_spec (dec_value pre 0) 0) as [E0|E0].
        { (* leading zero *)
          split; [discriminate|]. intros (l0' & tl' & E & Hs & _). inversion E; subst l0' tl'.
          pose proof (zero_value pre Hd Hne E0) as Hh. destruct Hs as (_ & _ & _ & Hz').
          assert (X : hd 0%N (pre ++ c :: l0) = 48%N) by (rewrite Epre in *; exact Hh).
          apply Hz' in X. rewrite Epre in X. destruct pre'; discriminate. }
        destruct (N.ltb_spec 255 new) as [Hbig|Hsmall].
        { split; [discriminate|]. intros (l0' & tl' & E & Hs & _). inversion E; subst l0' tl'.
          destruct Hs as (_ & _ & Hv' & _).
          replace (pre ++ c :: l0) with ((pre ++ [c]) ++ l0) in Hv' by (rewrite <- app_assoc; reflexivity).
          rewrite dec_value_app, Hnew in Hv'. pose proof (dec_value_ge l0 new). lia. }
        assert (Hok : okpre (pre ++ [c])).
        { split; [apply Forall_app; split; [exact Hd|constructor; [exact Edig|constructor]]|].
          split; [rewrite Hnew; exact Hsmall|].
          intros Hh. exfalso. apply E0.
          assert (X : hd 0%N pre = 48%N) by (rewrite Epre in *; exact Hh). apply Hz in X. rewrite X. reflexivity. }
        specialize (IH (pre ++ [c]) oc Hok).
        assert (Hl2 : Nat.eqb (length (pre ++ [c])) 0 = false) by (rewrite app_length; cbn [length]; destruct (length pre); reflexivity).
        rewrite Hl2, Hnew in IH. cbn [negb] in IH.
        rewrite IH; [|intros X; destruct pre; discriminate|intros _; now apply Hge|exact Hle].
        split; intros (l0' & tl' & E & Hs & Hf & Hc); inversion E; subst l0' tl'.
        -- exists (c :: l0), tl. split; [reflexivity|]. rewrite <- app_assoc in Hs. auto.
        -- exists l0, tl. split; [reflexivity|]. rewrite <- app_assoc. auto.
    + destruct (N.eqb_spec c DOT) as [->|Hnd]; cbn [andb].
      * destruct pre as [|p pre'] eqn:Epre.
        { (* a dot without a digit before it *)
          cbn [length Nat.eqb negb]. split; [discriminate|].
          intros (l0' & tl' & E & Hs & _). inversion E; subst l0' tl'. destruct Hs as [X _]. cbn [app] in X. congruence. }
        rewrite <- Epre in *. assert (Hne : pre <> []) by (rewrite Epre; discriminate).
        assert (Hl : Nat.eqb (length pre) 0 = false) by (rewrite Epre; reflexivity). rewrite Hl. cbn [negb].
        assert (Hsp : snum pre) by (split; [exact Hne|]; auto).
        destruct (Nat.eqb_spec oc 4) as [E4|E4].
        { split; [discriminate|]. intros (l0' & tl' & E & _ & _ & Hc). inversion E; subst l0' tl'. cbn [length] in Hc. lia. }
        specialize (IH [] oc). cbn [length Nat.eqb negb dec_value] in IH.
        rewrite IH; [|split; [constructor|split; [cbn; lia|cbn; discriminate]]|intros _; lia|congruence|exact Hle].
        split.
        -- intros (l0' & tl' & E & Hs & Hf & Hc). inversion E; subst l0' tl'.
           exists [], (l0 :: tl). split; [reflexivity|]. rewrite app_nil_r. split; [exact Hsp|].
           split; [constructor; assumption|]. cbn [length]. lia.
        -- intros (l0' & tl' & E & Hs & Hf & Hc). inversion E; subst l0' tl'. inversion Hf; subst.
           exists l0, tl. split; [reflexivity|]. split; [assumption|]. split; [assumption|]. cbn [length] in Hc. lia.
      * (* any other byte *)
        split; [discriminate|]. intros (l0' & tl' & E & Hs & _).
        inversion E; subst l0' tl'.
        destruct Hs as (_ & HF & _). apply Forall_app in HF as [_ HF]. inversion HF; subst. congruence.
Qed.

Lemma snum_nodot l : snum l -> nodot l.
Proof. intros (_ & HF & _) X. rewrite Forall_forall in HF. apply HF in X. discriminate. Qed.

(** IPv4-address-literal: the reference inet_pton(AF_INET) accepts exactly the dotted quads *)
Theorem pton4_ref_iff s : pton4_ref s = true <-> dotted_quad s.
Proof.
  unfold pton4_ref.
  pose proof (pton4_loop_iff s [] 0) as H. cbn [length Nat.eqb negb dec_value app] in H.
  rewrite H; [|split; [constructor|split; [cbn; lia|cbn; discriminate]]|intros _; lia|congruence|lia]. clear H.
  split.
  - intros (a & tl & E & Ha & Hf & Hc).
    destruct tl as [|b [|c [|d [|]]]]; cbn [length] in Hc; try lia.
    inversion Hf as [|? ? Hb Hf2]; subst. inversion Hf2 as [|? ? Hc' Hf3]; subst. inversion Hf3 as [|? ? Hd' _]; subst.
    exists a, b, c, d. split; [|auto]. rewrite <- (join_split s), E. reflexivity.
  - intros (a & b & c & d & -> & Ha & Hb & Hc & Hd).
    exists a, [b; c; d]. split.
    + rewrite split_app_dot by now apply snum_nodot. f_equal.
      rewrite split_app_dot by now apply snum_nodot. f_equal.
      rewrite split_app_dot by now apply snum_nodot. f_equal.
      apply split_nodot. now apply snum_nodot.
    + split; [exact Ha|]. split; [|reflexivity]. constructor; [exact Hb|]. constructor; [exact Hc|]. constructor; [exact Hd|constructor].
Qed.

(* ------------------------------------------------------------------ IPv6 *)

Lemma hexval_hexdig c : hexdig c = true <-> exists d, hexval c = Some d /\ (d < 16)%N.
Proof.
  unfold hexdig, hexval, is_digit.
  destruct (N.leb_spec 48 c); destruct (N.leb_spec c 57); cbn [andb orb];
  [split; [intros _; eexists; split; [reflexivity|lia]|reflexivity]| | |];
  destruct (N.leb_spec 97 c); destruct (N.leb_spec c 102); cbn [andb orb];
  try (split; [intros _; eexists; split; [reflexivity|lia]|reflexivity]);
  destruct (N.leb_spec 65 c); destruct (N.leb_spec c 70); cbn [andb orb];
  try (split; [intros _; eexists; split; [reflexivity|lia]|reflexivity]);
  split; try discriminate; intros (d & X & _); discriminate.
Qed.

Lemma hexdig_not_colon c : hexdig c = true -> c <> cCOLON /\ c <> DOT.
Proof.
  intros H. split; intros ->; discriminate.
Qed.

Lemma snum_len a : snum a -> length a <= 3 /\ Forall (fun c => hexdig c = true) a.
Proof.
  intros (Hne & HF & Hv & Hz). split.
  - destruct a as [|c1 [|c2 [|c3 [|c4 r]]]]; cbn [length]; try lia. exfalso.
    inversion HF as [|? ? H1 _]; subst. unfold is_digit in H1. apply andb_true_iff in H1 as [A B]. apply N.leb_le in A, B.
    assert (c1 <> 48%N) by (intros ->; specialize (Hz eq_refl); discriminate).
    cbn [dec_value] in Hv.
    pose proof (dec_value_ge r ((((0 * 10 + (c1 - 48)) * 10 + (c2 - 48)) * 10 + (c3 - 48)) * 10 + (c4 - 48))%N). lia.
  - eapply Forall_impl; [|exact HF]. intros c Hc. unfold hexdig. now rewrite Hc.
Qed.

Lemma dotted_quad_chars q : dotted_quad q -> Forall (fun c => ip6char c = true) q.
Proof.
  intros (a & b & c & d & -> & Ha & Hb & Hc & Hd).
  assert (G : forall x, snum x -> Forall (fun c => ip6char c = true) x).
  { intros x Hx. destruct (snum_len x Hx) as [_ HF]. eapply Forall_impl; [|exact HF].
    intros y Hy. apply hexval_hexdig in Hy as (v & Hv & _). unfold ip6char. now rewrite Hv. }
  repeat (apply Forall_app; split; [auto|constructor; [reflexivity|]]). auto.
Qed.

Lemma pton6_loop_sound src : forall pre tp comp val,
  Forall (fun c => hexdig c = true) pre -> length pre <= 4 -> tp <= 16 ->
  (pre = [] -> src <> [] \/ comp = true) ->
  pton6_loop src (pre ++ src) tp comp (length pre) val = true -> ip6_rest tp comp (pre ++ src).
Proof.
  induction src as [|ch src IH]; intros pre tp comp val Hpre Hlen Htp Hstart H.
  - cbn [pton6_loop] in H. rewrite app_nil_r. unfold pton6_finish in H.
    destruct pre as [|p pre'] eqn:Epre.
    + destruct (Hstart eq_refl) as [X| ->]; [congruence|]. cbn [length Nat.ltb Nat.leb andb] in H.
      apply negb_true_iff, Nat.eqb_neq in H. apply i6_end. lia.
    + rewrite <- Epre in *. assert (Hx : Nat.ltb 0 (length pre) = true) by (rewrite Epre; reflexivity).
      rewrite Hx in H. cbn [andb] in H.
      destruct (Nat.ltb_spec 16 (tp + 2)) as [X|Hok]; [discriminate|].
      apply i6_last; [split; [rewrite Epre in *; cbn [length] in *; lia|exact Hpre]|].
      unfold ip6_fits. destruct comp; [apply negb_true_iff, Nat.eqb_neq in H; lia|apply Nat.eqb_eq in H; exact H].
  - cbn [pton6_loop] in H. destruct (hexval ch) as [d|] eqn:Ehex.
    + destruct (Nat.eqb_spec (length pre) 4) as [X|Hn4]; [discriminate|].
      destruct (N.ltb 65535 (val * 16 + d)); [discriminate|].
      replace (pre ++ ch :: src) with ((pre ++ [ch]) ++ src) in * by (rewrite <- app_assoc; reflexivity).
      apply (IH (pre ++ [ch]) tp comp (val * 16 + d)%N); try assumption.
      * apply Forall_app. split; [exact Hpre|]. constructor; [|constructor]. apply hexval_hexdig. 
        assert (Hd : hexdig ch = true).
        { unfold hexdig, hexval, is_digit in *. destruct (N.leb 48 ch && N.leb ch 57); [reflexivity|].
          destruct (N.leb 97 ch && N.leb ch 102); [reflexivity|]. destruct (N.leb 65 ch && N.leb ch 70); [reflexivity|discriminate]. }
        now apply hexval_hexdig.
      * rewrite app_length. cbn [length]. lia.
      * intros X. destruct pre; discriminate.
      * rewrite app_length. cbn [length]. replace (length pre + 1) with (S (length pre)) by lia. exact H.
    + destruct (N.eqb_spec ch 58) as [->|Hnc].
      * destruct (Nat.eqb_spec (length pre) 0) as [E0|E0].
        -- destruct pre; [|discriminate]. cbn [app]. destruct comp; [discriminate|].
           apply i6_comp. apply (IH [] tp true val); [constructor|cbn; lia|exact Htp|intros _; now right|exact H].
        -- destruct src as [|c2 src']; [discriminate|].
           destruct (Nat.ltb_spec 16 (tp + 2)) as [X|Hok]; [discriminate|].
           apply i6_group; [split; [lia|exact Hpre]|exact Hok|discriminate|].
           apply (IH [] (tp + 2) comp 0%N); [constructor|cbn; lia|exact Hok|intros _; left; discriminate|exact H].
      * destruct (N.eqb_spec ch DOT) as [->|Hnd]; cbn [andb] in H; [|discriminate].
        destruct (Nat.leb_spec (tp + 4) 16) as [Hok|X]; cbn [andb] in H; [|discriminate].
        destruct (pton4_ref (pre ++ DOT :: src)) eqn:E4; [|discriminate].
        apply pton4_ref_iff in E4. unfold pton6_finish in H. cbn [Nat.ltb Nat.leb andb] in H.
        apply i6_v4; [exact E4|]. unfold ip6_fits.
        destruct comp; [apply negb_true_iff, Nat.eqb_neq in H; lia|apply Nat.eqb_eq in H; exact H].
Qed.

(** consuming the hex digits of one group *)
Lemma hex_run g : forall xd val tail curtok tp comp, Forall (fun c => hexdig c = true) g -> xd + length g <= 4 ->
  (val < 16 ^ N.of_nat xd)%N ->
  exists val', (val' < 16 ^ N.of_nat (xd + length g))%N /\
    pton6_loop (g ++ tail) curtok tp comp xd val = pton6_loop tail curtok tp comp (xd + length g) val'.
Proof.
  induction g as [|c g IH]; intros xd val tail curtok tp comp HF Hlen Hval.
  - exists val. cbn [length app]. rewrite Nat.add_0_r. auto.
  - inversion HF as [|? ? Hc HF']; subst. apply hexval_hexdig in Hc as (d & Hd & Hd16).
    cbn [app pton6_loop]. rewrite Hd. cbn [length] in Hlen.
    destruct (Nat.eqb_spec xd 4) as [X|_]; [lia|].
    assert (Hnew : (val * 16 + d < 16 ^ N.of_nat (S xd))%N).
    { rewrite Nat2N.inj_succ, N.pow_succ_r'. lia. }
    assert (H4 : (16 ^ N.of_nat (S xd) <= 65536)%N).
    { change 65536%N with (16 ^ 4)%N. apply N.pow_le_mono_r; lia. }
    destruct (N.ltb_spec 65535 (val * 16 + d)) as [X|_]; [lia|].
    destruct (IH (S xd) (val * 16 + d)%N tail curtok tp comp HF' ltac:(lia) Hnew) as (val' & Hv' & Hrun).
    exists val'. cbn [length]. replace (xd + S (length g)) with (S xd + length g) by lia. auto.
Qed.

Lemma pton6_loop_complete tp comp t : ip6_rest tp comp t -> pton6_loop t t tp comp 0 0%N = true.
Proof.
  induction 1 as [g tp comp [Hg1 Hg2] Hc|g rest tp comp [Hg1 Hg2] Htp Hne _ IH|rest tp _ IH|tp Htp|q tp comp Hq Hc].
  - destruct (hex_run g 0 0%N [] g tp comp Hg2 ltac:(lia) ltac:(cbn; lia)) as (v & _ & Hrun).
    rewrite app_nil_r in Hrun. rewrite Hrun. cbn [pton6_loop Nat.add]. unfold pton6_finish.
    assert (Hx : Nat.ltb 0 (length g) = true) by (apply Nat.ltb_lt; lia). rewrite Hx. cbn [andb].
    unfold ip6_fits in Hc. destruct comp.
    + destruct (Nat.ltb_spec 16 (tp + 2)); [lia|]. apply negb_true_iff, Nat.eqb_neq. lia.
    + destruct (Nat.ltb_spec 16 (tp + 2)); [lia|]. apply Nat.eqb_eq. lia.
  - destruct (hex_run g 0 0%N (cCOLON :: rest) (g ++ cCOLON :: rest) tp comp Hg2 ltac:(lia) ltac:(cbn; lia)) as (v & _ & Hrun).
    rewrite Hrun. cbn [pton6_loop Nat.add]. change (hexval cCOLON) with (@None N). cbn iota.
    change (N.eqb cCOLON 58) with true. cbn iota.
    destruct (Nat.eqb_spec (length g) 0) as [X|_]; [lia|].
    destruct rest as [|r0 rest']; [congruence|].
    destruct (Nat.ltb_spec 16 (tp + 2)); [lia|]. exact IH.
  - cbn [pton6_loop]. change (hexval cCOLON) with (@None N). cbn iota. change (N.eqb cCOLON 58) with true. cbn iota.
    cbn [Nat.eqb]. exact IH.
  - cbn [pton6_loop]. unfold pton6_finish. cbn [Nat.ltb Nat.leb andb]. apply negb_true_iff, Nat.eqb_neq. lia.
  - pose proof Hq as (a & b & c & d & Eq & Ha & _). destruct (snum_len a Ha) as [Hl Hh].
    rewrite Eq at 1.
    destruct (hex_run a 0 0%N (DOT :: b ++ DOT :: c ++ DOT :: d) q tp comp Hh ltac:(lia) ltac:(cbn; lia)) as (v & _ & Hrun).
    rewrite Hrun. cbn [pton6_loop Nat.add]. change (hexval DOT) with (@None N). cbn iota.
    change (N.eqb DOT 58) with false. cbn iota. rewrite N.eqb_refl. cbn [andb].
    rewrite (proj2 (pton4_ref_iff q) Hq).
    unfold ip6_fits in Hc. destruct comp.
    + destruct (Nat.leb_spec (tp + 4) 16); [|lia]. cbn [andb]. unfold pton6_finish. cbn [Nat.ltb Nat.leb andb].
      apply negb_true_iff, Nat.eqb_neq. lia.
    + destruct (Nat.leb_spec (tp + 4) 16); [|lia]. cbn [andb]. unfold pton6_finish. cbn [Nat.ltb Nat.leb andb].
      apply Nat.eqb_eq. lia.
Qed.

Lemma ip6_rest_chars tp comp t : ip6_rest tp comp t -> Forall (fun c => ip6char c = true) t.
Proof.
  assert (G : forall g, hex4 g -> Forall (fun c => ip6char c = true) g).
  { intros g [_ HF]. eapply Forall_impl; [|exact HF]. intros y Hy. apply hexval_hexdig in Hy as (v & Hv & _).
    unfold ip6char. now rewrite Hv. }
  induction 1 as [g tp comp Hg _|g rest tp comp Hg _ _ _ IH|rest tp _ IH|tp _|q tp comp Hq _].
  - now apply G.
  - apply Forall_app. split; [now apply G|]. constructor; [reflexivity|exact IH].
  - constructor; [reflexivity|exact IH].
  - constructor.
  - now apply dotted_quad_chars.
Qed.

(** IPv6 text: the reference inet_pton(AF_INET6) accepts exactly the strings of the grammar [ip6_text] *)
Theorem pton6_ref_iff s : pton6_ref s = true <-> ip6_text s.
Proof.
  unfold pton6_ref, pton6_core, ip6_text. split.
  - intros H. apply andb_true_iff in H as [_ H].
    destruct s as [|c s']; [discriminate|].
    destruct (N.eqb_spec c 58) as [->|Hc].
    + destruct s' as [|c2 s1]; [discriminate|]. destruct (N.eqb_spec c2 58) as [->|]; [|discriminate].
      left. exists s1. split; [reflexivity|].
      apply (pton6_loop_sound (58%N :: s1) [] 0 false 0%N); [constructor|cbn; lia|lia|intros _; left; discriminate|exact H].
    + right. split; [discriminate|]. split; [exact Hc|].
      apply (pton6_loop_sound (c :: s') [] 0 false 0%N); [constructor|cbn; lia|lia|intros _; left; discriminate|exact H].
  - intros [(s1 & -> & Hr)|(Hne & Hhd & Hr)].
    + apply andb_true_iff. split.
      * apply forallb_forall. apply ip6_rest_chars in Hr. rewrite Forall_forall in Hr.
        intros x [<-|Hx]; [reflexivity|auto].
      * change (N.eqb cCOLON 58) with true. cbn iota. now apply pton6_loop_complete.
    + destruct s as [|c s']; [exfalso; apply Hne; reflexivity|]. cbn [hd] in Hhd. apply andb_true_iff. split.
      * apply forallb_forall. apply ip6_rest_chars in Hr. rewrite Forall_forall in Hr. exact Hr.
      * destruct (N.eqb_spec c 58) as [E|_]; [exfalso; apply Hhd; exact E|]. now apply pton6_loop_complete.
Qed.

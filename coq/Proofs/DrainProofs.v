(** C05 at the level of the DATA command: the loop that skips the rest of a rejected message (smtp_data, label loop_data;
    Model/Session.v [drain]) ends exactly behind the first SUCCESSFULLY read line that is the lone dot.  Lines that are
    something else and read errors (over-long line, stray CR / bare LF) never end it.  For every reader state, byte stream
    and segmentation. *)
From Qv Require Import Common.Bytes Model.NetRead Model.Session.

(** [reads_to_dot r r']: from reader state [r] the items handed out are: any number of lines other than the lone dot and
    of read errors, then the line "." - and [r'] is the state right behind it *)
Inductive reads_to_dot : rstate -> rstate -> Prop :=
| rtd_here r l r' : net_read r = (Line l, r') -> is_dot l = true -> reads_to_dot r r'
| rtd_line r l r1 r' : net_read r = (Line l, r1) -> is_dot l = false -> reads_to_dot r1 r' -> reads_to_dot r r'
| rtd_err r it r1 r' : net_read r = (it, r1) -> it = Einval \/ it = E2big -> reads_to_dot r1 r' -> reads_to_dot r r'.

Theorem drain_stops_at_dot fuel : forall r last r', is_dot last = false ->
  drain fuel r last = (true, r') -> reads_to_dot r r'.
Proof.
  induction fuel as [|f IH]; intros r last r' Hl H; cbn [drain] in H; rewrite Hl in H; [discriminate H|].
  destruct (net_read r) as [it r1] eqn:E. destruct it as [l| | | |].
  - destruct (is_dot l) eqn:Ed.
    + destruct f as [|f']; cbn [drain] in H; rewrite Ed in H; inversion H; subst; eapply rtd_here; eauto.
    + eapply rtd_line; eauto.
  - eapply rtd_err; eauto.
  - eapply rtd_err; eauto.
  - discriminate H.
  - discriminate H.
Qed.

(** the loop of err_write stops at the lone dot or at the first read error, never at another line *)
Inductive reads_to_dot_or_err : rstate -> bool -> rstate -> Prop :=
| rte_here r l r' : net_read r = (Line l, r') -> is_dot l = true -> reads_to_dot_or_err r false r'
| rte_line r l r1 e r' : net_read r = (Line l, r1) -> is_dot l = false -> reads_to_dot_or_err r1 e r' -> reads_to_dot_or_err r e r'
| rte_err r it r' : net_read r = (it, r') -> it = Einval \/ it = E2big -> reads_to_dot_or_err r true r'.

Theorem drain_break_stops fuel : forall r last e r', is_dot last = false ->
  drain_break fuel r last = (true, e, r') -> reads_to_dot_or_err r e r'.
Proof.
  induction fuel as [|f IH]; intros r last e r' Hl H; cbn [drain_break] in H; rewrite Hl in H; [discriminate H|].
  destruct (net_read r) as [it r1] eqn:E. destruct it as [l| | | |].
  - destruct (is_dot l) eqn:Ed.
    + destruct f as [|f']; cbn [drain_break] in H; rewrite Ed in H; inversion H; subst; eapply rte_here; eauto.
    + eapply rte_line; eauto.
  - inversion H; subst. eapply rte_err; eauto.
  - inversion H; subst. eapply rte_err; eauto.
  - discriminate H.
  - discriminate H.
Qed.

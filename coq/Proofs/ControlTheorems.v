(** The C16 statements in the form they are published in Props/Properties_C16.v. *)
From Qv Require Import Common.Bytes Gen.GenControl Model.FindDomain Model.MatchNet Spec.ControlSpec
  Proofs.FindDomainProofs Proofs.MatchNetProofs Proofs.IpblProofs.

Definition nonul (s : bytes) : Prop := Forall (fun x => x <> 0%N) s.

Theorem finddomain_full (buf name : bytes) :
  nonul name ->
  exists b, finddomain buf name = Ok b /\
            (b = true <-> exists e, In e (fd_entries buf) /\ entry_matches e name).
Proof.
  intros Hn. exists (fd_spec buf name). split.
  - rewrite finddomain_correct, (cstr_id name Hn). reflexivity.
  - apply fd_spec_iff.
Qed.

Theorem finddomain_property (buf name : bytes) :
  nonul name -> dot_led name = false ->
  exists b, finddomain buf name = Ok b /\
            (b = true <-> exists e, In e (fd_entries buf) /\
                                    (lower name = lower e \/ (dot_led e = true /\ ci_suffix e name))).
Proof.
  intros Hn Hd. destruct (finddomain_full buf name Hn) as (b & E & H). exists b. split; [assumption|].
  rewrite H. split; intros (e & Hin & Hm); exists e; (split; [assumption|]);
    now apply (entry_matches_property e name Hd).
Qed.

Theorem matchdomain_full (name expr : bytes) :
  nonul name -> nonul expr ->
  (matchdomain name expr = true <-> expr_matches expr name).
Proof.
  intros Hn He. rewrite matchdomain_correct, (cstr_id name Hn), (cstr_id expr He). apply expr_matchb_iff.
Qed.

Theorem ip4_matchnet_full (ip net : bytes) (mask : N) :
  length ip = 16 -> 4 <= length net -> bytes_ok ip -> bytes_ok net -> (mask <= 32)%N ->
  exists b, ip4_matchnet ip net mask = Ok b /\ (b = true <-> in_net4 ip net mask).
Proof.
  intros. exists (in_net4b ip net mask). split; [now apply ip4_matchnet_correct|].
  unfold in_net4b, in_net4, same_prefixb, same_prefix. apply N.eqb_eq.
Qed.

Theorem ip6_matchnet_full (ip net : bytes) (mask : N) :
  length ip = 16 -> 16 <= length net -> bytes_ok ip -> bytes_ok net -> (mask <= 128)%N ->
  exists b, ip6_matchnet ip net mask = Ok b /\ (b = true <-> in_net6 ip net mask).
Proof.
  intros. exists (in_net6b ip net mask). split; [now apply ip6_matchnet_correct|].
  unfold in_net6b, in_net6, same_prefixb, same_prefix. apply N.eqb_eq.
Qed.

(** reading of [ipbl_spec] *)
Theorem ipbl_spec_meaning (iplen : nat) (innet : bytes -> bytes -> N -> bool) (ip : bytes) (recs : list bytes) :
  (ipbl_spec iplen innet ip recs = (-1)%Z <-> exists r, In r recs /\ rec_valid iplen r = false) /\
  (ipbl_spec iplen innet ip recs = 1%Z <->
     (forall r, In r recs -> rec_valid iplen r = true) /\ exists r, In r recs /\ innet ip r (rec_mask iplen r) = true) /\
  (ipbl_spec iplen innet ip recs = 0%Z <->
     (forall r, In r recs -> rec_valid iplen r = true) /\ forall r, In r recs -> innet ip r (rec_mask iplen r) = false).
Proof.
  unfold ipbl_spec.
  destruct (forallb (rec_valid iplen) recs) eqn:Hv.
  - rewrite forallb_forall in Hv.
    destruct (existsb (fun r => innet ip r (rec_mask iplen r)) recs) eqn:He.
    + apply existsb_exists in He. repeat split; try discriminate; auto.
      * intros (r & Hin & Hf). rewrite (Hv r Hin) in Hf. discriminate.
      * intros [_ Hn]. destruct He as (r & Hin & Ht). rewrite (Hn r Hin) in Ht. discriminate.
    + repeat split; try discriminate; auto.
      * intros (r & Hin & Hf). rewrite (Hv r Hin) in Hf. discriminate.
      * intros [_ (r & Hin & Ht)]. assert (existsb (fun r => innet ip r (rec_mask iplen r)) recs = true)
          by (apply existsb_exists; eauto). congruence.
      * intros r Hin. destruct (innet ip r (rec_mask iplen r)) eqn:Ht; [|reflexivity].
        assert (existsb (fun r => innet ip r (rec_mask iplen r)) recs = true) by (apply existsb_exists; eauto). congruence.
  - assert (Hex : exists r, In r recs /\ rec_valid iplen r = false).
    { clear -Hv. induction recs as [|r recs IH]; [discriminate|]. cbn in Hv.
      destruct (rec_valid iplen r) eqn:E.
      - destruct (IH Hv) as (r' & Hin & Hf). exists r'. split; [right; assumption|assumption].
      - exists r. split; [left; reflexivity|assumption]. }
    repeat split; try discriminate; auto.
    + intros [Hall _]. destruct Hex as (r & Hin & Hf). rewrite (Hall r Hin) in Hf. discriminate.
    + intros [Hall _]. destruct Hex as (r & Hin & Hf). rewrite (Hall r Hin) in Hf. discriminate.
Qed.

(** the file-level specification cuts the file into its records *)
Theorem ipbl_file_spec_records (iplen : nat) (innet : bytes -> bytes -> N -> bool) (ip : bytes) (recs : list bytes) :
  Forall (fun r => length r = iplen + 1) recs ->
  ipbl_file_spec iplen innet ip (concat recs) = ipbl_spec iplen innet ip recs.
Proof.
  intros Hall. unfold ipbl_file_spec.
  pose proof (concat_length (iplen + 1) recs Hall) as Hlen.
  rewrite Hlen, Nat.mod_mul by lia. cbn [Nat.eqb].
  f_equal. rewrite <- Hlen.
  assert (G : forall fuel, length recs <= fuel -> chunks fuel (iplen + 1) (concat recs) = recs).
  { clear Hlen. induction recs as [|r recs IH]; intros fuel Hf.
    - destruct fuel; reflexivity.
    - inversion Hall as [|? ? Hr Hrs]; subst.
      destruct fuel as [|fuel]; [cbn in Hf; lia|].
      cbn [concat chunks].
      destruct (r ++ concat recs) as [|x xs] eqn:Ecur.
      { apply (f_equal (@length N)) in Ecur. rewrite app_length, Hr in Ecur. cbn in Ecur. lia. }
      rewrite <- Ecur.
      rewrite firstn_app, firstn_all2 by lia. replace (iplen + 1 - length r) with 0 by lia.
      cbn [firstn]. rewrite app_nil_r.
      rewrite skipn_app, skipn_all2 by lia. replace (iplen + 1 - length r) with 0 by lia. cbn [skipn app].
      f_equal. apply IH; [assumption|cbn in Hf; lia]. }
  apply G. rewrite Hlen. nia.
Qed.

Theorem ipbl_bad_size (iplen : nat) (innet : bytes -> bytes -> N -> bool) (ip buf : bytes) :
  length buf mod (iplen + 1) <> 0 -> ipbl_file_spec iplen innet ip buf = (-1)%Z.
Proof. intros H. unfold ipbl_file_spec. apply Nat.eqb_neq in H. now rewrite H. Qed.

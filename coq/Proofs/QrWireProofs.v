(** Composing output pieces: [wire ext8 d t] says that the octets [d] are complete legal lines followed
    by the open (CR/LF-free) rest [t] of a line.  Pieces written one after the other compose by
    [wire_app]; [wire ext8 d []] is [legal_data ext8 d]. *)
From Qv Require Import Common.Bytes Spec.SmtpDataSpec.
Require Import Lia.

Definition wire (ext8 : bool) (d t : bytes) : Prop :=
  exists ls, d = join_crlf ls ++ t /\ Forall (legal_line ext8) ls /\ line_clean t.

Lemma join_app a b : join_crlf (a ++ b) = join_crlf a ++ join_crlf b.
Proof. unfold join_crlf. now rewrite map_app, concat_app. Qed.

Lemma wire_nil ext8 : wire ext8 [] [].
Proof. exists []. repeat split; constructor. Qed.

Lemma wire_app ext8 d1 t1 d2 t2 : wire ext8 d1 t1 -> wire ext8 (t1 ++ d2) t2 -> wire ext8 (d1 ++ d2) t2.
Proof.
  intros (l1 & E1 & F1 & _) (l2 & E2 & F2 & C2). exists (l1 ++ l2). repeat split.
  - rewrite E1, join_app, <- !app_assoc. f_equal. exact E2.
  - apply Forall_app. auto.
  - exact C2.
Qed.

Lemma wire_legal ext8 d : wire ext8 d [] <-> legal_data ext8 d.
Proof.
  split.
  - intros (ls & E & F & _). exists ls. rewrite app_nil_r in E. auto.
  - intros (ls & E & F). exists ls. rewrite app_nil_r. repeat split; auto. constructor.
Qed.

Lemma wire_open ext8 x : line_clean x -> wire ext8 x x.
Proof. intros H. exists []. repeat split; [constructor|exact H]. Qed.

Lemma wire_close ext8 t : legal_line ext8 t -> wire ext8 (t ++ CRLF) [].
Proof.
  intros H. exists [t]. repeat split; [|constructor; [exact H|constructor]|constructor].
  unfold join_crlf. cbn [map concat]. now rewrite !app_nil_r.
Qed.

(** an open rest followed by clean octets stays an open rest *)
Lemma wire_extend ext8 t x : line_clean t -> line_clean x -> wire ext8 (t ++ x) (t ++ x).
Proof. intros A B. apply wire_open. apply Forall_app. auto. Qed.

Lemma legal_line_mono ext8 l : legal_line false l -> legal_line ext8 l.
Proof. intros (A & B & C & D). repeat split; auto. Qed.

Lemma legal_data_mono ext8 d : legal_data false d -> legal_data ext8 d.
Proof.
  intros (ls & E & F). exists ls. split; [exact E|]. eapply Forall_impl; [|exact F]. intros l. apply legal_line_mono.
Qed.

Lemma wire_mono ext8 d t : wire false d t -> wire ext8 d t.
Proof.
  intros (ls & E & F & C). exists ls. repeat split; auto. eapply Forall_impl; [|exact F]. intros l. apply legal_line_mono.
Qed.

(** data that becomes legal when a CRLF is appended: legal lines and a last open line that may be closed *)
Lemma legal_data_open ext8 x : legal_data ext8 (x ++ CRLF) -> exists t, wire ext8 x t /\ legal_line ext8 t.
Proof.
  intros (ls & E & F).
  destruct (rev ls) as [|l rl] eqn:Er.
  - assert (ls = []) by (apply (f_equal (@rev bytes)) in Er; now rewrite rev_involutive in Er). subst ls.
    unfold join_crlf in E. cbn [map concat] in E. destruct x; cbn in E; discriminate.
  - assert (Hls : ls = rev rl ++ [l]) by (apply (f_equal (@rev bytes)) in Er; now rewrite rev_involutive in Er).
    subst ls. rewrite join_app in E. unfold join_crlf at 2 in E. cbn [map concat] in E. rewrite app_nil_r in E.
    rewrite app_assoc in E. apply app_inv_tail in E.
    apply Forall_app in F as [F1 F2]. inversion F2 as [|? ? Hl _]; subst.
    exists l. split; [|exact Hl]. exists (rev rl). repeat split; auto. destruct Hl as (Hc & _). exact Hc.
Qed.

Lemma wire_of_legal_open ext8 x (closing : bytes) :
  (closing = [] \/ closing = CRLF) -> legal_data ext8 (x ++ closing) ->
  exists t, wire ext8 x t /\ legal_line ext8 t /\ (closing = [] -> t = []).
Proof.
  intros [->| ->] H.
  - rewrite app_nil_r in H. exists []. split; [apply wire_legal; exact H|]. split; [|auto].
    repeat split; try constructor; try discriminate. cbn. lia.
  - destruct (legal_data_open ext8 x H) as (t & A & B). exists t. split; [exact A|]. split; [exact B|]. intros F. discriminate F.
Qed.

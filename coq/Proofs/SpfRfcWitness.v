(** C11, stage 3: the evaluator does NOT agree with RFC 7208 (Spec/SpfRfc.v) on every
    macro-free record.  One witness per known class of deviation; agreement outside these
    classes is checked by the correspondence run only (no theorem). *)
From Qv Require Import Common.Bytes Gen.GenSpf Model.SpfBase Model.SpfEnv Model.SpfMacro Model.Spf Model.SpfZone
  Spec.SpfSpec Spec.SpfRfc.
Local Open Scope N_scope.

Definition C11_rfc_agreement_full : Prop :=
  forall D X domain r g, check_host_c D X domain None None = Ok (r, g) ->
                         rfc_agrees (rfc_check_host D X domain) r = true.

Definition w_name : bytes := [100; 46; 101; 120; 97; 109; 112; 108; 101].                  (* d.example *)
Definition w_nx : bytes := [110; 120; 46; 101; 120; 97; 109; 112; 108; 101].               (* nx.example *)
Definition w_v4 : N := 281470698652420.                                                   (* ::ffff:1.2.3.4 *)
Definition w_sess (client : N) (rhost : bytes) : sess :=
  {| s_client := client; s_iptext := [49]; s_mailfrom := [117; 64] ++ w_name;
     s_helostr := w_name; s_remotehost := rhost; s_heloname := w_name; s_now := 0 |}.
Definition rec_of (terms : bytes) : bytes := SPF_VERSION ++ 32 :: terms.
Definition result_of (x : Cres (Z * gst)) : option Z := match x with Ok (r, _) => Some r | _ => None end.

(** F-C11-2: "ip4:1.2.3.4/4 -all" from 1.2.3.4: permerror, RFC pass *)
Definition w2_zone : dns := zone_dns [ZT w_name (TxtRecs [rec_of [105;112;52;58;49;46;50;46;51;46;52;47;52;32;45;97;108;108]])].
Lemma witness_prefix_below_8 :
  result_of (check_host_c w2_zone (w_sess w_v4 []) w_name None None) = Some SPF_PERMERROR
  /\ rfc_check_host w2_zone (w_sess w_v4 []) w_name = RCode SPF_PASS.
Proof. split; vm_compute; reflexivity. Qed.

Theorem rfc_agreement_refuted : ~ C11_rfc_agreement_full.
Proof.
  intros H.
  destruct (check_host_c w2_zone (w_sess w_v4 []) w_name None None) as [[r g]|w|] eqn:E.
  - specialize (H _ _ _ _ _ E). revert H.
    assert (Hr : r = SPF_PERMERROR).
    { pose proof witness_prefix_below_8 as [A _]. rewrite E in A. cbn in A. congruence. }
    subst r. destruct witness_prefix_below_8 as [_ B]. rewrite B. vm_compute. discriminate.
  - pose proof witness_prefix_below_8 as [A _]. rewrite E in A. discriminate.
  - pose proof witness_prefix_below_8 as [A _]. rewrite E in A. discriminate.
Qed.

(** F-C11-10: "mx -all" with 10 MX hosts, one of them the client: fail, RFC pass *)
Definition w10_zone : dns :=
  zone_dns [ZT w_name (TxtRecs [rec_of [109;120;32;45;97;108;108]]); ZM w_name (MxList (repeat (10, [w_v4]) 10))].
Lemma witness_mx_hosts_10 :
  result_of (check_host_c w10_zone (w_sess w_v4 []) w_name None None) = Some SPF_FAIL
  /\ rfc_check_host w10_zone (w_sess w_v4 []) w_name = RCode SPF_PASS.
Proof. split; vm_compute; reflexivity. Qed.

(** F-C11-11: "redirect=nx.example", no record there: fail, RFC permerror *)
Definition w11_zone : dns :=
  zone_dns [ZT w_name (TxtRecs [rec_of ([114;101;100;105;114;101;99;116;61] ++ w_nx)])].
Lemma witness_redirect_no_record :
  result_of (check_host_c w11_zone (w_sess w_v4 []) w_name None None) = Some SPF_FAIL
  /\ rfc_check_host w11_zone (w_sess w_v4 []) w_name = RCode SPF_PERMERROR.
Proof. split; vm_compute; reflexivity. Qed.

(** F-C11-12: "ptr ?all", the PTR lookup fails temporarily: temperror, RFC neutral *)
Definition w12_zone : dns :=
  zone_dns [ZT w_name (TxtRecs [rec_of [112;116;114;32;63;97;108;108]]); ZN w_v4 (NErr ETemp)].
Lemma witness_ptr_dns_error :
  result_of (check_host_c w12_zone (w_sess w_v4 [114]) w_name None None) = Some SPF_TEMPERROR
  /\ rfc_check_host w12_zone (w_sess w_v4 [114]) w_name = RCode SPF_NEUTRAL.
Proof. split; vm_compute; reflexivity. Qed.

(** F-C11-13: "ip6::: ?all" for an IPv6 client: permerror, RFC neutral *)
Definition w13_zone : dns := zone_dns [ZT w_name (TxtRecs [rec_of [105;112;54;58;58;58;32;63;97;108;108]])].
Lemma witness_ip6_unspecified :
  result_of (check_host_c w13_zone (w_sess 42540766411282592856903984951653826561 []) w_name None None) = Some SPF_PERMERROR
  /\ rfc_check_host w13_zone (w_sess 42540766411282592856903984951653826561 []) w_name = RCode SPF_NEUTRAL.
Proof. split; vm_compute; reflexivity. Qed.

(** ---- inside the proved class: two zones on which the strict reference gives a result *)
From Qv Require Import Proofs.SpfAgree.
Definition w_b : bytes := [98; 46; 101; 120; 97; 109; 112; 108; 101].                     (* b.example *)
(** d.example: "v=spf1 ip4:10.0.0.0/8 a:b.example/24 include:b.example ~all", b.example: "v=spf1 mx -all" with MX 1.2.3.4 *)
Definition wc_zone : dns :=
  zone_dns [ZT w_name (TxtRecs [rec_of ([105;112;52;58;49;48;46;48;46;48;46;48;47;56;32;97;58] ++ w_b ++ [47;50;52;32;105;110;99;108;117;100;101;58] ++ w_b ++ [32;126;97;108;108])]);
            ZT w_b (TxtRecs [rec_of [109;120;32;45;97;108;108]]);
            ZA w_b (AList [281470698652421]);
            ZM w_b (MxList [(10, [w_v4])])].
Lemma class_example_pass :
  in_class wc_zone (w_sess w_v4 []) w_name = true
  /\ rfc_check_host wc_zone (w_sess w_v4 []) w_name = RCode SPF_PASS
  /\ result_of (check_host_c wc_zone (w_sess w_v4 []) w_name None None) = Some SPF_PASS.
Proof. repeat split; vm_compute; reflexivity. Qed.
(** the same zone, another client: ~all *)
Lemma class_example_softfail :
  in_class wc_zone (w_sess 281470698652999 []) w_name = true
  /\ rfc_check_host wc_zone (w_sess 281470698652999 []) w_name = RCode SPF_SOFTFAIL
  /\ result_of (check_host_c wc_zone (w_sess 281470698652999 []) w_name None None) = Some SPF_SOFTFAIL.
Proof. repeat split; vm_compute; reflexivity. Qed.

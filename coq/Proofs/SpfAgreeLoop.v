(** C11, stage 3 (proved part): the terms of one record — term_loop() of the model against
    eval_terms of Spec/SpfRfc.v, and the modifiers as find_modifier() sees them. *)
From Coq Require Import Lia ZifyBool ZifyN.
From Qv Require Import Common.Bytes Gen.GenSpf Model.SpfBase Model.SpfEnv Model.SpfMacro Model.Spf Spec.SpfRfc
  Proofs.SpfStr Proofs.SpfAgreeParse Proofs.SpfAgreeMech.
Local Open Scope N_scope.

(** a mechanism of the strict grammar starts with one of the keywords *)
Definition KWS : list bytes := [KW_ALL; KW_INCLUDE; KW_EXISTS; KW_IP4; KW_IP6; KW_PTR; KW_MX; KW_A].
Lemma parse_mech_kw tok m : parse_mech tok = Some m -> exists K, In K KWS /\ is_prefix K (lowerb tok) = true.
Proof.
  unfold parse_mech. change (lower tok) with (lowerb tok).
  destruct (str_eq (lowerb tok) KW_ALL) eqn:E0.
  { intros _. apply bytes_eqb_eq in E0. exists KW_ALL. split; [cbn; auto|]. rewrite E0. reflexivity. }
  destruct (is_prefix KW_INCLUDE (lowerb tok)) eqn:E1; [intros _; exists KW_INCLUDE; split; [cbn; auto|exact E1]|].
  destruct (is_prefix KW_EXISTS (lowerb tok)) eqn:E2; [intros _; exists KW_EXISTS; split; [cbn; auto|exact E2]|].
  destruct (is_prefix KW_IP4 (lowerb tok)) eqn:E3; [intros _; exists KW_IP4; split; [cbn; auto 6|exact E3]|].
  destruct (is_prefix KW_IP6 (lowerb tok)) eqn:E4; [intros _; exists KW_IP6; split; [cbn; auto 6|exact E4]|].
  destruct (is_prefix KW_PTR (lowerb tok)) eqn:E5; [intros _; exists KW_PTR; split; [cbn; auto 7|exact E5]|].
  destruct (is_prefix KW_MX (lowerb tok)) eqn:E6; [intros _; exists KW_MX; split; [cbn; auto 8|exact E6]|].
  destruct (is_prefix KW_A (lowerb tok)) eqn:E7; [intros _; exists KW_A; split; [cbn; auto 9|exact E7]|discriminate].
Qed.

Lemma kws_split tok K : In K KWS -> is_prefix K (lowerb tok) = true ->
  exists x r, lowerb tok = x :: r /\ In x [97; 105; 101; 112; 109] /\ lowerb tok = K ++ skipn (length K) (lowerb tok).
Proof.
  intros HK H. pose proof (is_prefix_split _ _ H) as E.
  cbn in HK. destruct HK as [<-|[<-|[<-|[<-|[<-|[<-|[<-|[<-|[]]]]]]]]]; rewrite E; cbn [app];
    eexists _, _; (split; [reflexivity|]); (split; [cbn; auto 6|]); cbn [length skipn]; rewrite <- E; exact E.
Qed.

Lemma parse_mech_alpha tok m : parse_mech tok = Some m -> is_alpha (hd0 tok) = true /\ tok <> [].
Proof.
  intros H. destruct (parse_mech_kw _ _ H) as (K & HK & HP).
  destruct (kws_split tok K HK HP) as (x & r & E & Hx & _).
  destruct tok as [|c t]; [discriminate|]. split; [|discriminate]. cbn in E. injection E as E _.
  cbn. eapply to_lower_alpha; [exact E|]. cbn in Hx. destruct Hx as [<-|[<-|[<-|[<-|[<-|[]]]]]]; reflexivity.
Qed.

(** a mechanism text does not start like "redirect=" or "exp=" *)
Lemma parse_mech_not_mod tok m : parse_mech tok = Some m ->
  case_prefix MOD_REDIRECT tok = false /\ case_prefix MOD_EXP tok = false.
Proof.
  intros H. destruct (parse_mech_kw _ _ H) as (K & HK & HP).
  pose proof (is_prefix_split _ _ HP) as E. rewrite !case_prefix_lower, E.
  cbn in HK. destruct HK as [<-|[<-|[<-|[<-|[<-|[<-|[<-|[<-|[]]]]]]]]]; split; reflexivity.
Qed.

Section Loop.
Variable D : dns.
Variable X : sess.
Let mk := spf_makro D X.
Variable recM : bytes -> gst -> Cres (Z * gst).
Variable recS : bytes -> nat -> rres * nat.
Variable rec_ok : forall n g, domain_spec n = true -> (1 <= g_q g)%nat -> (g_q g <= 10)%nat ->
  forall r g', recM n g = Ok (r, g') -> rel (recS n (g_q g)) r (g_q g').

Lemma qual_zok q : zok (qual_code q) = true.
Proof. destruct q; reflexivity. Qed.

(** one term *)
Lemma term_sim domain tok rest t mechl g :
  parse_term tok = Some t -> sp_tail rest = true -> (g_q g <= 10)%nat ->
  forall prefix tr, term_eval D X mk recM domain (tok ++ rest) mechl g = Ok (prefix, tr) ->
  match t with
  | TDir q m => prefix = qual_code q /\
                exists res ml g', tr = TRes res ml g' /\ mrel (eval_mech D X true recS domain m (g_q g)) res (g_q g')
  | _ => exists ml g', tr = TRes SPF_NONE ml g' /\ g_q g' = g_q g
  end.
Proof.
  intros H Hr Hq prefix tr. unfold parse_term in H. unfold term_eval, qualifier.
  destruct (parse_qual (hd0 tok)) as [q|] eqn:Eq.
  - (* qualifier, then a mechanism *)
    destruct (parse_mech (tl tok)) as [m|] eqn:Em; [|discriminate]. injection H as <-.
    destruct tok as [|c t']; [discriminate|]. cbn [hd0 tl app] in *.
    unfold parse_qual in Eq.
    assert (Hc : (c = 43 /\ q = QPlus) \/ (c = 45 /\ q = QMinus) \/ (c = 126 /\ q = QTilde) \/ (c = 63 /\ q = QQuest)).
    { destruct (c =? 43) eqn:E1; [injection Eq as <-; left; split; [lia|reflexivity]|].
      destruct (c =? 45) eqn:E2; [injection Eq as <-; right; left; split; [lia|reflexivity]|].
      destruct (c =? 126) eqn:E3; [injection Eq as <-; right; right; left; split; [lia|reflexivity]|].
      destruct (c =? 63) eqn:E4; [injection Eq as <-; right; right; right; split; [lia|reflexivity]|discriminate]. }
    assert (Hgo : forall code, code = qual_code q ->
       (do t0 <- mech_eval D X mk recM domain (c :: t' ++ rest) (t' ++ rest) mechl g; Ok (code, t0)) = Ok (prefix, tr) ->
       prefix = qual_code q /\
       exists res ml g', tr = TRes res ml g' /\ mrel (eval_mech D X true recS domain m (g_q g)) res (g_q g')).
    { intros code -> Hd.
      destruct (mech_eval D X mk recM domain (c :: t' ++ rest) (t' ++ rest) mechl g) as [t0|w|] eqn:Me; cbn [bind] in Hd; try discriminate.
      injection Hd as <- <-. split; [reflexivity|].
      eapply (mech_sim D X recM recS rec_ok); eauto. }
    destruct Hc as [[-> ->]|[[-> ->]|[[-> ->]|[-> ->]]]]; cbn [N.eqb Pos.eqb]; apply Hgo; reflexivity.
  - (* no qualifier *)
    unfold parse_qual in Eq.
    destruct (hd0 tok =? 43) eqn:E1; [discriminate|]. destruct (hd0 tok =? 45) eqn:E2; [discriminate|].
    destruct (hd0 tok =? 126) eqn:E3; [discriminate|]. destruct (hd0 tok =? 63) eqn:E4; [discriminate|].
    assert (Hhd : tok <> [] -> hd0 (tok ++ rest) = hd0 tok) by (destruct tok; [congruence|reflexivity]).
    destruct (parse_mech tok) as [m|] eqn:Em.
    + injection H as <-. destruct (parse_mech_alpha _ _ Em) as [Ha Hne].
      rewrite (Hhd Hne), E2, E3, E1, E4, Ha.
      destruct (mech_eval D X mk recM domain (tok ++ rest) (tok ++ rest) mechl g) as [t0|w|] eqn:Me; cbn [bind]; try discriminate.
      intros Hd. injection Hd as <- <-. split; [reflexivity|].
      eapply (mech_sim D X recM recS rec_ok); eauto.
    + assert (Ha : is_alpha (hd0 tok) = true /\ tok <> []).
      { unfold parse_modifier in H. destruct (drop_while not_eq_sign tok); [discriminate|].
        destruct (is_alpha (hd0 (take_while not_eq_sign tok)) && _) eqn:C; [|discriminate].
        apply andb_true_iff in C as [C _]. destruct tok as [|c t']; [discriminate|]. split; [|discriminate].
        cbn in C. destruct (not_eq_sign c); [exact C|discriminate]. }
      destruct Ha as [Ha Hne].
      rewrite (Hhd Hne), E2, E3, E1, E4, Ha.
      destruct (mech_eval D X mk recM domain (tok ++ rest) (tok ++ rest) mechl g) as [t0|w|] eqn:Me; cbn [bind]; try discriminate.
      intros Hd. injection Hd as <- <-.
      destruct (modifier_sim D X recM recS rec_ok domain tok rest t mechl g H Hr t0 Me) as (g' & -> & Q).
      destruct t; eauto.
      (* a modifier is no TDir *)
      exfalso. unfold parse_modifier in H. destruct (drop_while not_eq_sign tok); [discriminate|].
      destruct (negb _); [discriminate|]. destruct (str_eq _ N_REDIRECT); [destruct (domain_spec _); discriminate|].
      destruct (str_eq _ N_EXP); [destruct (domain_spec _); discriminate|]. destruct (forallb _ _); discriminate.
Qed.

(** the outcome of the loop against the outcome of eval_terms *)
Definition lrel (o : option rres * nat) (l : lres) : Prop :=
  match fst o with
  | Some RSkip => True
  | None => exists p m g', l = LDone SPF_NONE p m g' /\ g_q g' = snd o /\ (snd o <= 10)%nat
  | Some (RCode z) => exists res p m g', l = LDone res p m g' /\ res <> SPF_NONE /\ (0 <= res)%Z
                        /\ (if (res =? SPF_PASS)%Z then p else res) = z /\ zok z = true /\ g_q g' = snd o /\ (snd o <= 10)%nat
  | Some RLimit => exists p m g', l = LDone SPF_FAIL p m g' /\ g_q g' = snd o /\ snd o = 11%nat
  end.

Lemma rec_char_cases c : rec_char c = true -> c = 32 \/ ((c =? 32) = false /\ wspace c = false /\ not_sp c = true).
Proof. unfold rec_char, wspace, not_sp. intros H. destruct (c =? 32) eqn:E; [left; lia|right; repeat split; lia]. Qed.

Lemma loop_sim domain : forall s intok ts prefix mechl g,
  forallb rec_char s = true -> parse_terms (tokens s intok) = Some ts -> (g_q g <= 10)%nat ->
  forall l, term_loop D X mk recM domain s intok prefix mechl g = Ok l ->
  lrel (eval_terms D X true recS domain ts (g_q g)) l.
Proof.
  induction s as [|c t IH]; intros intok ts prefix mechl g Hs Hp Hq l Hl.
  - cbn in Hp. injection Hp as <-. cbn [eval_terms]. unfold lrel. cbn [fst snd].
    cbn in Hl. destruct intok; injection Hl as <-; eexists _, _, _; split; [reflexivity|split; [reflexivity|exact Hq]| reflexivity |split; [reflexivity|exact Hq]].
  - cbn [forallb] in Hs. apply andb_true_iff in Hs as [Hc Hs].
    cbn [term_loop] in Hl. cbn [tokens] in Hp.
    destruct (rec_char_cases c Hc) as [->|(E32 & W & Nsp)].
    + change (wspace 32) with true in Hl. cbn iota in Hl. change (32 =? 32) with true in Hp. cbn iota in Hp. eapply IH; eauto.
    + rewrite W in Hl. rewrite E32 in Hp. destruct intok; [eapply IH; eauto|].
      (* a term starts here *)
      set (tok := take_while not_sp (c :: t)) in *. set (rest := drop_while not_sp (c :: t)).
      assert (Es : c :: t = tok ++ rest) by (symmetry; apply take_drop).
      assert (Hr : sp_tail rest = true).
      { pose proof (drop_while_stops not_sp (c :: t)) as Q. fold rest in Q. destruct rest as [|e r]; [reflexivity|].
        cbn in Q |- *. unfold not_sp in Q. lia. }
      cbn [parse_terms] in Hp.
      destruct (parse_term tok) as [x|] eqn:Ex; [|discriminate].
      destruct (parse_terms (tokens t true)) as [xs|] eqn:Exs; [|discriminate]. injection Hp as <-.
      destruct (term_eval D X mk recM domain (c :: t) mechl g) as [[prefix' tr]|w|] eqn:Et; cbn [bind] in Hl; try discriminate.
      rewrite Es in Et. pose proof (term_sim domain tok rest x mechl g Ex Hr Hq prefix' tr Et) as T.
      destruct x as [q m|d|d|].
      * destruct T as (-> & res & ml & g' & -> & M). cbn [eval_terms].
        unfold mrel in M. destruct (eval_mech D X true recS domain m (g_q g)) as [mo c']. cbn [fst snd] in M.
        destruct mo as [| |[z| |]].
        -- destruct M as (-> & Q & L). change (SPF_PASS =? SPF_NONE)%Z with false in Hl; cbn iota in Hl. injection Hl as <-.
           unfold lrel. cbn [fst snd]. eexists _, _, _, _. split; [reflexivity|].
           split; [discriminate|]. split; [discriminate|]. split; [reflexivity|]. split; [apply qual_zok|]. split; assumption.
        -- destruct M as (-> & Q & L). change (SPF_NONE =? SPF_NONE)%Z with true in Hl; cbn iota in Hl.
           subst c'. eapply IH; eauto.
        -- destruct M as (-> & Hz & Q & L). unfold lrel. cbn [fst snd].
           destruct Hz as [-> | ->]; [change (SPF_TEMPERROR =? SPF_NONE)%Z with false in Hl|change (SPF_PERMERROR =? SPF_NONE)%Z with false in Hl]; cbn iota in Hl;
             injection Hl as <-; eexists _, _, _, _; (split; [reflexivity|]); (split; [discriminate|]); (split; [discriminate|]);
             (split; [reflexivity|]); (split; [reflexivity|]); split; assumption.
        -- destruct M as (-> & Q & L). change (SPF_FAIL =? SPF_NONE)%Z with false in Hl; cbn iota in Hl. injection Hl as <-.
           unfold lrel. cbn [fst snd]. eexists _, _, _. split; [reflexivity|]. split; assumption.
        -- exact I.
      * destruct T as (ml & g' & -> & Q). change (SPF_NONE =? SPF_NONE)%Z with true in Hl; cbn iota in Hl. cbn [eval_terms].
        rewrite <- Q. eapply IH; eauto. lia.
      * destruct T as (ml & g' & -> & Q). change (SPF_NONE =? SPF_NONE)%Z with true in Hl; cbn iota in Hl. cbn [eval_terms].
        rewrite <- Q. eapply IH; eauto. lia.
      * destruct T as (ml & g' & -> & Q). change (SPF_NONE =? SPF_NONE)%Z with true in Hl; cbn iota in Hl. cbn [eval_terms].
        rewrite <- Q. eapply IH; eauto. lia.
Qed.

End Loop.

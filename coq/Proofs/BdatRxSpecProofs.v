(** The boolean checkers of the receiving side decide their statements. *)
From Qv Require Import Common.Bytes Model.BdatRx Spec.BdatRxSpec Proofs.BdatRxProofs.
Require Import Lia.

Lemma find_env_app : forall pre idx q ok n rest, existsb is_env pre = false ->
  find_env (pre ++ EvEnv n :: rest) idx q ok
  = Some (idx + count_term pre, n, q ++ queued pre, ok && all_ok pre, rest).
Proof.
  induction pre as [|e pre IH]; intros idx q ok n rest H.
  - cbn. now rewrite Nat.add_0_r, app_nil_r, andb_true_r.
  - cbn [existsb] in H. apply orb_false_iff in H as [He Hp].
    destruct e; cbn in He; try discriminate; cbn [app find_env count_term all_ok queued]; rewrite IH by exact Hp;
      rewrite ?andb_false_r, ?andb_assoc, <- ?app_assoc, ?Nat.add_succ_r; try reflexivity.
    all: try (destruct ok; reflexivity).
Qed.

Lemma find_env_none : forall evs idx q ok, find_env evs idx q ok = None <-> existsb is_env evs = false.
Proof.
  induction evs as [|e evs IH]; intros idx q ok; [split; reflexivity|].
  destruct e; cbn [find_env existsb is_env orb]; try apply IH. split; discriminate.
Qed.

Lemma find_env_some : forall evs idx q ok i n q' ok' rest, find_env evs idx q ok = Some (i, n, q', ok', rest) ->
  exists pre, evs = pre ++ EvEnv n :: rest /\ existsb is_env pre = false.
Proof.
  induction evs as [|e evs IH]; intros idx q ok i n q' ok' rest H; [discriminate|].
  destruct e; cbn [find_env] in H;
    try (destruct (IH _ _ _ _ _ _ _ _ H) as (pre & -> & Hp); eexists (_ :: pre); split; [reflexivity|exact Hp]).
  injection H as <- <- <- <- <-. exists []. split; reflexivity.
Qed.

Theorem spec_rx_decides cfg qf cmds stream rfail evs :
  spec_ok_C19_rx cfg qf cmds stream rfail evs = true <-> rx_ok cfg qf cmds stream rfail evs.
Proof.
  unfold spec_ok_C19_rx, rx_ok. split.
  - intros H. apply andb_true_iff in H as [Hnaf H]. split; [exact Hnaf|]. split.
    + intros pre n rest -> Hpre. rewrite find_env_app in H by exact Hpre. cbn [Nat.add app] in H.
      repeat (apply andb_true_iff in H as [H ?]).
      repeat match goal with Hx : negb _ = true |- _ => apply negb_true_iff in Hx end.
      match goal with Hx : Nat.eqb _ _ = true |- _ => apply Nat.eqb_eq in Hx end.
      match goal with Hx : bytes_eqb _ _ = true |- _ => apply bytes_eqb_eq in Hx end.
      cbv zeta. repeat split; assumption.
    + intros Hexp. destruct (find_env evs 0 [] true) as [[[[[i n] q] ok] rest]|] eqn:Ef.
      * destruct (find_env_some _ _ _ _ _ _ _ _ _ Ef) as (pre & -> & _). rewrite existsb_app. cbn. apply orb_true_r.
      * rewrite Hexp in H. discriminate.
  - intros (Hnaf & Henv & Hexp). rewrite Hnaf. cbn [andb].
    destruct (find_env evs 0 [] true) as [[[[[i n] q] ok] rest]|] eqn:Ef.
    + destruct (find_env_some _ _ _ _ _ _ _ _ _ Ef) as (pre & -> & Hpre).
      rewrite find_env_app in Ef by exact Hpre. cbn [Nat.add app andb] in Ef. injection Ef as <- <- <-.
      destruct (Henv pre n rest eq_refl Hpre) as (H1 & H2 & H3 & H4 & H5 & H6 & H7).
      rewrite H1, H4, H5, H6, H7, <- H2, Nat.eqb_refl, H3. cbn [andb negb].
      rewrite !andb_true_r. apply bytes_eqb_eq. rewrite H2. reflexivity.
    + apply negb_true_iff. destruct (expect_delivery cfg qf cmds stream rfail) eqn:Ee; [|reflexivity].
      specialize (Hexp eq_refl). apply find_env_none in Ef. congruence.
Qed.

(** sessions: the same cut into transactions on both sides, the single-transaction result for each *)
Theorem spec_rxs_decides cfg ops stream rfail evs :
  spec_ok_C19_rxs cfg ops stream rfail evs = true <-> rxs_ok cfg ops stream rfail evs.
Proof.
  unfold spec_ok_C19_rxs, rxs_ok. destruct (align ops evs) as [recs rem].
  destruct (segments recs None [] []) as [prelude segs].
  rewrite !andb_true_iff, !negb_true_iff, forallb_forall, Forall_forall.
  split.
  - intros (((Hr & H1) & H2) & H3). repeat split; try assumption; [destruct rem; [reflexivity|discriminate]|].
    intros [[pos qf] l] Hin. apply spec_rx_decides. apply (H3 _ Hin).
  - intros (Hr & H1 & H2 & H3). subst rem. repeat split; try assumption.
    intros [[pos qf] l] Hin. apply spec_rx_decides. apply (H3 _ Hin).
Qed.

(** Proofs about the model of qsmtpd/auth.c: every run of smtp_auth satisfies
    the checker [auth_ok] (with the model's own Base64 decoder), for every
    well-behaved backend; what the checkpassword backend writes to the pipe. *)
From Qv Require Import Common.Bytes Common.AuthDefs Gen.GenBase64 Gen.GenAuth Model.Base64 Model.Auth
  Spec.Base64Spec Spec.AuthSpec Proofs.Base64L2 Proofs.Base64Proofs.

(** ------------------------------------------------------------ small facts *)

Definition not235 (m : bytes) : Prop := bytes_eqb (firstn 3 m) [50; 51; 53]%N = false.

Lemma msgs_not235 :
  not235 MSG_TEMPNOAUTH /\ not235 MSG_501_INPUT /\ not235 MSG_501_B64 /\ not235 MSG_501_CANCEL /\
  not235 MSG_334_PLAIN /\ not235 MSG_334_USER /\ not235 MSG_334_PASS /\ not235 MSG_535 /\ not235 MSG_504.
Proof. repeat split; reflexivity. Qed.

Lemma msg235_is235 : bytes_eqb (firstn 3 MSG_235) [50; 51; 53]%N = true.
Proof. reflexivity. Qed.

Lemma edone_pos : (0 < EDONE)%N.
Proof. reflexivity. Qed.

(** [s'] comes from [s] by consuming the reads [used] and writing [added]
    (newest first), none of them a 235; backend calls and pipes untouched *)
Definition ext (s s' : ios) (used : list rdres) (added : list bytes) : Prop :=
  rds s = used ++ rds s' /\ out s' = added ++ out s /\ calls s' = calls s /\ pipes s' = pipes s
  /\ Forall not235 added.

Lemma ext_refl s : ext s s [] [].
Proof. repeat split; auto. Qed.

Lemma ext_trans s s1 s2 u1 u2 a1 a2 :
  ext s s1 u1 a1 -> ext s1 s2 u2 a2 -> ext s s2 (u1 ++ u2) (a2 ++ a1).
Proof.
  intros (R1 & O1 & C1 & P1 & F1) (R2 & O2 & C2 & P2 & F2). repeat split.
  - rewrite R1, R2. now rewrite app_assoc.
  - rewrite O2, O1. now rewrite app_assoc.
  - congruence.
  - congruence.
  - apply Forall_app. auto.
Qed.

Lemma nw_ext s m s' e : nw s m = (s', e) -> not235 m -> ext s s' [] [m].
Proof.
  unfold nw. intros H NM. destruct (ws s); inversion H; subst; repeat split; simpl; auto.
Qed.

Lemma nw_done_ext s m s' z : nw_done s m = (s', z) -> not235 m -> ext s s' [] [m] /\ (z < 0)%Z.
Proof.
  unfold nw_done. destruct (nw s m) as [s1 e] eqn:E. intros H NM. inversion H; subst.
  split; [eapply nw_ext; eauto|].
  pose proof edone_pos. destruct (N.eqb e 0) eqn:E0; [lia|]. apply N.eqb_neq in E0. lia.
Qed.

(** ------------------------------------------------------------ authgetl *)

Lemma authgetl_read_spec : forall r cur r' res,
  authgetl_read r cur = Ok (r', res) ->
  exists used, r = used ++ r' /\
    match res with
    | inl a => a <> [] /\ N.eqb (last a 0%N) LF = true /\
               forall rest, client_lines (used ++ rest) cur = strip_eol a :: client_lines rest []
    | inr e => (0 < e)%N
    end.
Proof.
  induction r as [|x r IH]; intros cur r' res H; simpl in H.
  - inversion H; subst. exists []. split; auto. reflexivity.
  - destruct x as [b|e].
    + destruct (Nat.ltb AUTH_CHUNK (length b)); [discriminate|].
      destruct (cur ++ b) as [|y l] eqn:E; [discriminate|]. rewrite <- E in *.
      destruct (N.eqb (last (cur ++ b) 0%N) LF) eqn:EL.
      * inversion H; subst. exists [RdChunk b]. split; [reflexivity|].
        repeat split; auto.
        -- rewrite E. discriminate.
        -- intros rest. simpl. now rewrite EL.
      * apply IH in H as (used & -> & H). exists (RdChunk b :: used). split; [reflexivity|].
        destruct res as [a|]; auto. destruct H as (H1 & H2 & H3). repeat split; auto.
        intros rest. simpl. rewrite EL. apply H3.
    + destruct (N.eqb e 0) eqn:E0; [discriminate|]. inversion H; subst. exists [RdErr e]. split; auto.
      apply N.eqb_neq in E0. lia.
Qed.

Lemma last_nth' (l : bytes) d : last l d = nth (length l - 1) l d.
Proof.
  induction l as [|x l IH]; [reflexivity|]. destruct l as [|y l']; [reflexivity|].
  change (last (x :: y :: l') d) with (last (y :: l') d). rewrite IH. simpl. now rewrite Nat.sub_0_r.
Qed.

Lemma strip_eol_model a :
  a <> [] ->
  let len := length a - 1 in
  strip_eol a = firstn (if negb (Nat.eqb len 0) then (if N.eqb (nth (len - 1) a 0%N) CR then len - 1 else len) else len) a.
Proof.
  intros NE len. unfold strip_eol.
  assert (RL : removelast a = firstn len a) by (unfold len; rewrite removelast_firstn_len; f_equal; lia).
  rewrite RL.
  assert (LL : length (firstn len a) = len) by (rewrite firstn_length; unfold len; lia).
  destruct (Nat.eqb len 0) eqn:E0; cbn [negb].
  - apply Nat.eqb_eq in E0. rewrite E0. reflexivity.
  - apply Nat.eqb_neq in E0.
    assert (LA : last (firstn len a) 0%N = nth (len - 1) a 0%N).
    { rewrite last_nth', LL. rewrite <- (firstn_skipn len a) at 2. rewrite app_nth1 by lia. reflexivity. }
    rewrite LA. destruct (N.eqb (nth (len - 1) a 0%N) CR); [|reflexivity].
    rewrite removelast_firstn_len, LL, firstn_firstn. f_equal. lia.
Qed.

Lemma authgetl_spec s s' g :
  authgetl s = Ok (s', g) ->
  exists used added, ext s s' used added /\
    match g with
    | GLine a => a <> [] /\ forall rest, client_lines (used ++ rest) [] = a :: client_lines rest []
    | GErr z => (z < 0)%Z
    end.
Proof.
  unfold authgetl. destruct (authgetl_read (rds s) []) as [[r' res]| |] eqn:ER; cbn [bind]; try discriminate.
  apply authgetl_read_spec in ER as (used & ER & HR).
  set (s1 := set_rds s r').
  assert (E1 : ext s s1 used []) by (repeat split; auto).
  destruct res as [a|e].
  - destruct HR as (NE & LF & CL).
    pose proof (strip_eol_model a NE) as SM. cbv zeta in SM.
    set (len := length a - 1) in *.
    destruct (negb (Nat.eqb len 0)) eqn:EN.
    + set (len2 := if N.eqb (nth (len - 1) a 0%N) CR then len - 1 else len) in *.
      destruct (Nat.eqb len2 1 && N.eqb (nth 0 a 0%N) 42).
      * destruct (nw_done s1 MSG_501_CANCEL) as [s2 z] eqn:EW. intros H. inversion H; subst.
        apply nw_done_ext in EW as [EW Z]; [|apply msgs_not235].
        exists used, [MSG_501_CANCEL]. split; auto.
        pose proof (ext_trans _ _ _ _ _ _ _ E1 EW) as T. now rewrite app_nil_r in T.
      * destruct (Nat.eqb len2 0) eqn:E2.
        -- unfold err_input. destruct (nw_done s1 MSG_501_INPUT) as [s2 z] eqn:EW. intros H. inversion H; subst.
           apply nw_done_ext in EW as [EW Z]; [|apply msgs_not235].
           exists used, [MSG_501_INPUT]. split; auto.
           pose proof (ext_trans _ _ _ _ _ _ _ E1 EW) as T. now rewrite app_nil_r in T.
        -- intros H. inversion H; subst. exists used, []. split; auto. split.
           ++ apply Nat.eqb_neq in E2. intros C. apply (f_equal (@length N)) in C.
              rewrite firstn_length in C. simpl in C. unfold len2, len in *. destruct (N.eqb _ CR); lia.
           ++ intros rest. rewrite CL, SM. reflexivity.
    + unfold err_input. destruct (nw_done s1 MSG_501_INPUT) as [s2 z] eqn:EW. intros H. inversion H; subst.
      apply nw_done_ext in EW as [EW Z]; [|apply msgs_not235].
      exists used, [MSG_501_INPUT]. split; auto.
      pose proof (ext_trans _ _ _ _ _ _ _ E1 EW) as T. now rewrite app_nil_r in T.
  - intros H. inversion H; subst. exists used, []. split; auto. lia.
Qed.

(** ------------------------------------------------------------ get_blob *)

(** the [k]-th blob of the exchange is [a] once [used] has been consumed *)
Lemma get_blob_spec s linein chal s' x :
  get_blob s linein chal = Ok (s', x) -> not235 chal ->
  exists used added, ext s s' used added /\
    match x with
    | inr z => (z < 0)%Z
    | inl d => exists a, d = decode2 a /\
        ((Nat.ltb AUTH_IR_OFF (length linein) = true /\ used = [] /\ a = skipn AUTH_IR_OFF linein)
         \/ (Nat.ltb AUTH_IR_OFF (length linein) = false /\ a <> [] /\
             forall rest, client_lines (used ++ rest) [] = a :: client_lines rest []))
    end.
Proof.
  unfold get_blob. intros H NC.
  destruct (Nat.ltb AUTH_IR_OFF (length linein)) eqn:EI.
  - rewrite b64decode_L2 in H. cbn [bind] in H. inversion H; subst.
    exists [], []. split; [apply ext_refl|]. eexists. split; [reflexivity|]. left. auto.
  - destruct (nw s chal) as [s1 e] eqn:EW. apply nw_ext in EW; auto.
    destruct (N.eqb e 0) eqn:E0; cbn [negb] in H.
    + destruct (authgetl s1) as [[s2 g]| |] eqn:EG; cbn [bind] in H; try discriminate.
      apply authgetl_spec in EG as (used & added & EX & HG).
      pose proof (ext_trans _ _ _ _ _ _ _ EW EX) as T. simpl in T.
      destruct g as [a|z].
      * rewrite b64decode_L2 in H. cbn [bind] in H. inversion H; subst.
        exists used, (added ++ [chal]). split; auto.
        destruct HG as [NE CL]. eexists. split; [reflexivity|]. right. auto.
      * inversion H; subst. exists used, (added ++ [chal]). auto.
    + inversion H; subst. exists [], [chal]. split; auto. apply N.eqb_neq in E0. lia.
Qed.

(** ------------------------------------------------------------ backends *)

(** what the statement needs of a backend: its answer is (up to being zero) a
    function [verdict] of the credentials, the pipes it adds a function
    [bepipes] of them, it writes at most tempnoauth, and leaves the rest alone *)
Definition be_wf (be : backend) (verdict : bytes -> bytes -> Z) (bepipes : bytes -> bytes -> list bytes) : Prop :=
  forall s u p, let '(s', r) := be s u p in
    Z.eqb r 0 = Z.eqb (verdict u p) 0 /\ calls s' = calls s /\ rds s' = rds s
    /\ pipes s' = bepipes u p ++ pipes s
    /\ exists added, out s' = added ++ out s /\ Forall not235 added.

Lemma call_be_spec be verdict bepipes s u p s' r :
  be_wf be verdict bepipes -> call_be be s u p = (s', r) ->
  Z.eqb r 0 = Z.eqb (verdict u p) 0 /\ calls s' = (u, p) :: calls s /\ rds s' = rds s
  /\ pipes s' = bepipes u p ++ pipes s
  /\ exists added, out s' = added ++ out s /\ Forall not235 added.
Proof.
  intros WF H. unfold call_be in H.
  specialize (WF {| rds := rds s; ws := ws s; out := out s; calls := (u, p) :: calls s; pipes := pipes s |} u p).
  rewrite H in WF. exact WF.
Qed.

(** ------------------------------------------------------------ PLAIN parsing *)

Lemma split0_cstr d :
  split0 d = cstr d :: (if Nat.ltb (length (cstr d)) (length d) then split0 (skipn (S (length (cstr d))) d) else []).
Proof.
  induction d as [|c d IH]; [reflexivity|]. cbn [split0 cstr].
  destruct (N.eqb c 0); [reflexivity|].
  rewrite IH. cbn [length skipn].
  destruct (Nat.ltb (length (cstr d)) (length d)) eqn:E.
  - replace (Nat.ltb (S (length (cstr d))) (S (length d))) with true by (symmetry; apply Nat.ltb_lt; apply Nat.ltb_lt in E; lia).
    reflexivity.
  - replace (Nat.ltb (S (length (cstr d))) (S (length d))) with false by (symmetry; apply Nat.ltb_ge; apply Nat.ltb_ge in E; lia).
    reflexivity.
Qed.

Lemma cstr_length_le d : length (cstr d) <= length d.
Proof. induction d as [|c d IH]; simpl; [lia|]. destruct (N.eqb c 0); simpl; lia. Qed.

Lemma nilb_length (l : bytes) : Nat.eqb (length l) 0 = nilb l.
Proof. destruct l; reflexivity. Qed.

Lemma plain_parse d :
  let id := S (length (cstr d)) in
  let user := if Nat.ltb id (length d) then cstr (skipn id d) else [] in
  let pass := if Nat.ltb id (length d) && Nat.ltb (id + length user + 1) (length d)
              then cstr (skipn (id + length user + 1) d) else [] in
  (if Nat.eqb (length user) 0 || Nat.eqb (length pass) 0 then None else Some (user, pass)) = plain_creds d.
Proof.
  intros id user pass. unfold plain_creds. rewrite split0_cstr.
  pose proof (cstr_length_le d) as L0.
  destruct (Nat.ltb (length (cstr d)) (length d)) eqn:E0.
  2: { (* no NUL at all *)
    apply Nat.ltb_ge in E0. unfold user, pass, id.
    replace (Nat.ltb (S (length (cstr d))) (length d)) with false by (symmetry; apply Nat.ltb_ge; lia).
    reflexivity. }
  apply Nat.ltb_lt in E0. fold id.
  set (rest1 := skipn id d).
  assert (LR1 : length rest1 = length d - id) by (unfold rest1; apply skipn_length).
  rewrite (split0_cstr rest1).
  destruct (Nat.ltb id (length d)) eqn:E1.
  2: { (* the NUL is the last octet *)
    apply Nat.ltb_ge in E1. unfold user, pass. cbn [andb].
    assert (rest1 = []) by (apply length_zero_iff_nil; lia). rewrite H. reflexivity. }
  apply Nat.ltb_lt in E1. cbn [andb] in pass. subst user. fold rest1 in pass. fold rest1.
  pose proof (cstr_length_le rest1) as L1.
  assert (SK : skipn (id + length (cstr rest1) + 1) d = skipn (S (length (cstr rest1))) rest1).
  { unfold rest1. rewrite skipn_skipn'. f_equal. lia. }
  destruct (Nat.ltb (length (cstr rest1)) (length rest1)) eqn:E2.
  - apply Nat.ltb_lt in E2.
    rewrite (split0_cstr (skipn (S (length (cstr rest1))) rest1)).
    destruct (Nat.ltb (id + length (cstr rest1) + 1) (length d)) eqn:E3.
    + subst pass. rewrite SK. unfold nonempty_pair. now rewrite !nilb_length.
    + apply Nat.ltb_ge in E3. subst pass.
      assert (Z : skipn (S (length (cstr rest1))) rest1 = []).
      { apply length_zero_iff_nil. rewrite skipn_length. lia. }
      rewrite Z. cbn [cstr length]. unfold nonempty_pair. cbn [nilb]. rewrite !orb_true_r. reflexivity.
  - apply Nat.ltb_ge in E2.
    assert (PE : pass = []).
    { unfold pass. replace (Nat.ltb (id + length (cstr rest1) + 1) (length d)) with false
        by (symmetry; apply Nat.ltb_ge; lia). reflexivity. }
    rewrite PE. cbn [length Nat.eqb]. rewrite orb_true_r. reflexivity.
Qed.

(** ------------------------------------------------------------ the two mechanisms *)

Section Handlers.
Variable be : backend.
Variable verdict : bytes -> bytes -> Z.
Variable bepipes : bytes -> bytes -> list bytes.
Variable WF : be_wf be verdict bepipes.

(** outcome of a mechanism handler *)
Definition handler_post (exp : list rdres -> option (bytes * bytes)) (s s' : ios) (r : Z) (user : bytes) : Prop :=
  exists used added,
    rds s = used ++ rds s' /\ out s' = added ++ out s /\ Forall not235 added /\
    ((calls s' = calls s /\ pipes s' = pipes s /\ (r < 0)%Z)
     \/ (exists p, calls s' = (user, p) :: calls s /\ pipes s' = bepipes user p ++ pipes s
                   /\ Z.eqb r 0 = Z.eqb (verdict user p) 0 /\ exp used = Some (user, p) /\ user <> [])).

Definition exp_plain (linein : bytes) (used : list rdres) : option (bytes * bytes) :=
  match blobs_of linein used with
  | b0 :: _ => match decode2 b0 with Some d => plain_creds d | None => None end
  | [] => None
  end.

Definition exp_login (linein : bytes) (used : list rdres) : option (bytes * bytes) :=
  match blobs_of linein used with
  | b0 :: b1 :: _ =>
      match decode2 b0, decode2 b1 with
      | Some u, Some p => nonempty_pair u p
      | _, _ => None
      end
  | _ => None
  end.

Lemma err_post exp s s1 s' z used added (m : bytes) user :
  ext s s1 used added -> nw_done s1 m = (s', z) -> not235 m -> handler_post exp s s' z user.
Proof.
  intros EX EW NM. apply nw_done_ext in EW as [EW Z]; auto.
  pose proof (ext_trans _ _ _ _ _ _ _ EX EW) as (R & O & C & P & F).
  exists (used ++ []), ([m] ++ added). repeat split; auto.
Qed.

Lemma blobs_first linein used a :
  (Nat.ltb AUTH_IR_OFF (length linein) = true /\ used = [] /\ a = skipn AUTH_IR_OFF linein)
  \/ (Nat.ltb AUTH_IR_OFF (length linein) = false /\ a <> [] /\
      forall rest, client_lines (used ++ rest) [] = a :: client_lines rest []) ->
  forall more, blobs_of linein (used ++ more) = a :: client_lines more [].
Proof.
  intros [(E1 & E2 & E3)|(E1 & E2 & E3)] more; unfold blobs_of; rewrite E1.
  - subst. reflexivity.
  - now rewrite E3.
Qed.

Lemma auth_plain_post s linein s' r user :
  auth_plain be s linein = Ok (s', r, user) -> handler_post (exp_plain linein) s s' r user.
Proof.
  unfold auth_plain. intros H.
  destruct (get_blob s linein MSG_334_PLAIN) as [[s1 x]| |] eqn:EB; cbn [bind] in H; try discriminate.
  apply get_blob_spec in EB as (used & added & EX & HX); [|apply msgs_not235].
  destruct x as [[slop|]|z].
  - destruct HX as (a & Hd & HA).
    pose proof (plain_parse slop) as PP. cbv zeta in PP.
    set (id := S (length (cstr slop))) in *.
    set (user0 := if Nat.ltb id (length slop) then cstr (skipn id slop) else []) in *.
    set (pass0 := if Nat.ltb id (length slop) && Nat.ltb (id + length user0 + 1) (length slop)
                  then cstr (skipn (id + length user0 + 1) slop) else []) in *.
    destruct (Nat.eqb (length user0) 0 || Nat.eqb (length pass0) 0) eqn:EE.
    + destruct (err_input s1) as [s2 z] eqn:EW. inversion H; subst.
      eapply err_post; eauto. apply msgs_not235.
    + destruct (call_be be s1 user0 pass0) as [s2 r2] eqn:EC. inversion H; subst s' r user.
      eapply call_be_spec in EC as (V & C & R & P & (added2 & O & F)); eauto.
      destruct EX as (R1 & O1 & C1 & P1 & F1).
      exists used, (added2 ++ added). repeat split.
      * rewrite R1. congruence.
      * rewrite O, O1. now rewrite app_assoc.
      * apply Forall_app; auto.
      * right. exists pass0. repeat split; try congruence.
        -- unfold exp_plain.
           pose proof (blobs_first _ _ _ HA []) as B. rewrite app_nil_r in B. rewrite B.
           rewrite <- Hd. symmetry. exact PP.
        -- apply orb_false_iff in EE as [EE _]. intros C0. rewrite C0 in EE. discriminate.
  - destruct (err_base64 s1) as [s2 z] eqn:EW. inversion H; subst.
    eapply err_post; eauto. apply msgs_not235.
  - inversion H; subst. destruct EX as (R1 & O1 & C1 & P1 & F1).
    exists used, added. repeat split; auto.
Qed.

Lemma auth_login_post s linein s' r user :
  auth_login be s linein = Ok (s', r, user) -> handler_post (exp_login linein) s s' r user.
Proof.
  unfold auth_login. intros H.
  destruct (get_blob s linein MSG_334_USER) as [[s1 x]| |] eqn:EB; cbn [bind] in H; try discriminate.
  apply get_blob_spec in EB as (used & added & EX & HX); [|apply msgs_not235].
  destruct x as [[u|]|z].
  - destruct HX as (a & Hd & HA).
    destruct (nw s1 MSG_334_PASS) as [s2 e] eqn:EW. apply nw_ext in EW; [|apply msgs_not235].
    pose proof (ext_trans _ _ _ _ _ _ _ EX EW) as EX2. rewrite app_nil_r in EX2.
    destruct (N.eqb e 0) eqn:E0; cbn [negb] in H.
    2: { inversion H; subst. destruct EX2 as (R1 & O1 & C1 & P1 & F1).
         exists used, ([MSG_334_PASS] ++ added). repeat split; auto. left. repeat split; auto.
         apply N.eqb_neq in E0. lia. }
    destruct (authgetl s2) as [[s3 g]| |] eqn:EG; cbn [bind] in H; try discriminate.
    apply authgetl_spec in EG as (used2 & added2 & EX3 & HG).
    pose proof (ext_trans _ _ _ _ _ _ _ EX2 EX3) as EX4.
    destruct g as [a2|z].
    2: { inversion H; subst. destruct EX4 as (R1 & O1 & C1 & P1 & F1).
         eexists _, _. repeat split; eauto. }
    rewrite b64decode_L2 in H. cbn [bind] in H.
    destruct (decode2 a2) as [pw|] eqn:ED.
    2: { destruct (err_base64 s3) as [s4 z] eqn:EE. inversion H; subst.
         eapply err_post; eauto. apply msgs_not235. }
    destruct (Nat.eqb (length u) 0 || Nat.eqb (length pw) 0) eqn:EE.
    + destruct (err_input s3) as [s4 z] eqn:EW2. inversion H; subst.
      eapply err_post; eauto. apply msgs_not235.
    + destruct (call_be be s3 u pw) as [s4 r4] eqn:EC. inversion H; subst s' r user.
      eapply call_be_spec in EC as (V & C & R & P & (added4 & O & F)); eauto.
      destruct EX4 as (R1 & O1 & C1 & P1 & F1).
      exists (used ++ used2), (added4 ++ added2 ++ [MSG_334_PASS] ++ added). repeat split.
      * rewrite R1. congruence.
      * rewrite O, O1. now rewrite app_assoc.
      * apply Forall_app; auto.
      * right. exists pw. repeat split; try congruence.
        -- unfold exp_login. rewrite (blobs_first _ _ _ HA used2).
           destruct HG as [_ HG]. specialize (HG []). rewrite app_nil_r in HG. rewrite HG.
           rewrite <- Hd, ED. unfold nonempty_pair. rewrite <- !nilb_length, EE. reflexivity.
        -- apply orb_false_iff in EE as [EE _]. intros C0. rewrite C0 in EE. discriminate.
  - destruct (err_base64 s1) as [s2 z] eqn:EW. inversion H; subst.
    eapply err_post; eauto. apply msgs_not235.
  - inversion H; subst. destruct EX as (R1 & O1 & C1 & P1 & F1).
    exists used, added. repeat split; auto.
Qed.

(** ------------------------------------------------------------ the mechanism loop *)

Definition exp_mechs (type : bytes) (mechs : list (bytes * N)) (linein : bytes) (used : list rdres)
  : option (bytes * bytes) :=
  match mech_of type mechs with
  | None => None
  | Some h => if N.eqb h 0 then exp_login linein used else exp_plain linein used
  end.

Definition no235 (l : list bytes) : Prop := has_code [50; 51; 53]%N l = false.

Lemma no235_app added l : Forall not235 added -> no235 l -> no235 (added ++ l).
Proof.
  unfold no235, has_code. intros F H.
  induction F as [|m added' HM F IH]; [exact H|]. cbn [existsb app]. unfold not235 in HM. rewrite HM. exact IH.
Qed.

Definition final_post (type : bytes) (mechs : list (bytes * N)) (linein : bytes) (s s' : ios) (rc : Z) (an : bytes) : Prop :=
  exists used, rds s = used ++ rds s' /\
    ((calls s' = calls s /\ pipes s' = pipes s /\ an = [] /\ (no235 (out s) -> no235 (out s')) /\ rc <> 0%Z)
     \/ (exists u p, calls s' = (u, p) :: calls s /\ pipes s' = bepipes u p ++ pipes s
           /\ exp_mechs type mechs linein used = Some (u, p)
           /\ an = (if Z.eqb (verdict u p) 0 then u else [])
           /\ (no235 (out s) -> has_code [50; 51; 53]%N (out s') = negb (nilb an))
           /\ (rc = 0%Z -> an <> []))).

Lemma mech_loop_post linein type : forall mechs s s' rc an,
  mech_loop be s linein type mechs = Ok (s', rc, an) -> final_post type mechs linein s s' rc an.
Proof.
  induction mechs as [|[text h] rest IH]; intros s s' rc an H; cbn [mech_loop] in H.
  - destruct (nw s MSG_504) as [s1 e] eqn:EW. inversion H; subst.
    apply nw_ext in EW as (R & O & C & P & F); [|apply msgs_not235].
    exists []. split; auto. left. repeat split; auto.
    + intros N0. rewrite O. now apply no235_app.
    + pose proof edone_pos. destruct (N.eqb e 0) eqn:E0; [lia|]. apply N.eqb_neq in E0. lia.
  - unfold final_post, exp_mechs. cbn [mech_of].
    destruct (mech_match text type) eqn:EM.
    2: { apply IH in H. exact H. }
    assert (HP : exists s1 r user, (if N.eqb h 0 then auth_login be s linein else auth_plain be s linein) = Ok (s1, r, user)
                 /\ handler_post (if N.eqb h 0 then exp_login linein else exp_plain linein) s s1 r user).
    { destruct (N.eqb h 0).
      - destruct (auth_login be s linein) as [[[s1 r] user]| |] eqn:EH; try discriminate.
        exists s1, r, user. split; auto. now apply auth_login_post.
      - destruct (auth_plain be s linein) as [[[s1 r] user]| |] eqn:EH; try discriminate.
        exists s1, r, user. split; auto. now apply auth_plain_post. }
    destruct HP as (s1 & r & user & EH & (used & added & R1 & O1 & F1 & HC)).
    rewrite EH in H. cbn [bind] in H.
    exists used.
    destruct HC as [(C1 & P1 & RN)|(p & C1 & P1 & V & EXP & UN)].
    + (* no backend call: r < 0 *)
      replace (Z.eqb r 0) with false in H by (symmetry; apply Z.eqb_neq; lia).
      replace (Z.eqb r 1) with false in H by (symmetry; apply Z.eqb_neq; lia).
      inversion H; subst. split; auto. left. repeat split; auto; [|lia].
      intros N0. rewrite O1. now apply no235_app.
    + destruct (Z.eqb r 0) eqn:ER0.
      * (* accepted *)
        destruct (nw s1 MSG_235) as [s2 e] eqn:EW. inversion H; subst s' rc an.
        unfold nw in EW.
        assert (FS : rds s2 = rds s1 /\ calls s2 = calls s1 /\ pipes s2 = pipes s1 /\ out s2 = MSG_235 :: out s1).
        { destruct (ws s1); inversion EW; subst; simpl; auto. }
        destruct FS as (R2 & C2 & P2 & O2).
        split; [congruence|]. right. exists user, p.
        refine (conj _ (conj _ (conj _ (conj _ (conj _ _))))); [congruence|congruence| | | |].
        -- destruct (N.eqb h 0); exact EXP.
        -- rewrite <- V. reflexivity.
        -- intros _. rewrite O2. unfold has_code. cbn [existsb]. rewrite msg235_is235. cbn [orb].
           destruct user; [contradiction|reflexivity].
        -- intros _. exact UN.
      * assert (VN : Z.eqb (verdict user p) 0 = false) by congruence.
        assert (NO : no235 (out s) -> no235 (out s1)) by (intros N0; rewrite O1; now apply no235_app).
        destruct (Z.eqb r 1) eqn:ER1.
        -- destruct (nw s1 MSG_535) as [s2 e] eqn:EW. inversion H; subst s' rc an.
           apply nw_ext in EW as (R2 & O2 & C2 & P2 & F2); [|apply msgs_not235].
           simpl in R2. split; [congruence|]. right. exists user, p.
           refine (conj _ (conj _ (conj _ (conj _ (conj _ _))))); [congruence|congruence| | | |].
           ++ destruct (N.eqb h 0); exact EXP.
           ++ now rewrite VN.
           ++ intros N0. cbn [nilb negb]. rewrite O2. apply no235_app; auto.
           ++ pose proof edone_pos. destruct (N.eqb e 0) eqn:E0; [lia|]. apply N.eqb_neq in E0. lia.
        -- inversion H; subst s' rc an. split; auto. right. exists user, p.
           refine (conj _ (conj _ (conj _ (conj _ (conj _ _))))); [congruence|congruence| | | |].
           ++ destruct (N.eqb h 0); exact EXP.
           ++ now rewrite VN.
           ++ intros N0. cbn [nilb negb]. now apply NO.
           ++ intros C0. apply Z.eqb_neq in ER0. lia.
Qed.

End Handlers.

(** ------------------------------------------------------------ smtp_auth against the checker *)

Definition init (reads : list rdres) (w : list N) : ios :=
  {| rds := reads; ws := w; out := []; calls := []; pipes := [] |}.

Definition obs_of (reads : list rdres) (s : ios) (rc : Z) (an : bytes) : aobs :=
  {| o_rc := rc; o_an := an; o_calls := rev (calls s); o_out := rev (out s); o_pipes := rev (pipes s);
     o_nreads := length reads - length (rds s) |}.

Lemma has_code_rev code l : has_code code (rev l) = has_code code l.
Proof.
  unfold has_code. apply Bool.eq_true_iff_eq. rewrite !existsb_exists.
  split; intros (x & I & E); exists x; split; auto; [now apply in_rev|now apply in_rev in I].
Qed.

Lemma expected_exp_mechs linein used :
  expected decode2 linein used = exp_mechs (skipn AUTH_TYPE_OFF linein) AUTH_MECHS linein used.
Proof.
  unfold expected, exp_mechs, exp_login, exp_plain, creds_of_blobs.
  destruct (mech_of (skipn AUTH_TYPE_OFF linein) AUTH_MECHS) as [h|]; [|reflexivity].
  destruct (N.eqb h 0); reflexivity.
Qed.

Lemma permitted_spec c : auth_permitted c = spec_permitted c.
Proof. unfold auth_permitted, spec_permitted. destruct c as [[] [] []]; reflexivity. Qed.

Lemma bytes_eqb_refl a : bytes_eqb a a = true.
Proof. now apply bytes_eqb_eq. Qed.

Theorem smtp_auth_ok be verdict bepipes c an0 linein reads w s rc an :
  be_wf be verdict bepipes ->
  smtp_auth be c an0 linein (init reads w) = Ok (s, rc, an) ->
  auth_ok decode2 verdict c an0 linein reads (obs_of reads s rc an) = true
  /\ pipes s = match calls s with [(u, p)] => bepipes u p | _ => [] end.
Proof.
  intros WF H. unfold smtp_auth in H. unfold auth_ok.
  rewrite nilb_length, permitted_spec in H.
  destruct (negb (nilb an0) || negb (spec_permitted c)) eqn:ER.
  - inversion H; subst. simpl. rewrite bytes_eqb_refl, Nat.sub_diag. auto.
  - apply (mech_loop_post be verdict bepipes WF) in H as (used & R & HC).
    simpl in R. unfold obs_of. cbn [o_rc o_an o_calls o_out o_pipes o_nreads].
    assert (NR : firstn (length reads - length (rds s)) reads = used).
    { rewrite R, app_length, Nat.add_sub. now rewrite firstn_app, Nat.sub_diag, firstn_all, app_nil_r. }
    rewrite NR, has_code_rev.
    destruct HC as [(C1 & P1 & -> & N1 & RC)|(u & p & C1 & P1 & EXP & AN & H235 & RC)]; simpl in C1, P1.
    + rewrite C1, P1. simpl. split; auto.
      rewrite (N1 eq_refl). simpl. destruct (Z.eqb rc 0) eqn:E0; auto. apply Z.eqb_eq in E0. contradiction.
    + rewrite C1, P1, app_nil_r. simpl. split; auto.
      rewrite expected_exp_mechs, EXP. unfold pair_eqb. simpl. rewrite !bytes_eqb_refl. simpl.
      rewrite <- AN, bytes_eqb_refl. simpl.
      rewrite (H235 eq_refl), eqb_reflx. simpl.
      destruct (Z.eqb rc 0) eqn:E0; auto. apply Z.eqb_eq in E0. specialize (RC E0).
      destruct an; [contradiction|reflexivity].
Qed.

(** ------------------------------------------------------------ the concrete backends *)

Lemma nw_done_wf s m s' z :
  nw_done s m = (s', z) -> not235 m ->
  (z < 0)%Z /\ calls s' = calls s /\ rds s' = rds s /\ pipes s' = pipes s
  /\ exists added, out s' = added ++ out s /\ Forall not235 added.
Proof.
  intros H NM. apply nw_done_ext in H as [(R & O & C & P & F) Z]; auto. simpl in R.
  repeat split; auto. eauto.
Qed.

Lemma be_stub_wf mode val :
  N.leb mode 2 = true -> be_wf (be_stub mode val) (fun _ _ => case_verdict mode val) (fun _ _ => []).
Proof.
  intros HM s u p. unfold be_stub, case_verdict.
  destruct (N.eqb mode 0) eqn:E0.
  - repeat split; auto. exists []. auto.
  - destruct (N.eqb mode 1) eqn:E1.
    + repeat split; auto. exists []. auto.
    + destruct (nw_done s MSG_TEMPNOAUTH) as [s' z] eqn:EW.
      apply nw_done_wf in EW as (Z & C & R & P & A); [|apply msgs_not235].
      replace (N.eqb mode 3) with false
        by (symmetry; apply N.eqb_neq; apply N.leb_le in HM; lia).
      repeat split; auto. apply Z.eqb_neq. lia.
Qed.

(** what reaches the pipe, and the answer, for each injected fault *)
Definition cp_pipes (fault : N) (u p : bytes) : list bytes :=
  if N.eqb fault 1 then []
  else if N.eqb fault 2 || N.eqb fault 3 then [[]]
  else if N.eqb fault 4 then [[]]
  else if N.eqb fault 5 then [u ++ [0%N]]
  else if N.eqb fault 6 then [(u ++ [0%N]) ++ p ++ [0%N]]
  else [((u ++ [0%N]) ++ p ++ [0%N]) ++ [0%N]].

Definition cp_faulty (fault : N) : bool :=
  N.eqb fault 1 || (N.eqb fault 2 || N.eqb fault 3) || N.eqb fault 4 || N.eqb fault 5 || N.eqb fault 6
  || (N.eqb fault 7 || N.eqb fault 8).

Definition cp_verdict (fault : N) (chk : bytes -> child_res) (u p : bytes) : Z :=
  if cp_faulty fault then (-1)%Z
  else match chk (((u ++ [0%N]) ++ p ++ [0%N]) ++ [0%N]) with
       | CExit n => if N.eqb n 0 then 0%Z else 1%Z
       | CKilled => (-1)%Z
       end.

Lemma fd3_assoc u p : ((u ++ [0%N]) ++ p ++ [0%N]) ++ [0%N] = fd3 u p.
Proof. unfold fd3. now rewrite <- !app_assoc. Qed.

Lemma be_cp_wf fault chk : be_wf (be_cp fault chk) (cp_verdict fault chk) (cp_pipes fault).
Proof.
  intros s u p. unfold be_cp, cp_verdict, cp_pipes, cp_faulty.
  assert (T : forall s1 (pp : list bytes), pipes s1 = pp ++ pipes s -> calls s1 = calls s -> rds s1 = rds s -> out s1 = out s ->
              let '(s', r) := nw_done s1 MSG_TEMPNOAUTH in
              Z.eqb r 0 = Z.eqb (-1) 0 /\ calls s' = calls s /\ rds s' = rds s /\ pipes s' = pp ++ pipes s
              /\ exists added, out s' = added ++ out s /\ Forall not235 added).
  { intros s1 pp P1 C1 R1 O1. destruct (nw_done s1 MSG_TEMPNOAUTH) as [s' z] eqn:EW.
    apply nw_done_wf in EW as (Z & C & R & P & A); [|apply msgs_not235].
    repeat split; try congruence.
    - apply Z.eqb_neq. lia.
    - rewrite O1 in A. exact A. }
  destruct (N.eqb fault 1); cbn [orb]; [apply (T s []); auto|].
  destruct (N.eqb fault 2 || N.eqb fault 3); cbn [orb]; [apply (T (add_pipe s []) [[]]); auto|].
  destruct (N.eqb fault 4); cbn [orb]; [apply (T (add_pipe s []) [[]]); auto|].
  destruct (N.eqb fault 5); cbn [orb]; [apply (T (add_pipe s _) [_]); auto|].
  destruct (N.eqb fault 6); cbn [orb]; [apply (T (add_pipe s _) [_]); auto|].
  destruct (N.eqb fault 7 || N.eqb fault 8); cbn [orb]; [apply (T (add_pipe s _) [_]); auto|].
  destruct (chk (((u ++ [0%N]) ++ p ++ [0%N]) ++ [0%N])) as [n|].
  - repeat split; auto. exists []. auto.
  - apply (T (add_pipe s _) [_]); auto.
Qed.

Definition case_pipes (mode val : N) : bytes -> bytes -> list bytes :=
  if N.leb mode 2 then fun _ _ => []
  else if N.eqb mode 3 || N.eqb mode 4 then cp_pipes 0
  else cp_pipes val.

(** the harness' faults are 1..8; other numbers would run the child *)
Definition case_valid (mode val : N) : bool :=
  N.leb mode 4 || (N.eqb mode 5 && cp_faulty val).

Lemma backend_of_wf mode val :
  case_valid mode val = true ->
  be_wf (backend_of mode val) (fun u p => case_verdict mode val) (case_pipes mode val).
Proof.
  intros CV. unfold backend_of, case_pipes.
  destruct (N.leb mode 2) eqn:E2; [now apply be_stub_wf|].
  apply N.leb_gt in E2.
  destruct (N.eqb mode 3) eqn:E3.
  - apply N.eqb_eq in E3. subst. cbn [orb].
    pose proof (be_cp_wf 0 (fun _ => CExit val)) as W. intros s u p. specialize (W s u p).
    destruct (be_cp 0 (fun _ => CExit val) s u p) as [s' r]. unfold cp_verdict, case_verdict in *. simpl in *. exact W.
  - destruct (N.eqb mode 4) eqn:E4.
    + apply N.eqb_eq in E4. subst. cbn [orb].
      pose proof (be_cp_wf 0 (fun _ => CKilled)) as W. intros s u p. specialize (W s u p).
      destruct (be_cp 0 (fun _ => CKilled) s u p) as [s' r]. unfold cp_verdict, case_verdict in *. simpl in *. exact W.
    + cbn [orb]. unfold case_valid in CV.
      replace (N.leb mode 4) with false in CV
        by (symmetry; apply N.leb_gt; apply N.eqb_neq in E3, E4; lia).
      cbn [orb] in CV. apply andb_true_iff in CV as [_ CV].
      pose proof (be_cp_wf val (fun _ => CExit 0)) as W. intros s u p. specialize (W s u p).
      destruct (be_cp val (fun _ => CExit 0) s u p) as [s' r]. unfold cp_verdict, case_verdict in *.
      rewrite CV in W.
      replace (N.eqb mode 0) with false by (symmetry; apply N.eqb_neq; lia).
      replace (N.eqb mode 1) with false by (symmetry; apply N.eqb_neq; lia).
      rewrite E3. exact W.
Qed.

Lemma prefixb_app a b : prefixb a (a ++ b) = true.
Proof. induction a as [|x a IH]; [reflexivity|]. simpl. now rewrite N.eqb_refl, IH. Qed.

Lemma auth_ok_calls dec v c an0 linein reads o :
  auth_ok dec v c an0 linein reads o = true -> length (o_calls o) <= 1.
Proof.
  unfold auth_ok. destruct (o_calls o) as [|[u p] [|y l]]; simpl; try lia.
  destruct (negb (nilb an0) || negb (spec_permitted c)).
  - rewrite andb_false_r. discriminate.
  - discriminate.
Qed.

(** the complete checker (with the model's decoder) holds for every harness case *)
Theorem smtp_auth_case_ok mode val c an0 linein reads w s rc an :
  case_valid mode val = true ->
  smtp_auth (backend_of mode val) c an0 linein (init reads w) = Ok (s, rc, an) ->
  auth_ok decode2 (fun _ _ => case_verdict mode val) c an0 linein reads (obs_of reads s rc an) = true
  /\ pipes_ok (N.leb 3 mode) (if N.eqb mode 5 then val else 0%N) (obs_of reads s rc an) = true.
Proof.
  intros CV H.
  destruct (smtp_auth_ok _ _ _ _ _ _ _ _ _ _ _ (backend_of_wf mode val CV) H) as [A P].
  split; [exact A|].
  (* the shape of calls is known from auth_ok *)
  pose proof (auth_ok_calls _ _ _ _ _ _ _ A) as AC. unfold obs_of in AC. cbn [o_calls] in AC. rewrite rev_length in AC.
  unfold pipes_ok, obs_of. cbn [o_calls o_pipes]. rewrite P.
  unfold auth_ok, obs_of in A. cbn [o_rc o_an o_calls o_out o_pipes o_nreads] in A.
  destruct (calls s) as [|[u p] [|x l]] eqn:EC.
  - reflexivity.
  - cbn [rev app]. unfold case_pipes.
    destruct (N.leb mode 2) eqn:E2.
    + replace (N.leb 3 mode) with false by (symmetry; apply N.leb_gt; apply N.leb_le in E2; lia). reflexivity.
    + apply N.leb_gt in E2. replace (N.leb 3 mode) with true by (symmetry; apply N.leb_le; lia). cbn [andb negb orb].
      destruct (N.eqb mode 3 || N.eqb mode 4) eqn:E34.
      * replace (N.eqb mode 5) with false
          by (symmetry; apply N.eqb_neq; apply orb_true_iff in E34 as [E|E]; apply N.eqb_eq in E; lia).
        unfold cp_pipes. simpl. now rewrite fd3_assoc, bytes_eqb_refl.
      * apply orb_false_iff in E34 as [E3 E4]. unfold case_valid in CV.
        replace (N.leb mode 4) with false in CV
          by (symmetry; apply N.leb_gt; apply N.eqb_neq in E3, E4; lia).
        cbn [orb] in CV. apply andb_true_iff in CV as [E5 CV]. rewrite E5.
        unfold cp_pipes, cp_faulty in *.
        destruct (N.eqb val 1) eqn:V1; [reflexivity|].
        replace (N.eqb val 0) with false
          by (symmetry; apply N.eqb_neq; intros ->; simpl in CV; discriminate).
        rewrite <- fd3_assoc.
        destruct (N.eqb val 2 || N.eqb val 3); cbn [rev app]; [reflexivity|].
        destruct (N.eqb val 4); cbn [rev app]; [reflexivity|].
        destruct (N.eqb val 5); cbn [rev app].
        { rewrite <- (app_assoc (u ++ [0%N])). apply prefixb_app. }
        destruct (N.eqb val 6); cbn [rev app].
        { apply prefixb_app. }
        rewrite <- (app_nil_r (((u ++ [0%N]) ++ p ++ [0%N]) ++ [0%N])) at 2. apply prefixb_app.
  - exfalso. simpl in AC. lia.
Qed.

(** ------------------------------------------------------------ with a strict decoder *)

Lemma decode2_strict_dec b : pad_regular b = true -> decode2 b = strict_dec b.
Proof.
  intros H. rewrite (decode2_regular_eq _ H). unfold strict_dec. destruct (strict_decode b); reflexivity.
Qed.

Lemma expected_ext dec1 dec2 linein used :
  (forall b, In b (blobs_of linein used) -> dec1 b = dec2 b) ->
  expected dec1 linein used = expected dec2 linein used.
Proof.
  intros H. unfold expected, creds_of_blobs.
  destruct (mech_of (skipn AUTH_TYPE_OFF linein) AUTH_MECHS) as [h|]; [|reflexivity].
  destruct (blobs_of linein used) as [|b0 [|b1 t]]; try reflexivity.
  - destruct (N.eqb h 0); [reflexivity|]. rewrite (H b0) by (simpl; auto). reflexivity.
  - rewrite (H b0) by (simpl; auto). rewrite (H b1) by (simpl; auto). reflexivity.
Qed.

(** when every Base64 text of the exchange has regular padding the checker
    may use the strict decoder of Spec/Base64Spec.v: same verdict *)
Theorem auth_ok_strict verdict c an0 linein reads o :
  Forall (fun b => pad_regular b = true) (blobs_of linein (firstn (o_nreads o) reads)) ->
  auth_ok strict_dec verdict c an0 linein reads o = auth_ok decode2 verdict c an0 linein reads o.
Proof.
  intros H. unfold auth_ok.
  rewrite (expected_ext strict_dec decode2); [reflexivity|].
  intros b I. rewrite Forall_forall in H. symmetry. apply decode2_strict_dec. now apply H.
Qed.

(** ------------------------------------------------------------ no undefined behaviour *)

(** contract of the environment: net_readline(64, …) returns 1..64 octets or fails with errno set *)
Definition read_ok (r : rdres) : Prop :=
  match r with
  | RdChunk b => 1 <= length b <= AUTH_CHUNK
  | RdErr e => e <> 0%N
  end.

Lemma authgetl_read_safe : forall r cur,
  Forall read_ok r -> exists r' res, authgetl_read r cur = Ok (r', res) /\ Forall read_ok r'.
Proof.
  induction r as [|x r IH]; intros cur F; simpl.
  - eauto.
  - inversion F as [|? ? HX HR]; subst. destruct x as [b|e]; simpl in HX.
    + replace (Nat.ltb AUTH_CHUNK (length b)) with false by (symmetry; apply Nat.ltb_ge; lia).
      destruct (cur ++ b) as [|y l] eqn:E.
      { apply (f_equal (@length N)) in E. rewrite app_length in E. simpl in E. lia. }
      destruct (N.eqb (last (y :: l) 0%N) LF); eauto.
    + apply N.eqb_neq in HX. rewrite HX. eauto.
Qed.

Lemma nw_rds s m : rds (fst (nw s m)) = rds s.
Proof. unfold nw. destruct (ws s); reflexivity. Qed.

Lemma nw_done_rds s m : rds (fst (nw_done s m)) = rds s.
Proof. unfold nw_done. pose proof (nw_rds s m). destruct (nw s m). simpl in *. auto. Qed.

Lemma authgetl_safe s :
  Forall read_ok (rds s) -> exists s' g, authgetl s = Ok (s', g) /\ Forall read_ok (rds s').
Proof.
  intros F. unfold authgetl.
  destruct (authgetl_read_safe (rds s) [] F) as (r' & res & E & F'). rewrite E. cbn [bind].
  assert (D : forall m, exists s' z, nw_done (set_rds s r') m = (s', z) /\ Forall read_ok (rds s')).
  { intros m. pose proof (nw_done_rds (set_rds s r') m) as R. destruct (nw_done (set_rds s r') m) as [s' z].
    simpl in R. exists s', z. split; auto. now rewrite R. }
  destruct res as [a|e]; [|eauto].
  destruct (negb (Nat.eqb (length a - 1) 0)).
  - destruct (Nat.eqb _ 1 && N.eqb (nth 0 a 0%N) 42).
    + destruct (D MSG_501_CANCEL) as (s' & z & -> & F2). eauto.
    + destruct (Nat.eqb _ 0).
      * unfold err_input. destruct (D MSG_501_INPUT) as (s' & z & -> & F2). eauto.
      * eauto.
  - unfold err_input. destruct (D MSG_501_INPUT) as (s' & z & -> & F2). eauto.
Qed.

Lemma get_blob_safe s linein chal :
  Forall read_ok (rds s) -> exists s' x, get_blob s linein chal = Ok (s', x) /\ Forall read_ok (rds s').
Proof.
  intros F. unfold get_blob.
  destruct (Nat.ltb AUTH_IR_OFF (length linein)).
  - rewrite b64decode_L2. cbn [bind]. eauto.
  - pose proof (nw_rds s chal) as R. destruct (nw s chal) as [s1 e]. simpl in R.
    destruct (negb (N.eqb e 0)); [exists s1; eexists; split; [reflexivity|now rewrite R]|].
    destruct (authgetl_safe s1) as (s2 & g & E & F2); [now rewrite R|]. rewrite E. cbn [bind].
    destruct g; [rewrite b64decode_L2; cbn [bind]|]; eauto.
Qed.

Theorem smtp_auth_safe be c an0 linein s :
  Forall read_ok (rds s) -> exists r, smtp_auth be c an0 linein s = Ok r.
Proof.
  intros F. unfold smtp_auth.
  destruct (negb (Nat.eqb (length an0) 0) || negb (auth_permitted c)); [eauto|].
  generalize (skipn AUTH_TYPE_OFF linein) as type. intros type.
  induction AUTH_MECHS as [|[text h] rest IH]; cbn [mech_loop].
  - destruct (nw s MSG_504). eauto.
  - destruct (mech_match text type); [|exact IH].
    assert (HS : exists s1 r user, (if N.eqb h 0 then auth_login be s linein else auth_plain be s linein) = Ok (s1, r, user)).
    { destruct (N.eqb h 0).
      - unfold auth_login.
        destruct (get_blob_safe s linein MSG_334_USER F) as (s1 & x & E & F1). rewrite E. cbn [bind].
        destruct x as [[u|]|z]; [|destruct (err_base64 s1); eauto|eauto].
        pose proof (nw_rds s1 MSG_334_PASS) as R. destruct (nw s1 MSG_334_PASS) as [s2 e]. simpl in R.
        destruct (negb (N.eqb e 0)); [eauto|].
        destruct (authgetl_safe s2) as (s3 & g & E3 & F3); [now rewrite R|]. rewrite E3. cbn [bind].
        destruct g as [a|z]; [|eauto]. rewrite b64decode_L2. cbn [bind].
        destruct (decode2 a); [|destruct (err_base64 s3); eauto].
        destruct (Nat.eqb (length u) 0 || Nat.eqb (length b) 0); [destruct (err_input s3); eauto|].
        destruct (call_be be s3 u b). eauto.
      - unfold auth_plain.
        destruct (get_blob_safe s linein MSG_334_PLAIN F) as (s1 & x & E & F1). rewrite E. cbn [bind].
        destruct x as [[slop|]|z]; [|destruct (err_base64 s1); eauto|eauto].
        match goal with |- context [if ?c then _ else _] => destruct c end.
        + destruct (err_input s1); eauto.
        + match goal with |- context [call_be be s1 ?u ?p] => destruct (call_be be s1 u p) end. eauto. }
    destruct HS as (s1 & r & user & ->). cbn [bind].
    destruct (Z.eqb r 0); [destruct (nw s1 MSG_235); eauto|].
    destruct (Z.eqb r 1); [destruct (nw s1 MSG_535); eauto|eauto].
Qed.

(** ------------------------------------------------------------ readable corollaries *)

(** refused: nothing is read, written or asked, authname stays *)
Theorem smtp_auth_refused be c an0 linein s :
  an0 <> [] \/ auth_host_set c = false \/ (sslauth_on c = true /\ ssl_on c = false) ->
  smtp_auth be c an0 linein s = Ok (s, 1%Z, an0).
Proof.
  intros H. unfold smtp_auth, auth_permitted.
  destruct H as [H|[H|[H1 H2]]].
  - destruct an0; [contradiction|reflexivity].
  - rewrite H. simpl. now rewrite orb_true_r.
  - rewrite H1, H2. simpl. destruct (auth_host_set c); simpl; now rewrite orb_true_r.
Qed.

(** an identity after AUTH on a connection without one: exactly one backend
    call, with the credentials of the exchange, answered with 0; and the
    identity is that call's user.  Every other outcome leaves authname empty. *)
Theorem smtp_auth_identity be verdict bepipes c linein reads w s rc an :
  be_wf be verdict bepipes ->
  smtp_auth be c [] linein (init reads w) = Ok (s, rc, an) ->
  (an <> [] <->
   exists u p, calls s = [(u, p)] /\ Z.eqb (verdict u p) 0 = true /\ an = u /\ u <> [])
  /\ (forall u p, In (u, p) (calls s) ->
        auth_permitted c = true /\
        expected decode2 linein (firstn (length reads - length (rds s)) reads) = Some (u, p)).
Proof.
  intros WF H. destruct (smtp_auth_ok _ _ _ _ _ _ _ _ _ _ _ WF H) as [A _].
  unfold auth_ok, obs_of in A. cbn [o_rc o_an o_calls o_out o_pipes o_nreads nilb negb orb] in A.
  rewrite <- permitted_spec in A.
  destruct (auth_permitted c) eqn:EP; cbn [negb] in A.
  2: { (* refused *)
    apply andb_true_iff in A as [A1 A2]. apply andb_true_iff in A1 as [_ A1].
    apply bytes_eqb_eq in A1. subst an.
    destruct (rev (calls s)) eqn:ER; [|discriminate].
    apply (f_equal (@rev _)) in ER. rewrite rev_involutive in ER. simpl in ER. rewrite ER.
    split; [|intros u p []]. split; [intros C; contradiction|intros (u & p & C & _); discriminate]. }
  apply andb_true_iff in A as [A A3]. apply andb_true_iff in A as [A1 A2].
  destruct (rev (calls s)) as [|[u p] [|x l]] eqn:ER; [| |discriminate].
  - apply (f_equal (@rev _)) in ER. rewrite rev_involutive in ER. simpl in ER. rewrite ER.
    destruct an; [|discriminate].
    split; [|intros u p []]. split; [intros C; contradiction|intros (u & p & C & _); discriminate].
  - apply (f_equal (@rev _)) in ER. rewrite rev_involutive in ER. simpl in ER. rewrite ER.
    apply andb_true_iff in A1 as [AE AN]. apply bytes_eqb_eq in AN.
    destruct (expected decode2 linein (firstn (length reads - length (rds s)) reads)) as [[eu ep]|] eqn:EX; [|discriminate].
    unfold pair_eqb in AE. simpl in AE. apply andb_true_iff in AE as [AE1 AE2].
    apply bytes_eqb_eq in AE1, AE2. subst eu ep.
    split.
    + split.
      * intros NE. exists u, p. destruct (Z.eqb (verdict u p) 0); [|contradiction].
        repeat split; auto. now rewrite <- AN.
      * intros (u' & p' & C & V & E & NE). inversion C; subst. exact NE.
    + intros u' p' [I|[]]. inversion I; subst. auto.
Qed.

(** the checkpassword backend: what goes to descriptor 3 and what comes back *)
Theorem be_cp_fd3 chk s u p :
  let '(s', r) := be_cp 0 chk s u p in
  pipes s' = fd3 u p :: pipes s /\ (r = 0%Z <-> chk (fd3 u p) = CExit 0).
Proof.
  unfold be_cp. simpl. rewrite fd3_assoc.
  destruct (chk (fd3 u p)) as [n|] eqn:EC.
  - split; [reflexivity|]. destruct (N.eqb n 0) eqn:E0.
    + apply N.eqb_eq in E0. subst. split; auto.
    + split; [discriminate|]. intros C. inversion C; subst. discriminate.
  - destruct (nw_done (add_pipe s (fd3 u p)) MSG_TEMPNOAUTH) as [s' z] eqn:EW.
    apply nw_done_wf in EW as (Z & C & R & P & A); [|apply msgs_not235].
    split; [exact P|]. split; [lia|discriminate].
Qed.

(** with an OS fault the backend never answers 0, and what it wrote is a prefix of the credentials *)
Theorem be_cp_fault fault chk s u p :
  cp_faulty fault = true ->
  let '(s', r) := be_cp fault chk s u p in
  r <> 0%Z /\ (pipes s' = pipes s \/ exists pp, pipes s' = pp :: pipes s /\ prefixb pp (fd3 u p) = true).
Proof.
  intros CF. pose proof (be_cp_wf fault chk s u p) as W.
  destruct (be_cp fault chk s u p) as [s' r]. destruct W as (V & _ & _ & P & _).
  unfold cp_verdict in V. rewrite CF in V. split; [intros ->; discriminate|].
  rewrite P. unfold cp_pipes. rewrite <- fd3_assoc.
  destruct (N.eqb fault 1); [left; reflexivity|]. right.
  destruct (N.eqb fault 2 || N.eqb fault 3); [eexists; split; reflexivity|].
  destruct (N.eqb fault 4); [eexists; split; reflexivity|].
  destruct (N.eqb fault 5).
  { eexists; split; [reflexivity|]. rewrite <- (app_assoc (u ++ [0%N])). apply prefixb_app. }
  destruct (N.eqb fault 6); [eexists; split; [reflexivity|apply prefixb_app]|].
  eexists; split; [reflexivity|].
  rewrite <- (app_nil_r (((u ++ [0%N]) ++ p ++ [0%N]) ++ [0%N])) at 2. apply prefixb_app.
Qed.

(** the AUTH row of commands[]: only in the state EHLO leaves (mask = bit of
    EHLO), needs an argument separated by a blank (flags 1|4) *)
Lemma auth_cmd_row : AUTH_CMD_MASK = EHLO_STATE_BIT /\ AUTH_CMD_FLAGS = 5%N.
Proof. split; reflexivity. Qed.

(** C03 — 250 after DATA only if all was written and qmail-queue exited 0.
    Statements only; proofs in Proofs/SessionProofs.v.

    The k-th qmail-queue invocation behaves as the oracle [o_qq k] says: QQ_ok
    (reads everything, exits 0), QQ_exit c (exits c <> 0), QQ_signal,
    QQ_die_write / QQ_die_early / QQ_die_hdr (dies early; a write to it fails: the
    envelope, the first data line, already the Received: header), or QQ_nostart
    (queue_init() fails: pipe, fork, or the child is gone when it looks).  [queue_ok] checks on the
    trace: after an accepted DATA only the 354 is sent until the transaction
    ends; a hand-off needs QQ_ok; the closing reply is 250 iff the hand-off
    happened, otherwise a 4xx/5xx; and the transaction data is discarded
    (boundary) in both cases. *)
From Qv Require Import Common.Bytes Gen.GenSession Model.NetRead Model.Session Spec.SessionSpec Proofs.SessionProofs.

Theorem C03_queue_discipline : forall o chunks, queue_ok o (run_session o chunks).
Proof. intros o chunks. exact (proj2 (session_trace_ok o chunks)). Qed.
Print Assumptions C03_queue_discipline.

Theorem C03_handoff_needs_success : forall o chunks pre env msg post,
  run_session o chunks = pre ++ Handoff env msg :: post ->
  exists k, queue_run o pre QIdle = Some (QData k) /\ o_qq o k = QQ_ok.
Proof. exact handoff_needs_queue_success. Qed.
Print Assumptions C03_handoff_needs_success.

(** "If qmail-queue cannot be started": DATA gets its 354 only for an invocation that queue_init() saw running ... *)
Theorem C03_data_needs_queue_start : forall o chunks pre k post,
  run_session o chunks = pre ++ Note (NData k) :: post -> o_qq o k <> QQ_nostart.
Proof. exact data_needs_queue_start. Qed.
Print Assumptions C03_data_needs_queue_start.

(** ... otherwise the answer to DATA is 451 and nothing else happens: no 354, nothing handed over, and sender, recipients and
    command state stay as they are - the transaction is NOT discarded at this point (the property text says "discarded"; the
    code refuses the DATA command before anything was transmitted, the client may repeat it, RSET / a new greeting discard as
    always: C08).  [s2]: the state behind sync_pipelining(). *)
Theorem C03_queue_not_started : forall o f s s2 evs h s',
  (goodrcpt s =? 0) = false -> sync_pipelining f s = (None, s2) -> o_qq o (qcount s2) = QQ_nostart ->
  h_data f o s = (evs, h, s') ->
  evs = [Reply 451] /\ h = HEDONE /\ mailfrom s' = mailfrom s2 /\ rcpts s' = rcpts s2 /\ rcptcount s' = rcptcount s2
  /\ goodrcpt s' = goodrcpt s2 /\ comstate s' = comstate s2 /\ rd s' = rd s2 /\ qcount s' = S (qcount s2).
Proof. exact queue_not_started. Qed.
Print Assumptions C03_queue_not_started.

(** started but gone before the Received: header (EPIPE in write_received), as every other failure behind the 354: the
    transaction is dropped and the closing reply is 4xx - instance of C03_queue_discipline; here the concrete session *)
Example C03_nonvacuous_queue_init :
  let o q := {| o_helo := fun _ => true;
              o_addr := fun _ arg => match arg with 60%N :: c :: _ => AP_ok [c] None RLocal | _ => AP_nobracket end;
              o_ext := fun _ => Ext_ok 0 0 None; o_relay := 0%Z; o_mx := fun _ => 0; o_qq := fun k => match k with 0 => q | _ => QQ_ok end;
              o_databytes := 0%N; o_liphost := []; o_check2822 := false; o_authperm := false; o_auth := fun _ => Auth_multi; o_trace := fun _ _ _ _ _ _ _ => [88; 10]%N;
              o_submission := false; o_subm_date := []; o_subm_stamp := []; o_msgidhost := []; o_tls := false; o_tlsverify := TV_no |} in
  let helo := [72;69;76;79;32;120;13;10]%N in let mail := [77;65;73;76;32;70;82;79;77;58;60;97;62;13;10]%N in
  let rcpt := [82;67;80;84;32;84;79;58;60;98;62;13;10]%N in let data := [68;65;84;65;13;10]%N in let body := [104;13;10;46;13;10]%N in
  let replies evs := filter (fun e => match e with Reply _ | Handoff _ _ => true | _ => false end) evs in
  (* not started: 451 to DATA; the second DATA of the same transaction is the next invocation and goes through *)
  replies (run_session (o QQ_nostart) [helo; mail; rcpt; data; data; body])
    = [Reply 220; Reply 250; Reply 250; Reply 250; Reply 451; Reply 354; Handoff [70;97;0;84;98;0;0]%N [88;10;104;10]%N; Reply 250]
  (* gone before the header: 354, the data is read and thrown away, 451, the transaction is gone (RCPT: 503) *)
  /\ replies (run_session (o QQ_die_hdr) [helo; mail; rcpt; data; body; rcpt])
    = [Reply 220; Reply 250; Reply 250; Reply 250; Reply 354; Reply 451; Reply 503].
Proof. vm_compute. split; reflexivity. Qed.

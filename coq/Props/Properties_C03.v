(** C03 — 250 after DATA only if all was written and qmail-queue exited 0.
    Statements only; proofs in Proofs/SessionProofs.v.

    The k-th qmail-queue invocation behaves as the oracle [o_qq k] says: QQ_ok
    (reads everything, exits 0), QQ_exit c (exits c <> 0), QQ_signal, or
    QQ_die_write (dies early; a write to it fails).  [queue_ok] checks on the
    trace: after an accepted DATA only the 354 is sent until the transaction
    ends; a hand-off needs QQ_ok; the closing reply is 250 iff the hand-off
    happened, otherwise a 4xx/5xx; and the transaction data is discarded
    (boundary) in both cases. *)
From Qv Require Import Common.Bytes Gen.GenSession Model.NetRead Model.Session Spec.SessionSpec Proofs.SessionProofs.

Theorem C03_queue_discipline : forall o chunks, queue_ok o (run_session o chunks).
Proof. intros o chunks. exact (proj2 (session_trace_ok o chunks)). Qed.
Print Assumptions C03_queue_discipline.

Theorem C03_handoff_needs_success : forall o chunks pre env msg post,
  run_session o chunks = pre ++ Handoff env msg :: post ->
  exists k, queue_run o pre QIdle = Some (QData k) /\ o_qq o k = QQ_ok.
Proof. exact handoff_needs_queue_success. Qed.
Print Assumptions C03_handoff_needs_success.

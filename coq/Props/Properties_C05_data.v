(** C05 — "Qsmtpd recognises ... the end of message data only at a line consisting of a single dot ... No part of an
    over-long or malformed line is ever executed as a separate command or taken as the end-of-data marker", at the level
    of the DATA command (Model/Session.v: smtp_data on top of the line reader of Model/NetRead.v).
    Statements only; proofs in Proofs/DataProofs.v and Proofs/DrainProofs.v. *)
From Qv Require Import Common.Bytes Gen.GenNetio Gen.GenSession Model.NetRead Model.Session Spec.LineSpec Spec.SessionSpec
  Proofs.NetReadProofs Proofs.DataProofs Proofs.DrainProofs.

(** an accepted message: what was consumed from the connection is exactly the lines [seen], none of which is the lone dot
    or holds CR / LF, followed by ".CRLF"; the reader goes on right behind it.  Every reader state, stream, segmentation. *)
Theorem C05_data_ends_at_lone_dot : forall fuel o dc r trace msg sz seen r',
  rstate_ok r -> data_loop fuel o dc r trace = (D_eod msg sz seen, r') ->
  total r = wire seen ++ [DOT; CR; LF] ++ total r' /\ Forall data_line seen.
Proof.
  intros fuel o dc r trace msg sz seen r' Hok H.
  pose proof (data_loop_spec fuel o dc r trace _ r' Hok H) as X. cbn in X. tauto.
Qed.
Print Assumptions C05_data_ends_at_lone_dot.

(** a rejected message: the rest is skipped up to the first successfully read line that is the lone dot; other lines and
    read errors (over-long line, stray CR, bare LF) never end the skipping *)
Theorem C05_skip_ends_at_lone_dot : forall fuel r last r', is_dot last = false ->
  drain fuel r last = (true, r') -> reads_to_dot r r'.
Proof. exact drain_stops_at_dot. Qed.
Print Assumptions C05_skip_ends_at_lone_dot.

(** after a failed write to qmail-queue: up to the lone dot or the first read error *)
Theorem C05_skip_after_write_error : forall fuel r last e r', is_dot last = false ->
  drain_break fuel r last = (true, e, r') -> reads_to_dot_or_err r e r'.
Proof. exact drain_break_stops. Qed.
Print Assumptions C05_skip_after_write_error.

(** placeholder while the proofs are written *)
From Qv Require Import Common.Bytes Model.BdatTx Spec.BdatSpec.

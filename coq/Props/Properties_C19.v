(** C19 — BDAT chunks are framed exactly and chunk boundaries never alter the message.
    Only statements here; proofs live in Proofs/Bdat*.v. *)
From Qv Require Import Common.Bytes Gen.GenBdat Model.BdatTx Spec.BdatSpec Proofs.BdatDigits Proofs.BdatTxProofs.

(** Sending side (qremote/qrbdat.c:send_bdat with fixes/C19-bdat-final-crlf.diff).
    For every message, every chunk size from 16 (the minimum that fits
    "BDAT n LAST CRLF" and one octet) and every behaviour of the server
    ([nok] = how many intermediate chunks it accepts; [None] = all):
    the model does not crash (no access outside chunkbuf or msgdata) and terminates,
    and what it hands to the network layer satisfies [tx_ok] (Spec/BdatSpec.v):
    every write is "BDAT n[ LAST] CRLF" followed by exactly n octets, command and
    data together never exceed the chunk size, LAST is on the final command and
    only there (and only when the transaction was not aborted), a non-empty
    message produces at least one command, and the concatenated chunk data is
    the message with every bare LF made CRLF, a bare CR kept or completed to
    CRLF (for an aborted transaction: of a prefix of the message). *)
Theorem C19_tx : forall cs msg nok, 16 <= cs ->
  exists ws e wn,
    send_bdat cs msg nok = Ok (ws, e, wn)
    /\ tx_ok cs msg (is_done e) ws
    /\ (nok = None -> e = TxDone).
Proof. exact send_bdat_ok. Qed.
Print Assumptions C19_tx.

(** For a message without bare CR (every valid message) the normalisation is a
    function: the chunk data concatenates to exactly [lf2crlf false msg]. *)
Theorem C19_tx_exact : forall msg o, tx_norm msg o -> no_bare_cr msg -> o = lf2crlf false msg.
Proof. exact tx_norm_exact. Qed.
Print Assumptions C19_tx_exact.

(** the hypotheses are satisfiable by a non-trivial input: four chunks, the
    first boundary falls between a CR and its LF *)
Example C19_nonvacuous :
  let msg := [97; 13; 10; 98; 10; 10; 99; 13]%N in
  exists ws wn, send_bdat 17 msg None = Ok (ws, TxDone, wn) /\ length ws = 4
    /\ tx_norm msg [97; 13; 10; 98; 13; 10; 13; 10; 99; 13; 10]%N.
Proof.
  eexists _, _. split; [vm_compute; reflexivity|]. split; [reflexivity|].
  repeat (first [apply tn_nil | apply tn_crlf | apply tn_lf | apply tn_cr_compl; [exact I|]
                | apply tn_other; [discriminate|discriminate|]]).
Qed.

(** C19 — BDAT chunks are framed exactly and chunk boundaries never alter the message.
    Only statements here; proofs live in Proofs/Bdat*.v. *)
From Qv Require Import Common.Bytes Gen.GenBdat Gen.GenBdatRx Model.BdatTx Model.BdatRx Spec.BdatSpec Spec.BdatRxSpec
  Proofs.BdatDigits Proofs.BdatTxProofs Proofs.BdatSpecProofs Proofs.BdatSpecSound Proofs.BdatRxNet Proofs.BdatRxPiece Proofs.BdatRxProofs Proofs.BdatRxParse Proofs.BdatRxSession Proofs.BdatRxSpecProofs.

(** * Sending side (qremote/qrbdat.c:send_bdat with fixes/C19-bdat-final-crlf.diff).
    For every message, every chunk size from 16 (the minimum that fits
    "BDAT n LAST CRLF" and one octet) and every behaviour of the server
    ([nok] = how many intermediate chunks it accepts; [None] = all):
    the model does not crash (no access outside chunkbuf or msgdata) and terminates,
    and what it hands to the network layer satisfies [tx_ok] (Spec/BdatSpec.v):
    every write is "BDAT n[ LAST] CRLF" followed by exactly n octets, command and
    data together never exceed the chunk size, LAST is on the final command and
    only there (and only when the transaction was not aborted), a non-empty
    message produces at least one command, and the concatenated chunk data is
    the message with every bare LF made CRLF, a bare CR kept or completed to
    CRLF (for an aborted transaction: of a prefix of the message). *)
Theorem C19_tx : forall cs msg nok, 16 <= cs ->
  exists ws e wn,
    send_bdat cs msg nok = Ok (ws, e, wn)
    /\ tx_ok cs msg (is_done e) ws
    /\ (nok = None -> e = TxDone).
Proof. exact send_bdat_ok. Qed.
Print Assumptions C19_tx.

(** For a message without bare CR (every valid message) the normalisation is a
    function: the chunk data concatenates to exactly [lf2crlf false msg]. *)
Theorem C19_tx_exact : forall msg o, tx_norm msg o -> no_bare_cr msg -> o = lf2crlf false msg.
Proof. exact tx_norm_exact. Qed.
Print Assumptions C19_tx_exact.

(** The boolean checker that is run on the observations of the C code decides [tx_ok]:
    a "bad" verdict on a C output is a genuine violation, an "ok" verdict means the
    observation satisfies the statement above. *)
Theorem C19_tx_checker : forall cs msg done ws, spec_ok_C19_tx cs msg done ws = true <-> tx_ok cs msg done ws.
Proof. exact spec_tx_decides. Qed.
Print Assumptions C19_tx_checker.

(** F-C19-1: the same model with the test of the unrepaired code ([off < msgsize - 1], margin 1)
    violates the property: the message CR LF with chunk size 16 is sent as CR LF CR LF. *)
Theorem C19_tx_unrepaired_refuted :
  exists ws wn, send_bdat_m 1 16 [CR; LF] None = Ok (ws, TxDone, wn) /\ ~ tx_ok 16 [CR; LF] true ws.
Proof. exact send_bdat_orig_refuted. Qed.
Print Assumptions C19_tx_unrepaired_refuted.

(** * Receiving side (qsmtpd/data.c:smtp_bdat with fixes/C19-bdat-rx-trailing-cr.diff, lib/netio.c:net_readbin).
    [cfg_clean] fixes the version of smtp_bdat to the one found in the C source of this run
    ([c_fix cfg = RX_CR_AFTER_LOOP]); the proof needs it to be the repaired one.
    One transaction = BDAT commands [cmds] (size, LAST flag, number of octets already sitting in
    the line reader's buffer), only the final one with LAST.  For every such partition of the
    data into chunks, every read buffer size >= 2 (so every partition of chunks into buffers),
    every sequence of read() result sizes [cuts] and every amount of pre-buffered data, when
    nothing fails and the data fits the size limit: the model does not crash, every command
    returns 0, and the events are [rx_delivered]: everything written to the queue comes before
    the single envelope (announcing the exact octet count) and concatenates to the chunk data
    with CRLF -> LF, every other octet kept; what follows the data on the wire is left unread. *)
Theorem C19_rx_content : forall cfg cmds stream cuts,
  cfg_clean cfg -> c_wfail cfg = None -> one_transaction cmds ->
  total cmds <= length stream -> total cmds <= c_maxbytes cfg ->
  exists s evs, rx_session cfg false cmds stream cuts None = Ok (false, s, evs)
    /\ rx_delivered (firstn (total cmds) stream) evs
    /\ avail (r_net s) = skipn (total cmds) stream.
Proof. exact rx_transaction_ok. Qed.
Print Assumptions C19_rx_content.

(** For every command sequence, data, read sizes and injected fault (queue_init failing, a
    queue write failing, a read error, the peer hanging up, the size limit): no out-of-range
    access, and once a command has returned an error no envelope is ever sent to the queue:
    a failure in one chunk fails the whole transaction. *)
Theorem C19_rx_fail : forall cfg qf cmds stream cuts rfail, cfg_ok cfg ->
  exists died s evs, rx_session cfg qf cmds stream cuts rfail = Ok (died, s, evs)
    /\ no_env_after_fail false evs = true.
Proof. exact rx_session_fail_final. Qed.
Print Assumptions C19_rx_fail.

(** F-C19-2: the model of the unrepaired smtp_bdat loses a CR at the very end of the data when the
    LAST chunk is empty ("BDAT 2" a CR, "BDAT 0 LAST" queues only a). *)
Theorem C19_rx_unrepaired_refuted :
  let cfg := mk_cfg None 100 1024 false in
  exists s evs, rx_session cfg false [(2, false, 0); (0, true, 0)] [97; 13]%N [] None = Ok (false, s, evs)
    /\ ~ rx_delivered [97; 13]%N evs.
Proof. exact rx_unrepaired_refuted. Qed.
Print Assumptions C19_rx_unrepaired_refuted.

(** * Round 2: the argument of BDAT, several transactions per session, the checkers

    The argument parser of smtp_bdat (test of linein.s[5], strtoull, the blank, strcasecmp): for every command line
    without NUL that the dispatcher hands over ("BDAT" in any case and a blank), it accepts exactly what
    [bdat_arg] (Spec/BdatRxSpec.v) reads - "BDAT" SP 1*DIGIT [SP "LAST"], the number below 2^64, LAST in any case,
    nothing else - and then runs the transaction code with exactly that number and flag; anything else returns
    EINVAL (smtploop() answers "500 5.5.2 command syntax error") with the state untouched and nothing done. *)
Theorem C19_rx_parse : forall cfg line s,
  existsb (fun b => N.eqb b 0) line = false -> is_bdat_sp (firstn 5 line) = true -> r_goodrcpt s = true ->
  parse_bdat line = bdat_arg line
  /\ smtp_bdat_line cfg line s =
     match bdat_arg line with
     | None => Ok (Some EINVAL, s, [])
     | Some (n, last) => smtp_bdat cfg n last s
     end.
Proof. intros cfg line s Hn Hb Hg. split; [apply parse_bdat_spec|apply smtp_bdat_line_spec]; assumption. Qed.
Print Assumptions C19_rx_parse.

(** A transaction in the middle of a session: [s] is ANY state left behind by what came before (completed,
    failed in a chunk, aborted by RSET: lastcr, bdaterr, msgsize, descriptors arbitrary) in which MAIL is allowed;
    the transaction is MAIL/RCPT, then well-formed BDAT lines (through the dispatcher row and the real parser),
    only the final one with LAST; no injected fault is still ahead.  Then it queues exactly ITS data (the next
    [tot] octets of the connection) with CRLF -> LF, followed by one envelope with the exact count, and leaves a
    state in which the same holds again. *)
Theorem C19_rx_transactions : forall cfg slen, cfg_clean cfg ->
  forall recs pre0 rest s evs,
  r_com s = CsHelo -> wf_clean cfg (r_wcount s) -> n_rfail (r_net s) = None ->
  Forall (fun r => let '(_, line, sz, last) := r in valid_line line sz last) recs ->
  one_transaction (map rec_c recs) ->
  let tot := total (map rec_c recs) in
  tot <= length (avail (r_net s)) -> tot <= c_maxbytes cfg ->
  exists s' x,
    run_script cfg slen (OpBegin pre0 false :: map rec_op recs ++ rest) s evs
    = run_script cfg slen rest s'
        (evs ++ [EvBegin (slen - length (avail (r_net s)))] ++ x ++ [EvEnv tot; EvFree; EvReply 250; EvRc E0])
    /\ existsb is_env x = false /\ existsb is_fail x = false
    /\ queued x = crlf2lf (firstn tot (avail (r_net s)))
    /\ avail (r_net s') = skipn tot (avail (r_net s))
    /\ r_com s' = CsHelo /\ n_rfail (r_net s') = None /\ wf_clean cfg (r_wcount s').
Proof. exact rx_tx_independent. Qed.
Print Assumptions C19_rx_transactions.

(** The boolean checkers run on the observations of the C code decide their statements: [rx_ok] for one
    transaction, [rxs_ok] (every transaction of the session cut out at its EvBegin satisfies [rx_ok] with its own
    commands and the stream from its own start; nothing queued outside transactions) for sessions. *)
Theorem C19_rx_checker : forall cfg qf cmds stream rfail evs,
  spec_ok_C19_rx cfg qf cmds stream rfail evs = true <-> rx_ok cfg qf cmds stream rfail evs.
Proof. exact spec_rx_decides. Qed.
Print Assumptions C19_rx_checker.

Theorem C19_rxs_checker : forall cfg ops stream rfail evs,
  spec_ok_C19_rxs cfg ops stream rfail evs = true <-> rxs_ok cfg ops stream rfail evs.
Proof. exact spec_rxs_decides. Qed.
Print Assumptions C19_rxs_checker.

(** the binary reader: whatever is buffered and however read() cuts the stream, a result is
    exactly the next [num] octets, and nothing is stored outside the caller's buffer *)
Theorem C19_rx_readbin : forall bufsize num st, num + 1 <= bufsize ->
  exists r st', net_readbin bufsize num st = Ok (r, st')
    /\ (forall d, r = RData d -> length d = num /\ avail st = d ++ avail st')
    /\ (n_rfail st = None -> n_rfail st' = None /\ r <> RErr /\ (num <= length (avail st) -> r <> RDied)).
Proof. exact net_readbin_ok. Qed.
Print Assumptions C19_rx_readbin.

(** the hypotheses are satisfiable by non-trivial inputs: four chunks, the first boundary
    falls between a CR and its LF; three BDAT commands with a CR | LF split, one-octet reads,
    a final CR and an empty LAST chunk *)
Example C19_nonvacuous :
  (let msg := [97; 13; 10; 98; 10; 10; 99; 13]%N in
   exists ws wn, send_bdat 17 msg None = Ok (ws, TxDone, wn) /\ length ws = 4
     /\ tx_norm msg [97; 13; 10; 98; 13; 10; 13; 10; 99; 13; 10]%N)
  /\ (let cfg := mk_cfg None 100 4 RX_CR_AFTER_LOOP in
      let cmds := [(2, false, 1); (3, false, 0); (0, true, 0)] in
      cfg_clean cfg /\ one_transaction cmds
      /\ exists s evs, rx_session cfg false cmds [97; 13; 10; 98; 13]%N [1; 1; 1] None = Ok (false, s, evs)
           /\ queued evs = [97; 10; 98; 13]%N).
Proof.
  split.
  - eexists _, _. split; [vm_compute; reflexivity|]. split; [reflexivity|].
    repeat (first [apply tn_nil | apply tn_crlf | apply tn_lf | apply tn_cr_compl; [exact I|]
                  | apply tn_other; [discriminate|discriminate|]]).
  - split; [repeat split; cbv; lia|]. split; [repeat split; discriminate|].
    eexists _, _. split; [vm_compute; reflexivity|reflexivity].
Qed.

(** C09, the part of the property that lives in the command loop of the whole server (session model,
    Model/Session.v): when is an AUTH command acted on at all, and what makes a connection "authenticated".
    Statements only; proofs in Proofs/AuthSync.v, Proofs/EsmtpSync.v, Proofs/SessionProofs.v.
    (The exchange itself - mechanisms, base64, descriptor 3 - is Properties_C09.v on Model/Auth.v.) *)
From Qv Require Import Common.Bytes Gen.GenSession Model.NetRead Model.Session Spec.SessionSpec
  Proofs.AuthSync Proofs.EsmtpSync Proofs.SessionProofs.

(** AUTH is refused before EHLO: in every session, for all oracles, an AUTH succeeds (note [NAuth], emitted with the
    235 reply) only if the last greeting accepted before it was an EHLO - [esm_run pre false] is the value of the last
    [NEsmtp] note in [pre], [false] if there is none.  A refused EHLO, RSET, or a transaction in between do not help. *)
Theorem C09_session_auth_needs_ehlo : forall o chunks pre n post,
  run_session o chunks = pre ++ Note (NAuth n) :: post -> esm_run pre false = true.
Proof. exact auth_needs_ehlo. Qed.
Print Assumptions C09_session_auth_needs_ehlo.

(** ... and only when a checkpassword setup was given and permits it ([o_authperm]: auth_permitted(), which includes the
    forcesslauth rule), with the mechanism handler reporting success for that very name *)
Theorem C09_session_auth_from_backend : forall o chunks n,
  In (Note (NAuth n)) (run_session o chunks) -> o_authperm o = true /\ exists arg, o_auth o arg = Auth_ok n.
Proof. exact auth_note_from_backend. Qed.
Print Assumptions C09_session_auth_from_backend.

(** the connection counts as authenticated (may relay) exactly from a successful AUTH on: the server's flag and the
    AUTH notes of the trace move together in every round of the command loop *)
Theorem C09_session_authenticated_iff_auth_note : forall o f s evs s',
  step f o s = (evs, Some s') -> authed s' = authed s || has_auth evs.
Proof. exact step_auth. Qed.
Print Assumptions C09_session_authenticated_iff_auth_note.

(** non-vacuity: HELO, a refused EHLO, RSET, AUTH: 503; after a real EHLO: 235; a second AUTH: 503 *)
Example C09_session_nonvacuous :
  let o := {| o_helo := fun a => negb (existsb (N.eqb 32) a); o_addr := fun _ _ => AP_nobracket;
              o_ext := fun _ => Ext_ok 0 0 None; o_relay := 0%Z; o_mx := fun _ => 0; o_qq := fun _ => QQ_ok;
              o_databytes := 0%N; o_liphost := []; o_check2822 := false; o_authperm := true;
              o_auth := fun _ => Auth_ok [117]%N; o_trace := fun _ _ _ _ _ _ _ => [];
              o_submission := false; o_subm_date := []; o_subm_stamp := []; o_msgidhost := []; o_tls := false; o_tlsverify := TV_no |} in
  let helo := [72;69;76;79;32;120;13;10]%N in let badehlo := [69;72;76;79;32;120;32;121;13;10]%N in
  let ehlo := [69;72;76;79;32;120;13;10]%N in let rset := [82;83;69;84;13;10]%N in
  let auth := [65;85;84;72;32;80;76;65;73;78;32;120;13;10]%N in
  filter (fun e => match e with Reply _ => true | _ => false end) (run_session o [helo; badehlo; rset; auth; ehlo; auth; auth])
  = [Reply 220; Reply 250; Reply 500; Reply 250; Reply 503; Reply 250; Reply 235; Reply 503].
Proof. vm_compute. reflexivity. Qed.

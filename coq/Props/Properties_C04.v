(** C04 — Qremote delivery reports are well-formed and never claim false success.
    Only statements here; proofs live in Proofs/QrEnvelopeProofs.v.

    [qremote_main i] is the model of Qremote's main() from the established connection on
    (Model/QrEnvelope.v); an input [i] is the extension set, sender, recipients and the server
    script (one event per line read: any line, a malformed one, a read error, a timeout, a close).
    [C04_holds i o] is "the boolean specification [spec_ok_C04] accepts observation [o]"
    (Spec/QrReportSpec.v) — the same function that judges the observations of the C program. *)
From Qv Require Import Common.Bytes Gen.GenQremote Model.QrEnvelope Spec.QrReportSpec Proofs.QrEnvelopeProofs.
From Qv Require Gen.GenStarttls Model.TlsClient Model.QrConnect Spec.QrConnectSpec Proofs.TlsSwitchTotal Proofs.QrConnectProofs.

(** 1. For EVERY script, recipient list (also none) and extension set: the run ends in exit(0)
    (main never returns), the status stream is a non-empty sequence of NUL-terminated reports, each
    NUL-free and starting with one of r s h K Z D.  ([ObsUnmodelled]: the C10 model of net_writen
    reports its own undefined behaviour; it can only occur for command lines beyond 510 octets.) *)
Theorem C04_exit_wellformed : forall i,
  match qremote_main i with
  | Obs code status net =>
      code = 0 /\ exists reps, reps <> [] /\ status = flat reps
        /\ Forall (fun r => nulfree r /\ letter_ok (hd 0%N r) = true) reps
  | ObsUnmodelled _ => True
  | ObsReturned => False
  end.
Proof. exact main_wellformed. Qed.
Print Assumptions C04_exit_wellformed.

(** 2. The whole property, for every input outside the five recorded classes (each a decidable
    predicate on the input, Spec/QrReportSpec.v): at most one recipient report per recipient, in
    order, with r/s/h exactly for a 2xx/4xx/5xx reply to that RCPT TO; then at most one of K/Z/D,
    present when a recipient was accepted or none was reported; K only for a 2xx answer to the end
    of data with all recipients answered and one accepted; commands = MAIL FROM:<sender> then
    RCPT TO:<r_i> once each in order, DATA only after an accepted recipient; with and without
    PIPELINING. *)
Theorem C04_reports_partial : forall i, known_class i = false ->
  exists code status net, qremote_main i = Obs code status net /\ C04_holds i (Obs code status net).
Proof. exact model_meets_spec. Qed.
Print Assumptions C04_reports_partial.

(** 3. What a positive verdict of the checker means, as plain propositions (for any observation,
    in particular those of the C program). *)
Theorem C04_checker_sound : forall i code status net,
  C04_holds i (Obs code status net) -> C04_readable i code status net.
Proof. exact checker_sound. Qed.
Print Assumptions C04_checker_sound.

(** 4. The full property does not hold of the code that exists. *)
Definition C04_full : Prop := forall i, C04_holds i (qremote_main i).

Definition l250 : bytes := [50; 53; 48; 32; 111; 107]%N.          (* "250 ok" *)
Definition l550 : bytes := [53; 53; 48; 32; 120]%N.               (* "550 x" *)
Definition l451c : bytes := [52; 53; 49; 45; 97]%N.               (* "451-a" *)
Definition l354 : bytes := [51; 53; 52; 32; 120]%N.               (* "354 x" *)
Definition l354c : bytes := [51; 53; 52; 45; 103; 111]%N.         (* "354-go" *)
Definition mk (ext : N) (sender : bytes) (rcpts : list bytes) (scr : script) : input :=
  mkIn ext [109]%N sender [48]%N 0 [] true rcpts scr.
(** PIPELINING, "550 x" to MAIL FROM, then the server closes: reports D... and Z... *)
Definition W_dup := mk 2%N [115]%N [[97]%N] [EvLine l550].
(** first recipient accepted, second answered "451-a" and the connection closes: r, then s...Z... in one report *)
Definition W_merge := mk 0%N [115]%N [[97]%N; [98]%N] [EvLine l250; EvLine l250; EvLine l451c].
(** "354 x" to RCPT TO: reported h *)
Definition W_3xx := mk 0%N [115]%N [[97]%N] [EvLine l250; EvLine l354].
(** sender of 520 octets without PIPELINING: MAIL FROM is folded like a multi-line reply *)
Definition W_long := mk 0%N (repeat 97%N 520) [[97]%N] [EvLine l250; EvLine l250; EvLine l354; EvLine l250].
(** "354-go" / "250 ok" to DATA: K although nothing answered the end of data *)
Definition W_ml354 := mk 0%N [115]%N [[97]%N] [EvLine l250; EvLine l250; EvLine l354c; EvLine l250].

Theorem C04_refuted : ~ C04_full.
Proof. intros H. specialize (H W_dup). unfold C04_holds in H. vm_compute in H. discriminate. Qed.
Print Assumptions C04_refuted.

(** every hypothesis of the partial theorem is needed: for each class an input that lies in
    this class only and on which the property fails *)
Definition only_class (i : input) : bool * bool * bool * bool * bool :=
  (class_dup i, class_merge i, class_3xx i, class_longcmd i, class_ml354 i).
Theorem C04_classes_necessary :
     (only_class W_dup = (true, false, false, false, false) /\ spec_ok_C04 W_dup (qremote_main W_dup) = false)
  /\ (only_class W_merge = (false, true, false, false, false) /\ spec_ok_C04 W_merge (qremote_main W_merge) = false)
  /\ (only_class W_3xx = (false, false, true, false, false) /\ spec_ok_C04 W_3xx (qremote_main W_3xx) = false)
  /\ (only_class W_long = (false, false, false, true, false) /\ spec_ok_C04 W_long (qremote_main W_long) = false)
  /\ (only_class W_ml354 = (false, false, false, false, true) /\ spec_ok_C04 W_ml354 (qremote_main W_ml354) = false).
Proof. repeat split; vm_compute; reflexivity. Qed.
Print Assumptions C04_classes_necessary.

(** the hypothesis of the partial theorem is met by a non-trivial input: PIPELINING, three
    recipients answered 250 / 451 (two lines) / 550, 354 to DATA, a two-line 250 to the end of data;
    reports r, s, h, K *)
Example C04_nonvacuous :
  let i := mk 3%N [115]%N [[97]%N; [98]%N; [99]%N]
              [EvLine l250; EvLine l250; EvLine l451c; EvLine [52; 53; 49; 32; 98]%N; EvLine l550; EvLine l354;
               EvLine [50; 53; 48; 45; 113]%N; EvLine l250] in
  known_class i = false /\
  exists status net, qremote_main i = Obs 0 status net
    /\ map (fun r => hd 0%N r) (fst (split0 status)) = [L_r; L_s; L_h; L_K].
Proof. split; [vm_compute; reflexivity|]. eexists _, _. split; vm_compute; reflexivity. Qed.

(* ====================================================================================== *)
(** * The connect phase (qremote/conn_mx.c:connect_mx and main() around it)

    [QrConnect.connect_phase fx_err fx_dup k]: the model of main() from getmxlist() to the call of
    send_envelope(): TlsClient's literal model of connect_mx() / greeting() / tls_init() (property C18)
    plus silent servers and a failing dup2(); [k] gives, per MX entry, the server's bytes in the
    segments it sends them, whether it closes or stays silent at the end, and the OpenSSL oracles.
    [fx_err]/[fx_dup]: do the two early exits of connect_mx() report first (the code that exists:
    [QR_CONN_ERR_REPORTS], [QR_CONN_DUP2_REPORTS] from the C source of this run). *)

(** 5. The code of this run reports before both exits (false on a tree without
    fixes/C04-connect-mx-status.diff: the theorems below then speak about code that does not exist). *)
Theorem C04_connect_fix_present : QR_CONN_ERR_REPORTS = true /\ QR_CONN_DUP2_REPORTS = true.
Proof. split; [exact QrConnectProofs.fix_conn_err|exact QrConnectProofs.fix_conn_dup2]. Qed.
Print Assumptions C04_connect_fix_present.

(** 6. For EVERY behaviour of the servers in the connect phase (any number of MX entries; any bytes in any
    segmentation: no greeting, 4xx/5xx greeting, multi-line greeting with differing codes, malformed or
    over-long lines; close or silence at any point; EHLO refused then HELO; any STARTTLS outcome):
    the phase never gets stuck; if the process exits in it -- inside connect_mx(), by "can't connect
    to any server", or by the pinned-certificate refusal -- EXACTLY ONE report was written, also on the
    exits that go through quitmsg() (theorem 10), and it starts with Z; if it hands a connection to
    send_envelope(), the status stream is still empty. *)
Theorem C04_connect_reports : forall k,
  match QrConnect.connect_phase true true k with
  | QrConnect.PExited s => exists w, TlsClient.s_rpt s = [w] /\ QrConnectProofs.zword w
  | QrConnect.PConnected _ _ s => TlsClient.s_rpt s = []
  | QrConnect.PStuck _ => False
  end.
Proof. exact QrConnectProofs.connect_phase_reports. Qed.
Print Assumptions C04_connect_reports.

(** 7. From connect to exit: either the process exits in the connect phase with exactly one report, or the envelope model takes over with an empty status stream and the negotiated extension
    set, and then (theorem 1, for every script, recipient list and message) the run ends in exit(0)
    with a non-empty sequence of well-formed reports.  (The envelope model is the clear-text one: for a
    connection inside TLS only the texts of the success report differ, successmsg[3..5].) *)
Theorem C04_connect_to_exit : forall k,
  match QrConnect.connect_phase true true k with
  | QrConnect.PExited s => exists w, TlsClient.s_rpt s = [w] /\ QrConnectProofs.zword w
  | QrConnect.PConnected _ ext s =>
      TlsClient.s_rpt s = [] /\
      forall i, i_ext i = Z.to_N ext ->
        match qremote_main i with
        | Obs code status net =>
            code = 0 /\ exists reps, reps <> [] /\ status = flat reps
              /\ Forall (fun r => nulfree r /\ letter_ok (hd 0%N r) = true) reps
        | ObsUnmodelled _ => True
        | ObsReturned => False
        end
  | QrConnect.PStuck _ => False
  end.
Proof.
  intros k. pose proof (QrConnectProofs.connect_phase_reports k) as H.
  destruct (QrConnect.connect_phase true true k); auto.
  split; [exact H|]. intros i _. exact (main_wellformed i).
Qed.
Print Assumptions C04_connect_to_exit.

(** 8. The code before the fix: a server that accepts the connection and stays silent (resp. a failing
    dup2()) makes Qremote exit with an EMPTY status stream. *)
Theorem C04_connect_refuted :
  (match QrConnect.connect_phase false true QrConnectProofs.W_silent with
   | QrConnect.PExited s => TlsClient.s_rpt s = [] | _ => False end)
  /\ (match QrConnect.connect_phase true false QrConnectProofs.W_dup2 with
      | QrConnect.PExited s => TlsClient.s_rpt s = [] | _ => False end).
Proof. split; [exact QrConnectProofs.unfixed_silent_exit|exact QrConnectProofs.unfixed_dup2_exit]. Qed.
Print Assumptions C04_connect_refuted.

(** 9. The run of the qrconn harness (behind a connection: the stand-in for send_envelope(), then the
    clean shutdown) passes the boolean specification [conn_spec_ok] that also judges the C observations. *)
Theorem C04_connect_spec_holds : forall k,
  match QrConnect.run_q_with true true k with
  | TlsClient.Exit s =>
      QrConnectSpec.conn_spec_ok 0 (QrConnectProofs.mail_of (QrConnect.connect_phase true true k)) (TlsClient.s_rpt s) true = true
  | _ => False
  end.
Proof. exact QrConnectProofs.run_q_spec. Qed.
Print Assumptions C04_connect_spec_holds.

(* ====================================================================================== *)
(** * The QUIT exchange (qremote/qremote.c:quitmsg over lib/netio.c:net_read(0), loop_long) *)

(** 10. loop_long() reads with the caller's fatal (false on a tree without fixes/C04-loop-long-fatal.diff). *)
Theorem C04_loop_long_fix_present : GenStarttls.ST_LOOPLONG_PASSES_FATAL = true.
Proof. exact QrConnectProofs.fix_loop_long. Qed.
Print Assumptions C04_loop_long_fix_present.

(** 11. quitmsg() never writes a report and never ends the process: for EVERY state of the program
    (clear text or TLS, anything left in the line buffer) and EVERY behaviour of the server in the QUIT
    exchange -- any bytes in any segmentation: a reply, a multi-line reply, garbage, an over-long line,
    1500 octets that never see a CRLF; then close or silence -- it returns with the status stream as it
    found it.  ([good]: the line buffer holds at most LINEINBUF - 2 octets, an invariant of net_read.)
    Every net_conn_shutdown(shutdown_clean) of Qremote -- behind the K/Z/D report of the envelope
    phase, behind "Z4.5.0" of tls_init() and of the pinned-host refusal -- goes through this function, so
    "at most one message report" holds through the end of the process. *)
Theorem C04_quitmsg_silent : forall s, TlsSwitchTotal.good s ->
  exists s', TlsClient.quitmsg s = TlsClient.Ret tt s' /\ TlsClient.s_rpt s' = TlsClient.s_rpt s.
Proof. exact QrConnectProofs.quitmsg_silent. Qed.
Print Assumptions C04_quitmsg_silent.

(** 12. The code before the fix (Model/QrConnect.v, [..._old]): behind the report of the pinned-host
    refusal the server answers QUIT with 1500 octets without CRLF and closes: dieerror() under
    net_read(0) writes a second report.  The code that exists: one. *)
Theorem C04_quit_refuted :
  (match @QrConnect.shutdown_clean_old unit QrConnectProofs.W_quit_state with
   | TlsClient.Exit s => TlsClient.s_rpt s = [GenStarttls.ST_RPT_PINNED; GenStarttls.ST_RPT_DIED] | _ => False end)
  /\ (match @TlsClient.shutdown_clean unit QrConnectProofs.W_quit_state with
      | TlsClient.Exit s => TlsClient.s_rpt s = [GenStarttls.ST_RPT_PINNED] | _ => False end).
Proof. split; [exact QrConnectProofs.unfixed_quit_second_report|exact QrConnectProofs.fixed_quit_one_report]. Qed.
Print Assumptions C04_quit_refuted.

(** C17 — STARTTLS (server): no clear-text input survives into the TLS session.
    Statements only; proofs in Proofs/TlsSwitchProofs.v.

    [trun o sc] (Model/TlsSwitch.v) is the event trace of the modelled Qsmtpd for the client script [sc] under the
    oracles [o].  A script is: clear-text segments; then any number of (handshake attempt with outcome HsOk / HsFail,
    segments that follow it); optionally a half-close.  Segments are arbitrary bytes in arbitrary segmentation, so the
    quantification covers every pre-handshake history, every clear-text suffix behind STARTTLS in the same or a later
    segment, repeated STARTTLS, and every handshake outcome.  [tstep f o closes t] is ONE round of smtploop from the
    state [t]; the step theorems hold for every state, hence for every round of every run.
      t = {ss: the session state of Model/Session.v incl. the line reader rd = {inn = lineinn; en = {cur: unread rest of
           the current segment; future: segments to come}}; tls: xmitstat.ssl set; later: rest of the script}
    Events: TE b e = event e of the session model, b = sent inside TLS; TSwitch = SSL_accept succeeded, ssl set;
    TOffer = the EHLO reply announced STARTTLS; TFail = SSL_accept failed on a ClientHello.

    ORACLES (not verified, theorems hold for all of them): OpenSSL — outcome of the handshake (HsOk/HsFail in the
    script), number of clear-text octets a failing SSL_accept consumes (o_eat), success of the set-up calls in tls_init
    (o_tlsinit), record layer = "the TLS stream is the list of segments of the phase behind the handshake";
    find_servercert (o_certfile); and the oracles of the session model.  The claim is: proof of the state and buffer
    logic, partial for OpenSSL. *)
From Qv Require Import Common.Bytes Gen.GenSession Gen.GenTls Model.NetRead Model.Session Spec.SessionSpec
  Proofs.SessionProofs Model.TlsSwitch Spec.TlsSpec Proofs.TlsSwitchProofs
  Gen.GenServerCert Model.ServerCert Spec.ServerCertSpec Proofs.ServerCertProofs.

(** (1) A round switches to TLS only if it read a STARTTLS line behind which the clear-text reader holds NOTHING:
    lineinn is empty, nothing of the current segment is unread, no further clear-text segment was sent before the
    ClientHello.  The state it leaves reads from the TLS stream [segs] only, with an empty line buffer, in the initial
    command state. *)
Theorem C17_no_cleartext_at_switch : forall f o closes t evs so,
  tstep f o closes t = (evs, so) -> In TSwitch evs ->
  exists l r' segs l',
    net_read (rd (ss t)) = (Line l, r') /\ starttls_row l <> None
    /\ inn r' = [] /\ exhausted (en r') = true
    /\ later t = (HsOk, segs) :: l'
    /\ tls t = false /\ esmtp (ss t) = true /\ o_tlsinit o = true /\ N.land (comstate (ss t)) 16 <> 0%N
    /\ evs = [TE false (Reply TLS_READY_CODE); TSwitch; TE true (Note NBadReset)]
    /\ so = Some {| ss := set_badcmds (set_comstate (set_rd (ss t) {| inn := []; en := {| cur := []; future := segs |} |}) 1%N) 0;
                    tls := true; later := l' |}.
Proof. exact no_cleartext_at_switch. Qed.
Print Assumptions C17_no_cleartext_at_switch.

(** (1, other half) With clear text behind the STARTTLS line — in lineinn (same segment) or unread in the socket — the
    server never says "ready for tls" and never switches; every event of the round is a bare reply (no command of the
    suffix is executed: the session sits in wait_for_quit), and if the session goes on at all it is unchanged. *)
Theorem C17_pending_cleartext_never_switches : forall f o closes t evs so l r',
  tstep f o closes t = (evs, so) -> net_read (rd (ss t)) = (Line l, r') -> starttls_row l <> None ->
  inn r' <> [] \/ cur (en r') <> [] ->
  ~ In TSwitch evs /\ (forall b, ~ In (TE b (Reply TLS_READY_CODE)) evs)
  /\ (forall x, In x evs -> exists e, x = TE (tls t) e /\ quiet_ev e = true)
  /\ (forall t', so = Some t' -> tls t' = tls t /\ later t' = later t /\ same_session (ss t') (ss t)).
Proof. exact pending_cleartext_never_switches. Qed.
Print Assumptions C17_pending_cleartext_never_switches.

(** (1, whole run) Whatever happened before: the trace behind the switch is (the ghost note "bad command counter reset" and) the
    trace of the command loop started in the state [t'] — TLS on, lineinn empty, input = the TLS stream alone, initial command state, no sender, no
    recipients. *)
Theorem C17_after_switch_only_tls_input : forall o sc pre post,
  trun o sc = pre ++ TSwitch :: post ->
  exists f' t' segs, post = TE true (Note NBadReset) :: tserve f' o (sc_closes sc) t' /\ fresh_in_tls t' segs.
Proof. exact after_switch_only_tls_input. Qed.
Print Assumptions C17_after_switch_only_tls_input.

(** (2) The whole trace passes the phase/transaction checker of C08 with the abstract state RESET to "nothing yet" at
    the switch: after a successful STARTTLS, MAIL is refused until a new HELO/EHLO, RCPT until a new MAIL, and every
    hand-off carries exactly a transaction opened after the switch. *)
Theorem C17_reset_after_switch : forall o sc, ttrace_ok (o_clear o) (trun o sc).
Proof. exact reset_after_switch. Qed.
Print Assumptions C17_reset_after_switch.

Theorem C17_mail_needs_new_greeting : forall o sc pre mid b f post,
  trun o sc = pre ++ TSwitch :: mid ++ TE b (Note (NMail f)) :: post ->
  exists m1 m2 b', mid = m1 ++ TE b' (Note NHelo) :: m2.
Proof. exact mail_needs_new_greeting. Qed.
Print Assumptions C17_mail_needs_new_greeting.

Theorem C17_handoff_after_switch : forall o sc pre mid b env msg post,
  trun o sc = pre ++ TSwitch :: mid ++ TE b (Handoff env msg) :: post ->
  exists a0 a f rs, ttrace_run (o_clear o) pre a_init = Some a0 /\ ttrace_run (o_clear o) mid (a_reset a0) = Some a
    /\ a_txn a = Some (f, rs) /\ env = env_of (o_liphost (o_clear o)) (Some (f, rs)).
Proof. exact handoff_after_switch. Qed.
Print Assumptions C17_handoff_after_switch.

(** (2, what is NOT discarded) tls_init does not touch xmitstat.authname: an authentication obtained in clear text is still
    valid inside TLS.  This is what the code does; [ttrace_run] therefore resets the abstract state at the switch to
    [a_reset a] = "nothing yet, but authenticated iff it was", and the witness [C17_auth_in_clear_text_relays_inside_tls] below
    shows the consequence: AUTH in clear text, STARTTLS, and a recipient outside rcpthosts is accepted inside TLS without a
    relay-list match and without a second AUTH.  (smtp_auth refuses a second AUTH on the connection anyway.) *)
Theorem C17_auth_survives_switch : forall f o closes t evs t',
  tstep f o closes t = (evs, Some t') -> In TSwitch evs -> authname (ss t') = authname (ss t).
Proof. exact auth_survives_switch. Qed.
Print Assumptions C17_auth_survives_switch.

(** (3) "220 ready for tls" is the answer to STARTTLS only outside TLS, in ESMTP mode, in the EHLO state (mask 0x10 of
    the regenerated commands[] row), with a usable certificate and an empty clear-text reader ... *)
Theorem C17_ready_only_if : forall f o closes t evs so l r' b,
  tstep f o closes t = (evs, so) -> net_read (rd (ss t)) = (Line l, r') -> starttls_row l <> None ->
  In (TE b (Reply TLS_READY_CODE)) evs ->
  b = false /\ tls t = false /\ esmtp (ss t) = true /\ o_tlsinit o = true /\ N.land (comstate (ss t)) 16 <> 0%N
  /\ inn r' = [] /\ cur (en r') = [].
Proof. exact ready_only_if. Qed.
Print Assumptions C17_ready_only_if.

(** ... otherwise the command is refused and changes nothing ... *)
Theorem C17_refused : forall f o closes t evs so l r',
  tstep f o closes t = (evs, so) -> net_read (rd (ss t)) = (Line l, r') -> starttls_row l <> None ->
  tls t = true \/ esmtp (ss t) = false \/ o_tlsinit o = false \/ N.land (comstate (ss t)) 16 = 0%N ->
  ~ In TSwitch evs /\ (forall b, ~ In (TE b (Reply TLS_READY_CODE)) evs)
  /\ (forall t', so = Some t' -> tls t' = tls t /\ later t' = later t /\ same_session (ss t') (ss t)).
Proof. exact refused. Qed.
Print Assumptions C17_refused.

(** ... and STARTTLS is announced only by an accepted EHLO, outside TLS, with a certificate file. *)
Theorem C17_not_offered : forall f o closes t evs so,
  tstep f o closes t = (evs, so) -> In TOffer evs ->
  tls t = false /\ o_certfile o = true /\ exists s', so = Some (mk t s') /\ esmtp s' = true.
Proof. exact not_offered. Qed.
Print Assumptions C17_not_offered.

(** (4) A handshake that was started ("ready" was said) and did not complete: if the session goes on, then in clear
    text, with the command state, sender, recipients and HELO name it had before, and the client was told 454. *)
Theorem C17_failed_handshake : forall f o closes t evs so l r',
  tstep f o closes t = (evs, so) -> net_read (rd (ss t)) = (Line l, r') -> starttls_row l <> None ->
  In (TE false (Reply TLS_READY_CODE)) evs -> ~ In TSwitch evs ->
  forall t', so = Some t' ->
    tls t' = false /\ same_session (ss t') (ss t) /\ In (TE false (Reply TLS_FAIL_CODE)) evs.
Proof. exact failed_handshake. Qed.
Print Assumptions C17_failed_handshake.

(** ssl is set by a completed handshake and by nothing else, and never unset *)
Theorem C17_tls_only_by_switch : forall f o closes t evs so t',
  tstep f o closes t = (evs, so) -> so = Some t' -> (tls t' = true <-> tls t = true \/ In TSwitch evs).
Proof. exact tls_only_by_switch. Qed.
Print Assumptions C17_tls_only_by_switch.

(** the trace is: clear-text events, then at most one switch, then in-TLS events only (no announcement, no second switch) *)
Theorem C17_shape : forall o sc, shape_ok (trun o sc) = true.
Proof. exact shape. Qed.
Print Assumptions C17_shape.

(** the facts regenerated from the C that the proofs rest on: the STARTTLS row of commands[] (mask 0x10, next state 0x1),
    the guards of smtp_starttls, sync_pipelining() before the 220, the conditions of the announcement *)
Theorem C17_starttls_row :
  (forallb tls_entry_ok commands = true
   /\ existsb (fun c => let '(_, _, hid, _, _) := c in Nat.eqb hid STARTTLS_HANDLER) commands = true)
  /\ (STARTTLS_REFUSES_IN_TLS = true /\ STARTTLS_REFUSES_NON_ESMTP = true /\ TLS_SYNC_BEFORE_READY = true
      /\ EHLO_OFFER_NEEDS_NO_TLS = true /\ EHLO_OFFER_NEEDS_CERT = true).
Proof. exact (conj tls_table_ok guards_ok). Qed.
Print Assumptions C17_starttls_row.

(** ---------- find_servercert(): the function behind the announcement (oracle o_certfile above) ----------
    Literal model of the name building in the two static 76-byte arrays (Model/ServerCert.v), faccessat() as oracle [ex].
    For the code in the tree (suffix written behind the constant prefix; fixes/C17-servercert-name.diff): whatever the
    arrays hold from earlier calls ([Inv]: prefixes intact, key array NUL-terminated), for every address without NUL of at
    most SC_IPMAX = 45 octets, every port of at most 5 octets and every oracle, no access leaves the arrays, the result is
    0 iff one of servercert.pem.<ip>:<port>, servercert.pem.<ip>, servercert.pem exists, and certfilename then holds
    "control/" + the most specific existing one. *)
Theorem C17_servercert_call : forall ex ip port s,
  no_nul ip -> length ip <= SC_IPMAX -> port_ok port -> Inv s ->
  exists probes s', find_servercert ex ip port s = Ok (servercert_spec ex ip port, probes, s')
    /\ Inv s'
    /\ (forall sfx, chosen ex ip port = Some sfx -> cstr_at (cert s') 0 = Ok (SC_CERT ++ sfx)).
Proof.
  intros ex ip port s Hn Hl Hp HI. unfold find_servercert.
  replace SC_OLDLEN_CONST with true by (symmetry; exact (proj2 (proj2 (proj2 (proj2 (proj2 (proj2 (proj2 consts)))))))).
  destruct (find_servercert_fixed ex ip Hn Hl port s HI Hp) as (probes & s' & H1 & H2 & H3 & _).
  exists probes, s'. auto.
Qed.
Print Assumptions C17_servercert_call.

(** any number of calls (one per EHLO), the files may come and go in between: every call is judged ok by the checker
    that is also applied to the observations of the C function *)
Theorem C17_servercert_calls : forall ip port exs,
  no_nul ip -> length ip <= SC_IPMAX -> port_ok port ->
  exists rs, calls exs ip port sc_init = Ok rs
    /\ spec_ok_servercert exs ip port (map (fun r => let '(rc, _, cn, _) := r in (rc, cn)) rs) = true.
Proof.
  intros ip port exs Hn Hl Hp. unfold calls.
  replace SC_OLDLEN_CONST with true by (symmetry; exact (proj2 (proj2 (proj2 (proj2 (proj2 (proj2 (proj2 consts)))))))).
  exact (calls_fixed ip port Hn Hl Hp exs sc_init Inv_init).
Qed.
Print Assumptions C17_servercert_calls.

(** F-C17-1, the code as found (suffix behind strlen(certfilename)): with a certificate named
    servercert.pem.<39-octet address>:25 the second call stores outside certfilename[76] *)
Theorem C17_servercert_orig_refuted :
  calls_gen false [ex_ipport; ex_ipport] long_ip (Some [50;53]%N) sc_init = Crash 1%N.
Proof. exact orig_second_call_crashes. Qed.
Print Assumptions C17_servercert_orig_refuted.

(** non-vacuity: MAIL and RCPT in clear text, RSET, STARTTLS, handshake, then inside TLS a MAIL without EHLO (refused),
    EHLO, a transaction: one hand-off, and its envelope holds the in-TLS sender only.  A second script with "RSET"
    pipelined behind STARTTLS in the same segment never switches. *)
Definition ex_oracles : toracles :=
  {| o_clear := {| o_helo := fun _ => true;
                   o_addr := fun _ arg => match arg with
                                          | 60%N :: c :: _ => AP_ok [c] None RLocal          (* <x...> *)
                                          | _ => AP_nobracket end;
                   o_ext := fun _ => Ext_ok 0 0 None; o_relay := 0%Z; o_mx := fun _ => 0;
                   o_qq := fun _ => QQ_ok; o_databytes := 0%N; o_liphost := []; o_check2822 := false; o_authperm := false; o_auth := fun _ => Auth_multi; o_trace := fun _ _ _ _ _ _ _ => [67; 10]%N;
              o_submission := false; o_subm_date := []; o_subm_stamp := []; o_msgidhost := []; o_tls := false; o_tlsverify := TV_no |};
     o_trace_tls := fun _ _ _ _ _ _ _ => [84; 10]%N; o_certfile := true; o_tlsinit := true; o_eat := 5 |}.
Definition ehlo : bytes := [69;72;76;79;32;120;13;10]%N.
Definition starttls : bytes := [83;84;65;82;84;84;76;83;13;10]%N.
Definition mail (c : N) : bytes := [77;65;73;76;32;70;82;79;77;58;60;c;62;13;10]%N.
Definition rcpt (c : N) : bytes := [82;67;80;84;32;84;79;58;60;c;62;13;10]%N.
Definition ex_script : script :=
  {| sc_first := [ehlo; mail 97; rcpt 98; [82;83;69;84;13;10]%N; starttls];
     sc_later := [(HsOk, [mail 99; ehlo; mail 100; rcpt 101; [68;65;84;65;13;10]%N; [104;105;13;10;46;13;10]%N])];
     sc_closes := false |}.
Example C17_nonvacuous :
  filter (fun e => match e with TE _ (Handoff _ _) | TSwitch | TE _ (Reply 503%N) => true | _ => false end) (trun ex_oracles ex_script)
  = [TSwitch; TE true (Reply 503%N); TE true (Handoff [70;100;0;84;101;0;0]%N [84;10;104;105;10]%N)].
Proof. vm_compute. reflexivity. Qed.

Definition ex_script_injected : script :=
  {| sc_first := [ehlo ++ starttls ++ [82;83;69;84;13;10]%N];
     sc_later := [(HsOk, [[78;79;79;80;13;10]%N])];
     sc_closes := false |}.
Example C17_nonvacuous_injected :
  trun ex_oracles ex_script_injected
  = [TE false (Reply 220%N); TE false (Note NBoundary); TE false (Note NHelo); TE false (Note (NEsmtp true)); TE false (Reply 250%N); TE false (Note NBadReset); TOffer;
     TE false (Reply 503%N); TE false (Note NBad); TE false (Reply 503%N)].
Proof. vm_compute. reflexivity. Qed.

(** the authentication survives: relay list empty, AUTH accepted in clear text, then STARTTLS; inside TLS a recipient
    outside rcpthosts is accepted *)
Definition ex_oracles_auth : toracles :=
  {| o_clear := {| o_helo := fun _ => true;
                   o_addr := fun _ arg => match arg with
                                          | 60%N :: c :: _ => AP_ok [c] None RNotLocal
                                          | _ => AP_nobracket end;
                   o_ext := fun _ => Ext_ok 0 0 None; o_relay := 0%Z; o_mx := fun _ => 0;
                   o_qq := fun _ => QQ_ok; o_databytes := 0%N; o_liphost := []; o_check2822 := false;
                   o_authperm := true; o_auth := fun _ => Auth_ok [117%N]; o_trace := fun _ _ _ _ _ _ _ => [67; 10]%N;
              o_submission := false; o_subm_date := []; o_subm_stamp := []; o_msgidhost := []; o_tls := false; o_tlsverify := TV_no |};
     o_trace_tls := fun _ _ _ _ _ _ _ => [84; 10]%N; o_certfile := true; o_tlsinit := true; o_eat := 5 |}.
Definition ex_script_auth : script :=
  {| sc_first := [ehlo; [65;85;84;72;32;120;13;10]%N; starttls];
     sc_later := [(HsOk, [ehlo; mail 97; rcpt 98])];
     sc_closes := false |}.
Example C17_auth_in_clear_text_relays_inside_tls :
  filter (fun e => match e with TE _ (Note (NAuth _)) | TSwitch | TE _ (Note (NRcpt _ _)) => true | _ => false end)
         (trun ex_oracles_auth ex_script_auth)
  = [TE false (Note (NAuth [117%N])); TSwitch; TE true (Note (NRcpt [98%N] RNotLocal))].
Proof. vm_compute. reflexivity. Qed.

(** C09 — AUTH: only credentials accepted by checkpassword authenticate.
    Only statements here; proofs live in Proofs/Base64*.v and Proofs/Auth*.v.

    Part A: the Base64 codec lib/base64.c (model: Model/Base64.v, with
    fixes/C09-b64-nul.diff applied; specification: Spec/Base64Spec.v). *)
From Qv Require Import Common.Bytes Gen.GenBase64 Model.Base64 Spec.Base64Spec
  Proofs.Base64L2 Proofs.Base64Proofs Proofs.Base64EncProofs.

(** b64decode terminates and never reads outside in[0..l) nor writes outside
    the l+3 octets it allocated, for every input (no [Crash], no [OutOfFuel]). *)
Theorem C09_b64decode_safe : forall inp, exists r, b64decode inp = Ok r.
Proof. exact b64decode_safe. Qed.
Print Assumptions C09_b64decode_safe.

(** Round trip: for every octet string x, encoding without line wrapping
    (wraplimit above the output length, as in qsmtpd/auth.c) and decoding gives
    x back, up to the trailing NUL octets that b64decode does not count. *)
Theorem C09_b64_roundtrip : forall x w,
  octets x -> (N.of_nat (4 * ((length x + 2) / 3)) < w)%N ->
  exists e, b64encode x w = Ok e /\ b64decode e = Ok (Some (strip0 x)).
Proof. exact b64_roundtrip. Qed.
Print Assumptions C09_b64_roundtrip.

(** … and exactly x when x does not end in a NUL octet. *)
Theorem C09_b64_roundtrip_exact : forall x w,
  octets x -> last x 1%N <> 0%N -> (N.of_nat (4 * ((length x + 2) / 3)) < w)%N ->
  exists e, b64encode x w = Ok e /\ b64decode e = Ok (Some x).
Proof. exact b64_roundtrip_exact. Qed.
Print Assumptions C09_b64_roundtrip_exact.

(** Every canonical Base64 text, with or without CRLF line breaks, is accepted
    and decoded to the octets it stands for (minus trailing NULs). *)
Theorem C09_b64_valid_accepted : forall inp d,
  strict_decode inp = Some d -> b64decode inp = Ok (Some (strip0 d)).
Proof. exact b64_valid_accepted. Qed.
Print Assumptions C09_b64_valid_accepted.

(** Whatever b64decode accepts consists, up to the end of the group it stopped
    in, of alphabet characters, '=', CR and LF only; octets it did not look at
    ([junk]) exist only behind a '='.  (False for the unfixed code: "QU\0D".) *)
Theorem C09_b64_alphabet : forall inp o,
  b64decode inp = Ok (Some o) ->
  exists used junk, inp = used ++ junk /\ Forall b64_char used /\ (junk = [] \/ In B64_PAD used).
Proof. exact b64_alphabet. Qed.
Print Assumptions C09_b64_alphabet.

(** The full strictness statement: b64decode accepts exactly the canonical
    texts and returns what they stand for. *)
Definition C09_b64_strict_full : Prop :=
  forall inp, b64decode inp = Ok (option_map strip0 (strict_decode inp)).

(** It does not hold: "QQ==!!!!" is accepted (known finding F-C09-1b). *)
Theorem C09_b64_strict_refuted : ~ C09_b64_strict_full.
Proof. exact b64_strict_refuted. Qed.
Print Assumptions C09_b64_strict_refuted.

(** It holds for every input outside the class of F-C09-1b, i.e. with regular
    padding ([pad_regular]: symbol count a multiple of four, nothing but one
    more '=' behind the first '=', zero padding bits). *)
Theorem C09_b64_strict_partial : forall inp,
  pad_regular inp = true -> b64decode inp = Ok (option_map strip0 (strict_decode inp)).
Proof. exact b64_strict_partial. Qed.
Print Assumptions C09_b64_strict_partial.

(** the hypotheses are satisfiable by non-trivial inputs: "\000alice\000secret"
    round-trips; "AGFsaWNlAHNlY3JldA==" with a line break is regular and decoded *)
Example C09_nonvacuous :
  let x := [0; 97; 108; 105; 99; 101; 0; 115; 101; 99; 114; 101; 116]%N in
  octets x /\ last x 1%N <> 0%N /\ (N.of_nat (4 * ((length x + 2) / 3)) < 4294967295)%N
  /\ b64encode x 4294967295 = Ok [65; 71; 70; 115; 97; 87; 78; 108; 65; 72; 78; 108; 89; 51; 74; 108; 100; 65; 61; 61]%N
  /\ pad_regular [65; 71; 70; 115; 13; 10; 97; 87; 78; 108; 65; 72; 78; 108; 89; 51; 74; 108; 100; 65; 61; 61]%N = true
  /\ b64decode [65; 71; 70; 115; 13; 10; 97; 87; 78; 108; 65; 72; 78; 108; 89; 51; 74; 108; 100; 65; 61; 61]%N = Ok (Some x).
Proof.
  cbv zeta. repeat split; try (vm_compute; congruence); try reflexivity.
  repeat constructor.
Qed.

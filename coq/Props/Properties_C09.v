(** C09 — AUTH: only credentials accepted by checkpassword authenticate.
    Only statements here; proofs live in Proofs/Base64*.v and Proofs/Auth*.v.

    Part A: the Base64 codec lib/base64.c (model: Model/Base64.v, with
    fixes/C09-b64-nul.diff applied; specification: Spec/Base64Spec.v). *)
From Qv Require Import Common.Bytes Common.AuthDefs Gen.GenBase64 Gen.GenAuth Model.Base64 Model.Auth
  Spec.Base64Spec Spec.AuthSpec Proofs.Base64L2 Proofs.Base64Proofs Proofs.Base64EncProofs Proofs.AuthProofs.

(** b64decode terminates and never reads outside in[0..l) nor writes outside
    the l+3 octets it allocated, for every input (no [Crash], no [OutOfFuel]). *)
Theorem C09_b64decode_safe : forall inp, exists r, b64decode inp = Ok r.
Proof. exact b64decode_safe. Qed.
Print Assumptions C09_b64decode_safe.

(** Round trip: for every octet string x, encoding without line wrapping
    (wraplimit above the output length, as in qsmtpd/auth.c) and decoding gives
    x back, up to the trailing NUL octets that b64decode does not count. *)
Theorem C09_b64_roundtrip : forall x w,
  octets x -> (N.of_nat (4 * ((length x + 2) / 3)) < w)%N ->
  exists e, b64encode x w = Ok e /\ b64decode e = Ok (Some (strip0 x)).
Proof. exact b64_roundtrip. Qed.
Print Assumptions C09_b64_roundtrip.

(** … and exactly x when x does not end in a NUL octet. *)
Theorem C09_b64_roundtrip_exact : forall x w,
  octets x -> last x 1%N <> 0%N -> (N.of_nat (4 * ((length x + 2) / 3)) < w)%N ->
  exists e, b64encode x w = Ok e /\ b64decode e = Ok (Some x).
Proof. exact b64_roundtrip_exact. Qed.
Print Assumptions C09_b64_roundtrip_exact.

(** Every canonical Base64 text, with or without CRLF line breaks, is accepted
    and decoded to the octets it stands for (minus trailing NULs). *)
Theorem C09_b64_valid_accepted : forall inp d,
  strict_decode inp = Some d -> b64decode inp = Ok (Some (strip0 d)).
Proof. exact b64_valid_accepted. Qed.
Print Assumptions C09_b64_valid_accepted.

(** Whatever b64decode accepts consists, up to the end of the group it stopped
    in, of alphabet characters, '=', CR and LF only; octets it did not look at
    ([junk]) exist only behind a '='.  (False for the unfixed code: "QU\0D".) *)
Theorem C09_b64_alphabet : forall inp o,
  b64decode inp = Ok (Some o) ->
  exists used junk, inp = used ++ junk /\ Forall b64_char used /\ (junk = [] \/ In B64_PAD used).
Proof. exact b64_alphabet. Qed.
Print Assumptions C09_b64_alphabet.

(** The full strictness statement: b64decode accepts exactly the canonical
    texts and returns what they stand for. *)
Definition C09_b64_strict_full : Prop :=
  forall inp, b64decode inp = Ok (option_map strip0 (strict_decode inp)).

(** It does not hold: "QQ==!!!!" is accepted (known finding F-C09-1b). *)
Theorem C09_b64_strict_refuted : ~ C09_b64_strict_full.
Proof. exact b64_strict_refuted. Qed.
Print Assumptions C09_b64_strict_refuted.

(** It holds for every input outside the class of F-C09-1b, i.e. with regular
    padding ([pad_regular]: symbol count a multiple of four, nothing but one
    more '=' behind the first '=', zero padding bits). *)
Theorem C09_b64_strict_partial : forall inp,
  pad_regular inp = true -> b64decode inp = Ok (option_map strip0 (strict_decode inp)).
Proof. exact b64_strict_partial. Qed.
Print Assumptions C09_b64_strict_partial.

(** the hypotheses are satisfiable by non-trivial inputs: "\000alice\000secret"
    round-trips; "AGFsaWNlAHNlY3JldA==" with a line break is regular and decoded *)
Example C09_nonvacuous :
  let x := [0; 97; 108; 105; 99; 101; 0; 115; 101; 99; 114; 101; 116]%N in
  octets x /\ last x 1%N <> 0%N /\ (N.of_nat (4 * ((length x + 2) / 3)) < 4294967295)%N
  /\ b64encode x 4294967295 = Ok [65; 71; 70; 115; 97; 87; 78; 108; 65; 72; 78; 108; 89; 51; 74; 108; 100; 65; 61; 61]%N
  /\ pad_regular [65; 71; 70; 115; 13; 10; 97; 87; 78; 108; 65; 72; 78; 108; 89; 51; 74; 108; 100; 65; 61; 61]%N = true
  /\ b64decode [65; 71; 70; 115; 13; 10; 97; 87; 78; 108; 65; 72; 78; 108; 89; 51; 74; 108; 100; 65; 61; 61]%N = Ok (Some x).
Proof.
  cbv zeta. repeat split; try (vm_compute; congruence); try reflexivity.
  repeat constructor.
Qed.

(** Part B: the AUTH exchange, qsmtpd/auth.c (model: Model/Auth.v; checker:
    Spec/AuthSpec.v).  [init reads w] is a connection state in which nothing
    has been written or asked yet, [reads] the results net_readline() will give,
    [w] the outcomes of the netwrite() calls; [be] any backend whose answer
    depends only on the credentials ([be_wf]). *)

(** Every run of smtp_auth() satisfies the checker of Spec/AuthSpec.v (with the
    decoder b64decode): refused AUTH does nothing at all; otherwise the backend
    is asked at most once and only with the credentials the exchange carries,
    authname afterwards is the user of a call answered with 0 and empty in
    every other case (cancelled, malformed, rejected, backend or I/O error),
    "235" is said exactly when an identity was set, 0 is returned only then;
    and the pipes are those of that one call. *)
Theorem C09_auth_exchange : forall be verdict bepipes c an0 linein reads w s rc an,
  be_wf be verdict bepipes ->
  smtp_auth be c an0 linein (init reads w) = Ok (s, rc, an) ->
  auth_ok decode2 verdict c an0 linein reads (obs_of reads s rc an) = true
  /\ pipes s = match calls s with [(u, p)] => bepipes u p | _ => [] end.
Proof. exact smtp_auth_ok. Qed.
Print Assumptions C09_auth_exchange.

(** The same, spelled out for a connection without identity: authname is
    non-empty afterwards iff the backend was called exactly once, answered 0,
    and authname is that call's user; and every call carried exactly the
    (user, password) decoded from the client's Base64. *)
Theorem C09_auth_identity : forall be verdict bepipes c linein reads w s rc an,
  be_wf be verdict bepipes ->
  smtp_auth be c [] linein (init reads w) = Ok (s, rc, an) ->
  (an <> [] <->
   exists u p, calls s = [(u, p)] /\ Z.eqb (verdict u p) 0 = true /\ an = u /\ u <> [])
  /\ (forall u p, In (u, p) (calls s) ->
        auth_permitted c = true /\
        expected decode2 linein (firstn (length reads - length (rds s)) reads) = Some (u, p)).
Proof. exact smtp_auth_identity. Qed.
Print Assumptions C09_auth_identity.

(** AUTH is refused — return 1 (503 in smtploop), nothing read, written or
    asked, authname unchanged — after a previous success, without a
    checkpassword setup, and with control/forcesslauth but no TLS. *)
Theorem C09_auth_refused : forall be c an0 linein s,
  an0 <> [] \/ auth_host_set c = false \/ (sslauth_on c = true /\ ssl_on c = false) ->
  smtp_auth be c an0 linein s = Ok (s, 1%Z, an0).
Proof. exact smtp_auth_refused. Qed.
Print Assumptions C09_auth_refused.

(** The checkpassword backend writes exactly user NUL password NUL NUL to the
    pipe that is descriptor 3 of the child, and answers 0 iff the child exits 0. *)
Theorem C09_auth_fd3 : forall chk s u p,
  let '(s', r) := be_cp 0 chk s u p in
  pipes s' = fd3 u p :: pipes s /\ (r = 0%Z <-> chk (fd3 u p) = CExit 0).
Proof. exact be_cp_fd3. Qed.
Print Assumptions C09_auth_fd3.

(** With a failing pipe/fork/write/close/waitpid it never answers 0, and what
    it wrote is a prefix of those bytes. *)
Theorem C09_auth_fd3_fault : forall fault chk s u p,
  cp_faulty fault = true ->
  let '(s', r) := be_cp fault chk s u p in
  r <> 0%Z /\ (pipes s' = pipes s \/ exists pp, pipes s' = pp :: pipes s /\ prefixb pp (fd3 u p) = true).
Proof. exact be_cp_fault. Qed.
Print Assumptions C09_auth_fd3_fault.

(** The checker that is run on the C harness' output holds of the model for
    every case the harness can express ([backend_of mode val]). *)
Theorem C09_auth_checker : forall mode val c an0 linein reads w s rc an,
  case_valid mode val = true ->
  smtp_auth (backend_of mode val) c an0 linein (init reads w) = Ok (s, rc, an) ->
  auth_ok decode2 (fun _ _ => case_verdict mode val) c an0 linein reads (obs_of reads s rc an) = true
  /\ pipes_ok (N.leb 3 mode) (if N.eqb mode 5 then val else 0%N) (obs_of reads s rc an) = true.
Proof. exact smtp_auth_case_ok. Qed.
Print Assumptions C09_auth_checker.

(** When every Base64 text of the exchange has regular padding (outside the
    class of F-C09-1b) the decoder in the checker may be the strict one of
    Spec/Base64Spec.v — which is how the checker is run on the C output. *)
Theorem C09_auth_strict : forall verdict c an0 linein reads o,
  Forall (fun b => pad_regular b = true) (blobs_of linein (firstn (o_nreads o) reads)) ->
  auth_ok strict_dec verdict c an0 linein reads o = auth_ok decode2 verdict c an0 linein reads o.
Proof. exact auth_ok_strict. Qed.
Print Assumptions C09_auth_strict.

(** smtp_auth() has no undefined behaviour (no access outside the line buffer,
    no use of a freed line) as long as net_readline(64, …) keeps its contract. *)
Theorem C09_auth_safe : forall be c an0 linein s,
  Forall read_ok (rds s) -> exists r, smtp_auth be c an0 linein s = Ok r.
Proof. exact smtp_auth_safe. Qed.
Print Assumptions C09_auth_safe.

(** The AUTH row of commands[] in qsmtpd/qsmtpd.c: allowed only in the state
    EHLO leaves, argument required and separated by a blank. *)
Theorem C09_auth_cmd_row : AUTH_CMD_MASK = EHLO_STATE_BIT /\ AUTH_CMD_FLAGS = 5%N.
Proof. exact auth_cmd_row. Qed.
Print Assumptions C09_auth_cmd_row.

(** non-vacuity: "AUTH PLAIN AGFsaWNlAHNlY3JldA==" with an accepting
    checkpassword authenticates alice and puts alice NUL secret NUL NUL on descriptor 3 *)
Example C09_auth_nonvacuous :
  let linein := [65; 85; 84; 72; 32; 80; 76; 65; 73; 78; 32;
                 65; 71; 70; 115; 97; 87; 78; 108; 65; 72; 78; 108; 89; 51; 74; 108; 100; 65; 61; 61]%N in
  let alice := [97; 108; 105; 99; 101]%N in
  let secret := [115; 101; 99; 114; 101; 116]%N in
  exists s, smtp_auth (be_cp 0 (fun _ => CExit 0)) {| auth_host_set := true; sslauth_on := false; ssl_on := false |}
              [] linein (init [] []) = Ok (s, 0%Z, alice)
            /\ calls s = [(alice, secret)] /\ pipes s = [fd3 alice secret] /\ out s = [MSG_235].
Proof. eexists. vm_compute. repeat split. Qed.

(** C18 — STARTTLS (client): only in-TLS replies are trusted, pinned certificates are honoured.
    Only statements here; proofs live in Proofs/TlsSwitch{Read,Proofs,Sound,Total,Theorems}.v.

    [run k] is the model of Qremote from the MX list on (Model/TlsSwitch.v): connect_mx() over
    all MX of the case [k], both greeting() calls, tls_init(), quitmsg() & co., the byte-level
    net_read() over the one buffer that clear text and TLS share, and main() up to the first
    command of the transmission.  A case gives, per MX: the clear-text server script as
    segments, the in-TLS script as segments, and the answers of the oracles (TLS handshake
    result, SSL_get_verify_result, tlshosts file, TLSA records with SSL_dane_tlsa_add results,
    one timing bit).  [trace k] is the event list of the run; [C18_event_ok] (Spec/
    TlsSwitchSpec.v) says what the next event may be after a given history.  The same events
    are recorded from the C program, and the boolean [spec_ok_C18] judges both.

    The theorems are about the C with the four proposed fixes (fixes/C18-*.diff); which code
    exists is read from the C on every run (Gen/GenStarttls.v: ST_PURGES,
    ST_QUITMSG_RESETS_ROUTE, ST_QIN_FREES_SSL, ST_PINNED_NEEDS_TLS); without a fix the lemma
    fix_... of Proofs/TlsSwitchProofs.v fails. *)
From Qv Require Import Common.Bytes Gen.GenStarttls Model.NetRead Model.TlsClient Spec.TlsSwitchSpec
  Proofs.TlsClientProofs Proofs.TlsSwitchSound Proofs.TlsSwitchTotal Proofs.TlsSwitchTheorems.

(** 0. For EVERY case the model run ends in exit(): no loop runs out of fuel, main() never
    returns (so the theorems below speak about complete runs). *)
Theorem C18_model_total : forall k, match run k with Exit _ => True | _ => False end.
Proof. exact run_exits. Qed.
Print Assumptions C18_model_total.

(** 1. The whole property, for every case outside the class [class_wrong_host] (a decidable
    predicate on the case): the event list passes the checker, i.e. (theorem 8) every event is
    allowed by [C18_event_ok] with the TLSA records of each host itself. *)
Theorem C18_spec_holds : forall k, class_wrong_host k = false -> spec_ok_C18 k (trace k) = true.
Proof. exact model_spec_ok. Qed.
Print Assumptions C18_spec_holds.

(** 2. For EVERY case: a handshake is started at most once per connection; reading goes through
    TLS exactly from the successful handshake on; a line obtained through TLS is a piece of what
    the TLS session of that connection delivered, cut at a CRLF at exactly the position the
    reader is at: whatever the line buffer held when the handshake started (clear text that
    came with or after the 220) is never taken for a reply. *)
Theorem C18_in_tls_only : forall k pre post,
  (forall p h, trace k = pre ++ EvHs p h :: post ->
     ~ hs_done (since_conn pre) /\ ~ hs_failed (since_conn pre)) /\
  (forall t it lft, trace k = pre ++ EvR t it lft :: post ->
     (t = true <-> hs_done (since_conn pre)) /\
     (forall l, it = RLine l -> t = true ->
        exists i, last_conn pre = Some i /\ cut_at (tls_stream (conn_of k i)) l lft)).
Proof. exact in_tls_only. Qed.
Print Assumptions C18_in_tls_only.

(** 3. For EVERY case: when the transmission starts inside TLS, every extension bit in smtpext
    was offered by a line that was read through TLS on this connection (the extensions are
    learned again from the EHLO inside TLS; nothing survives from the clear-text EHLO). *)
Theorem C18_extensions_from_tls : forall k pre ext post,
  trace k = pre ++ EvMail true ext :: post ->
  hs_done (since_conn pre) /\
  forall bit, N.testbit ext bit = true ->
    exists l lft, In (EvR true (RLine l) lft) (since_conn pre) /\ N.testbit (line_ext l) bit = true.
Proof. exact extensions_from_tls. Qed.
Print Assumptions C18_extensions_from_tls.

(** 4. Outside the class: a host with a certificate in control/tlshosts or a usable TLSA record
    of its own gets the message only inside TLS and only after SSL_get_verify_result() said
    X509_V_OK on this connection.  4b: for the tlshosts certificate this holds for EVERY case. *)
Theorem C18_pinned : forall k pre t ext post,
  class_wrong_host k = false ->
  trace k = pre ++ EvMail t ext :: post ->
  exists i, last_conn pre = Some i /\
    (need_verify own_tlsa (conn_of k i) = true ->
       t = true /\ hs_done (since_conn pre) /\ In (EvVfy 0) (since_conn pre)).
Proof. exact pinned_partial. Qed.
Print Assumptions C18_pinned.

Theorem C18_pinned_file : forall k pre t ext post,
  trace k = pre ++ EvMail t ext :: post ->
  exists i, last_conn pre = Some i /\
    (pinned (conn_of k i) = true ->
       t = true /\ hs_done (since_conn pre) /\ In (EvVfy 0) (since_conn pre)).
Proof. exact pinned_file. Qed.
Print Assumptions C18_pinned_file.

(** 5. For EVERY case: a route with its own client certificate never starts the transmission
    in clear, whatever the MX do and however many are tried; and tls_init() always loads the
    certificate of the route. *)
Theorem C18_expect_tls : forall k pre ext post,
  k_route k = true -> trace k <> pre ++ EvMail false ext :: post.
Proof. exact expect_tls. Qed.
Print Assumptions C18_expect_tls.

Theorem C18_route_cert : forall k pre r post,
  trace k = pre ++ EvCert r :: post -> r = k_route k.
Proof. exact route_cert_used. Qed.
Print Assumptions C18_route_cert.

(** 6. For EVERY case: no half-switched connection.  Writing goes through TLS exactly from the
    successful handshake on; after a failed handshake the only thing written is QUIT and the
    transmission is never started. *)
Theorem C18_no_half_switch : forall k pre post,
  (forall t b, trace k = pre ++ EvW t b :: post ->
     (t = true <-> hs_done (since_conn pre)) /\ (hs_failed (since_conn pre) -> b = ST_CMD_QUIT)) /\
  (forall t ext, trace k = pre ++ EvMail t ext :: post ->
     ~ hs_failed (since_conn pre) /\ (t = true <-> hs_done (since_conn pre))).
Proof. exact no_half_switch. Qed.
Print Assumptions C18_no_half_switch.

(** 7. The full property does not hold of the code that exists: connect_mx() asks for the TLSA
    records of the first MX and applies them to every MX.  Witness: MX 0 closes at once, MX 1
    has a DANE-EE record and presents a certificate that does not verify; the message is sent. *)
Definition C18_full : Prop := forall k, C18_holds k.
Theorem C18_wrong_host_refuted : ~ C18_full.
Proof. exact wrong_host_refuted. Qed.
Print Assumptions C18_wrong_host_refuted.

(** 8. What a positive verdict of the checker means (for any event list, in particular the one
    recorded from the C program). *)
Theorem C18_checker_sound : forall k tr, spec_ok_C18 k tr = true -> C18_trace_ok own_tlsa k tr.
Proof. exact (checker_sound own_tlsa). Qed.
Print Assumptions C18_checker_sound.

(** Non-vacuity: the server answers STARTTLS with "220 g" followed, in the same segment, by a
    forged EHLO answer offering PIPELINING; inside TLS it answers "250 a".  The run upgrades
    (23 bytes buffered when the handshake starts), starts the transmission inside TLS with
    smtpext = 0 (nothing of the forged answer), and the checker accepts the event list. *)
Definition nv_inject : bytes :=
  w_go ++ [50; 53; 48; 45; 120; 13; 10; 50; 53; 48; 32; 80; 73; 80; 69; 76; 73; 78; 73; 78; 71; 13; 10]%N.
Definition nv_case : tcase :=
  mkCase true [ mkConn true true true [] 0 0 [w_banner; w_ehlo_tls; nv_inject] [] [w_in_tls] ].
Example C18_nonvacuous :
  class_wrong_host nv_case = false /\
  existsb (fun e => match e with EvMail true 0%N => true | _ => false end) (trace nv_case) = true /\
  existsb (fun e => match e with EvHs 23 0%N => true | _ => false end) (trace nv_case) = true /\
  spec_ok_C18 nv_case (trace nv_case) = true.
Proof. vm_compute. repeat split. Qed.

(** C06 — Qremote always emits legal SMTP data and always terminates.
    Only statements here; proofs live in Proofs/Qr*.v.

    Model: Model/QrData.v + Model/Mime.v (literal, of the code with the fixes of fixes/C06-*.diff and
    fixes/C07-*.diff applied); every [= Ok ...] below says: no read outside the message mapping, no
    store outside a staging buffer (no [Crash]) and termination (no [OutOfFuel]). *)
From Qv Require Import Common.Bytes Gen.GenQrdata Model.Mime Model.QrData Spec.SmtpDataSpec
  Proofs.QrNeedRecodeProofs Proofs.QrPlainSpecProofs Proofs.QrQpDecodeProofs Proofs.QrQpLegalProofs Proofs.QrQpTopProofs Proofs.QrWrapLineProofs Proofs.QrPartDecisionProofs
  Proofs.MimeTotalProofs Proofs.QrHeaderTotalProofs Proofs.QrSendQpTotalProofs Proofs.QrLegalProofs.

(** need_recode() decides exactly what the property needs: the message goes the recoding way iff it has
    an octet that is NUL or above 127 while 8BITMIME was not announced, or a line of more than 998 octets
    (lines ended by CR, LF or CRLF, the last one possibly by the end of the message). *)
Theorem C06_recode_decision : forall (m : bytes) (ext8 : bool),
  exists fl, need_recode m 0 (length m) = Ok fl /\
    f8 fl = has_8bit m /\ (fline fl || fhdr fl) = has_long_line m /\
    takes_qp ext8 fl = must_recode ext8 m.
Proof. exact need_recode_decides. Qed.
Print Assumptions C06_recode_decision.

(** "Qremote always finishes and never reads outside the message": for EVERY message (any octets, any
    line ends, any header, multipart of any shape and nesting), every HELO name and either 8BITMIME
    setting, send_data returns on whichever path it takes — plain, or the recoding path through
    qp_header (header scan, Content-Transfer-Encoding replacement), wrap_header / wrap_line, the multipart
    walk of send_qp with its recursion into the parts, and the mime.c functions (is_multipart,
    skipwhitespace, mime_token, mime_param, getfieldlen, find_boundary).  [Ok] means: no [Crash] — no read
    outside the mapping of the message, no store outside sendbuf[1205/1048/1280], none of the situations
    the C code excludes by assert() — and no [OutOfFuel] with the fuel of the model, which is linear in
    the message length (length + 1 for the recursion over parts and for each loop over a window of
    that length, 2 x length + 2 / 6 x length + 6 for the flattened nested loops).  The outcome is the
    completed transfer or a failure reported through net_conn_shutdown() ([Die]). *)
Theorem C06_total : forall (m helo : bytes) (ext8 : bool),
  exists fl q r, send_data m helo ext8 = Ok (fl, q, r).
Proof. exact send_data_total. Qed.
Print Assumptions C06_total.

(** the same for the recoder alone, on any window of the message (any MIME part) and with any fuel above
    the window length *)
Theorem C06_send_qp_total : forall (m helo : bytes) (ext8 : bool) (fuel b len : nat) (st : St),
  b + len <= length m -> len < fuel -> exists r, send_qp fuel m helo ext8 b len st = Ok r.
Proof. exact send_qp_total. Qed.
Print Assumptions C06_send_qp_total.

(** send_qp() decides for every MIME part with `nr & nr_match` whether the part goes through the recoder
    (folding of over-long header lines, quoted-printable) or is sent as it is.  With the masks of the C
    source (regenerated on every run) this is, for each of the eight need_recode() results and both
    8BITMIME settings, the same decision as for a whole message: 8-bit content without 8BITMIME, an
    over-long body line, or an over-long line in the part's own header.  A part that is sent as it is
    therefore satisfies the hypothesis of [C06_plain]. *)
Theorem C06_part_decision : forall (ext8 : bool) (f : Flags), nr_match ext8 f = takes_qp ext8 f.
Proof. exact part_decision_is_message_decision. Qed.
Print Assumptions C06_part_decision.

(** Every message that needs no recoding, whatever its bytes and line ends and wherever the 1200-octet
    staging boundary falls: the transfer completes and what was written after the 354 is legal SMTP data
    (CRLF-terminated lines without other CR/LF, no line of more than 998 octets not counting the
    transparency dot, no octet above 127 unless 8BITMIME, no lone dot) followed by the terminator. *)
Theorem C06_plain : forall (m helo : bytes) (ext8 : bool),
  must_recode ext8 m = false ->
  exists fl st d, send_data m helo ext8 = Ok (fl, false, Done tt st) /\
                  concat (rev (out st)) = d ++ TERMINATOR /\ legal_data ext8 d.
Proof.
  intros m helo ext8 H. destruct (send_data_plain m helo ext8 H) as (fl & st & E1 & E2).
  exists fl, st, (stuff (split_lines m)). split; [exact E1|]. split; [exact E2|].
  apply plain_data_legal. exact H.
Qed.
Print Assumptions C06_plain.

(** "Everything Qremote writes between the 354 and the final reply is legal SMTP data", on whichever
    path: for EVERY message made of octets (any line ends, 8-bit octets, over-long header and body lines,
    with or without Content-Transfer-Encoding field, header only, body only, multipart of any shape and
    nesting, with missing, repeated or terminal boundaries, discarded preamble / epilogue), every HELO name
    that is a legal host name for the generated field, and either 8BITMIME setting.
    send_data returns, and
    - either the transfer is completed: the octets written are legal data (CRLF-terminated lines without
      other CR/LF, none over 998 octets not counting the transparency dot, 7 bit unless 8BITMIME, no lone
      dot) followed by the terminating dot line.  On the recoding path that is: the header lines folded by
      wrap_header / wrap_line, the replaced or added Content-Transfer-Encoding field, the lines of
      recodeheader(), the body as quoted-printable or as it is, and for a multipart the delimiter lines, the
      texts for a discarded preamble / epilogue and every part, recursively, each either as it is or
      through the same recoder;
    - or Qremote gave up through net_conn_shutdown() (8-bit octets in a header, a broken Content-Type, of the
      message or of a part): then it has written complete legal lines and possibly the beginning of
      one that could still be completed legally. *)
Theorem C06_legal : forall (m helo : bytes) (ext8 : bool),
  line_clean helo /\ seven_bit helo /\ length helo <= 255 ->
  Forall (fun c => (c < 256)%N) m ->
  exists fl q r, send_data m helo ext8 = Ok (fl, q, r) /\
    match r with
    | Done _ st => exists d, concat (rev (out st)) = d ++ TERMINATOR /\ legal_data ext8 d
    | Die _ st => exists d t, concat (rev (out st)) = d ++ t /\ legal_data ext8 d /\ legal_line ext8 t
    end.
Proof. exact send_data_legal. Qed.
Print Assumptions C06_legal.

(** when no header field of the message is accepted by is_multipart() as a multipart Content-Type (no
    multipart walk), giving up means that nothing at all was written *)
Theorem C06_legal_nomulti : forall (m helo : bytes) (ext8 : bool),
  line_clean helo /\ seven_bit helo /\ length helo <= 255 ->
  Forall (fun c => (c < 256)%N) m ->
  (forall ls ll bs bl, is_multipart m ls ll <> Ok (MpYes bs bl)) ->
  exists fl q r, send_data m helo ext8 = Ok (fl, q, r) /\
    match r with
    | Done _ st => exists d, concat (rev (out st)) = d ++ TERMINATOR /\ legal_data ext8 d
    | Die _ st => concat (rev (out st)) = []
    end.
Proof. exact send_data_legal_partial. Qed.
Print Assumptions C06_legal_nomulti.

(** recode_qp(), the quoted-printable recoder, on any window (body or MIME part) of any message made of
    octets: it terminates, reads nothing outside the window, stays inside sendbuf[1280], and what it
    writes — with the CRLF the terminator adds when the last line is open — is legal SMTP data that is
    7 bit whatever the server announced: CRLF lines without other CR/LF, no lone dot, no line over the
    limit (in fact at most 76 octets plus the transparency dot: the strict receiver accepts it). *)
Theorem C06_qp_body : forall (m : bytes) (b len : nat),
  b + len <= length m -> Forall (fun c => (c < 256)%N) m ->
  exists st', recode_qp m b len (mkSt [] true) = Ok st' /\
    let wire := concat (rev (out st')) ++ (if lastlf st' then [] else CRLF) in
    legal_data false wire /\ exists d, qp_decode 0 true wire = Some d.
Proof.
  intros m b len H1 H2. destruct (recode_qp_correct m b len H1 H2) as (st' & E & (d & Hd & _) & HL).
  exists st'. split; [exact E|]. split; [exact HL|]. exists d. exact Hd.
Qed.
Print Assumptions C06_qp_body.

(** wrap_line(), the folding of one over-long header line (it is called for lines of 999 and more octets;
    the theorem needs WL_LONG = 970): for every such line inside the message, with or without blanks, the
    call terminates, reads nothing outside the line, stays inside sendbuf[1048], returns len, and what it
    writes is legal SMTP data when the line itself has no CR/LF (and is 7 bit unless 8BITMIME): the
    fragments are at most 970 octets, the first is dot-stuffed, the others start with a blank. *)
Theorem C06_wrap_line : forall (m : bytes) (b len : nat) (ext8 : bool) (st : St),
  b + len <= length m -> WL_LONG <= len ->
  line_clean (sub m b len) -> (ext8 = false -> seven_bit (sub m b len)) ->
  exists st' d, wrap_line m b len st = Ok (len, st') /\
    concat (rev (out st')) = concat (rev (out st)) ++ d /\ legal_data ext8 d /\ lastlf st' = true.
Proof.
  intros m b len ext8 st Hwin Hlong Hc H7.
  destruct (wrap_line_ok m b len Hwin st Hlong) as (st' & fs & E & Hcat & Hn & Hlen & (f0 & r & Efs & Hf0) & Hout & Hlf).
  exists st', (render_frags fs). split; [exact E|]. split; [exact Hout|]. split; [|exact Hlf].
  apply frags_legal; rewrite ?Hcat; auto. rewrite Efs. discriminate.
Qed.
Print Assumptions C06_wrap_line.

(** the boolean checker that judges every C output accepts only legal data *)
Theorem C06_checker_sound : forall (ext8 : bool) (d : bytes), legal_data_b ext8 d = true -> legal_data ext8 d.
Proof. exact legal_data_b_sound. Qed.
Print Assumptions C06_checker_sound.

(** the hypotheses are met by a non-trivial input: bare CR, bare LF, leading dots, no final line end *)
Example C06_nonvacuous :
  let m := [97; 13; 98; 10; 46; 99; 13; 10; 46; 46; 100]%N in
  must_recode false m = false /\
  exists fl st, send_data m [104]%N false = Ok (fl, false, Done tt st) /\ length (concat (rev (out st))) = 20.
Proof. split; [reflexivity|]. eexists. eexists. split; [vm_compute; reflexivity|reflexivity]. Qed.

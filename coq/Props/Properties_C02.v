(** C02 — queue hand-off fidelity: message and envelope reach qmail-queue unaltered.
    Statements only; proofs in Proofs/DataProofs.v, SessionProofs.v, TraceProofs.v. *)
From Qv Require Import Common.Bytes Gen.GenNetio Gen.GenSession Model.NetRead Model.Session Model.Trace
  Spec.LineSpec Spec.SessionSpec Proofs.NetReadProofs Proofs.DataProofs Proofs.SessionProofs Proofs.TraceProofs.

(** Message: when smtp_data reaches the terminating dot ([D_eod]), what was written to qmail-queue is the
    trace header followed by exactly the client's data lines [seen], in order, each with CRLF turned into LF and
    one leading dot removed ([stored]); [seen] are precisely the lines the client transmitted before the lone dot
    ([wire seen ++ ".CRLF"] is what was consumed from the connection), none of them contains CR or LF or is
    the lone dot.  For every reader state, byte stream and segmentation. *)
Theorem C02_message : forall fuel o dc r trace msg sz seen r',
  rstate_ok r -> data_loop fuel o dc r trace = (D_eod msg sz seen, r') ->
  msg = trace ++ stored seen
  /\ total r = wire seen ++ [DOT; CR; LF] ++ total r'
  /\ Forall data_line seen.
Proof.
  intros fuel o dc r trace msg sz seen r' Hok H.
  pose proof (data_loop_spec fuel o dc r trace _ r' Hok H) as X. cbn in X. tauto.
Qed.
Print Assumptions C02_message.

(** the checker that judges the message of every hand-off of the IMPLEMENTATION in the correspondence runs accepts the model *)
Theorem C02_message_checker_sound : forall fuel o dc r trace msg sz seen r',
  rstate_ok r -> data_loop fuel o dc r trace = (D_eod msg sz seen, r') -> handoff_msg_ok seen msg = true.
Proof. exact handoff_msg_sound. Qed.
Print Assumptions C02_message_checker_sound.

(** Envelope: F<sender> NUL, one T<recipient> NUL per recipient accepted since that MAIL FROM (not withdrawn), in the
    order of acceptance, and a final NUL; a recipient at an address literal is written with control/localiphost. *)
Theorem C02_envelope : forall o chunks pre env msg post,
  run_session o chunks = pre ++ Handoff env msg :: post ->
  exists a f rs, trace_run o pre a_init = Some a /\ a_txn a = Some (f, rs) /\ env = env_of (o_liphost o) (Some (f, rs)).
Proof. exact handoff_is_open_transaction. Qed.
Print Assumptions C02_envelope.

(** Trace header: the Received: field is three physical lines "Received: from ..." LF TAB "by ..." LF TAB "for <...>; date" LF
    without any CR and without any further LF, whatever HELO argument, host names, addresses, cipher or user names are
    embedded, provided none of these strings contains CR or LF itself (HELO argument and addresses come out of the line
    reader and the address parser: C05, C14) *)
Theorem C02_trace_received : forall t, inputs_clean t = true ->
  exists l1 l2 l3,
    received_field t = (s_received_from ++ l1) ++ [LF; HT] ++ l2 ++ [LF; HT] ++ l3 ++ [LF]
    /\ no_crlf_b l1 = true /\ no_crlf_b l2 = true /\ no_crlf_b l3 = true.
Proof. exact received_field_shape. Qed.
Print Assumptions C02_trace_received.

Theorem C02_trace_spf_none : forall heloname dom, no_crlf_b heloname = true -> no_crlf_b dom = true ->
  exists l, spf_none_field heloname dom = l ++ [LF] /\ no_crlf_b l = true.
Proof. exact spf_none_field_shape. Qed.
Print Assumptions C02_trace_spf_none.

Example C02_nonvacuous :
  let o := {| o_helo := fun _ => true;
              o_addr := fun _ arg => match arg with 60%N :: c :: _ => AP_ok [c] None RLocal | _ => AP_nobracket end;
              o_ext := fun _ => Ext_ok 0 0 None; o_relay := 0%Z; o_mx := fun _ => 0; o_qq := fun _ => QQ_ok;
              o_databytes := 0%N; o_liphost := []; o_check2822 := false; o_authperm := false; o_auth := fun _ => Auth_multi; o_trace := fun _ _ _ _ _ _ => [88; 10]%N |} in
  filter (fun e => match e with Handoff _ _ => true | _ => false end)
    (run_session o [ [72;69;76;79;32;120;13;10]; [77;65;73;76;32;70;82;79;77;58;60;97;62;13;10];
                     [82;67;80;84;32;84;79;58;60;98;62;13;10]; [68;65;84;65;13;10];
                     [83;58;120;13;10;13;10;46;46;104;13;10;46;13;10] ]%N)
  = [Handoff [70;97;0;84;98;0;0]%N [88;10;83;58;120;10;10;46;104;10]%N].
Proof. vm_compute. reflexivity. Qed.

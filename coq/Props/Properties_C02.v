(** C02 — queue hand-off fidelity: message and envelope reach qmail-queue unaltered.
    Statements only; proofs in Proofs/DataProofs.v, SessionProofs.v, TraceProofs.v. *)
From Qv Require Import Common.Bytes Gen.GenNetio Gen.GenSession Model.NetRead Model.Session Model.Trace
  Spec.LineSpec Spec.SessionSpec Proofs.NetReadProofs Proofs.DataProofs Proofs.SessionProofs Proofs.TraceProofs Proofs.HandoffMsg.
From Qv Require Gen.GenSpf Model.SpfEnv Model.Spf.

(** Message: when smtp_data reaches the terminating dot ([D_eod]), what was written to qmail-queue is the
    trace header followed by exactly the client's data lines [seen], in order, each with CRLF turned into LF and
    one leading dot removed ([stored]) - in submission mode (TCPLOCALPORT 587, [d_subm]) with the added fields
    ([subm_fields], see C02_submission_additions) between the last header line and the empty line that starts the body,
    and nothing else anywhere; on every other port nothing at all is added.  [seen] are precisely the lines the client
    transmitted before the lone dot ([wire seen ++ ".CRLF"] is what was consumed from the connection), none of them
    contains CR or LF or is the lone dot; [hdr_part seen] are the lines before the first empty one, [body_part seen]
    the rest.  For every reader state, byte stream and segmentation. *)
Theorem C02_message : forall fuel o dc r trace msg sz seen r',
  rstate_ok r -> data_loop fuel o dc r trace = (D_eod msg sz seen, r') ->
  msg = trace ++ stored (hdr_part seen) ++ (if d_subm dc then subm_fields (par_of dc) (hdr_part seen) else []) ++ stored (body_part seen)
  /\ hdr_part seen ++ body_part seen = seen
  /\ (d_subm dc = false -> msg = trace ++ stored seen)
  /\ total r = wire seen ++ [DOT; CR; LF] ++ total r'
  /\ Forall data_line seen.
Proof.
  intros fuel o dc r trace msg sz seen r' Hok H.
  pose proof (data_loop_spec fuel o dc r trace _ r' Hok H) as X. cbn in X.
  destruct X as (Hm & Ht & Hall & _).
  split; [exact Hm|]. split; [apply hdr_body_part|]. split; [|tauto].
  intros Hs. rewrite Hm. now rewrite (queued_off (par_of dc) seen Hs).
Qed.
Print Assumptions C02_message.

(** Submission mode: what is added is exactly the missing ones of the three fields, in the order Date, From,
    Message-Id, each at most once, each a single line:
      "Date: " <date of the Received: line> LF          unless a header line starts with "Date:" (any case)
      "From: <" <sender of MAIL FROM> ">" LF            unless a header line starts with "From:"
      "Message-Id: <" <sec.usec> "@" <msgidhost> ">" LF unless a header line starts with "Message-Id:"
    where "header line" is a line before the first empty line that, as transmitted, does not start with a dot
    ([field_present]; see C02_submission_full_refuted for lines that do).  The literal pieces are regenerated from
    qsmtpd/data.c (Gen/GenSession.v).  With all three present, and on every other port, nothing is added. *)
Theorem C02_submission_additions : forall fuel o dc r trace msg sz seen r',
  rstate_ok r -> data_loop fuel o dc r trace = (D_eod msg sz seen, r') ->
  let hdr := hdr_part seen in
  exists add, msg = trace ++ stored hdr ++ add ++ stored (body_part seen)
    /\ (d_subm dc = false -> add = [])
    /\ (d_subm dc = true ->
        add = (if field_present s_hdr_date hdr then [] else SUBM_DATE_PFX ++ d_date dc ++ [LF])
              ++ (if field_present s_hdr_from hdr then [] else SUBM_FROM_PFX ++ d_from dc ++ SUBM_FROM_END)
              ++ (if field_present s_hdr_msgid hdr then [] else SUBM_MSGID_PFX ++ d_stamp dc ++ SUBM_MSGID_AT ++ d_idhost dc ++ SUBM_MSGID_END))
    /\ (field_present s_hdr_date hdr = true -> field_present s_hdr_from hdr = true -> field_present s_hdr_msgid hdr = true -> add = []).
Proof.
  intros fuel o dc r trace msg sz seen r' Hok H hdr.
  pose proof (data_loop_spec fuel o dc r trace _ r' Hok H) as X. cbn in X. destruct X as (Hm & _).
  exists (if d_subm dc then subm_fields (par_of dc) hdr else []). split; [exact Hm|].
  split; [intros ->; reflexivity|]. split; [intros ->; reflexivity|].
  intros H1 H2 H3. unfold subm_fields. rewrite H1, H2, H3. destruct (d_subm dc); reflexivity.
Qed.
Print Assumptions C02_submission_additions.

(** the pieces are what RfC 5322 calls them; the sender the From field carries is the one of the transaction:
    smtp_data is run with [d_from] = xmitstat.mailfrom, [d_subm] = (port is 587) - by definition of h_data, see
    C02_handoff_message *)
Theorem C02_submission_constants :
  SUBM_PORT = [53; 56; 55]%N /\ HDR_PATTERNS = [s_hdr_date; s_hdr_from; s_hdr_msgid]
  /\ SUBM_DATE_PFX = [68; 97; 116; 101; 58; 32]%N /\ SUBM_FROM_PFX = [70; 114; 111; 109; 58; 32; 60]%N /\ SUBM_FROM_END = [62; LF]%N
  /\ SUBM_MSGID_PFX = [77; 101; 115; 115; 97; 103; 101; 45; 73; 100; 58; 32; 60]%N /\ SUBM_MSGID_AT = [64]%N /\ SUBM_MSGID_END = [62; LF]%N.
Proof. repeat split. Qed.
Print Assumptions C02_submission_constants.

(** THE PROPERTY AS STATED ("... when the client omitted them") judges the omission on the submitted message, i.e. on
    the header lines as they are stored ([field_stored] in [queued_full]).  This does NOT hold: a header line transmitted
    with a needless leading dot (".Date: x", which every receiver must store as "Date: x", RfC 5321 4.5.2) is skipped by
    the header checks of smtp_data, so the field counts as missing and a second one is added. *)
Definition C02_submission_full : Prop := forall fuel o dc r trace msg sz seen r',
  rstate_ok r -> data_loop fuel o dc r trace = (D_eod msg sz seen, r') -> msg = trace ++ queued_full (par_of dc) seen.

Theorem C02_submission_full_refuted : ~ C02_submission_full.
Proof.
  intros F.
  pose (o := {| o_helo := fun _ => true; o_addr := fun _ _ => AP_nobracket; o_ext := fun _ => Ext_einval; o_relay := 0%Z; o_mx := fun _ => 0;
                o_qq := fun _ => QQ_ok; o_databytes := 0%N; o_liphost := []; o_check2822 := false; o_authperm := false;
                o_auth := fun _ => Auth_multi; o_trace := fun _ _ _ _ _ _ _ => [];
                o_submission := true; o_subm_date := []; o_subm_stamp := []; o_msgidhost := []; o_tls := false; o_tlsverify := TV_no |}).
  pose (dc := {| d_wfail := false; d_chk := false; d_dt := false; d_rcpts := []; d_subm := true;
                 d_date := [88]%N; d_from := [102]%N; d_stamp := [49]%N; d_idhost := [104]%N |}).
  (* the client sends  .Date: x CRLF . CRLF *)
  pose (r := {| inn := []; en := {| cur := []; future := [[46; 68; 97; 116; 101; 58; 32; 120; 13; 10; 46; 13; 10]%N] |} |}).
  assert (Hok : rstate_ok r) by (unfold rstate_ok; cbn; apply Nat.le_0_l).
  let res := eval vm_compute in (data_loop 10 o dc r []) in
  match res with
  | (D_eod ?m ?sz ?sn, ?r') =>
      assert (E : data_loop 10 o dc r [] = (D_eod m sz sn, r')) by (vm_compute; reflexivity);
      pose proof (F 10 o dc r [] m sz sn r' Hok E) as X; vm_compute in X; discriminate X
  end.
Qed.
Print Assumptions C02_submission_full_refuted.

(** ... and it holds for every message outside that class: no header line hides one of the three names behind a leading dot *)
Theorem C02_submission_partial : forall fuel o dc r trace msg sz seen r',
  rstate_ok r -> data_loop fuel o dc r trace = (D_eod msg sz seen, r') ->
  hidden_field (hdr_part seen) = false -> msg = trace ++ queued_full (par_of dc) seen.
Proof.
  intros fuel o dc r trace msg sz seen r' Hok H Hc.
  pose proof (data_loop_spec fuel o dc r trace _ r' Hok H) as X. cbn in X. destruct X as (Hm & _).
  rewrite Hm. now rewrite (queued_full_eq (par_of dc) seen (or_intror Hc)).
Qed.
Print Assumptions C02_submission_partial.

(** The whole session: EVERY hand-off of every session, for all oracles, client byte streams and segmentations, is an
    envelope F<f>NUL... (written from the server's sender [f] and recipient list [rc]; C02_envelope says they are the open
    transaction) together with a message that is a trace header followed by the client's data lines [seen] of that DATA
    command - on the submission port ([o_submission]) with the missing ones of Date, From, Message-Id added behind the last
    header line, the From field carrying that same sender [f]; on every other port with nothing added ([queued_off]).
    [par_s o f] = (submission mode of the session, date, f, time stamp, msgidhost). *)
Theorem C02_handoff_message : forall o chunks env msg, In (Handoff env msg) (run_session o chunks) ->
  exists f rc trace seen,
    env = envelope (o_liphost o) f rc
    /\ msg = trace ++ queued (par_s o f) seen
    /\ Forall data_line seen.
Proof. exact session_handoff_message. Qed.
Print Assumptions C02_handoff_message.

(** the checker that judges the message of every hand-off of the IMPLEMENTATION in the correspondence runs (the property
    as stated: [queued_full]) accepts the model on every port other than 587, and on 587 outside the class above *)
Theorem C02_message_checker_sound : forall fuel o dc r trace msg sz seen r',
  rstate_ok r -> data_loop fuel o dc r trace = (D_eod msg sz seen, r') ->
  d_subm dc = false \/ hidden_field (hdr_part seen) = false -> handoff_msg_ok (par_of dc) seen msg = true.
Proof. exact handoff_msg_sound. Qed.
Print Assumptions C02_message_checker_sound.

(** Envelope: F<sender> NUL, one T<recipient> NUL per recipient accepted since that MAIL FROM (not withdrawn), in the
    order of acceptance, and a final NUL; a recipient at an address literal is written with control/localiphost. *)
Theorem C02_envelope : forall o chunks pre env msg post,
  run_session o chunks = pre ++ Handoff env msg :: post ->
  exists a f rs, trace_run o pre a_init = Some a /\ a_txn a = Some (f, rs) /\ env = env_of (o_liphost o) (Some (f, rs)).
Proof. exact handoff_is_open_transaction. Qed.
Print Assumptions C02_envelope.

(** Trace header: the Received: field is three physical lines "Received: from ..." LF TAB "by ..." LF TAB "for <...>; date" LF
    without any CR and without any further LF, whatever HELO argument, host names, addresses, cipher or user names are
    embedded, provided none of these strings contains CR or LF itself (HELO argument and addresses come out of the line
    reader and the address parser: C05, C14) *)
Theorem C02_trace_received : forall t, inputs_clean t = true ->
  exists l1 l2 l3,
    received_field t = (s_received_from ++ l1) ++ [LF; HT] ++ l2 ++ [LF; HT] ++ l3 ++ [LF]
    /\ no_crlf_b l1 = true /\ no_crlf_b l2 = true /\ no_crlf_b l3 = true.
Proof. exact received_field_shape. Qed.
Print Assumptions C02_trace_received.

Theorem C02_trace_spf_none : forall heloname dom, no_crlf_b heloname = true -> no_crlf_b dom = true ->
  exists l, spf_none_field heloname dom = l ++ [LF] /\ no_crlf_b l = true.
Proof. exact spf_none_field_shape. Qed.
Print Assumptions C02_trace_spf_none.

(** submission port, relay client: Date and Message-Id are missing and added, From is there (upper case) and kept *)
(** the Received-SPF field of this file ([spf_none_field], the only one the session model's own trace header builds) IS the
    output of the literal model of spfreceived() of property C11 (Model/Spf.v) for the result "none": same octets, for every
    session [X] and state [g].  For the other results (pass, fail, softfail, neutral, ...) the correspondence run of the session
    engine takes the field from the extracted C11 model itself ([trace_header_with]), and C11_received_spf_clean is the theorem
    about its syntax. *)
Theorem C02_trace_spf_none_is_c11 : forall X g,
  Spf.spfreceived X GenSpf.SPF_NONE g
  = Some (spf_none_field (SpfEnv.s_heloname X) (match SpfEnv.s_mailfrom X with [] => SpfEnv.HELOSTR X | m => m end)).
Proof.
  intros X g. unfold Spf.spfreceived, Spf.spfdomain, Spf.lit, spf_none_field.
  change (GenSpf.SPF_NONE =? GenSpf.SPF_IGNORE)%Z with false. change (GenSpf.SPF_NONE =? GenSpf.SPF_PERMERROR)%Z with false.
  change (GenSpf.SPF_NONE =? GenSpf.SPF_DNS_HARD_ERROR)%Z with false. change (GenSpf.SPF_NONE =? GenSpf.SPF_TEMPERROR)%Z with false.
  change (GenSpf.SPF_NONE =? GenSpf.SPF_NONE)%Z with true. cbn [orb].
  cbn [nth Z.to_nat GenSpf.SPF_NONE GenSpf.RCV_LIT GenSpf.RCV_RESULT]. rewrite <- !app_assoc. reflexivity.
Qed.
Print Assumptions C02_trace_spf_none_is_c11.

Example C02_nonvacuous_submission :
  let o := {| o_helo := fun _ => true;
              o_addr := fun _ arg => match arg with 60%N :: c :: _ => AP_ok [c] None RLocal | _ => AP_nobracket end;
              o_ext := fun _ => Ext_ok 0 0 None; o_relay := 1%Z; o_mx := fun _ => 0; o_qq := fun _ => QQ_ok;
              o_databytes := 0%N; o_liphost := []; o_check2822 := false; o_authperm := false; o_auth := fun _ => Auth_multi; o_trace := fun _ _ _ _ _ _ _ => [88; 10]%N;
              o_submission := true; o_subm_date := [100]%N; o_subm_stamp := [49; 46; 50]%N; o_msgidhost := [104]%N; o_tls := false; o_tlsverify := TV_no |} in
  filter (fun e => match e with Handoff _ _ => true | _ => false end)
    (run_session o [ [72;69;76;79;32;120;13;10]; [77;65;73;76;32;70;82;79;77;58;60;97;62;13;10];
                     [82;67;80;84;32;84;79;58;60;98;62;13;10]; [68;65;84;65;13;10];
                     [70;82;79;77;58;120;13;10;13;10;104;13;10;46;13;10] ]%N)
  = [Handoff [70;97;0;84;98;0;0]%N
       ([88;10] ++ [70;82;79;77;58;120;10] ++ ([68;97;116;101;58;32;100;10] ++ [77;101;115;115;97;103;101;45;73;100;58;32;60;49;46;50;64;104;62;10]) ++ [10;104;10])%N].
Proof. vm_compute. reflexivity. Qed.

Example C02_nonvacuous :
  let o := {| o_helo := fun _ => true;
              o_addr := fun _ arg => match arg with 60%N :: c :: _ => AP_ok [c] None RLocal | _ => AP_nobracket end;
              o_ext := fun _ => Ext_ok 0 0 None; o_relay := 0%Z; o_mx := fun _ => 0; o_qq := fun _ => QQ_ok;
              o_databytes := 0%N; o_liphost := []; o_check2822 := false; o_authperm := false; o_auth := fun _ => Auth_multi; o_trace := fun _ _ _ _ _ _ _ => [88; 10]%N;
              o_submission := false; o_subm_date := []; o_subm_stamp := []; o_msgidhost := []; o_tls := false; o_tlsverify := TV_no |} in
  filter (fun e => match e with Handoff _ _ => true | _ => false end)
    (run_session o [ [72;69;76;79;32;120;13;10]; [77;65;73;76;32;70;82;79;77;58;60;97;62;13;10];
                     [82;67;80;84;32;84;79;58;60;98;62;13;10]; [68;65;84;65;13;10];
                     [83;58;120;13;10;13;10;46;46;104;13;10;46;13;10] ]%N)
  = [Handoff [70;97;0;84;98;0;0]%N [88;10;83;58;120;10;10;46;104;10]%N].
Proof. vm_compute. reflexivity. Qed.

(** C16 — control files and IP/domain lists mean what the administrator wrote.
    Only statements here; proofs live in Proofs/FindDomainProofs.v, MatchNetProofs.v,
    IpblProofs.v, LoadFileProofs.v, ControlTheorems.v.  The models are those of the C with
    fixes/C16-finddomain-bound.diff, fixes/C16-ipbl-validate-first.diff and
    fixes/C16-loadint-strict.diff applied. *)
From Qv Require Import Common.Bytes Gen.GenControl Model.FindDomain Model.MatchNet Model.LoadFile Model.LoadListArr Spec.ControlSpec
  Proofs.FindDomainProofs Proofs.MatchNetProofs Proofs.IpblProofs Proofs.LoadFileProofs Proofs.LoadListArrProofs Proofs.ControlTheorems.

(** ---- rcpthosts-style lists: lib/control.c:finddomain ----
    For every list content and every query name (a C string): the lookup reads
    no byte outside the mapping (it returns a value, not [Crash]) and answers 1
    exactly when some entry of the list -- a line not starting with '#', without
    its trailing blanks and tabs, not empty -- equals the name without regard to
    ASCII case, or starts with a dot, is shorter than the name and is a
    case-insensitive suffix of it.  (So evil-example.org does not match
    example.org, and neither example.org nor .example.org match the entry
    .example.org, but a.example.org does.) *)
Theorem C16_finddomain : forall buf name,
  nonul name ->
  exists b, finddomain buf name = Ok b /\
            (b = true <-> exists e, In e (fd_entries buf) /\ entry_matches e name).
Proof. exact finddomain_full. Qed.
Print Assumptions C16_finddomain.

(** what an entry is, spelled out *)
Theorem C16_fd_entries : forall buf e,
  In e (fd_entries buf) <->
  e <> [] /\ exists l, In l (split_on (N.eqb 10) buf) /\ is_comment_line l = false /\ e = strip_trailing l.
Proof. exact fd_entries_In. Qed.
Print Assumptions C16_fd_entries.

(** the wording of the property, for names that do not themselves start with a dot *)
Theorem C16_finddomain_property : forall buf name,
  nonul name -> dot_led name = false ->
  exists b, finddomain buf name = Ok b /\
            (b = true <-> exists e, In e (fd_entries buf) /\
                                    (lower name = lower e \/ (dot_led e = true /\ ci_suffix e name))).
Proof. exact finddomain_property. Qed.
Print Assumptions C16_finddomain_property.

(** lib/match.c:matchdomain (entries of lists loaded by loadlistfd): an entry matches a
    name iff it equals it case-insensitively or starts with a dot and is a
    case-insensitive suffix of the name (here the name may equal the entry) *)
Theorem C16_matchdomain : forall name expr,
  nonul name -> nonul expr ->
  (matchdomain name expr = true <->
   if dot_led expr then ci_suffix expr name else lower name = lower expr).
Proof. exact matchdomain_full. Qed.
Print Assumptions C16_matchdomain.

(** F-C16-1 on record: the code before the fix reads list[size] *)
Theorem C16_finddomain_orig_overread :
  finddomain_orig [101; 120; 97; 109; 112; 108; 101; 46; 111; 114; 103; 10]%N [120; 46; 111; 114; 103]%N = Crash 4.
Proof. exact finddomain_orig_overread. Qed.
Print Assumptions C16_finddomain_orig_overread.

(** ---- lib/match.c ----
    For every 16-byte client address (IPv4 clients are IPv4-mapped: the address
    is the last four bytes), every network and every prefix length 0..32:
    ip4_matchnet answers 1 exactly when address and network, read as big-endian
    numbers, agree after division by 2^(32 - mask), i.e. on their top [mask] bits. *)
Theorem C16_ip4_matchnet : forall ip net mask,
  length ip = 16 -> 4 <= length net -> bytes_ok ip -> bytes_ok net -> (mask <= 32)%N ->
  exists b, ip4_matchnet ip net mask = Ok b /\
            (b = true <-> (be_val (sub ip 12 4) / 2 ^ (32 - mask) = be_val (firstn 4 net) / 2 ^ (32 - mask))%N).
Proof. exact ip4_matchnet_full. Qed.
Print Assumptions C16_ip4_matchnet.

(** the 128-bit analogue, every prefix length 0..128 *)
Theorem C16_ip6_matchnet : forall ip net mask,
  length ip = 16 -> 16 <= length net -> bytes_ok ip -> bytes_ok net -> (mask <= 128)%N ->
  exists b, ip6_matchnet ip net mask = Ok b /\
            (b = true <-> (be_val ip / 2 ^ (128 - mask) = be_val (firstn 16 net) / 2 ^ (128 - mask))%N).
Proof. exact ip6_matchnet_full. Qed.
Print Assumptions C16_ip6_matchnet.

(** ---- binary IP lists: qsmtpd/antispam.c:check_ipbl_file via check_ip4 / check_ip6 ----
    For every file content (octets) and every client: the check never reads
    outside the file and returns [ipbl_file_spec]: -1 when the size is not a
    multiple of the record size or any record has a prefix length outside
    8..8*iplen, otherwise 1 when the client lies in one of the listed networks
    and 0 when in none. *)
Theorem C16_ipbl4 : forall ip buf,
  length ip = 16 -> bytes_ok ip -> bytes_ok buf ->
  check_ip4 ip buf = Ok (ipbl_file_spec 4 in_net4b ip buf).
Proof. exact check_ip4_correct. Qed.
Print Assumptions C16_ipbl4.

Theorem C16_ipbl6 : forall ip buf,
  length ip = 16 -> bytes_ok ip -> bytes_ok buf ->
  check_ip6 ip buf = Ok (ipbl_file_spec 16 in_net6b ip buf).
Proof. exact check_ip6_correct. Qed.
Print Assumptions C16_ipbl6.

(** reading of [ipbl_file_spec]: a wrong size is an error ... *)
Theorem C16_ipbl_bad_size : forall iplen innet ip buf,
  length buf mod (iplen + 1) <> 0 -> ipbl_file_spec iplen innet ip buf = (-1)%Z.
Proof. exact ipbl_bad_size. Qed.
Print Assumptions C16_ipbl_bad_size.

(** ... and a file that is a sequence of records means: error iff some prefix
    length is invalid (wherever that record stands), else match iff the client
    is in one of the networks *)
Theorem C16_ipbl_records : forall iplen innet ip recs,
  Forall (fun r => length r = iplen + 1) recs ->
  let v := ipbl_file_spec iplen innet ip (concat recs) in
  (v = (-1)%Z <-> exists r, In r recs /\ rec_valid iplen r = false) /\
  (v = 1%Z <-> (forall r, In r recs -> rec_valid iplen r = true) /\
               exists r, In r recs /\ innet ip r (rec_mask iplen r) = true) /\
  (v = 0%Z <-> (forall r, In r recs -> rec_valid iplen r = true) /\
               forall r, In r recs -> innet ip r (rec_mask iplen r) = false).
Proof.
  intros iplen innet ip recs H v. subst v. rewrite (ipbl_file_spec_records _ _ _ _ H).
  apply ipbl_spec_meaning.
Qed.
Print Assumptions C16_ipbl_records.

(** F-C16-2 on record: the code before the fix answered "match" for a list whose
    second record is malformed *)
Theorem C16_ipbl_orig_lazy :
  let ip := [0;0;0;0;0;0;0;0;0;0;255;255;192;0;2;1]%N in
  let buf := [192;0;2;0;24; 192;0;2;0;7]%N in
  check_ipbl_file_orig 4 ip4_matchnet ip buf = Ok 1%Z /\ ipbl_file_spec 4 in_net4b ip buf = (-1)%Z.
Proof. exact check_ipbl_orig_lazy. Qed.
Print Assumptions C16_ipbl_orig_lazy.

(** ---- list-type control files: lib/control.c:loadlistfd (no check callback) over lloadfilefd mode 3 ----
    For every file content: the loader does not crash and either rejects the
    file (EINVAL) or returns exactly [list_spec]: the lines (ended by LF; a NUL
    ends a line too), each cut at its first '#' that is not preceded by a
    backslash and stripped of trailing blanks/tabs, empty ones dropped, in
    order.  It rejects the file exactly when some line has a blank or tab that
    is followed, before the end of the line, by anything but blanks/tabs
    (a second word, or a comment after a blank). *)
Theorem C16_loadlist : forall content,
  loadlist content = Ok (match list_spec content with None => LErr | Some es => LOk es end).
Proof. exact loadlist_correct. Qed.
Print Assumptions C16_loadlist.

(** ---- lloadfilefd in its other modes, for every file content (the file is read into
    a buffer of its size + 1; sizes are [nat], the C uses size_t: contents below 2^31
    octets are far inside both) ----
    mode 0 (vpopbounce): the content itself. *)
Theorem C16_lloadfile_raw : forall content,
  lloadfile 0 content = Ok (LOk (length content, content)).
Proof. exact lloadfile_raw. Qed.
Print Assumptions C16_lloadfile_raw.

(** mode 1 (tlsserverciphers, one-line files): never an error; the buffer is the
    non-empty lines after removal of comments, blanks kept, each followed by one NUL
    ([cat]); the returned length is the length of that buffer (0 and no buffer when
    there is no such line); every line in it is non-empty and NUL-free *)
Theorem C16_lloadfile_mode1 : forall content,
  lloadfile 1 content = Ok (LOk (length (cat (plain_lines content)), cat (plain_lines content)))
  /\ Forall (fun e => e <> [] /\ Forall (fun b => b <> 0%N) e) (plain_lines content).
Proof. exact lloadfile1_correct. Qed.
Print Assumptions C16_lloadfile_mode1.

(** mode 2 (blank rule, no compaction): EINVAL exactly when [list_spec] rejects; 0 and no
    buffer when there is no entry; otherwise a buffer of the size of the file whose
    non-empty NUL-separated strings are exactly the entries of [list_spec] *)
Theorem C16_lloadfile_mode2 : forall content,
  match list_spec content with
  | None => lloadfile 2 content = Ok LErr
  | Some [] => lloadfile 2 content = Ok (LOk (0, []))
  | Some es => exists img, lloadfile 2 content = Ok (LOk (length content, img)) /\
                           length img = length content /\ pieces img = es
  end.
Proof. exact lloadfile2_correct. Qed.
Print Assumptions C16_lloadfile_mode2.

(** mode 3 (lists, numbers): EINVAL exactly when [list_spec] rejects, else the entries each followed by one NUL *)
Theorem C16_lloadfile_mode3 : forall content,
  lloadfile 3 content =
    Ok (match list_spec content with None => LErr | Some es => LOk (length (cat es), cat es) end)
  /\ (forall es, list_spec content = Some es -> Forall (fun e => e <> [] /\ Forall (fun b => b <> 0%N) e) es).
Proof. exact lloadfile3. Qed.
Print Assumptions C16_lloadfile_mode3.

(** ---- one-line files: loadonelinerfd (me, helohost, msgidhost, localiphost, outgoingip, the
    nomail reject text) ----  no non-empty non-comment line: "not there" (ENOENT); exactly
    one: that line with its comment cut off -- blanks and tabs are NOT stripped, a
    trailing blank stays part of the value; a second such line: EINVAL.  Never a crash. *)
Theorem C16_loadoneliner : forall content,
  loadoneliner content =
  Ok (match oneliner_spec content with
      | OneNone => LOk None
      | OneLine l => LOk (Some l)
      | OneError => LErr
      end).
Proof. exact loadoneliner_correct. Qed.
Print Assumptions C16_loadoneliner.

(** ---- the literal array model (Model/LoadListArr.v): compact_buffer's in-place moves,
    loadlistfd's counting loop with a check callback, data_array and the pointer loop ----
    compact_buffer on a block whose region [0, oldlen) can be walked (one more byte
    behind it, or the region ends in NUL) and that is at most oldlen + 1 long: no
    access outside the block, result = the non-empty NUL-separated strings of the
    region, each followed by one NUL, in order. *)
Theorem C16_compact_buffer : forall a oldlen,
  walkable oldlen a -> length a <= oldlen + 1 ->
  compact_buffer a oldlen = Ok (length (cat (pieces (firstn oldlen a))), cat (pieces (firstn oldlen a))).
Proof. exact compact_buffer_spec. Qed.
Print Assumptions C16_compact_buffer.

(** loadlistfd for EVERY check callback [cf] (cf = NULL is [fun _ => false]), every content of the
    freshly allocated bytes ([fill]) and every file content: EINVAL iff [list_spec] rejects;
    NULL when no entry is left; otherwise a block made of the pointer table
    (8 * (n + 1) bytes), directly behind it the entries accepted by the callback, in
    order, each followed by one NUL and adjacent to the next, then n spare bytes;
    pointer i addresses entry i and the table ends with NULL.  Rejected entries are
    gone completely, accepted ones are untouched.  No access outside a block anywhere
    (the model returns a value, not [Crash]). *)
Theorem C16_loadlist_arr : forall (cf : bytes -> bool) (fill : nat -> N) content,
  match list_spec content with
  | None => loadlist_arr cf fill content = Ok LErr
  | Some es =>
      match filter (fun e => negb (cf e)) es with
      | [] => loadlist_arr cf fill content = Ok (LOk None)
      | kept => exists b, loadlist_arr cf fill content = Ok (LOk (Some b)) /\ list_block kept b
      end
  end.
Proof. exact loadlist_arr_correct. Qed.
Print Assumptions C16_loadlist_arr.

(** what a caller reads through the table of such a block: exactly the entries; every
    pointer lies behind the table and inside the block, every string is NUL-terminated
    inside the block *)
Theorem C16_list_block_read : forall es b,
  Forall (fun e => e <> [] /\ Forall (fun x => x <> 0%N) e) es -> list_block es b ->
  exists offs, read_ptrs (mem b) (ptrs b) = Ok (combine offs es) /\ length offs = length es /\
    Forall2 (fun p e => (length es + 1) * PTR_SIZE <= p /\ p + length e < length (mem b) /\
                        sub (mem b) p (length e + 1) = e ++ [0%N]) offs es.
Proof. exact list_block_read. Qed.
Print Assumptions C16_list_block_read.

(** reading aids for [line_entry], the per-line part of [list_spec] *)
Theorem C16_line_entry_cases :
  (forall w bl, Forall plain_byte w -> forallb is_blank bl = true -> line_entry (w ++ bl) = Some w) /\
  (forall w c, Forall plain_byte w -> last w 0%N <> 92%N -> line_entry (w ++ 35%N :: c) = Some w) /\
  (forall w bl b x r, Forall plain_byte w -> is_blank b = true -> forallb is_blank bl = true -> is_blank x = false ->
                      line_entry (w ++ b :: bl ++ x :: r) = None).
Proof.
  split; [exact line_entry_trailing_blanks|]. split; [exact line_entry_comment|exact line_entry_inner_blank].
Qed.
Print Assumptions C16_line_entry_cases.

(** ---- numeric control files: lib/control.c:loadintfd (strict form) ----
    For every file content and default: the result is [int_spec]: the default
    when the file has no entry (empty, only comments/blank lines), the value
    when it has exactly one entry and that is a decimal numeral not above
    2^64-1, and an error (EINVAL) in every other case (a second entry, a sign,
    a letter, overflow, an inner blank). *)
Theorem C16_loadint : forall content def,
  loadint content def = Ok (match int_spec content def with None => LErr | Some v => LOk v end).
Proof. exact loadint_correct. Qed.
Print Assumptions C16_loadint.

(** F-C16-3 on record: the code before the fix read "#c<LF>17<LF>" as 0 and "1<LF>2<LF>" as 1 *)
Theorem C16_loadint_orig_silent :
  loadint_orig [35; 99; 10; 49; 55; 10]%N 4242%N = Ok (LOk 0%N)
  /\ int_spec [35; 99; 10; 49; 55; 10]%N 4242%N = Some 17%N
  /\ loadint_orig [49; 10; 50; 10]%N 4242%N = Ok (LOk 1%N)
  /\ int_spec [49; 10; 50; 10]%N 4242%N = None.
Proof. exact loadint_orig_silent. Qed.
Print Assumptions C16_loadint_orig_silent.

(** the hypotheses are satisfiable by non-trivial inputs *)
Example C16_nonvacuous :
  let lst := [35;120;10; 46;101;120;46;111;114;103;32;9;10;10; 65;46;99;111;109]%N in   (* "#x\n.ex.org \t\n\nA.com" *)
  fd_entries lst = [[46;101;120;46;111;114;103]; [65;46;99;111;109]]%N
  /\ finddomain lst [109;46;69;88;46;111;114;103]%N = Ok true        (* m.EX.org *)
  /\ finddomain lst [101;120;46;111;114;103]%N = Ok false           (* ex.org *)
  /\ finddomain lst [97;46;99;111;109]%N = Ok true                  (* a.com *)
  /\ ip4_matchnet [0;0;0;0;0;0;0;0;0;0;255;255;192;0;2;129]%N [192;0;2;0]%N 25%N = Ok false
  /\ ip4_matchnet [0;0;0;0;0;0;0;0;0;0;255;255;192;0;2;129]%N [192;0;2;0]%N 24%N = Ok true
  /\ check_ip6 [32;1;13;184;0;0;0;0;0;0;0;0;0;0;0;1]%N ([32;1;13;184;0;0;0;0;0;0;0;0;0;0;0;0;32]%N
               ++ [32;1;13;184;0;0;0;0;0;0;0;0;0;0;0;0;129]%N) = Ok (-1)%Z
  (* "a.org \n#c\nb\\#x#y\n\nc" *)
  /\ loadlist [97;46;111;114;103;32;10; 35;99;10; 98;92;35;120;35;121;10; 10; 99]%N
     = Ok (LOk [[97;46;111;114;103]; [98;92;35;120]; [99]]%N)
  /\ loadlist [97;32;98;10]%N = Ok LErr
  /\ loadint [35;99;10;49;55;10]%N 4242%N = Ok (LOk 17%N)
  /\ loadint [10]%N 4242%N = Ok (LOk 4242%N)
  /\ loadint [45;49;10]%N 4242%N = Ok LErr.
Proof. vm_compute. repeat split; reflexivity. Qed.

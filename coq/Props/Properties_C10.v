(** C10 — every server reply is a valid SMTP reply whatever text is embedded in it.
    Only statements here; proofs live in Proofs/NetWritenProofs.v. *)
From Qv Require Import Common.Bytes Gen.GenNetio Model.NetWriten Spec.ReplySpec Proofs.NetWritenProofs.

(** For every first element "NNNc"+text shorter than 510 octets and every list
    of embedded strings of any length with blanks anywhere or nowhere, as long
    as they carry no CR/LF: net_writen does not crash (no access outside
    msg[512] or the strings), and what it writes is [render code c texts] —
    one line per piece, code repeated, '-' on all but the last, c on the last —
    with every piece at most 506 octets (line <= 512 with code, separator and
    CRLF), no CR/LF inside, and the pieces concatenating to exactly the
    embedded text, complete and in order. *)
Theorem C10_net_writen : forall s0 code c t0 parts,
  pre_s0 s0 code c t0 -> no_crlf (t0 ++ concat parts) ->
  exists ls, net_writen s0 parts = Ok ls /\ valid_reply_for code c (t0 ++ concat parts) ls.
Proof. exact net_writen_valid. Qed.
Print Assumptions C10_net_writen.

(** the hypotheses are satisfiable by a non-trivial input (two foldings) *)
Example C10_nonvacuous :
  let s0 := [53; 53; 48; 32; 53; 46; 55; 46; 49; 32]%N in
  pre_s0 s0 [53; 53; 48]%N 32%N [53; 46; 55; 46; 49; 32]%N
  /\ exists ls, net_writen s0 [repeat 97%N 700; [32%N]; repeat 98%N 1200] = Ok ls /\ length ls = 6.
Proof.
  split; [repeat split; simpl; lia|]. eexists. split; [vm_compute; reflexivity|reflexivity].
Qed.

(** C10 — every server reply is a valid SMTP reply whatever text is embedded in it.
    Only statements here; proofs live in Proofs/NetWritenProofs.v. *)
From Qv Require Import Common.Bytes Common.ReplyTpl Gen.GenNetio Gen.GenReplies Model.NetWriten Model.ReplySites
  Spec.ReplySpec Spec.ReplySitesSpec Proofs.NetWritenProofs Proofs.ReplySitesProofs Proofs.ReplyHoleSources.
From Qv Require Spec.AddrSpec Spec.SpfSpec Spec.LineSpec.

(** For every first element "NNNc"+text shorter than 510 octets and every list
    of embedded strings of any length with blanks anywhere or nowhere, as long
    as they carry no CR/LF: net_writen does not crash (no access outside
    msg[512] or the strings), and what it writes is [render code c texts] —
    one line per piece, code repeated, '-' on all but the last, c on the last —
    with every piece at most 506 octets (line <= 512 with code, separator and
    CRLF), no CR/LF inside, and the pieces concatenating to exactly the
    embedded text, complete and in order. *)
Theorem C10_net_writen : forall s0 code c t0 parts,
  pre_s0 s0 code c t0 -> no_crlf (t0 ++ concat parts) ->
  exists ls, net_writen s0 parts = Ok ls /\ valid_reply_for code c (t0 ++ concat parts) ls.
Proof. exact net_writen_valid. Qed.
Print Assumptions C10_net_writen.

(** the hypotheses are satisfiable by a non-trivial input (two foldings) *)
Example C10_nonvacuous :
  let s0 := [53; 53; 48; 32; 53; 46; 55; 46; 49; 32]%N in
  pre_s0 s0 [53; 53; 48]%N 32%N [53; 46; 55; 46; 49; 32]%N
  /\ exists ls, net_writen s0 [repeat 97%N 700; [32%N]; repeat 98%N 1200] = Ok ls /\ length ls = 6.
Proof.
  split; [repeat split; simpl; lia|]. eexists. split; [vm_compute; reflexivity|reflexivity].
Qed.

(** * The call sites (engine `replysites`): every place where Qsmtpd builds a reply

    Gen/GenReplies.v is regenerated from qsmtpd/**/*.c and lib/*.c on every run: [netwrite_literals] (every
    netwrite() of a literal), [writen_templates] / [multiline_templates] (every net_writen / net_write_multiline
    call, one template per shape its array can have), [hole_sources] (where each embedded string comes from). *)

(** (i) every fixed reply is one valid reply: split at CRLF, every line <= 512 octets with CRLF, the same three
    digit code on all lines, '-' on all but the last and ' ' on the last, no other CR or LF, CRLF at the end. *)
Theorem C10_literal_replies :
  Forall (fun e => literal_reply_ok (snd e) = true /\ valid_reply_stream (snd e)) netwrite_literals.
Proof. exact thm_literal_replies. Qed.
Print Assumptions C10_literal_replies.

(** the boolean checker used in (i) means what Spec/ReplySitesSpec.v:valid_reply_stream says, for every octet string *)
Theorem C10_literal_checker_sound : forall b, literal_reply_ok b = true -> valid_reply_stream b.
Proof. exact literal_reply_ok_sound. Qed.
Print Assumptions C10_literal_checker_sound.

(** every generated template passes its check: first element a literal "NNN text" below 510 octets (or the
    validated code of cb_nomail), every other literal free of CR/LF, only text classes in the holes; a
    net_write_multiline template is a valid reply for whatever its (bounded) holes hold, and fits its array *)
Theorem C10_templates_ok :
  Forall (fun e => template_ok (snd e) = true) writen_templates
  /\ Forall (fun e => ml_template_ok (snd e) = true /\ length (snd e) < ML_CAPACITY) multiline_templates.
Proof. exact thm_templates_ok. Qed.
Print Assumptions C10_templates_ok.

(** (ii) for EVERY net_writen call site and shape in the generated table and EVERY assignment of strings to its
    holes that their source classes allow ([class_inv]: free of CR/LF; any length, blanks anywhere or nowhere):
    the array is [s0 :: parts] with s0 = three digits, a blank, text; net_writen does not crash and writes a
    valid reply with that code, ' ' on the last line, carrying the text of the array completely and in order. *)
Theorem C10_sites_writen : forall key func t args,
  In (key, func, t) writen_templates -> Forall2 elem_rel t args ->
  exists s0 parts code t0 ls, args = s0 :: parts /\ s0 = code ++ [SP] ++ t0 /\ length code = 3 /\ Forall digit_P code
    /\ net_writen s0 parts = Ok ls /\ valid_reply_for code SP (t0 ++ concat parts) ls.
Proof. exact thm_sites_writen. Qed.
Print Assumptions C10_sites_writen.

(** (iii) net_write_multiline: whenever the strings it is given concatenate to one valid reply, none of its
    asserts fails and it writes exactly these octets (in one piece) *)
Theorem C10_multiline_writer : forall s : list bytes, s <> [] -> valid_reply_stream (concat s) ->
  net_write_multiline s = Ok [concat s].
Proof. exact net_write_multiline_ok. Qed.
Print Assumptions C10_multiline_writer.

(** ... and every net_write_multiline call site (the EHLO reply in all its shapes) meets that contract whatever
    its holes hold within their classes (host name <= 255 octets, the AUTH list and the SIZE value followed by
    CRLF); the array with its terminating NULL fits the declared array *)
Theorem C10_sites_multiline : forall key func t args,
  In (key, func, t) multiline_templates -> Forall2 elem_rel t args ->
  net_write_multiline args = Ok [concat args] /\ valid_reply_stream (concat args) /\ length args < ML_CAPACITY.
Proof. exact thm_sites_multiline. Qed.
Print Assumptions C10_sites_multiline.

(** replies assembled from SEVERAL calls (a netwrite() of "NNN-..." lines followed, on every path, by the call that
    goes on with the reply; table [reply_sequences], found by the translator: any literal that is not a complete reply
    by itself - and hence not in [netwrite_literals], see C10_literal_replies - opens exactly one entry): whatever the
    holes of the last call hold within their classes, the octets written by all calls of the entry together are ONE valid
    reply - the same code on every line, '-' on all but the last.  Together with (i)-(iii): every reply-writing call of
    every function either is a complete reply or belongs to such an entry. *)
Theorem C10_reply_sequences : Forall (fun e => seq_valid (snd e)) reply_sequences.
Proof. exact thm_reply_sequences. Qed.
Print Assumptions C10_reply_sequences.

(** 3. DNS supplied text: whatever octets the TXT records hold, the string dnstxt() returns - the one cb_dnsbl and
    cb_namebl embed - has no CR, LF or NUL, has the length of the record and differs from it only where the
    record had a control octet (replaced by '?').  (The unpatched dnstxt() passes the record on unchanged:
    "x CR LF 250 ok" in a TXT record became a line of its own in the reply; fixes/C10-dnstxt-control-chars.diff.) *)
Theorem C10_dnstxt_clean : forall raw v, dnstxt raw = Some v ->
  v = txt_sanitise raw /\ class_inv HDnsTxt v /\ ~ In 0%N v /\ length v = length raw
  /\ Forall2 (fun a b => (b = a /\ (32 <= a \/ a = 9)%N /\ a <> 127%N) \/ (b = 63%N /\ ((a < 32)%N /\ a <> 9%N \/ a = 127%N))) raw v.
Proof. exact dnstxt_clean. Qed.
Print Assumptions C10_dnstxt_clean.

(** configuration supplied text: cb_nomail, for EVERY text the control file "nomail" can hold (any octets but NUL,
    any length): no crash, a valid reply, with the file's own code when it starts with "[45]dd [45].d.d " and a
    ten octet code of the server otherwise, carrying the text (control octets replaced) completely and in order.
    (The unpatched cb_nomail handed the whole text to net_writen as s[0]: a text of 511 octets or more that starts with a code
    overflowed msg[512]; a CR in the file went into the reply; fixes/C10-nomail-code-and-control-chars.diff.) *)
Theorem C10_nomail : forall raw, ~ In 0%N raw ->
  exists ls code payload, cb_nomail raw = Ok (Some ls) /\ length code = 3 /\ Forall digit_P code
    /\ valid_reply_for code SP payload ls
    /\ (code ++ [SP] ++ payload = nomail_sanitise raw
        \/ exists pre, length pre = 10 /\ code ++ [SP] ++ payload = pre ++ nomail_sanitise raw).
Proof. exact cb_nomail_valid. Qed.
Print Assumptions C10_nomail.

(** the code before the two fixes has neither property: a TXT record with CR LF reaches the reply unchanged,
    and a 511 octet nomail text that starts with a code makes net_writen store behind msg[512] (Crash 7) *)
Theorem C10_unpatched_refuted :
  (exists raw v, dnstxt_orig raw = Some v /\ ~ no_crlf v)
  /\ (exists raw, ~ In 0%N raw /\ no_crlf raw /\ forall lit, cb_nomail_orig lit raw = Crash 7).
Proof. exact unpatched_refuted. Qed.
Print Assumptions C10_unpatched_refuted.

(** where the class invariants come from: the conclusions of C14_oracle_ref (addresses), C14_domain (names
    accepted by domainvalid), C11_exp_text_clean (SPF explanation), C05_line_shape (command lines) and
    C10_dnstxt_clean imply the invariant of the class; and every hole of every template has a recorded source *)
Theorem C10_hole_sources :
  (forall ad, Forall AddrSpec.clean7 ad -> class_inv HAddr ad)
  /\ (forall h, AddrSpec.fqdn h -> class_inv HDomain h)
  /\ (forall r, SpfSpec.reply_text r = true -> class_inv HSpfExp r)
  /\ (forall l n, LineSpec.no_crlf l -> class_inv HLineArg (skipn n l))
  /\ (forall raw v, dnstxt raw = Some v -> class_inv HDnsTxt v)
  /\ length hole_sources
     = length (filter (fun e => match e with Hole _ => true | Lit _ => false end)
                 (concat (map snd writen_templates) ++ concat (map snd multiline_templates))).
Proof. exact thm_hole_sources. Qed.
Print Assumptions C10_hole_sources.

(** the site theorems are not vacuous: the table has a DNSBL template with a TXT hole; filled with a list name and
    what dnstxt() makes of a 1200 octet record half of which are CRs, net_writen writes four lines *)
Definition is_dnsbl_tpl (e : bytes * bytes * list elem) : bool :=
  match snd e with [Lit _; Hole HDomain; Lit _; Hole HDnsTxt] => true | _ => false end.
Example C10_sites_nonvacuous :
  let raw := repeat 13%N 600 ++ repeat 97%N 600 in
  match find is_dnsbl_tpl writen_templates, dnstxt raw with
  | Some (_, _, t), Some v =>
      match inst t [[98; 108; 46; 101; 120; 97; 109; 112; 108; 101; 46; 111; 114; 103]%N; v] with
      | Some (s0 :: parts) => match net_writen s0 parts with Ok ls => length ls | _ => 0 end
      | _ => 0
      end
  | _, _ => 0
  end = 4.
Proof. vm_compute. reflexivity. Qed.

(** C01 — no open relay.  Statements only; proofs in Proofs/SessionProofs.v.

    In the model a recipient whose domain is not covered by rcpthosts is
    classified RNotLocal by the address oracle; the relay list lookup
    (lookupipbl_name(relayclients / relayclients6)) is the oracle [o_relay]:
    > 0 the client is listed, 0 not listed, < 0 unreadable or malformed. *)
From Qv Require Import Common.Bytes Gen.GenSession Model.NetRead Model.Session Spec.SessionSpec Proofs.AuthSync Proofs.SessionProofs.
From Qv Require Model.TlsVerify Spec.TlsVerifySpec Proofs.CertBridge.

(** ONE THEOREM FOR THE THREE ENTITLEMENTS.  A 2xx for a non-local recipient implies that the relay list matched, or that an
    AUTH succeeded earlier on the same connection (a note [NAuth name] with a non-empty name stands before it in the trace;
    the note is emitted exactly with the reply 235), or that tls_verify() accepted a TLS client certificate earlier on the same
    connection (a note [NCert name] stands before it; the note is emitted exactly where is_authenticated() sets
    xmitstat.tlsclient and relayclient = 1, and C01_cert_note_is_entitling_certificate below says what that means).  In
    particular an unreadable or malformed list (o_relay < 0) and "not listed" (0) never allow relaying on their own (fail
    closed), an error inside tls_verify() never does, and neither RSET, HELO/EHLO, STARTTLS, a failed AUTH nor a new
    transaction make a client entitled. *)
Theorem C01_remote_rcpt_needs_relay : forall o chunks pre addr post,
  run_session o chunks = pre ++ Note (NRcpt addr RNotLocal) :: post ->
  (0 < o_relay o)%Z \/ has_auth pre = true \/ has_cert pre = true.
Proof. exact remote_rcpt_needs_relay. Qed.
Print Assumptions C01_remote_rcpt_needs_relay.

(** the submission port (TCPLOCALPORT 587, [o_submission]) takes mail only from entitled clients: MAIL FROM gets its 250 there
    only under the same three conditions - the same is_authenticated() as for a remote recipient, with the same cache and the
    same fail-closed treatment of an unreadable list or a failing certificate check *)
Theorem C01_submission_needs_entitlement : forall o chunks pre f post, o_submission o = true ->
  run_session o chunks = pre ++ Note (NMail f) :: post -> (0 < o_relay o)%Z \/ has_auth pre = true \/ has_cert pre = true.
Proof. exact submission_mail_needs_entitlement. Qed.
Print Assumptions C01_submission_needs_entitlement.

(** THE BRIDGE TO THE CERTIFICATE THEOREMS (Props/Properties_C01t.v).  In the session model the outcome of the one real
    evaluation of tls_verify() is the oracle [o_tlsverify]; Model/TlsVerify.v is the literal model of that function with
    OpenSSL, control/tlsclients and the network as oracles [e].  [tv_agrees e tv] (Proofs/CertBridge.v) says that the
    session's oracle value is what TlsVerify.tls_verify computes from [e] on a connection where the check has not run.

    (1) a certificate note appears only inside TLS ([o_tls]) and only where tls_verify() answered "1, this name" *)
Theorem C01_cert_note_only_from_tls_verify : forall o chunks n,
  In (Note (NCert n)) (run_session o chunks) -> o_tls o = true /\ o_tlsverify o = TV_yes n.
Proof. exact CertBridge.cert_note_from_tls_verify. Qed.
Print Assumptions C01_cert_note_only_from_tls_verify.

(** (2) ... which, by C01t_verify_positive_only_if, means: the client presented a certificate that verifies against
    clientca.pem and whose address (emailAddress, without one commonName) is [n], an entry of control/tlsclients *)
Theorem C01_cert_note_is_entitling_certificate : forall o chunks n e,
  CertBridge.tv_agrees e (o_tlsverify o) -> TlsVerifySpec.netw_ok e ->
  In (Note (NCert n)) (run_session o chunks) ->
  o_tls o = true /\ TlsVerifySpec.cert_entitles e n.
Proof. exact CertBridge.cert_note_is_entitling_certificate. Qed.
Print Assumptions C01_cert_note_is_entitling_certificate.

(** (3) THE PROPERTY, all three entitlements, for every session: a recipient outside rcpthosts gets its 2xx only if the
    relay list matched the client, or an AUTH succeeded earlier on the connection, or the connection is inside TLS and a
    certificate note stands before it whose name satisfies [cert_entitles] *)
Theorem C01_three_entitlements : forall o chunks pre addr post e,
  CertBridge.tv_agrees e (o_tlsverify o) -> TlsVerifySpec.netw_ok e ->
  run_session o chunks = pre ++ Note (NRcpt addr RNotLocal) :: post ->
  (0 < o_relay o)%Z \/ has_auth pre = true
  \/ (o_tls o = true /\ exists name, In (Note (NCert name)) pre /\ TlsVerifySpec.cert_entitles e name).
Proof. exact CertBridge.remote_rcpt_three_entitlements. Qed.
Print Assumptions C01_three_entitlements.

Theorem C01_submission_three_entitlements : forall o chunks pre f post e,
  CertBridge.tv_agrees e (o_tlsverify o) -> TlsVerifySpec.netw_ok e -> o_submission o = true ->
  run_session o chunks = pre ++ Note (NMail f) :: post ->
  (0 < o_relay o)%Z \/ has_auth pre = true
  \/ (o_tls o = true /\ exists name, In (Note (NCert name)) pre /\ TlsVerifySpec.cert_entitles e name).
Proof. exact CertBridge.submission_mail_three_entitlements. Qed.
Print Assumptions C01_submission_three_entitlements.

(** (4) refinement: the is_authenticated() of the session model IS the is_authenticated() of Model/TlsVerify.v on the part of
    the state it works on ([proj]: relayclient, xmitstat.tlsclient, ssl_verified) - same decision (1 / 0 / error / the process
    dies), same state afterwards - for every [e] that agrees with the session's oracles, so all C01t theorems about
    is_authenticated() (error never entitles, relayclient = 1 only by list or certificate, checked at most once, ...) are
    theorems about the session's function *)
Theorem C01_is_authenticated_refines : forall o s e res s1 pre,
  TlsVerifySpec.netw_ok e -> TlsVerify.e_tls e = o_tls o -> TlsVerify.e_auth e = authed s -> TlsVerify.e_ipbl e = o_relay o ->
  (o_tls o = true -> authed s = false -> CertBridge.tv_agrees e (o_tlsverify o)) ->
  relay_decide o s RNotLocal = (res, s1, pre) ->
  exists out lg, TlsVerify.is_authenticated e (CertBridge.proj s) = (out, CertBridge.proj s1, lg) /\ CertBridge.res_matches res out.
Proof. exact CertBridge.relay_decide_is_is_authenticated. Qed.
Print Assumptions C01_is_authenticated_refines.

(** an AUTH note appears only where AUTH is permitted (a backend is configured) and the mechanism handler
    (base64 decoding + checkpassword, property C09) reported success for that very name *)
Theorem C01_auth_only_from_backend : forall o chunks n,
  In (Note (NAuth n)) (run_session o chunks) -> o_authperm o = true /\ exists arg, o_auth o arg = Auth_ok n.
Proof. exact auth_note_from_backend. Qed.
Print Assumptions C01_auth_only_from_backend.

(** a recipient that was refused never appears in an envelope: the envelope is exactly the accepted ones *)
Theorem C01_envelope_is_accepted_only : forall o chunks pre env msg post,
  run_session o chunks = pre ++ Handoff env msg :: post ->
  exists a f rs, trace_run o pre a_init = Some a /\ a_txn a = Some (f, rs) /\ env = env_of (o_liphost o) (Some (f, rs)).
Proof. exact handoff_is_open_transaction. Qed.
Print Assumptions C01_envelope_is_accepted_only.

Example C01_nonvacuous :
  existsb (fun e => match e with Note (NRcpt _ RNotLocal) => true | _ => false end)
    (run_session {| o_helo := fun _ => true; o_addr := fun _ _ => AP_ok [120]%N None RNotLocal;
                    o_ext := fun _ => Ext_ok 0 0 None; o_relay := 1%Z; o_mx := fun _ => 0; o_qq := fun _ => QQ_ok;
                    o_databytes := 0%N; o_liphost := []; o_check2822 := false; o_authperm := false; o_auth := fun _ => Auth_multi; o_trace := fun _ _ _ _ _ _ _ => [];
              o_submission := false; o_subm_date := []; o_subm_stamp := []; o_msgidhost := []; o_tls := false; o_tlsverify := TV_no |}
        [ [72;69;76;79;32;120;13;10]; [77;65;73;76;32;70;82;79;77;58;60;97;62;13;10];
          [82;67;80;84;32;84;79;58;60;98;62;13;10] ]%N) = true.
Proof. vm_compute. reflexivity. Qed.

(** relaying through AUTH: not listed (o_relay = 0), AUTH succeeds, the remote recipient is accepted; without the AUTH it is not *)
Example C01_nonvacuous_auth :
  let o := {| o_helo := fun _ => true; o_addr := fun _ _ => AP_ok [120]%N None RNotLocal;
              o_ext := fun _ => Ext_ok 0 0 None; o_relay := 0%Z; o_mx := fun _ => 0; o_qq := fun _ => QQ_ok;
              o_databytes := 0%N; o_liphost := []; o_check2822 := false; o_authperm := true;
              o_auth := fun _ => Auth_ok [117]%N; o_trace := fun _ _ _ _ _ _ _ => [];
              o_submission := false; o_subm_date := []; o_subm_stamp := []; o_msgidhost := []; o_tls := false; o_tlsverify := TV_no |} in
  let ehlo := [69;72;76;79;32;120;13;10]%N in let auth := [65;85;84;72;32;80;76;65;73;78;32;120;13;10]%N in
  let mail := [77;65;73;76;32;70;82;79;77;58;60;97;62;13;10]%N in let rcpt := [82;67;80;84;32;84;79;58;60;98;62;13;10]%N in
  existsb (fun e => match e with Note (NRcpt _ RNotLocal) => true | _ => false end) (run_session o [ehlo; auth; mail; rcpt]) = true
  /\ existsb (fun e => match e with Note (NRcpt _ RNotLocal) => true | _ => false end) (run_session o [ehlo; mail; rcpt]) = false.
Proof. vm_compute. split; reflexivity. Qed.

(** the submission port: without entitlement no MAIL FROM is accepted; after AUTH it is *)
Example C01_nonvacuous_submission :
  let o := {| o_helo := fun _ => true; o_addr := fun _ _ => AP_ok [120]%N None RNotLocal;
              o_ext := fun _ => Ext_ok 0 0 None; o_relay := 0%Z; o_mx := fun _ => 0; o_qq := fun _ => QQ_ok;
              o_databytes := 0%N; o_liphost := []; o_check2822 := false; o_authperm := true;
              o_auth := fun _ => Auth_ok [117]%N; o_trace := fun _ _ _ _ _ _ _ => [];
              o_submission := true; o_subm_date := []; o_subm_stamp := []; o_msgidhost := []; o_tls := false; o_tlsverify := TV_no |} in
  let ehlo := [69;72;76;79;32;120;13;10]%N in let auth := [65;85;84;72;32;80;76;65;73;78;32;120;13;10]%N in
  let mail := [77;65;73;76;32;70;82;79;77;58;60;97;62;13;10]%N in
  existsb (fun e => match e with Note (NMail _) => true | _ => false end) (run_session o [ehlo; auth; mail]) = true
  /\ existsb (fun e => match e with Note (NMail _) => true | _ => false end) (run_session o [ehlo; mail]) = false
  /\ run_session o [ehlo; mail] = [Reply 220; Note NBoundary; Note NHelo; Note (NEsmtp true); Reply 250; Note NBadReset; Reply 550; Note NBad; Note NBadReset].
Proof. vm_compute. repeat split; reflexivity. Qed.

(** the third entitlement in a session: inside TLS, not listed, no AUTH; tls_verify() accepts the certificate of "u": the remote
    recipient is accepted and the note stands before it; with the oracle saying "no" (or outside TLS) it is refused *)
Example C01_nonvacuous_certificate :
  let o b tv := {| o_helo := fun _ => true; o_addr := fun _ _ => AP_ok [120]%N None RNotLocal;
              o_ext := fun _ => Ext_ok 0 0 None; o_relay := 0%Z; o_mx := fun _ => 0; o_qq := fun _ => QQ_ok;
              o_databytes := 0%N; o_liphost := []; o_check2822 := false; o_authperm := false;
              o_auth := fun _ => Auth_multi; o_trace := fun _ _ _ _ _ _ _ => [];
              o_submission := false; o_subm_date := []; o_subm_stamp := []; o_msgidhost := []; o_tls := b; o_tlsverify := tv |} in
  let ehlo := [69;72;76;79;32;120;13;10]%N in
  let mail := [77;65;73;76;32;70;82;79;77;58;60;97;62;13;10]%N in let rcpt := [82;67;80;84;32;84;79;58;60;98;62;13;10]%N in
  filter (fun e => match e with Note (NCert _) | Note (NRcpt _ _) | Reply _ => true | _ => false end) (run_session (o true (TV_yes [117]%N)) [ehlo; mail; rcpt; rcpt])
    = [Reply 220; Reply 250; Reply 250; Note (NCert [117]%N); Note (NRcpt [120]%N RNotLocal); Reply 250; Note (NRcpt [120]%N RNotLocal); Reply 250]
  /\ existsb (fun e => match e with Note (NRcpt _ RNotLocal) => true | _ => false end) (run_session (o true TV_no) [ehlo; mail; rcpt]) = false
  /\ existsb (fun e => match e with Note (NRcpt _ RNotLocal) => true | _ => false end) (run_session (o false (TV_yes [117]%N)) [ehlo; mail; rcpt]) = false
  /\ filter (fun e => match e with Reply _ | Closed => true | _ => false end) (run_session (o true (TV_err true HEPROTO)) [ehlo; mail; rcpt; rcpt])
    = [Reply 220; Reply 250; Reply 250; Reply 454; Reply 550; Reply 551].
Proof. vm_compute. repeat split; reflexivity. Qed.

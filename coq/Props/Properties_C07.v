(** C07 — Qremote delivers the queued message content unchanged.
    Only statements here; proofs live in Proofs/Qr*.v. *)
From Qv Require Import Common.Bytes Gen.GenQrdata Model.Mime Model.QrData Spec.SmtpDataSpec
  Proofs.QrNeedRecodeProofs Proofs.QrPlainSpecProofs Proofs.QrQpDecodeProofs Proofs.QrQpTopProofs Proofs.QrWrapLineProofs
  Spec.DeliverSpec.

(** When no recoding is necessary, what is sent after the 354 is, byte for byte, the message with CR, LF
    and CRLF line ends normalised to CRLF (a final CRLF added if missing; the empty message stays
    empty), dot-stuffed, followed by the terminator — for all messages, independent of where the
    staging-buffer boundary falls. *)
Theorem C07_plain_exact : forall (m helo : bytes) (ext8 : bool),
  must_recode ext8 m = false ->
  exists fl st, send_data m helo ext8 = Ok (fl, false, Done tt st) /\
                concat (rev (out st)) = plain_wire m.
Proof. exact send_data_plain. Qed.
Print Assumptions C07_plain_exact.

(** recode_qp() on any window (body or MIME part) of any message made of octets: what it writes — with
    the CRLF the terminator adds when the last line is open — is decoded by the strict RFC 2045
    receiver of Spec/SmtpDataSpec.v (transparency dots removed, soft line breaks joined, =XX decoded,
    nothing else tolerated) to the window with CR, LF, CRLF normalised to CRLF, up to the CRLF that ends
    the last line.  Holds whatever the positions of the 1280-octet staging-buffer boundaries. *)
Theorem C07_qp_body : forall (m : bytes) (b len : nat),
  b + len <= length m -> Forall (fun c => (c < 256)%N) m ->
  exists st', recode_qp m b len (mkSt [] true) = Ok st' /\
    qp_roundtrip (sub m b len) (concat (rev (out st')) ++ (if lastlf st' then [] else CRLF)).
Proof.
  intros m b len H1 H2. destruct (recode_qp_correct m b len H1 H2) as (st' & E & HR & _).
  exists st'. split; [exact E|exact HR].
Qed.
Print Assumptions C07_qp_body.

(** wrap_line() on any line of at least WL_LONG octets: what it writes is the dot-stuffed line followed by
    CRLF with "CRLF SP" inserted at some places — [unfolds_to], the relation with which the C07 checker
    undoes the folding, holds.  (The blank in front of a folding point stays, a blank is added behind it.) *)
Theorem C07_wrap_line : forall (m : bytes) (b len : nat) (st : St),
  b + len <= length m -> WL_LONG <= len ->
  exists st' d, wrap_line m b len st = Ok (len, st') /\
    concat (rev (out st')) = concat (rev (out st)) ++ d /\
    unfolds_to d (stuff_line (sub m b len) ++ CRLF) = true.
Proof.
  intros m b len st Hwin Hlong.
  destruct (wrap_line_ok m b len Hwin st Hlong) as (st' & fs & E & Hcat & _ & _ & (f0 & r & Efs & Hf0) & Hout & _).
  exists st', (render_frags fs). split; [exact E|]. split; [exact Hout|].
  rewrite <- Hcat, Efs. apply frags_unfold. exact Hf0.
Qed.
Print Assumptions C07_wrap_line.

Example C07_nonvacuous :
  let m := [97; 13; 98; 10; 46; 99; 13; 10; 46; 46; 100]%N in
  must_recode false m = false /\
  plain_wire m = [97; 13; 10; 98; 13; 10; 46; 46; 99; 13; 10; 46; 46; 46; 100; 13; 10; 46; 13; 10]%N.
Proof. split; reflexivity. Qed.

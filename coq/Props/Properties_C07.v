(** C07 — Qremote delivers the queued message content unchanged.
    Only statements here; proofs live in Proofs/Qr*.v. *)
From Qv Require Import Common.Bytes Gen.GenQrdata Model.Mime Model.QrData Spec.SmtpDataSpec
  Proofs.QrNeedRecodeProofs Proofs.QrPlainSpecProofs.

(** When no recoding is necessary, what is sent after the 354 is, byte for byte, the message with CR, LF
    and CRLF line ends normalised to CRLF (a final CRLF added if missing; the empty message stays
    empty), dot-stuffed, followed by the terminator — for all messages, independent of where the
    staging-buffer boundary falls. *)
Theorem C07_plain_exact : forall (m helo : bytes) (ext8 : bool),
  must_recode ext8 m = false ->
  exists fl st, send_data m helo ext8 = Ok (fl, false, Done tt st) /\
                concat (rev (out st)) = plain_wire m.
Proof. exact send_data_plain. Qed.
Print Assumptions C07_plain_exact.

Example C07_nonvacuous :
  let m := [97; 13; 98; 10; 46; 99; 13; 10; 46; 46; 100]%N in
  must_recode false m = false /\
  plain_wire m = [97; 13; 10; 98; 13; 10; 46; 46; 99; 13; 10; 46; 46; 46; 100; 13; 10; 46; 13; 10]%N.
Proof. split; reflexivity. Qed.

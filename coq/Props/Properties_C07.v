(** C07 — Qremote delivers the queued message content unchanged.
    Only statements here; proofs live in Proofs/Qr*.v. *)
From Qv Require Import Common.Bytes Gen.GenQrdata Model.Mime Model.QrData Spec.SmtpDataSpec
  Proofs.QrNeedRecodeProofs Proofs.QrPlainSpecProofs Proofs.QrQpDecodeProofs Proofs.QrQpTopProofs Proofs.QrWrapLineProofs
  Spec.DeliverSpec Spec.MultipartSpec Proofs.QrPhaseProofs Proofs.QrEntityProofs Proofs.QrContentProofs Proofs.QrMultiContentProofs
  Proofs.QrFieldsProofs.
Require Import Lia.

(** When no recoding is necessary, what is sent after the 354 is, byte for byte, the message with CR, LF
    and CRLF line ends normalised to CRLF (a final CRLF added if missing; the empty message stays
    empty), dot-stuffed, followed by the terminator — for all messages, independent of where the
    staging-buffer boundary falls. *)
Theorem C07_plain_exact : forall (m helo : bytes) (ext8 : bool),
  must_recode ext8 m = false ->
  exists fl st, send_data m helo ext8 = Ok (fl, false, Done tt st) /\
                concat (rev (out st)) = plain_wire m.
Proof. exact send_data_plain. Qed.
Print Assumptions C07_plain_exact.

(** the checker that judges the C outputs on the plain path accepts what the model writes there *)
Theorem C07_checker_accepts_plain : forall (m helo : bytes) (ext8 : bool),
  must_recode ext8 m = false ->
  exists fl st, send_data m helo ext8 = Ok (fl, false, Done tt st) /\
                spec_ok_C07_plain m (concat (rev (out st))) = true.
Proof.
  intros m helo ext8 H. destruct (send_data_plain m helo ext8 H) as (fl & st & E1 & E2).
  exists fl, st. split; [exact E1|]. unfold spec_ok_C07_plain. apply bytes_eqb_eq. exact E2.
Qed.
Print Assumptions C07_checker_accepts_plain.

(** recode_qp() on any window (body or MIME part) of any message made of octets: what it writes — with
    the CRLF the terminator adds when the last line is open — is decoded by the strict RFC 2045
    receiver of Spec/SmtpDataSpec.v (transparency dots removed, soft line breaks joined, =XX decoded,
    nothing else tolerated) to the window with CR, LF, CRLF normalised to CRLF, up to the CRLF that ends
    the last line.  Holds whatever the positions of the 1280-octet staging-buffer boundaries. *)
Theorem C07_qp_body : forall (m : bytes) (b len : nat),
  b + len <= length m -> Forall (fun c => (c < 256)%N) m ->
  exists st', recode_qp m b len (mkSt [] true) = Ok st' /\
    qp_roundtrip (sub m b len) (concat (rev (out st')) ++ (if lastlf st' then [] else CRLF)).
Proof.
  intros m b len H1 H2. destruct (recode_qp_correct m b len H1 H2) as (st' & E & HR & _).
  exists st'. split; [exact E|exact HR].
Qed.
Print Assumptions C07_qp_body.

(** The recoding path as a whole, for a message that is no multipart (no header field is accepted by
    is_multipart() as a multipart Content-Type): every message made of octets, every legal HELO name, either
    8BITMIME setting.  When send_data takes the recoding path and completes, the octets written are
        X1  [the two lines of recodeheader(), if the body is recoded]  X2  B  [extra]  terminator
    where, with h the end of the header (the offset [hpos 0 m] of the first empty line — or of the end of the
    message when there is none — or, if the message begins with an empty line, the end of that line):
    - if the body is recoded and the header scan recorded a field [s, s+l): that field lies in the message,
      begins at the start of a line at or before h with the name Content-Transfer-Encoding: in any case, ends
      with a line end and is as long as getfieldlen() says (first line and continuation lines);
    - X1 unfolds to the header in front of that field and X2 to the header behind it (without such a field, or
      when the body is not recoded: X1 to nothing and X2 to the whole header), [unfolds_to] = the receiver
      removes the "CRLF SP" Qremote inserted, and gets the lines CRLF-normalised and dot-stuffed, byte for
      byte; a header without final line end gets its CRLF;
    - B is the body: when recoded, the strict quoted-printable receiver of Spec/SmtpDataSpec.v decodes it to
      the body (CRLF-normalised, up to the final CRLF); otherwise it is the CRLF-normalised, dot-stuffed body;
    - [extra] is empty, except possibly one CRLF (an empty line) behind a message that consists of a header
      only.
    (h, s, l) are what the header analysis [qh_view] of the code finds; [C07_header_fields] says what that is: the
    field is the LAST line of the header that starts with the name, and none is overlooked. *)
Theorem C07_recoded_content : forall (m helo : bytes) (ext8 : bool),
  line_clean helo /\ seven_bit helo /\ length helo <= 255 ->
  Forall (fun c => (c < 256)%N) m ->
  (forall ls ll bs bl, is_multipart m ls ll <> Ok (MpYes bs bl)) ->
  forall fl st, send_data m helo ext8 = Ok (fl, true, Done tt st) ->
  let br := f8 fl || fline fl in
  exists h s l X1 X2 B extra,
    (exists ct, qh_view m 0 (length m) = Ok (h, ct, (s, l))) /\
    1 <= h <= length m /\
    (h = hpos 0 m \/ exists c0 r, m = c0 :: r /\ is_eol c0 = true /\ skipn h m = after_eol c0 r) /\
    (l <> 0 -> s + l <= length m /\ s <= h /\ (s = 0 \/ is_eol (nth (s - 1) m 0%N) = true) /\
               is_eol (nth (s + l - 1) m 0%N) = true /\
               map to_lower (sub m s (length CTE_NAME)) = CTE_NAME /\ getfieldlen m s (length m - s) = Ok l) /\
    let cut := br && negb (Nat.eqb l 0) in
    let s' := if cut then s else 0 in
    let e' := if cut then s + l else 0 in
    concat (rev (out st)) = X1 ++ (if br then RECODED_STR ++ helo ++ CRLF else []) ++ X2 ++ B ++ extra ++ TERMINATOR /\
    (extra = [] \/ extra = CRLF /\ h = length m) /\
    unfolds_to X1 (stuff (split_lines (sub m 0 s'))) = true /\
    unfolds_to X2 (stuff (split_lines (sub m e' (h - e')))) = true /\
    (if br then qp_roundtrip (skipn h m) B else B = stuff (split_lines (skipn h m))).
Proof. exact send_data_content_nomulti. Qed.
Print Assumptions C07_recoded_content.

(** "... and every well-formed multipart message, whose parts are recoded individually."
    Spec/MultipartSpec.v defines, on the octets of the message only:
    - [delim_at bnd u q]: a delimiter line starts at q (line end, "--", the boundary; behind it the end of the
      data, white space, or "--" and then the end or white space); [find_delim]: the first one;
    - [wf_ent]: well-formed as far as the recoder follows the structure of RFC 2046.  A multipart entity: its body
      has a first delimiter (the preamble and that line need no recoding), which is no close delimiter; every
      delimiter line ends, behind optional padding, with a line end; the parts reach up to the next delimiter;
      the last delimiter is the close delimiter; the epilogue needs no recoding.  A part that needs recoding
      (8-bit octets without 8BITMIME, a line over 998 octets) is an entity of its own and has to be well-formed
      itself — a nested multipart to any depth, or anything that is no multipart.  Parts that need no
      recoding may be anything;
    - [ent_sent]: what goes out for such an entity.  No multipart: as in [C07_recoded_content] (header unfolded,
      Content-Transfer-Encoding field taken out and the two marker lines put in iff the body is recoded, body
      quoted-printable that the strict receiver decodes to it, or dot-stuffed and CRLF-normalised).  Multipart:
      the header unfolded without its Content-Transfer-Encoding field; preamble and first delimiter line
      CRLF-normalised and dot-stuffed; then per part the part as it is (normalised, dot-stuffed) if it needs no
      recoding and else [ent_sent] of it, followed by the delimiter line "--boundary CRLF" (padding dropped); the
      close delimiter "--boundary-- CRLF"; the epilogue normalised and dot-stuffed.
    The header analysis ([hview m b len h boundary s l]: end of the header, boundary if multipart, the
    Content-Transfer-Encoding field) is the one of the code: [qh_view] (Proofs/QrEntityProofs.v) and
    is_multipart() on the Content-Type field it records; [C07_header_fields] says what these are.
    Theorem: a well-formed message that takes the recoding path and completes is written as [ent_sent] says,
    up to one CRLF (an empty line) in front of the terminator. *)
Theorem C07_multipart_content : forall (m helo : bytes) (ext8 : bool),
  line_clean helo /\ seven_bit helo /\ length helo <= 255 ->
  Forall (fun c => (c < 256)%N) m ->
  wf_ent m ext8 (hview m) 0 (length m) ->
  forall fl st, send_data m helo ext8 = Ok (fl, true, Done tt st) ->
  exists W extra, concat (rev (out st)) = W ++ extra ++ TERMINATOR /\ (extra = [] \/ extra = CRLF) /\
                  ent_sent m ext8 (RECODED_STR ++ helo ++ CRLF) (hview m) 0 (length m) W.
Proof. exact send_data_multipart_content. Qed.
Print Assumptions C07_multipart_content.

(** What the header analysis of qp_header ([qh_view]: the scan with getfieldlen()) finds in a window (b, len) of the
    message, on the octets.  [lst j]: j is the first octet of a line; [nam N j]: the line starting at j begins with
    the name N in any case.
    - h, the end of the header: the offset of the first empty line of the window (the window's length if there
      is none), or, if the window begins with an empty line, the end of that line;
    - a recorded Content-Type / Content-Transfer-Encoding field starts a line at or before h with that name, lies
      in the window, and its length is what getfieldlen() returns (first line and continuation lines);
    - nothing is overlooked and the last one counts: in a window that ends with a line end, every line start in
      front of h with the name lies at or in front of the recorded field, and a field is recorded.  (Without the
      final line end the last line of the window may be such a field without being recorded: it is no complete
      field for getfieldlen().)
    So with several Content-Transfer-Encoding fields only the last is taken out when the body is recoded; an
    earlier one stays in front of the marker lines (see reports/C07.md, "duplicate fields"). *)
Theorem C07_header_fields : forall (m : bytes) (b len h : nat) (ct ce : nat * nat),
  b + len <= length m -> 1 <= len -> qh_view m b len = Ok (h, ct, ce) ->
  let lst j := j = 0 \/ is_eol (nth (b + j - 1) m 0%N) = true in
  let nam (N : bytes) j := j + length N <= len /\ map to_lower (sub m (b + j) (length N)) = N in
  1 <= h <= len /\
  (h = hpos 0 (sub m b len) \/
   exists c0 r, sub m b len = c0 :: r /\ is_eol c0 = true /\ skipn h (sub m b len) = after_eol c0 r) /\
  (snd ct <> 0 -> lst (fst ct) /\ map to_lower (sub m (b + fst ct) (length CT_NAME)) = CT_NAME /\ fst ct <= h /\
                  fst ct + snd ct <= len /\ getfieldlen m (b + fst ct) (len - fst ct) = Ok (snd ct)) /\
  (snd ce <> 0 -> lst (fst ce) /\ map to_lower (sub m (b + fst ce) (length CTE_NAME)) = CTE_NAME /\ fst ce <= h /\
                  fst ce + snd ce <= len /\ getfieldlen m (b + fst ce) (len - fst ce) = Ok (snd ce)) /\
  (ends_eol (sub m b len) = true -> forall j, j < h -> lst j ->
     (nam CT_NAME j -> snd ct <> 0 /\ j <= fst ct) /\ (nam CTE_NAME j -> snd ce <> 0 /\ j <= fst ce)).
Proof. exact header_fields_plain. Qed.
Print Assumptions C07_header_fields.

(** wrap_line() on any line of at least WL_LONG octets: what it writes is the dot-stuffed line followed by
    CRLF with "CRLF SP" inserted at some places — [unfolds_to], the relation with which the C07 checker
    undoes the folding, holds.  (The blank in front of a folding point stays, a blank is added behind it.) *)
Theorem C07_wrap_line : forall (m : bytes) (b len : nat) (st : St),
  b + len <= length m -> WL_LONG <= len ->
  exists st' d, wrap_line m b len st = Ok (len, st') /\
    concat (rev (out st')) = concat (rev (out st)) ++ d /\
    unfolds_to d (stuff_line (sub m b len) ++ CRLF) = true.
Proof.
  intros m b len st Hwin Hlong.
  destruct (wrap_line_ok m b len Hwin st Hlong) as (st' & fs & E & Hcat & _ & _ & (f0 & r & Efs & Hf0) & Hout & _).
  exists st', (render_frags fs). split; [exact E|]. split; [exact Hout|].
  rewrite <- Hcat, Efs. apply frags_unfold. exact Hf0.
Qed.
Print Assumptions C07_wrap_line.

Example C07_nonvacuous :
  let m := [97; 13; 98; 10; 46; 99; 13; 10; 46; 46; 100]%N in
  must_recode false m = false /\
  plain_wire m = [97; 13; 10; 98; 13; 10; 46; 46; 99; 13; 10; 46; 46; 46; 100; 13; 10; 46; 13; 10]%N.
Proof. split; reflexivity. Qed.

(** the recoding path is taken and completed by a concrete message: "S: x CRLF CRLF h 0xE4 CRLF" without 8BITMIME *)
Example C07_recoded_nonvacuous :
  let m := [83; 58; 32; 120; 13; 10; 13; 10; 104; 228; 13; 10]%N in
  exists fl st, send_data m [104]%N false = Ok (fl, true, Done tt st) /\ f8 fl || fline fl = true.
Proof. eexists. eexists. split; [vm_compute; reflexivity|reflexivity]. Qed.

(** the well-formedness predicate is met by a real multipart message, which takes the recoding path and completes:
    "Content-Type: multipart/mixed; boundary=x" CRLF CRLF "--x" CRLF "A: b" CRLF CRLF "h" 0xE4 CRLF "--x--" CRLF *)
Definition C07_EX : bytes := [67;111;110;116;101;110;116;45;84;121;112;101;58;32;109;117;108;116;105;112;97;114;116;47;109;105;120;101;100;59;32;98;111;117;110;100;97;114;121;61;120;13;10;13;10;45;45;120;13;10;65;58;32;98;13;10;13;10;104;228;13;10;45;45;120;45;45;13;10]%N.
Example C07_multipart_nonvacuous : wf_ent C07_EX false (hview C07_EX) 0 (length C07_EX) /\
  exists fl st, send_data C07_EX [104]%N false = Ok (fl, true, Done tt st).
Proof.
  split.
  - eapply (wf_multi C07_EX false (hview C07_EX) 0 (length C07_EX) 43 [120%N] 0 0 1).
    + exists (0, 43), (MpYes 40 1). split; [vm_compute; reflexivity|]. split; [vm_compute; reflexivity|]. right. exists 40, 1. split; reflexivity.
    + vm_compute. reflexivity.
    + vm_compute. reflexivity.
    + vm_compute. reflexivity.
    + vm_compute. reflexivity.
    + vm_compute. lia.
    + eapply (wfp_last C07_EX false (hview C07_EX) [120%N] _ _ 11).
      * vm_compute. reflexivity.
      * vm_compute. reflexivity.
      * vm_compute. reflexivity.
      * vm_compute. reflexivity.
      * intros _. eapply (wf_single C07_EX false (hview C07_EX) _ _ 6 0 0).
        exists (0, 0), MpNo. split; [vm_compute; reflexivity|]. split; [vm_compute; reflexivity|]. left. auto.
  - eexists. eexists. vm_compute. reflexivity.
Qed.

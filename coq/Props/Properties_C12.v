(** C12 — the reply to RCPT TO for a local recipient is the documented function of the filter results and of the
    recipient's, its domain's and the global filter configuration.
    Only statements here; proofs live in Proofs/FiltersProofs.v.

    Vocabulary (Spec/FiltersSpec.v): [level_says cfg key] is what one filterconf level says about a setting
    ([On v], v > 0; [Off] for key=-1 or any negative value; [Unset] for no line or key=0; [Bad] for a value outside
    the documented syntax).  [doc_setting global u d g] is the documented three-level lookup.  [documented fh ne frs o n]
    is the documented combination of the filter results [frs] (in the order of rcpt_cbs[]) under the two settings:
    outcome [o], [n] filters consulted.  The model (Model/Filters.v) transcribes checkconfig, getsetting_internal and
    the loop + rejection switch of smtp_rcpt; [rcpt_policy] reads the two settings from the struct userconf as it is
    at that point of the C (GenFilters.FREE_BEFORE_SETTINGS). *)
From Qv Require Import Common.Bytes Gen.GenFilters Model.Filters Spec.FiltersSpec Proofs.FiltersProofs.

(** For every configuration of the three levels whose lines about fail_hard_on_temp / nonexist_on_block are in the
    documented syntax, and every sequence of filter results of any length: smtp_rcpt consults exactly the filters up
    to the first whitelisting or permanent denial (all of them if there is none); a whitelisting accepts (2xx, recipient
    kept) even after a temporary failure; a permanent denial rejects with 5xx even after a temporary failure
    (550 5.7.1, or 550 5.1.1 with nonexist_on_block, always 550 5.1.1 for "no such user", the filter's own reply
    and nothing else where the filter has answered itself); temporary failures alone give 4xx (450 4.7.0), or the 5xx
    above with fail_hard_on_temp; all passed accepts.  The struct userconf is released on every path. *)
Theorem C12_combine : forall uc dc gc frs fh ne,
  setting_on (doc_setting false (level_says uc KEY_FAIL_HARD) (level_says dc KEY_FAIL_HARD) Unset) = Some fh ->
  setting_on (doc_setting false (level_says uc KEY_NONEXIST) (level_says dc KEY_NONEXIST) Unset) = Some ne ->
  exists o n,
    documented fh ne frs o n /\
    rr_called (rcpt_policy uc dc gc frs) = n /\
    rr_ok (rcpt_policy uc dc gc frs) = is_accept o /\
    sends_fitting o (rr_reply (rcpt_policy uc dc gc frs)) (rr_ok (rcpt_policy uc dc gc frs)) /\
    rr_leak (rcpt_policy uc dc gc frs) = false.
Proof. exact combine_main. Qed.
Print Assumptions C12_combine.

(** the relation [documented] leaves no choice: it is the function [doc_combine] *)
Theorem C12_documented_is_function : forall fh ne frs o n,
  documented fh ne frs o n <-> doc_combine fh ne frs false 0 = (o, n).
Proof. exact documented_iff. Qed.
Print Assumptions C12_documented_is_function.

(** User over domain over global; a negative value (-1) switches off without inheriting.  For all three entry
    lists and every key, for getsetting() (user, domain) and getsettingglobal() (user, domain, global). *)
Theorem C12_inherit : forall uc dc gc key,
  (forall v, level_says uc key = On v ->
     setting_value (getsetting uc dc gc key) = v /\ setting_type (getsetting uc dc gc key) = 1%Z /\
     setting_value (getsettingglobal uc dc gc key) = v /\ setting_type (getsettingglobal uc dc gc key) = 1%Z) /\
  (level_says uc key = Off ->
     setting_value (getsetting uc dc gc key) = 0%Z /\ setting_value (getsettingglobal uc dc gc key) = 0%Z) /\
  (forall v, level_says uc key = Unset -> level_says dc key = On v ->
     setting_value (getsetting uc dc gc key) = v /\ setting_type (getsetting uc dc gc key) = 2%Z /\
     setting_value (getsettingglobal uc dc gc key) = v /\ setting_type (getsettingglobal uc dc gc key) = 2%Z) /\
  (level_says uc key = Unset -> level_says dc key = Off ->
     setting_value (getsetting uc dc gc key) = 0%Z /\ setting_value (getsettingglobal uc dc gc key) = 0%Z) /\
  (level_says uc key = Unset -> level_says dc key = Unset ->
     setting_value (getsetting uc dc gc key) = 0%Z /\
     (forall v, level_says gc key = On v ->
        setting_value (getsettingglobal uc dc gc key) = v /\ setting_type (getsettingglobal uc dc gc key) = 4%Z) /\
     (level_says gc key = Off \/ level_says gc key = Unset -> setting_value (getsettingglobal uc dc gc key) = 0%Z)).
Proof. exact inherit_clauses. Qed.
Print Assumptions C12_inherit.

(** "... also the global one is taken if the setting is marked global": every setting of the man page's KEYS section
    is read with getsettingglobal() by its filter exactly when the man page marks it "(global)"
    (KEY_TABLE: setting, read globally by the code, marked global in doc/man/filterconf.5; finding F-C12-2). *)
Theorem C12_global_keys : forall k code_global doc_global,
  key_lookup k KEY_TABLE = Some (code_global, doc_global) -> code_global = doc_global.
Proof. exact global_keys_match. Qed.
Print Assumptions C12_global_keys.

(** the concrete syntax behind [level_says]: a line that is just the key enables (value 1); "key=-1" as the first
    line about the key gives [Off]; "key=<integer>" gives the integer's meaning *)
Theorem C12_syntax : forall key rest v,
  level_says (key :: rest) key = On 1 /\
  level_says ((key ++ [61; 45; 49]%N) :: rest) key = Off /\
  entry_says key (key ++ 61%N :: v) = Some (match doc_integer v with Some z => says_of_value z | None => Bad end).
Proof. intros key rest v. split; [apply level_says_bare|split; [apply level_says_minus_one|apply entry_says_value]]. Qed.
Print Assumptions C12_syntax.

(** from file text to entry lists: a filterconf file of plain lines (non-empty, without blank, tab, '#', NUL; each
    ended by LF) is loaded by lloadfilefd/loadlistfd as exactly these lines, in order; so [C12_combine] and
    [C12_inherit] apply to such files with uc, dc, gc = their lines *)
Theorem C12_plain_files : forall ls, Forall plain_line ls -> parse_conf (join_lines ls) = Some ls.
Proof. exact parse_plain. Qed.
Print Assumptions C12_plain_files.

(** The space-bug flag is sticky: what the filters see after the head of smtp_rcpt (the model follows the C text via
    GenFilters.SPACEBUG_STICKY) is "recorded before this command OR blanks in this command"; a clean RCPT TO line
    does not clear what MAIL FROM or an earlier RCPT TO recorded.  Hence a recipient whose effective smtp_space_bug
    (user, domain or global level) is 255 answers 500 5.5.2 to such a client, and a client that never showed the bug
    passes the filter. *)
Theorem C12_spacebug_sticky : forall s uc dc gc,
  rcpt_spacebug s = (s_prebug s || negb (N.eqb (s_spaces s) 0))%bool /\
  (doc_spacebug s = true ->
   to_int (setting_value (getsettingglobal uc dc gc KEY_SMTP_SPACE_BUG)) = SPB_REJECT_ALL ->
   cb_smtpbugs (rcpt_spacebug s) s uc dc gc = (FDeniedMsg, Some REPLY_SMTPBUGS)) /\
  (doc_spacebug s = false -> cb_smtpbugs (rcpt_spacebug s) s uc dc gc = passed).
Proof.
  intros s uc dc gc. split; [apply rcpt_spacebug_doc|split; [apply smtpbugs_reject_all|apply smtpbugs_clean]].
Qed.
Print Assumptions C12_spacebug_sticky.

(** The checker that ./check runs on every observation made on the C code ([spec_ok_C12]: documented combination
    of the filter results, documented three-level value of the probed setting, man page's global marks, and the
    interface discipline "denied with message" = the filter has sent one 5xx itself), stated for every case of the
    filters engine: directory tree (raw file bytes, loaded by the model of the control-file loader), stand-in or
    real filter per position of rcpt_cbs[], session.

    Full statement: the checker accepts every observation the model stands for. *)
Definition C12_full : Prop := forall outcomes um uf dm df gm gf key sess obs,
  observe (rcpt_case outcomes um uf dm df gm gf key sess) = Some obs ->
  spec_ok_C12 outcomes um uf dm df gm gf key sess obs <> VBad.

(** Finding F-C12-3: refuted by the real cb_spf.  With SPF status "temporary error", an spfpolicy in force and
    fail_hard_on_temp not set, cb_spf sends "451 4.4.3 ..." itself and returns FILTER_DENIED_WITH_MESSAGE: the
    evaluation ends, the permanent denial of a later filter (here: dnsbl) cannot win, and the "denied" state is
    answered with a 4xx.  (tests/filter_spf.c pins this behaviour.) *)
Theorem C12_refuted : ~ C12_full.
Proof. exact checker_refuted. Qed.
Print Assumptions C12_refuted.

Theorem C12_spf_temp_class_witness :
  in_spf_temp_class w_outcomes 1 [] 1 [] 2 w_global w_session = true /\
  forall s uc dc gc,
    s_spf s = SPF_TEMPERROR ->
    (0 < setting_value (getsettingglobal uc dc gc KEY_SPFPOLICY))%Z ->
    (setting_value (getsetting uc dc gc KEY_SPF_FAIL_HARD) <= 0)%Z ->
    cb_spf s uc dc gc = (FDeniedMsg, Some REPLY_SPF_TEMP) /\ nth 0 REPLY_SPF_TEMP 0%N = 52%N.
Proof. split; [exact witness_in_class|exact cb_spf_temp]. Qed.
Print Assumptions C12_spf_temp_class_witness.

(** Outside that class (decidable predicate [in_spf_temp_class] on the case: the real cb_spf is in the table, SPF
    status temporary error, spfpolicy > 0, fail_hard_on_temp <= 0) the full statement holds: whenever the C agrees
    with the model the C satisfies the documented function, and a C output the checker calls bad is a genuine
    deviation from it. *)
Theorem C12_checker_sound_partial : forall outcomes um uf dm df gm gf key sess obs,
  in_spf_temp_class outcomes um uf dm df gm gf sess = false ->
  observe (rcpt_case outcomes um uf dm df gm gf key sess) = Some obs ->
  spec_ok_C12 outcomes um uf dm df gm gf key sess obs <> VBad.
Proof. exact checker_accepts_model. Qed.
Print Assumptions C12_checker_sound_partial.

(** Finding F-C12-1, the code as shipped: with userconf_free(&ds) before the two getsetting(&ds, ...) calls the
    settings are read from an emptied struct, so a user who sets fail_hard_on_temp still gets 450 4.7.0 for a
    temporary failure where the documentation promises 550 5.7.1. *)
Theorem C12_unfixed_refuted :
  let uc := [KEY_FAIL_HARD] in
  let frs := [FDeniedTemp] in
  documented true false frs DPolicy5 1 /\
  setting_on (doc_setting false (level_says uc KEY_FAIL_HARD) (level_says [] KEY_FAIL_HARD) Unset) = Some true /\
  setting_on (doc_setting false (level_says uc KEY_NONEXIST) (level_says [] KEY_NONEXIST) Unset) = Some false /\
  rr_reply (rcpt_policy_gen true uc [] [] frs) = RLine REPLY_TEMP /\
  ~ sends_fitting DPolicy5 (rr_reply (rcpt_policy_gen true uc [] [] frs)) false.
Proof. exact unfixed_refuted. Qed.
Print Assumptions C12_unfixed_refuted.

(** the hypotheses are met by a non-trivial input: temporary failure, then a pass, then a policy denial, with
    nonexist_on_block inherited from the domain and fail_hard_on_temp switched off by the user with -1 *)
Example C12_nonvacuous :
  let uc := [KEY_FAIL_HARD ++ [61; 45; 49]%N] in
  let dc := [KEY_FAIL_HARD; KEY_NONEXIST ++ [61; 53]%N] in
  let frs := [FPassed; FDeniedTemp; FPassed; FDeniedUnspec; FWhite] in
  setting_on (doc_setting false (level_says uc KEY_FAIL_HARD) (level_says dc KEY_FAIL_HARD) Unset) = Some false /\
  setting_on (doc_setting false (level_says uc KEY_NONEXIST) (level_says dc KEY_NONEXIST) Unset) = Some true /\
  documented false true frs DNoUser 4 /\
  rr_reply (rcpt_policy uc dc [] frs) = RLine REPLY_NOUSER /\ rr_called (rcpt_policy uc dc [] frs) = 4.
Proof.
  cbv zeta. split; [vm_compute; reflexivity|]. split; [vm_compute; reflexivity|]. split.
  - apply (D_unspec false true _ [FPassed; FDeniedTemp; FPassed] [FWhite]); [reflexivity|].
    repeat (apply Forall_cons; [unfold soft; auto|]). apply Forall_nil.
  - split; vm_compute; reflexivity.
Qed.

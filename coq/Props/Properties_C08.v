(** C08 — transactions are isolated and commands are accepted only in order.
    Statements only; proofs in Proofs/SessionProofs.v.

    [run_session o chunks] is the event trace of the modelled Qsmtpd for the
    client bytes [chunks] (any bytes, any segmentation) under the oracles [o]
    (address parser, user data base, DNS, relay list, qmail-queue, databytes).
    [trace_ok] (Spec/SessionSpec.v) replays the trace on the abstract machine
    phase x open transaction and fails when
      - MAIL FROM is accepted before a greeting or inside a transaction,
      - RCPT TO is accepted without an accepted MAIL FROM,
      - DATA is accepted without an accepted, not withdrawn, recipient,
      - a bounce (empty sender) gets a second recipient,
      - more than MAXRCPT recipients are stored (C15),
      - a recipient outside rcpthosts is accepted without a relay-list match (C01),
      - a hand-off's envelope differs from F<sender>NUL (T<recipient>NUL)* NUL of the open transaction,
    where RSET, HELO, EHLO and the end of DATA (successful or failed) close the transaction. *)
From Qv Require Import Common.Bytes Gen.GenSession Model.NetRead Model.Session Spec.SessionSpec Proofs.SessionProofs.

Theorem C08_order_and_isolation : forall o chunks, trace_ok o (run_session o chunks).
Proof. intros o chunks. exact (proj1 (session_trace_ok o chunks)). Qed.
Print Assumptions C08_order_and_isolation.

(** spelled out for the hand-off: the envelope is the open transaction and nothing else *)
Theorem C08_handoff_is_open_transaction : forall o chunks pre env msg post,
  run_session o chunks = pre ++ Handoff env msg :: post ->
  exists a f rs, trace_run o pre a_init = Some a /\ a_txn a = Some (f, rs) /\ env = env_of (o_liphost o) (Some (f, rs)).
Proof. exact handoff_is_open_transaction. Qed.
Print Assumptions C08_handoff_is_open_transaction.

(** the table regenerated from qsmtpd/qsmtpd.c has the masks and next states the proof relies on *)
Theorem C08_command_table : forallb entry_ok (combine (seq 0 (length commands)) commands) = true.
Proof. exact table_ok. Qed.
Print Assumptions C08_command_table.

(** non-vacuity: a session with two transactions, a failed DATA in between, produces one hand-off *)
Definition ex_oracles : oracles :=
  {| o_helo := fun _ => true;
     o_addr := fun _ arg => match arg with
                            | 60%N :: 62%N :: _ => AP_ok [] None RNotLocal                 (* <> *)
                            | 60%N :: c :: _ => AP_ok [c] None RLocal                       (* <x...> *)
                            | _ => AP_nobracket end;
     o_ext := fun _ => Ext_ok 0 0 None; o_relay := 0%Z; o_mx := fun _ => 0;
     o_qq := fun k => match k with 0 => QQ_exit 31 | _ => QQ_ok end;
     o_databytes := 0%N; o_liphost := []; o_check2822 := false; o_authperm := false; o_auth := fun _ => Auth_multi; o_trace := fun _ _ _ _ _ _ _ => [88; 10]%N;
              o_submission := false; o_subm_date := []; o_subm_stamp := []; o_msgidhost := []; o_tls := false; o_tlsverify := TV_no |}.
Definition ex_chunks : list bytes :=
  [ [72;69;76;79;32;120;13;10]; [77;65;73;76;32;70;82;79;77;58;60;97;62;13;10];
    [82;67;80;84;32;84;79;58;60;98;62;13;10]; [68;65;84;65;13;10]; [104;105;13;10;46;13;10];
    [82;67;80;84;32;84;79;58;60;99;62;13;10];
    [77;65;73;76;32;70;82;79;77;58;60;100;62;13;10]; [82;67;80;84;32;84;79;58;60;101;62;13;10];
    [68;65;84;65;13;10]; [104;111;13;10;46;13;10] ]%N.
Example C08_nonvacuous :
  filter (fun e => match e with Handoff _ _ => true | _ => false end) (run_session ex_oracles ex_chunks)
  = [Handoff [70;100;0;84;101;0;0]%N [88;10;104;111;10]%N].
Proof. vm_compute. reflexivity. Qed.

(** C15 — size, hop-count, recipient-count and bad-command limits.
    Statements only; proofs in Proofs/DataProofs.v, SessionProofs.v, BadCmdProofs.v. *)
From Qv Require Import Common.Bytes Gen.GenNetio Gen.GenSession Model.NetRead Model.Session Spec.LineSpec Spec.SessionSpec
  Proofs.NetReadProofs Proofs.DataProofs Proofs.SessionProofs Proofs.BadCmdProofs.

(** DATA, for every reader state, byte stream and segmentation.  [seen] are the data lines in order,
    [stored] what is written to qmail-queue for them, [wire] what the client transmitted for them,
    [szof] the server's size counter (stored octets + one per line for the CR that is not stored).
    - a message is handed over only if the counter is within the limit, and the stored octets never exceed the counter:
      what is stored above the limit is never queued (it ends as D_toobig -> 552);
    - it is refused for size only if the counter exceeds the limit, and the counter never exceeds the transmitted octets:
      a message whose transmitted size is within the limit is never refused for size;
    - it is refused as looping only when MAXHOPS+1 Received: lines were seen, all in the header; a message that is
      handed over has at most MAXHOPS of them in its header (lines of the body are not counted).
    The Date / From / Message-Id fields added on the submission port ([queued], property C02) are not counted. *)
Theorem C15_data_limits : forall fuel o dc r trace d r', rstate_ok r -> data_loop fuel o dc r trace = (d, r') ->
  match d with
  | D_eod msg sz seen =>
      msg = trace ++ queued (par_of dc) seen        (* = trace ++ stored seen outside submission mode: queued_off *)
      /\ total r = wire seen ++ [DOT; CR; LF] ++ total r' /\ Forall data_line seen
      /\ sz = szof seen /\ (N.of_nat (length (stored seen)) <= sz <= maxbytes o)%N
      /\ count_rcv (hdr_part seen) <= MAXHOPS
  | D_toobig l seen =>
      (maxbytes o < szof seen <= N.of_nat (length (wire seen)))%N
      /\ total r = wire seen ++ l ++ [CR; LF] ++ total r'
  | D_loop l seen => count_rcv (seen ++ [l]) = S MAXHOPS /\ Forall (fun x => x <> []) (seen ++ [l])
  | _ => True
  end.
Proof. exact data_loop_spec. Qed.
Print Assumptions C15_data_limits.

(** the checker that judges the IMPLEMENTATION's reply to each DATA payload in the correspondence runs accepts the model,
    for every reader state and stream: 250 only within the size limit and the hop limit, 552 only over the size limit *)
Theorem C15_verdict_checker_sound : forall fuel o dc r trace d r', rstate_ok r -> data_loop fuel o dc r trace = (d, r') ->
  match d with
  | D_eod _ _ seen => data_verdict_ok (maxbytes o) seen 250 = true
  | D_toobig l seen => forall rest, data_verdict_ok (maxbytes o) (seen ++ l :: rest) 552 = true
  | _ => True
  end.
Proof. exact data_verdict_sound. Qed.
Print Assumptions C15_verdict_checker_sound.
(** SIZE= above control/databytes: MAIL FROM is not accepted *)
Theorem C15_size_parameter : forall o s arg len evs s', h_from o s arg len = (evs, H0, s') ->
  o_databytes o = 0%N \/ (thisbytes s' <= o_databytes o)%N.
Proof. exact mail_size_checked. Qed.
Print Assumptions C15_size_parameter.

(** a recipient is accepted only while fewer than MAXRCPT are stored (the next one gets 452) *)
Theorem C15_rcpt_limit : forall o chunks pre addr cls post,
  run_session o chunks = pre ++ Note (NRcpt addr cls) :: post ->
  exists a, trace_run o pre a_init = Some a /\ a_stored a < MAXRCPT.
Proof. exact rcpt_below_limit. Qed.
Print Assumptions C15_rcpt_limit.

(** bad commands: closed exactly after more than MAXBADCMDS+1 in a row *)
Theorem C15_bad_commands : forall o chunks, bad_ok (run_session o chunks).
Proof. exact session_bad_ok. Qed.
Print Assumptions C15_bad_commands.

(** the limits are the documented ones *)
Theorem C15_constants : MAXRCPT = 500 /\ MAXHOPS = 100 /\ MAXBADCMDS = 5.
Proof. repeat split; reflexivity. Qed.
Print Assumptions C15_constants.

Example C15_nonvacuous :
  let o := {| o_helo := fun _ => true; o_addr := fun _ _ => AP_nobracket; o_ext := fun _ => Ext_ok 0 0 None; o_relay := 0%Z;
              o_mx := fun _ => 0; o_qq := fun _ => QQ_ok; o_databytes := 0%N; o_liphost := []; o_check2822 := false; o_authperm := false; o_auth := fun _ => Auth_multi; o_trace := fun _ _ _ _ _ _ _ => [];
              o_submission := false; o_subm_date := []; o_subm_stamp := []; o_msgidhost := []; o_tls := false; o_tlsverify := TV_no |} in
  let bad := [70; 79; 79; 13; 10]%N in
  run_session o [bad; bad; bad; bad; bad; bad; bad; bad]
  = [Reply 220; Note NBad; Reply 500; Note NBad; Reply 500; Note NBad; Reply 500; Note NBad; Reply 500;
     Note NBad; Reply 500; Note NBad; Reply 500; Note NBadClose; Reply 550; Closed].
Proof. vm_compute. reflexivity. Qed.

(** C05 — lines end only at CRLF; independence of TCP segmentation.
    Statements only; proofs in Proofs/NetReadProofs.v. *)
From Qv Require Import Common.Bytes Gen.GenNetio Model.NetRead Spec.LineSpec Proofs.NetReadProofs Proofs.NetReadClean.

(** For every byte stream and every way of cutting it into read() results:
    each line the reader hands out is a piece [l] of the stream that is
    directly followed by CR LF in the stream ([line_at]: stream = pre ++ l ++
    CRLF ++ post, |post| = the bytes still unconsumed), contains neither CR nor
    LF, and is at most LINEINBUF-3 = 999 octets long.  So a line end is never
    recognised anywhere but at a CRLF, lines are never longer than the limit,
    and nothing is invented or reordered. *)
Theorem C05_line_shape : forall stream cuts l lft,
  In (Line l, lft) (run_reader stream cuts) ->
  line_at stream l lft /\ no_crlf l /\ length l + 3 <= LINEINBUF.
Proof. exact reader_line_shape. Qed.
Print Assumptions C05_line_shape.

(** Independence of TCP segmentation.  For every stream in which CR and LF occur only as the pair CR LF (what a
    conforming client sends; [clean_stream]), and for EVERY way of cutting it into segments, the reader produces the
    same sequence of items, namely [spec_items stream]: the stream is cut at its CRLF pairs and nowhere else, a line
    of at most LINEINBUF-3 octets is handed out, a longer one gives exactly one "line too long" error and the reader
    continues behind its CRLF, an unterminated tail gives nothing. *)
Theorem C05_schedule_independent_clean : forall stream cuts, clean_stream stream = true ->
  map fst (run_reader stream cuts) = spec_items stream.
Proof. exact reader_schedule_independent. Qed.
Print Assumptions C05_schedule_independent_clean.

(** The property as worded also demands (a) that no part of a malformed line is
    handed out as a line — a line starts at the stream start or right after a
    CRLF — and (b) that the (error-collapsed) item sequence is the same for all
    schedules.  Both are FALSE of the faithful model of the unchanged code
    (findings F-C05-2 and F-C05-3, confirmed on the C by the correspondence run). *)
Definition C05_no_smuggling_full : Prop := forall stream cuts,
  resync_ok stream (length stream) (run_reader stream cuts) = true.
Definition C05_schedule_independent_full : Prop := forall stream c1 c2,
  sched_ok (run_reader stream c1) (run_reader stream c2) = true.

Definition w_resync : bytes := [102; 111; 111; 13; 82; 83; 69; 84; 13; 10]%N.   (* foo<CR>RSET<CRLF> *)
Theorem C05_no_smuggling_refuted : ~ C05_no_smuggling_full.
Proof. intros H. specialize (H w_resync []). vm_compute in H. discriminate. Qed.
Print Assumptions C05_no_smuggling_refuted.

Definition w_sched : bytes := repeat 97%N 1002 ++ [13; 99; 13; 10; 46; 13; 10]%N.  (* 1002 x a, CR, c CRLF . CRLF *)
Theorem C05_schedule_independent_refuted : ~ C05_schedule_independent_full.
Proof.
  intros H. specialize (H w_sched [] [255; 255; 255; 236; 2]).
  vm_compute in H. discriminate.
Qed.
Print Assumptions C05_schedule_independent_refuted.

Example C05_clean_nonvacuous :
  clean_stream (repeat 97%N 1000 ++ [13; 10; 98; 13; 10; 99]%N) = true
  /\ spec_items (repeat 97%N 1000 ++ [13; 10; 98; 13; 10; 99]%N) = [E2big; Line [98%N]; Dead].
Proof. split; vm_compute; reflexivity. Qed.

Example C05_nonvacuous :
  In (Line [82; 83; 69; 84]%N, 0) (run_reader w_resync [3; 1; 2]).
Proof. vm_compute. right. left. reflexivity. Qed.

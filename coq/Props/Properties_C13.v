(** C13 — local recipients are accepted exactly when the vpopmail mailbox exists, and no local part
    reaches outside the domain directory.  Only statements here; proofs live in Proofs/VpopProofs.v.
    The model is the code with fixes/C13-dotdot.diff, C13-dashscan.diff and C13-nametoolong.diff applied. *)
From Qv Require Import Common.Bytes Gen.GenVpop Gen.GenCdb Model.Vpop Model.Cdb Model.VpopFile Spec.VpopSpec Spec.CdbSpec
  Model.VpopDs Proofs.VpopProofs Proofs.CdbSafe Proofs.CdbLookup Proofs.CdbMake Proofs.CdbVget Proofs.VpopDsProofs.
Local Open Scope Z_scope.

(** For every users/cdb with a record for the domain whose path is a directory, every domain directory
    (any function from names to entries: absent, file, directory, failing with some errno), every
    vpopbounce setting and every local part:
    - a positive result (accepted) means the mailbox exists: the local part is a single path component
      other than "." and ".." and one of the five documented forms is there; 1 stands for the user
      directory, .qmail-<local> or .qmail-<local>-default, 4 for .qmail-<prefix>-default with
      local = prefix-rest, 2 for a .qmail-default that is not the bounce line;
    - 0 ("550 5.1.1 no such user") means no form exists;
    - a negative result (temporary error) means that one of the names the decision depends on failed
      with an errno other than "no such name", or does not fit PATH_MAX. *)
Theorem C13_exists : forall db fs vb domain local,
  domain_found db domain ->
  let o := user_exists db fs vb domain local in
  (0 < rc o -> mailbox fs vb local /\ code_form fs vb local (rc o)) /\
  (rc o = 0 -> ~ mailbox fs vb local) /\
  (rc o < 0 -> io_error fs vb local).
Proof. exact user_exists_sound. Qed.
Print Assumptions C13_exists.

(** Hence, when none of those lookups fails hard: accepted (1, 2 or 4) iff the mailbox exists, 0 iff not. *)
Theorem C13_exact : forall db fs vb domain local,
  domain_found db domain -> ~ io_error fs vb local ->
  let z := rc (user_exists db fs vb domain local) in
  (z = 1 \/ z = 2 \/ z = 4 <-> mailbox fs vb local) /\ (z = 0 <-> ~ mailbox fs vb local).
Proof. exact user_exists_exact. Qed.
Print Assumptions C13_exact.

(** Whatever users/cdb, the directory, vpopbounce, the domain and the local part are: every name handed to
    openat()/get_dirfd() relative to the domain directory is a single path component (no '/') other than
    "." and "..", and the user directory handle kept for reading the per-user filterconf is the entry of the
    domain directory named like the local part, which is a directory. *)
Theorem C13_confined : forall db fs vb domain local,
  let o := user_exists db fs vb domain local in
  confined (probes o) /\
  (forall n, userdir o = Some n -> n = local /\ component local /\ fs local = EDir).
Proof. exact user_exists_confined. Qed.
Print Assumptions C13_confined.

(** "is not the line configured in control/vpopbounce": for texts without NUL the comparison the server makes
    (strcmp on the first 2*strlen bytes) is equality of the file's contents with the configured line. *)
Theorem C13_bounce_line : forall vb c, ~ In 0%N c -> vb <> [] -> (bounce_line vb c <-> c = vb).
Proof. exact bounce_line_eq. Qed.
Print Assumptions C13_bounce_line.

(** The boolean checker that is run on the observations of the C code (return value, whose filterconf became
    the user's, names opened): a verdict "ok" entails confinement, no configuration taken from the domain
    directory itself (conf 2) or from outside (conf 3) as the user's, and - for a local part that is a path
    component and a domain with a directory record - the three implications of C13_exists for the concrete
    directory [fs_of_layout lay]. *)
Theorem C13_checker_sound : forall db lay vbfile domain local z conf ps,
  spec_ok_C13 db lay vbfile domain local z conf ps = true ->
  confined ps /\ (conf = 0 \/ conf = 1)%N /\
  (component local -> (length domain + 3 < VP_CDBKEY)%nat -> domain_state db domain = Some DomTree ->
   let fs := fs_of_layout lay in let vb := vpopbounce_of vbfile in
   (0 < z -> mailbox fs vb local /\ code_form fs vb local z) /\
   (z = 0 -> ~ mailbox fs vb local) /\
   (z < 0 -> io_error fs vb local)).
Proof. exact checker_sound. Qed.
Print Assumptions C13_checker_sound.

(** and the model's own observation always gets "ok" *)
Theorem C13_model_passes_checker : forall db lay vbfile domain local,
  let o := user_exists db (fs_of_layout lay) (vpopbounce_of vbfile) domain local in
  spec_ok_C13 db lay vbfile domain local (rc o) (conf_of o) (probes o) = true.
Proof. exact model_passes_checker. Qed.
Print Assumptions C13_model_passes_checker.

(** "... and is rejected with 550 5.1.1 otherwise": addrparse() on RCPT TO:<local@domain> (address accepted by
    addrsyntax() as a full address, domain in rcpthosts, record with a directory in users/cdb for the lower-cased
    domain) accepts only if the mailbox of the lower-cased local part exists, writes a reply only if it does not
    exist and then one that starts with "550 5.1.1 ", and returns an error only if a lookup failed hard. *)
Theorem C13_reply : forall db fs vb domain local,
  let l := map to_lower local in
  let d := map to_lower domain in
  domain_found db d ->
  match fst (addrparse_rcpt db fs vb local domain) with
  | RAccept => mailbox fs vb l
  | RNoUser text => ~ mailbox fs vb l /\ exists t, text = REPLY_550 ++ t
  | RError e => 0 < e /\ io_error fs vb l
  end.
Proof. exact rcpt_reply_sound. Qed.
Print Assumptions C13_reply.

Theorem C13_reply_exact : forall db fs vb domain local,
  let l := map to_lower local in
  let d := map to_lower domain in
  domain_found db d -> ~ io_error fs vb l ->
  let r := fst (addrparse_rcpt db fs vb local domain) in
  (r = RAccept <-> mailbox fs vb l) /\
  (~ mailbox fs vb l <-> exists t, r = RNoUser (REPLY_550 ++ t)).
Proof. exact rcpt_reply_exact. Qed.
Print Assumptions C13_reply_exact.

(** the checker used on the observations of the real addrparse() accepts the model's observation *)
Theorem C13_model_passes_rcpt_checker : forall db lay vbfile domain local,
  let ro := addrparse_rcpt db (fs_of_layout lay) (vpopbounce_of vbfile) local domain in
  spec_ok_C13_rcpt db lay vbfile domain local (fst (rcpt_obs (fst ro))) (snd (rcpt_obs (fst ro)))
    (conf_of (snd ro)) (probes (snd ro)) = true.
Proof. exact model_passes_rcpt_checker. Qed.
Print Assumptions C13_model_passes_rcpt_checker.

(** ** users/cdb as a file (lib/cdb.c with fixes/C13-cdb-bounds.diff, vget_dir's record parser) *)

(** Memory safety of cdb_seekmm() for EVERY file content and EVERY key (truncated files, table and record
    pointers outside the file, slot counts up to 2^32-1, tables without empty slot, zero-length keys, keys
    containing NUL): the model never reads at an offset >= the size of the mapping ([Crash]); the result is
    NULL with errno 0 (not found) or EINVAL (no valid database), or a pointer that lies inside the mapping
    behind a record header and the key, with the whole value (the record's data length) inside the mapping. *)
Theorem C13_cdb_safe : forall f key,
  exists r, cdb_seekmm f key = Ok r /\ seek_post f (N.of_nat (length f)) (N.of_nat (length key)) r.
Proof. exact cdb_seekmm_safe. Qed.
Print Assumptions C13_cdb_safe.

(** Termination with a bound: the slot walk runs at most (size of the file) / 8 times. *)
Theorem C13_cdb_terminates : forall f key, cdb_seekmm_bounded (length f / 8)%nat f key = cdb_seekmm f key.
Proof. exact cdb_seekmm_terminates. Qed.
Print Assumptions C13_cdb_terminates.

(** vget_dir() (key construction, cdb_seekmm, the four NUL-terminated fields of the record, stripping of
    trailing slashes) is memory safe for every file content and every domain. *)
Theorem C13_vget_safe : forall file domain, exists v, vget_dir_real file domain = Ok v.
Proof. intros. apply vget_dir_file_safe. Qed.
Print Assumptions C13_vget_safe.

(** Lookup in a well-formed constant database ([cdb_wf f recs], Spec/CdbSpec.v) with a 7 bit key without NUL
    (what vget_dir builds; no lower-casing happens here, addrparse() lower-cased the address before):
    the value of the FIRST record with exactly that key is returned, completely inside the file, and
    NULL/errno 0 exactly when no record has the key. *)
Theorem C13_cdb_lookup : forall f recs k, cdb_wf f recs -> ascii_key k ->
  match lookup recs k with
  | Some v => exists off, cdb_seekmm f k = Ok (SFound off) /\ has f off v /\ (N.of_nat (length k) + 8 <= off)%N
  | None => cdb_seekmm f k = Ok (SNone 0%N)
  end.
Proof. exact cdb_lookup_correct. Qed.
Print Assumptions C13_cdb_lookup.

(** The Gallina cdbmake writes well-formed databases (for record lists that fit 4 GiB). *)
Theorem C13_cdb_make_wf : forall recs,
  (N.of_nat (length (cdb_make recs)) < M32)%N ->
  Forall (fun kv => Forall (fun b => (b < 256)%N) (fst kv) /\ Forall (fun b => (b < 256)%N) (snd kv)) recs ->
  cdb_wf (cdb_make recs) recs.
Proof. exact cdb_make_wf. Qed.
Print Assumptions C13_cdb_make_wf.

(** vget_dir() on a well-formed users/cdb: the record "!domain-" -> realdomain NUL uid NUL gid NUL path NUL ...
    gives the path without its trailing slashes plus one '/'. *)
Theorem C13_vget_found : forall f recs domain d u g path rest,
  cdb_wf f recs -> ascii_key domain -> (length domain + 3 < VP_CDBKEY)%nat ->
  lookup recs (domain_key domain) = Some (record_value d u g path rest) ->
  nonul d -> nonul u -> nonul g -> nonul path ->
  vget_dir_real (Some f) domain = Ok (VPath (rstrip path ++ [47%N])).
Proof. exact vget_dir_real_found. Qed.
Print Assumptions C13_vget_found.

(** C13_exists with "domain found in users/cdb" as a statement about the file: users/cdb is a well-formed
    constant database whose first record for "!domain-" names a path that is a directory. *)
Theorem C13_exists_file : forall f recs pathfs fs vb domain local d u g path rest,
  cdb_wf f recs -> ascii_key domain -> (length domain + 3 < VP_CDBKEY)%nat ->
  lookup recs (domain_key domain) = Some (record_value d u g path rest) ->
  nonul d -> nonul u -> nonul g -> nonul path ->
  pathfs (rstrip path ++ [47%N]) = DomTree ->
  exists o, user_exists_file (Some f) pathfs fs vb domain local = Ok o /\
    (0 < rc o -> mailbox fs vb local /\ code_form fs vb local (rc o)) /\
    (rc o = 0 -> ~ mailbox fs vb local) /\
    (rc o < 0 -> io_error fs vb local).
Proof. exact user_exists_file_sound. Qed.
Print Assumptions C13_exists_file.

(** Whatever users/cdb contains (or if it does not exist): user_exists() does not read outside the mapping,
    and C13_confined holds. *)
Theorem C13_confined_file : forall file pathfs fs vb domain local,
  exists o, user_exists_file file pathfs fs vb domain local = Ok o /\
    confined (probes o) /\
    (forall n, userdir o = Some n -> n = local /\ component local /\ fs local = EDir).
Proof. exact user_exists_file_safe. Qed.
Print Assumptions C13_confined_file.

(** RCPT TO:<local@[ip]> (address literal; fixes/C13-ipv6-literal.diff): accepted only when the bracketed text,
    without an "IPv6:" tag in any case, is the local address of the connection AND the mailbox exists in the
    domain liphost; every refusal is a "550 5.1.1" reply; an error only after a hard lookup failure. *)
Theorem C13_reply_literal : forall localip liphost db fs vb local iptext,
  let l := map to_lower local in
  domain_found db liphost ->
  match fst (addrparse_literal localip liphost db fs vb local iptext) with
  | RAccept => literal_is_local localip (map to_lower iptext) = true /\ mailbox fs vb l
  | RNoUser text => (literal_is_local localip (map to_lower iptext) = false \/ ~ mailbox fs vb l) /\ exists t, text = REPLY_550 ++ t
  | RError e => 0 < e /\ io_error fs vb l
  end.
Proof. exact literal_reply_sound. Qed.
Print Assumptions C13_reply_literal.

(** ** an already filled struct userconf (the global cache used for MAIL FROM; fixes/C13-dirfd-leak.diff) *)

(** Whatever the structure holds from earlier calls (a stored path ends with the '/' vget_dir() appends):
    the answer of user_exists() is the one a fresh structure gives, so C13_exists / C13_confined carry over. *)
Theorem C13_ds_outcome : forall s v pathfs fs vb local, ds_ok s -> path_ok v ->
  fst (fst (user_exists_ds s v pathfs fs vb local)) = user_exists_with (vg_of pathfs v) fs vb local.
Proof. exact user_exists_ds_outcome. Qed.
Print Assumptions C13_ds_outcome.

(** No descriptor is lost: what was opened during the call is closed again or still referenced by the structure
    (at most the domain and the user directory), and the structure stays well-formed for the next call. *)
Theorem C13_ds_no_leak : forall s v pathfs fs vb local,
  let r := user_exists_ds s v pathfs fs vb local in
  (opens (snd r) + held s = closes (snd r) + held (snd (fst r)))%nat /\ (held (snd (fst r)) <= 2)%nat.
Proof. exact user_exists_ds_no_leak. Qed.
Print Assumptions C13_ds_no_leak.

Theorem C13_ds_ok : forall s v pathfs fs vb local, ds_ok s -> path_ok v ->
  ds_ok (snd (fst (user_exists_ds s v pathfs fs vb local))).
Proof. exact user_exists_ds_ok. Qed.
Print Assumptions C13_ds_ok.

(** a database made of two records: well-formed, both lookups answered, a third key absent *)
Example C13_cdb_nonvacuous :
  let v1 := record_value [120; 46; 121]%N [56; 57]%N [56; 57]%N [111; 47; 100; 47; 47]%N [45; 0]%N in
  let recs := [(domain_key [120; 46; 121]%N, v1); (domain_key [97]%N, [0; 0; 0; 47; 0]%N)] in
  cdb_wf (cdb_make recs) recs
  /\ vget_dir_real (Some (cdb_make recs)) [120; 46; 121]%N = Ok (VPath [111; 47; 100; 47]%N)
  /\ vget_dir_real (Some (cdb_make recs)) [122]%N = Ok VNone.
Proof.
  cbv zeta. split; [|split]; try (vm_compute; reflexivity).
  apply cdb_make_wf; [vm_compute; reflexivity|].
  repeat constructor; vm_compute; reflexivity.
Qed.

(** the hypotheses are met by a non-trivial state: a directory with .qmail-sales-default and a bounce
    catch-all; "sales-eu.north" is accepted with 4, "nobody" gets 0, ".." gets 0 without any lookup *)
Example C13_nonvacuous :
  let db := Some [([120; 46; 121]%N, DomTree)] in
  let lay := [ ([46; 113; 109; 97; 105; 108; 45; 115; 97; 108; 101; 115; 45; 100; 101; 102; 97; 117; 108; 116]%N, EFile []);
               ([46; 113; 109; 97; 105; 108; 45; 100; 101; 102; 97; 117; 108; 116]%N, EFile [47; 98; 10]%N) ] in
  let fs := fs_of_layout lay in
  let vb := Some [47; 98; 10]%N in
  domain_found db [120; 46; 121]%N
  /\ ~ io_error fs vb [110; 111; 98; 111; 100; 121]%N
  /\ rc (user_exists db fs vb [120; 46; 121]%N [115; 97; 108; 101; 115; 45; 101; 117; 46; 110; 111; 114; 116; 104]%N) = 4
  /\ rc (user_exists db fs vb [120; 46; 121]%N [110; 111; 98; 111; 100; 121]%N) = 0
  /\ probes (user_exists db fs vb [120; 46; 121]%N [46; 46]%N) = [].
Proof.
  cbv zeta. split; [|split; [|split; [|split]]]; try (vm_compute; reflexivity).
  - split; [apply Nat.ltb_lt; vm_compute; reflexivity|]. eexists. split; [reflexivity|].
    exists [], []. split; [reflexivity|constructor].
  - unfold io_error. intros [H|[H|[H|[H|[H|[H|H]]]]]].
    + apply Nat.leb_le in H. vm_compute in H. discriminate.
    + vm_compute in H. exact H.
    + vm_compute in H. exact H.
    + vm_compute in H. exact H.
    + destruct H as [pre [post [E _]]].
      assert (A : In DASH [110; 111; 98; 111; 100; 121]%N) by (rewrite E; apply in_or_app; right; now left).
      vm_compute in A. repeat (destruct A as [A|A]; [discriminate|]). exact A.
    + vm_compute in H. exact H.
    + destruct H as [_ H]. vm_compute in H. discriminate.
Qed.

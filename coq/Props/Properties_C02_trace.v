(** C02 — "the server-generated trace header (Received-SPF and Received lines that are syntactically valid header fields and
    contain no client-controlled line breaks)".  Statements only; proofs in Proofs/TraceValid.v.

    [trace_hdr_valid] (Spec/TraceSpec.v) accepts exactly the blocks of header fields: name of printable characters, colon,
    body without NUL / CR, continued only over lines that start with a blank or tab, the block ending at the end of a line.
    The correspondence run applies it ([handoff_hdr_ok]) to what stands in front of the client's data in every message the
    qmail-queue stand-in received from the IMPLEMENTATION. *)
From Qv Require Import Common.Bytes Model.Trace Spec.TraceSpec Proofs.TraceValid.
From Qv Require Import Model.SpfEnv Model.Spf Spec.SpfSpec Proofs.SpfCore.

(** the header the session model builds itself (SPF result "none", or no Received-SPF for relay clients): valid for all
    embedded strings - HELO argument, host names, addresses, user and certificate names, cipher - free of NUL, CR and LF *)
Theorem C02_trace_header_valid : forall t mailfrom relay, inputs_text t = true -> clean_b mailfrom = true ->
  trace_hdr_valid (trace_header t mailfrom relay) = true.
Proof. exact trace_header_valid. Qed.
Print Assumptions C02_trace_header_valid.

(** with the Received-SPF field of any other result: whatever the literal model of spfreceived() (property C11) writes from a
    clean session and evaluator state is nothing or one "Received-SPF:" field, and the header built with it is valid *)
Theorem C02_trace_spf_field_shape : forall X spf g h,
  sess_ok X = true -> exp_ok (g_exp g) = true -> mech_ok (g_mech g) ->
  spfreceived X spf g = Some h -> spf_field_shape h.
Proof. exact spfreceived_shape. Qed.
Print Assumptions C02_trace_spf_field_shape.

Theorem C02_trace_header_with_valid : forall spf t relay, inputs_text t = true -> spf_field_shape spf ->
  trace_hdr_valid (trace_header_with spf t relay) = true.
Proof. exact trace_header_with_valid. Qed.
Print Assumptions C02_trace_header_with_valid.

(** the checker of the correspondence run accepts every message that is such a header followed by the queued data [q] *)
Theorem C02_trace_checker_sound : forall spf t relay q, inputs_text t = true -> spf_field_shape spf ->
  handoff_hdr_ok (length q) (trace_header_with spf t relay ++ q) = true.
Proof.
  intros spf t relay q H Hs.
  exact (handoff_hdr_sound _ q (trace_header_with_valid spf t relay H Hs) (trace_header_with_ne spf t relay)).
Qed.
Print Assumptions C02_trace_checker_sound.

(** it is not vacuous: it refuses a NUL, a bare CR, a line break that is not a fold, a missing field name *)
Example C02_trace_checker_refuses :
  trace_hdr_valid [82;58;32;97;0;10]%N = false /\ trace_hdr_valid [82;58;32;97;13;10]%N = false
  /\ trace_hdr_valid [82;58;32;97;10;98;10]%N = false /\ trace_hdr_valid [32;97;10]%N = false
  /\ trace_hdr_valid [82;58;32;97]%N = false /\ trace_hdr_valid [82;58;32;97;10;9;98;10;88;45;89;58;10]%N = true.
Proof. vm_compute. repeat split. Qed.

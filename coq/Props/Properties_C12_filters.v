(** C12, stage 3 — the individual filters of rcpt_cbs[]: the model of each real filter function computes the outcome
    the documentation gives (doc/man/Qsmtpd.8, doc/man/filterconf.5, the comment block of the filter).
    Only statements here; proofs live in Proofs/RealFiltersProofs.v.

    Vocabulary.  Model/RealFilters.v: [cb_<filter> s fs ...] transcribes qsmtpd/filters/<filter>.c over the session [s]
    (what the filter reads from xmitstat) and the directory tree [fs] (files at user / domain / global level);
    result [fout] = (enum filter_result, *t, the reply the filter has sent itself, xmitstat.check2822 afterwards);
    [None] would be undefined behaviour of the C.  Spec/RealFiltersSpec.v: [doc_<filter>] is the documented outcome
    ([None]: outside the documented domain), [same_obs o d]: result, the attributed level (for a refusal), own reply
    and check2822 flag agree. *)
From Qv Require Import Common.Bytes Gen.GenFilters Model.Filters Model.RealFilters Model.LoadFile Model.MatchNet Spec.FiltersSpec
  Spec.ControlSpec Spec.RealFiltersSpec Proofs.RealFiltersProofs.
Local Open Scope bool_scope.

(** ---- which file, which list ---- *)

(** "the more local file overrides": user before domain before (for a global lookup) control/ *)
Theorem C12_getfile_precedence : forall fs name g,
  (forall c, fs_find fs 0 name = Some c -> getfile true true fs name g = (CONFIG_USER, Some c)) /\
  (forall (ud : bool) c, (if ud then fs_find fs 0 name else None) = None -> fs_find fs 1 name = Some c ->
     getfile ud true fs name g = (CONFIG_DOMAIN, Some c)) /\
  (forall (ud : bool), (if ud then fs_find fs 0 name else None) = None -> fs_find fs 1 name = None ->
     getfile ud true fs name g = if g then (CONFIG_GLOBAL, fs_find fs 2 name) else (CONFIG_DOMAIN, None)).
Proof. exact getfile_precedence. Qed.
Print Assumptions C12_getfile_precedence.

(** userconf_get_buffer: the list of the most local file is the result; a file without a valid entry ends the
    search (CONFIG_NONE); no file: CONFIG_NONE *)
Theorem C12_listfile_plain : forall d ud dd fs key cf g inh ty content raw own,
  getfile ud dd fs key g = (ty, Some content) -> parse_conf content = Some raw -> cf_filter cf raw = Some own ->
  (inh = false \/ index_of INHERIT own = None) ->
  get_buffer d ud dd fs key cf g inh = match own with [] => UNone | _ => UList ty own end.
Proof. exact listfile_plain. Qed.
Print Assumptions C12_listfile_plain.

(** "!inherit" in a list that may inherit (the user's; the domain's when the lookup is a global one) and a list at the
    next level(s): the result is attributed to the first level and contains every inherited value, every own value
    other than "!inherit", and nothing else *)
Theorem C12_listfile_inherit : forall d ud dd fs key cf g ty content raw own i r inh,
  getfile ud dd fs key g = (ty, Some content) -> parse_conf content = Some raw -> cf_filter cf raw = Some own ->
  (ty = CONFIG_USER \/ (ty = CONFIG_DOMAIN /\ g = true)) -> index_of INHERIT own = Some i ->
  get_buffer d false (if Z.eqb ty CONFIG_DOMAIN then false else dd) fs key cf g true = UList r inh ->
  exists vals, get_buffer (S d) ud dd fs key cf g true = UList ty vals /\
    (forall y, In y inh -> In y vals) /\ (forall y, In y own -> y <> INHERIT -> In y vals) /\
    (forall y, In y vals -> In y own \/ In y inh).
Proof. exact listfile_inherit. Qed.
Print Assumptions C12_listfile_inherit.

(** the entry check functions (checkaddr, domainvalid) never run into undefined behaviour: no list load "crashes" *)
Theorem C12_listfile_total : forall cf l, exists r, cf_filter cf l = Some r.
Proof. exact cf_filter_total. Qed.
Print Assumptions C12_listfile_total.

(** ---- badmailfrom / goodmailfrom, badcc ---- *)

(** For every sender local@domain (one '@') and every entry: the test of lookupbmf() is the documented meaning of the
    entry - complete address / "@domain" / domain and subdomains / ".sub": ends with it - case ignored; and the same
    for badcc.c, where an entry without '@' always means the domain and its subdomains. *)
Theorem C12_list_entry : forall loc dom e,
  no_at loc = true -> no_at dom = true ->
  bmf_entry_hit true (loc ++ AT_SIGN :: dom) (Some (AT_SIGN :: dom)) e = doc_bmf_match loc dom e /\
  bmf_entry_hit false (loc ++ AT_SIGN :: dom) (Some (AT_SIGN :: dom)) e = doc_cc_match loc dom e.
Proof. intros loc dom e Hl Hd. split; [apply bmf_entry_doc|apply cc_entry_doc]; assumption. Qed.
Print Assumptions C12_list_entry.

(** cb_badmailfrom for all sessions and trees: a bounce passes; else refused (policy denial attributed to the level of
    the effective badmailfrom list) exactly when an entry of that list matches the sender and no entry of the effective
    goodmailfrom list does; a list file that does not load is an error. *)
Theorem C12_badmailfrom : forall s fs d, doc_badmailfrom s fs = Some d ->
  exists o, cb_badmailfrom s fs = Some o /\ same_obs o d.
Proof. exact badmailfrom_doc. Qed.
Print Assumptions C12_badmailfrom.

Theorem C12_badcc : forall s fs d, doc_badcc s fs = Some d -> exists o, cb_badcc s fs = Some o /\ same_obs o d.
Proof. exact badcc_doc. Qed.
Print Assumptions C12_badcc.

(** ---- helo ---- *)

(** cb_helo: a HELO of status h <> 0 is refused exactly when bit h (value 2^h) of the effective global setting helovalid
    is set, attributed to the level of the setting; otherwise the HELO is refused exactly when the effective badhelo
    file lists it (C16's meaning of a domain list: equal, or ends with a dot-led entry). *)
Theorem C12_helo : forall s fs uc dc gc d, has_nul (r_helo s) = false -> doc_helo s fs uc dc gc = Some d ->
  exists o, cb_helo s fs uc dc gc = Some o /\ same_obs o d.
Proof. exact helo_doc. Qed.
Print Assumptions C12_helo.

(** ---- ipbl / ipwl ---- *)

(** cb_ipbl: the files of the connection's address family, each the most local one; refused exactly when the blacklist
    lists the client (C16's [ipbl_file_spec] = 1) and the whitelist is absent or says "no match"; a malformed blacklist
    refuses nobody, a malformed whitelist lets the mail pass. *)
Theorem C12_ipbl : forall s fs d, length (r_ip s) = 16 -> bytes_ok (r_ip s) -> fs_ok fs -> doc_ipbl s fs = Some d ->
  exists o, cb_ipbl s fs = Some o /\ same_obs o d.
Proof. exact ipbl_doc. Qed.
Print Assumptions C12_ipbl.

(** ---- the smaller filters ---- *)

Theorem C12_soberg : forall s uc dc gc d, doc_soberg s uc dc gc = Some d ->
  exists o, cb_soberg s uc dc gc = Some o /\ same_obs o d.
Proof. exact soberg_doc. Qed.
Print Assumptions C12_soberg.

(** cb_check2822 never refuses; the flag it leaves: 0 stays 0, else 0 when this recipient has not enabled
    check_strict_rfc2822, else 1 ... *)
Theorem C12_check2822 : forall s uc dc gc d, doc_check2822 s uc dc gc = Some d ->
  exists o, cb_check2822 s uc dc gc = Some o /\ same_obs o d.
Proof. exact check2822_doc. Qed.
Print Assumptions C12_check2822.

(** ... so over the recipients of one mail, starting from any non-zero value ("no decision yet" = 2), the flag ends
    as 1 exactly when every recipient has enabled the check (smtp_data checks the message iff flag & 1) *)
Theorem C12_check2822_all : forall flag enabled, flag <> 0%N -> enabled <> [] ->
  check2822_fold flag enabled = if forallb (fun e => e) enabled then 1%N else 0%N.
Proof. exact check2822_all. Qed.
Print Assumptions C12_check2822_all.

(** cb_nomail: no file: passed; a file without text: general policy denial; one line: refused with that line as reply,
    under its own "XYZ X.Y.Z " code when it starts with one (X = 4 or 5, same X twice), else under 550 5.7.1; control
    characters replaced; more than one line: error *)
Theorem C12_nomail : forall s fs d, doc_nomail s fs = Some d -> exists o, cb_nomail s fs = Some o /\ same_obs o d.
Proof. exact nomail_doc. Qed.
Print Assumptions C12_nomail.

(** cb_forceesmtp with DNS as an oracle: ESMTP clients pass; else the answers for the usable names of the effective
    forceesmtp list decide: first listing refuses, a local resolver error before it is an error, temporary errors
    without a listing give a temporary refusal *)
Theorem C12_forceesmtp : forall s fs d, doc_forceesmtp s fs = Some d ->
  exists o, cb_forceesmtp s fs = Some o /\ same_obs o d.
Proof. exact forceesmtp_doc. Qed.
Print Assumptions C12_forceesmtp.

(** cb_dnsbl with DNS as an oracle ([doc_walk]: the first listing among the usable list names decides): a client
    listed in the effective dnsbl file (user / domain / global, "!inherit" honoured) is refused with the filter's own
    501 naming that list, unless a list of the effective whitednsbl file (user / domain) lists it too; temporary
    resolver errors without a listing give a temporary refusal, a local error an error.  Never undefined behaviour
    (finding F-C12-4: the unfixed log line read c[i] behind the whitelist array). *)
Theorem C12_dnsbl : forall s fs d, doc_dnsbl s fs = Some d -> exists o, cb_dnsbl s fs = Some o /\ same_obs o d.
Proof. exact dnsbl_doc. Qed.
Print Assumptions C12_dnsbl.

(** the code as shipped: third list hits, the one-entry whitelist hits: strlen() of what lies behind the array *)
Theorem C12_dnsbl_unfixed_refuted :
  let s := mk_rsession false true false false false 0 0 [102; 64; 101; 120; 97; 109; 112; 108; 101; 46; 111; 114; 103]%N [104; 46; 101; 120; 97; 109; 112; 108; 101; 46; 110; 101; 116]%N (repeat 0%N 16) [] [0; 0; 1; 1]%N 0 0 [] in
  let fs := [(1%N, NAME_DNSBL, [97; 46; 101; 120; 97; 109; 112; 108; 101; 46; 110; 101; 116; 10; 98; 46; 101; 120; 97; 109; 112; 108; 101; 46; 110; 101; 116; 10; 99; 46; 101; 120; 97; 109; 112; 108; 101; 46; 110; 101; 116; 10]%N);
             (1%N, NAME_WHITEDNSBL, [119; 46; 101; 120; 97; 109; 112; 108; 101; 46; 110; 101; 116; 10]%N)] in
  cb_dnsbl_gen false s fs = None /\ exists d, doc_dnsbl s fs = Some d /\ d_res d = FPassed.
Proof. cbv zeta. split; [vm_compute; reflexivity|]. eexists. split; [vm_compute; reflexivity|reflexivity]. Qed.
Print Assumptions C12_dnsbl_unfixed_refuted.

(** cb_namebl: the sender's domain and its parent domains against every list of the effective namebl file, list by
    list; same oracle reading.  Never undefined behaviour, whatever an earlier filter left in *t (finding F-C12-5:
    the unfixed code indexed blocktype[] with it on entry). *)
Theorem C12_namebl : forall s fs d, doc_namebl s fs = Some d -> exists o, cb_namebl s fs = Some o /\ same_obs o d.
Proof. exact namebl_doc. Qed.
Print Assumptions C12_namebl.

Theorem C12_namebl_unfixed_refuted :
  let s := mk_rsession false true false false false 0 0 [102; 64; 101; 120; 97; 109; 112; 108; 101; 46; 111; 114; 103]%N [104; 46; 101; 120; 97; 109; 112; 108; 101; 46; 110; 101; 116]%N (repeat 0%N 16) [] [] (-22) 0 [] in
  cb_namebl_gen true s [] = None /\ exists d, doc_namebl s [] = Some d /\ d_res d = FPassed.
Proof. cbv zeta. split; [vm_compute; reflexivity|]. eexists. split; [vm_compute; reflexivity|reflexivity]. Qed.
Print Assumptions C12_namebl_unfixed_refuted.

(** cb_fromdomain for every MX list (addresses of 16 octets): with the effective global setting u > 0 - no mail
    exchanger known and bit 1 (value 1): refused with the filter's own reply chosen by the result of the MX lookup
    (temporary error: 451 4.4.3; NXDOMAIN, no MX, null MX: 501 5.1.8); mail exchangers known and bit 2 or 3 (values 2,
    4): refused with 501 5.4.0 exactly when every address is unroutable in the sense of the bits set: bit 3 private
    (the tables reserved_netsv4 / reserved_netsv6 read as networks in C16's sense, IPv6 link- and site-local),
    bit 2 localhost (0/8, 127/8, ::1, ::). *)
Theorem C12_fromdomain : forall s uc dc gc d,
  Forall (fun a => length a = 16) (r_mx s) -> Forall bytes_ok (r_mx s) ->
  doc_fromdomain s uc dc gc = Some d -> exists o, cb_fromdomain s uc dc gc = Some o /\ same_obs o d.
Proof. exact fromdomain_doc. Qed.
Print Assumptions C12_fromdomain.

(** the per-address test of cb_fromdomain (ip4_matchnet / ip6_matchnet over the tables) is [doc_unroutable] *)
Theorem C12_fromdomain_address : forall u a, length a = 16 -> bytes_ok a -> fd_addr_hit u a = Some (doc_unroutable u a).
Proof. exact fd_addr_doc. Qed.
Print Assumptions C12_fromdomain_address.

(** ---- the tie: the checker run on every C output of the rfilters engine ---- *)

(** wherever the documentation defines the outcome of a case (raw case fields: filter id, session, files), the model
    of the case produces exactly that observation - so a C output that agrees with the model satisfies the
    documentation, and one the checker calls bad deviates from it *)
Theorem C12_filters_checker_sound : forall id misc mf helo ip rcpts dns mx files d,
  rf_doc_case id misc mf helo ip rcpts dns mx files = Some d ->
  exists o, rf_case id misc mf helo ip rcpts dns mx files = RDone o /\ obs_of_fout o = d.
Proof. exact rf_checker_sound. Qed.
Print Assumptions C12_filters_checker_sound.

(** the hypotheses are met by non-trivial inputs *)
Example C12_filters_nonvacuous :
  let mf := [102; 111; 111; 64; 98; 97; 114; 46; 65; 79; 76; 46; 99; 111; 109]%N in          (* foo@bar.AOL.com *)
  split_addr mf = Some ([102; 111; 111]%N, [98; 97; 114; 46; 65; 79; 76; 46; 99; 111; 109]%N) /\
  doc_bmf_match [102; 111; 111]%N [98; 97; 114; 46; 65; 79; 76; 46; 99; 111; 109]%N [97; 111; 108; 46; 99; 111; 109]%N = true /\   (* aol.com *)
  doc_bmf_match [102; 111; 111]%N [98; 97; 114; 46; 65; 79; 76; 46; 99; 111; 109]%N [64; 97; 111; 108; 46; 99; 111; 109]%N = false /\  (* @aol.com *)
  doc_bmf_match [102; 111; 111]%N [98; 97; 114; 46; 65; 79; 76; 46; 99; 111; 109]%N [46; 97; 111; 108; 46; 99; 111; 109]%N = true.    (* .aol.com *)
Proof. cbv zeta. repeat split; vm_compute; reflexivity. Qed.

(** C14 — only well-formed mailbox addresses are accepted.
    Only statements here; proofs live in Proofs/{Domain,Local,Parseaddr,Addrsyntax,Xtext}Proofs.v and are
    assembled in Proofs/AddrTheorems.v.  The predicates ([fqdn], [lweak], [local_rfc], [mailbox], [route],
    [addrsyntax_post], ...) are defined in Spec/AddrSpec.v.

    A C string argument is modelled by the bytes from the pointer to the end of the mapped buffer:
    [s ++ 0 :: rest] with [s] free of NUL is "the string s, its terminator, and whatever lies behind it";
    a model that looked at [rest] or beyond would return [Crash].  [pton4]/[pton6] stand for
    inet_pton(AF_INET/AF_INET6, ..) > 0 and are arbitrary unless a contract is stated. *)
From Qv Require Import Common.Bytes Gen.GenAddr Model.InetPton Model.Addr Spec.AddrSpec Spec.AddrGrammar Proofs.AddrTheorems
  Proofs.DomainEquiv Proofs.LocalEquiv Proofs.ParseaddrEquiv Proofs.XtextEquiv Proofs.AddrsyntaxEquiv Proofs.LiteralEquiv.

(** 1. domainvalid() accepts only fully-qualified host names: >= 2 labels of 1..63 letters, digits or hyphens,
    <= 255 octets, last label >= 2 characters and not all-numeric.  (Holds for the tree with
    fixes/C14-domainvalid-first-label.diff; the unpatched code accepts a 64-octet first label: F-C14-1.) *)
Theorem C14_domain : forall h rest, ~ In 0%N h ->
  domainvalid (h ++ 0%N :: rest) = Ok 0 -> fqdn h.
Proof. exact thm_domain. Qed.
Print Assumptions C14_domain.

(** ... and exactly those that moreover end in a letter; every other string yields 1 *)
Theorem C14_domain_exact : forall h rest, ~ In 0%N h ->
  (domainvalid (h ++ 0%N :: rest) = Ok 0 <-> fqdn_strict h)
  /\ (domainvalid (h ++ 0%N :: rest) = Ok 0 \/ domainvalid (h ++ 0%N :: rest) = Ok 1)
  /\ (fqdn_strict h -> fqdn h).
Proof. exact thm_domain_exact. Qed.
Print Assumptions C14_domain_exact.

(** 2. parselocalpart(p) = n >= 0: the n bytes are runs of atext and dots and correctly terminated quoted
    strings (qtext, obsolete controls, the pairs backslash-quote and backslash-backslash), all 7-bit, none NUL/CR/LF, no at sign; byte n is
    the terminator or the first at sign *)
Theorem C14_local : forall p n, parselocalpart p = Ok n -> (0 <= n)%Z ->
  let k := Z.to_nat n in
  let lp := firstn k p in
  k < length p /\ lweak lp /\ Forall clean7 lp /\ ~ In cAT lp
  /\ (nth k p 1%N = 0%N \/ nth k p 1%N = cAT).
Proof. exact thm_local. Qed.
Print Assumptions C14_local.

(** The property's stronger wording -- the local part is a Dot-string or one Quoted-string -- does not hold:
    a..b is accepted (F-C14-2, known finding; also .a and a. and a, quoted b, c run together) ... *)
Definition C14_local_full : Prop :=
  forall p n, parselocalpart p = Ok n -> (0 < n)%Z -> local_rfc (firstn (Z.to_nat n) p).
Theorem C14_local_refuted : ~ C14_local_full.
Proof. exact thm_local_refuted. Qed.
Print Assumptions C14_local_refuted.

(** ... and it holds exactly outside the class [local_class] (an empty atom in an unquoted local part, or
    quoted and unquoted text mixed): an accepted local part is a Dot-string or a Quoted-string iff it is
    not in the class *)
Theorem C14_local_partial : forall p n, parselocalpart p = Ok n -> (0 < n)%Z ->
  let lp := firstn (Z.to_nat n) p in
  (local_class lp = false <-> local_rfc lp).
Proof. exact thm_local_partial. Qed.
Print Assumptions C14_local_partial.

(** 3. parseaddr(): 3 only for local@fqdn, 4 only for local@[literal] with the literal accepted by inet_pton
    (IPv4 text < 16, "IPv6:" + text < 46 octets) and nothing behind the bracket; 1/2 are the filter-list forms *)
Theorem C14_parseaddr : forall pton4 pton6 s rest rc, ~ In 0%N s ->
  parseaddr pton4 pton6 (s ++ 0%N :: rest) = Ok rc ->
  rc <= 4 /\ parseaddr_post pton4 pton6 s rc.
Proof. exact thm_parseaddr. Qed.
Print Assumptions C14_parseaddr.

(** addrsyntax(): never fails to return; a non-zero code only for  route ++ mailbox ++ ">" ++ more  with the
    source route (RCPT TO only) well-formed, at most 256 octets and removed, the address returned lower-cased;
    the buffer keeps its length *)
Theorem C14_addrsyntax : forall pton4 pton6 s rest flags, ~ In 0%N s ->
  exists r, addrsyntax pton4 pton6 (s ++ 0%N :: rest) flags = Ok r
    /\ addrsyntax_post pton4 pton6 s flags (as_rc r) (as_addr r) (as_more r)
    /\ length (as_mem r) = length (s ++ 0%N :: rest).
Proof. exact thm_addrsyntax. Qed.
Print Assumptions C14_addrsyntax.

(** the front end of addrparse(): what is not refused with 501 is <> (MAIL FROM), postmaster (RCPT TO),
    a mailbox with a host name, or -- in RCPT TO only -- a mailbox with an address literal *)
Theorem C14_addrparse : forall pton4 pton6 s rest flags, ~ In 0%N s ->
  exists o, addrparse_syntax pton4 pton6 (s ++ 0%N :: rest) flags = Ok o /\ addrparse_post pton4 pton6 s flags o.
Proof. exact thm_addrparse. Qed.
Print Assumptions C14_addrparse.

(** 4. xtextlen() (AUTH=): -1 or the length of an xtext prefix ended by the terminator or a blank that decodes,
    without any NUL, to nothing, "<>" or a mailbox.  (With fixes/C14-xtext-encoded-nul.diff; the unpatched
    code accepts "a@b.cd+00anything": F-C14-3.) *)
Theorem C14_xtext : forall pton4 pton6 s rest, ~ In 0%N s ->
  exists n, xtextlen pton4 pton6 (s ++ 0%N :: rest) = Ok n /\
  ((n = -1)%Z \/
   exists x tail d, s = x ++ tail /\ n = Z.of_nat (length x) /\ (tail = [] \/ hd 0%N tail = SP)
     /\ xdecode x = Some d /\ ~ In 0%N d /\ xtext_value pton4 pton6 d).
Proof. exact thm_xtext. Qed.
Print Assumptions C14_xtext.

(** Safety: on ANY buffer that contains a NUL -- any line, however malformed -- no function reads past that
    NUL or writes outside the buffer (no [Crash]) and every loop ends *)
Theorem C14_safe : forall pton4 pton6 p flags, In 0%N p ->
  is_ok (domainvalid p) = true /\ is_ok (parselocalpart p) = true
  /\ is_ok (parseaddr pton4 pton6 p) = true /\ is_ok (checkaddr pton4 pton6 p) = true
  /\ is_ok (addrspec_valid pton4 pton6 p) = true
  /\ is_ok (addrsyntax pton4 pton6 p flags) = true /\ is_ok (xtextlen pton4 pton6 p) = true
  /\ is_ok (addrparse_syntax pton4 pton6 p flags) = true.
Proof. exact thm_safe. Qed.
Print Assumptions C14_safe.

(** ... and whatever addrsyntax() returns, for any buffer at all, the buffer afterwards differs from the buffer
    before only in bytes that are now NUL (it cuts the line at commas, the colon and the closing bracket) *)
Theorem C14_writes : forall pton4 pton6 mem0 flags r,
  addrsyntax pton4 pton6 mem0 flags = Ok r -> nulw mem0 (as_mem r) /\ length (as_mem r) = length mem0.
Proof. exact thm_writes. Qed.
Print Assumptions C14_writes.

(** The oracle: the reference inet_pton of Model/InetPton.v (the one the extracted model runs, compared with
    glibc by the correspondence check) accepts only 7-bit strings without NUL/CR/LF, and with such an oracle
    every address handed back is 7-bit and free of NUL, CR and LF *)
Theorem C14_oracle_ref :
  oracle_clean pton4_ref /\ oracle_clean pton6_ref /\
  forall s rest flags r ad, ~ In 0%N s ->
    addrsyntax pton4_ref pton6_ref (s ++ 0%N :: rest) flags = Ok r -> as_addr r = Some ad -> as_rc r <> 0%Z ->
    Forall clean7 ad.
Proof. exact thm_oracle_ref. Qed.
Print Assumptions C14_oracle_ref.

(** Portability: the character classes the C computes (the tables of Gen/GenAddr.v, on which all of the above
    rests) are the same whether char is signed (this compiler) or unsigned (e.g. ARM Linux); the [_ALT] tables
    are the C expressions evaluated with the other signedness.  (With fixes/C14-quoted-8bit-unsigned-char.diff;
    the unpatched test *t >= 93 admits every 8-bit byte inside a quoted local part where char is unsigned: F-C14-4.) *)
Theorem C14_char_sign_independent :
  DV_CHAR_OK_ALT = DV_CHAR_OK /\ DV_LAST_OK_ALT = DV_LAST_OK /\ LP_UNQ_OK_ALT = LP_UNQ_OK
  /\ LP_Q_OK_ALT = LP_Q_OK /\ LP_ESC_OK_ALT = LP_ESC_OK
  /\ XT_RANGE_OK_ALT = XT_RANGE_OK /\ XT_HEX_OK_ALT = XT_HEX_OK /\ XT_PLAIN_OK_ALT = XT_PLAIN_OK.
Proof. exact thm_char_sign. Qed.
Print Assumptions C14_char_sign_independent.

(* ====================================================================================================
   Second part: EQUIVALENCES between "the C accepts" and the RFC 5321 grammar written as Props
   (Spec/AddrGrammar.v).  Each deviation of the C from the grammar is a named predicate in the statement.
   ==================================================================================================== *)

(** Domain.  domainvalid() = 0 iff the name is an RFC 5321 Domain (sub-domain = Let-dig [Ldh-str], i.e. no
    hyphen at the edge of a label) that is fully qualified, <= 255 octets, with a top-level label of >= 2
    characters ending in a letter -- or differs from one only by a hyphen at the edge of a label
    ([edge_hyphen], e.g. -a-.-de is accepted: the property admits hyphens anywhere, RFC 5321 does not).
    Outside that class it is an equivalence.  The property's own [fqdn] (last label not all-numeric) is wider
    than what is accepted exactly by the names that do not end in a letter (x.a1 is refused). *)
Theorem C14_domain_rfc : forall h rest, ~ In 0%N h ->
  (domainvalid (h ++ 0%N :: rest) = Ok 0 <-> rfc_fqdn h \/ (fqdn_strict h /\ edge_hyphen h))
  /\ (~ edge_hyphen h -> (domainvalid (h ++ 0%N :: rest) = Ok 0 <-> rfc_fqdn h))
  /\ (fqdn h -> (fqdn_strict h <-> is_alpha (last h 0%N) = true)).
Proof.
  intros h rest H. destruct (domainvalid_rfc h rest H) as [A B]. split; [exact A|]. split; [exact B|exact (fqdn_vs_strict h)].
Qed.
Print Assumptions C14_domain_rfc.

(** Local part.  For [lp] without an at sign, followed by the terminator or an at sign: parselocalpart()
    returns |lp| iff [lp] is [lweak]; and [lp] is an RFC 5321 Local-part (Dot-string / Quoted-string, quoted
    text as RFC 5322 incl. obsolete controls, pairs only for the quote and the backslash) iff it is accepted,
    non-empty and outside the class of F-C14-2.  (Needs fixes/C14-quoted-bang.diff: the unpatched quoted-text
    test omits "!", F-C14-5.)  Not accepted although RFC-valid: an at sign inside a quoted string. *)
Theorem C14_local_iff : forall lp e rest, e = 0%N \/ e = cAT -> ~ In cAT lp ->
  (parselocalpart (lp ++ e :: rest) = Ok (Z.of_nat (length lp)) <-> lweak lp)
  /\ (local_rfc lp <->
       lp <> [] /\ parselocalpart (lp ++ e :: rest) = Ok (Z.of_nat (length lp)) /\ local_class lp = false).
Proof.
  intros lp e rest He Hat. split; [exact (parselocalpart_iff lp e rest He Hat)|exact (local_rfc_iff lp e rest He Hat)].
Qed.
Print Assumptions C14_local_iff.

(** Mailbox.  parseaddr() = 3 (4) iff the string is Local-part "@" Domain (address literal) in the exact
    grammar [mailbox_x]: first at sign ends the local part, the domain is what domainvalid() accepts, a
    literal is "[" text "]" without a closing bracket inside, dispatched on the tag "IPv6:" to the oracle
    (pton4: < 16 octets, pton6: < 46 octets).  With the class of F-C14-2 excluded the local part is RFC 5321. *)
Theorem C14_parseaddr_iff : forall pton4 pton6 s rest rc, ~ In 0%N s -> rc = 3 \/ rc = 4 ->
  (parseaddr pton4 pton6 (s ++ 0%N :: rest) = Ok rc <-> mailbox_x pton4 pton6 lweak rc s)
  /\ (mailbox_x pton4 pton6 local_rfc rc s <->
       parseaddr pton4 pton6 (s ++ 0%N :: rest) = Ok rc /\ local_class (before cAT s) = false).
Proof.
  intros pton4 pton6 s rest rc Hs Hrc.
  split; [exact (parseaddr_iff pton4 pton6 s rest rc Hs Hrc)|exact (parseaddr_rfc_iff pton4 pton6 s rest rc Hs Hrc)].
Qed.
Print Assumptions C14_parseaddr_iff.

(** Path (MAIL FROM / RCPT TO argument behind the opening bracket).  addrsyntax() returns the non-zero code
    rc with *addr = addr and *more = more iff [addrsyntax_post_x]: the line is route ++ a ++ ">" ++ post with
    the FIRST ">" ending the address, the source route (flags = 1 only) "@dom,...,@dom:" of accepted domains,
    <= 256 octets and -- deviation -- no comma anywhere behind it; addr = a lower-cased; rc = 3/4: a is a
    [mailbox_x]; rc = 1: a empty (flags 0) or "postmaster" in any case (flags 1). *)
Theorem C14_addrsyntax_iff : forall pton4 pton6 s rest flags rc addr more, ~ In 0%N s -> rc <> 0%Z ->
  ((exists r, addrsyntax pton4 pton6 (s ++ 0%N :: rest) flags = Ok r
      /\ as_rc r = rc /\ as_addr r = addr /\ as_more r = more)
   <-> addrsyntax_post_x pton4 pton6 s flags rc addr more).
Proof. exact addrsyntax_iff. Qed.
Print Assumptions C14_addrsyntax_iff.

(** AUTH= (xtext -> addrspec_valid), end to end: for the octets [s] behind "AUTH=" and n >= 0,
    xtextlen() = n iff [xtext_accept s n] (smtp_from_extensions then demands n > 0 and a blank or the end) *)
Theorem C14_xtext_iff : forall pton4 pton6 s rest n, ~ In 0%N s -> (0 <= n)%Z ->
  (xtextlen pton4 pton6 (s ++ 0%N :: rest) = Ok n <-> xtext_accept pton4 pton6 s n).
Proof. exact xtextlen_iff. Qed.
Print Assumptions C14_xtext_iff.

(** Address literals.  In all theorems above the text inside the brackets is judged by the ORACLE pton4 / pton6
    (inet_pton of libc).  About the reference implementation the extracted model runs (Model/InetPton.v, glibc's
    algorithm, compared with libc by the differential run) the accepted language is proved:
    IPv4: exactly Snum "." Snum "." Snum "." Snum, Snum = decimal 0..255 without a leading zero ([dotted_quad];
    RFC 5321 would also allow 1*3DIGIT with leading zeros, glibc does not). *)
Theorem C14_ipv4_literal : forall s, pton4_ref s = true <-> dotted_quad s.
Proof. exact pton4_ref_iff. Qed.
Print Assumptions C14_ipv4_literal.

(** IPv6: exactly the grammar [ip6_text] of Spec/AddrGrammar.v -- groups of 1..4 hex digits separated by single
    colons, at most one "::" (which must stand for at least one group: with it fewer than 16 bytes may be written,
    without it exactly 16), optionally ending in a dotted quad worth 4 bytes; a leading or trailing single colon is
    refused.  (Wider than RFC 5321 IPv6-comp, which allows at most 6 groups around "::"; inet_pton allows 7, as
    RFC 4291 does.) *)
Theorem C14_ipv6_literal : forall s, pton6_ref s = true <-> ip6_text s.
Proof. exact pton6_ref_iff. Qed.
Print Assumptions C14_ipv6_literal.

(** the hypotheses are met by non-trivial inputs *)
Definition ex_line : bytes :=     (* @a.example.org,@b.example.org:Foo@Bar.example.com> x *)
  [64;97;46;101;120;97;109;112;108;101;46;111;114;103;44;64;98;46;101;120;97;109;112;108;101;46;111;114;103;58;
   70;111;111;64;66;97;114;46;101;120;97;109;112;108;101;46;99;111;109;62;32;120]%N.
Example C14_nonvacuous :
  ~ In 0%N ex_line
  /\ (exists r, addrsyntax pton4_ref pton6_ref (ex_line ++ [0%N]) 1 = Ok r /\ as_rc r = 3%Z
        /\ as_addr r = Some [102;111;111;64;98;97;114;46;101;120;97;109;112;108;101;46;99;111;109]%N
        /\ as_more r = Some 50)
  /\ domainvalid ([97;46;100;101;0]%N) = Ok 0 /\ fqdn_strict [97;46;100;101]%N
  /\ domainvalid (repeat 97%N 64 ++ [46;100;101;0]%N) = Ok 1
  /\ parseaddr pton4_ref pton6_ref [109;101;64;91;73;80;118;54;58;58;58;49;93;0]%N = Ok 4     (* me@[IPv6:::1] *)
  /\ xtextlen pton4_ref pton6_ref [43;51;67;43;51;69;0]%N = Ok 6%Z.                           (* +3C+3E *)
Proof.
  split; [vm_compute; intuition discriminate|].
  split; [eexists; split; [vm_compute; reflexivity|]; vm_compute; auto|].
  split; [vm_compute; reflexivity|].
  split; [apply Proofs.DomainProofs.fqdn_strict_b_iff; vm_compute; reflexivity|].
  repeat split; vm_compute; reflexivity.
Qed.

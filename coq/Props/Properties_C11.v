(** C11 — SPF evaluation is bounded, ends in an RFC 7208 result and cannot inject header text.
    Only statements here; proofs live in Proofs/Spf*.v.  The model (Model/Spf.v) is the code of
    qsmtpd/spf.c after the fixes in fixes/C11-*.diff (incl. C11-14: ptr names compared case-insensitively); resolver and macro expander are parameters. *)
From Qv Require Import Common.Bytes Gen.GenSpf Model.SpfBase Model.SpfEnv Model.SpfMacro Model.Spf Model.SpfZone Spec.SpfSpec
  Spec.SpfRfc Proofs.SpfSanitise Proofs.SpfCore Proofs.SpfHeader Proofs.SpfTheorems Proofs.SpfRfcWitness Proofs.SpfAgree Proofs.SpfRfcStrict.

(** Stage 1.  For every resolver [D] (any functions answering the five resolver entry points: all
    zones, cyclic include/redirect graphs, injected errors), every session [X], every sender domain
    and every macro expander that does not return OutOfFuel: check_host() terminates (the fuel of
    the recursion, limit + 2 levels, is never exhausted); the model of the core crashes only if
    the macro expander did (in particular spflookup(NULL) is unreachable); and the outcome
    satisfies [C11_outcome]: result in the RFC set, at most 10 DNS querying terms evaluated and
    "fail" when an 11th was refused, xmitstat.spfexp clean, Received-SPF well formed. *)
Theorem C11_check_host : forall D X makro,
  (forall t d e, makro t d e <> OutOfFuel) ->
  forall domain e0 m0, state_ok e0 m0 ->
  match check_host D X makro domain e0 m0 with
  | Ok (r, g) =>
      In r result_codes /\ (noloc D makro -> In r rfc_codes)
      /\ (count_terms (g_log g) <= RFC_TERM_LIMIT)%nat /\ (g_q g <= S RFC_TERM_LIMIT)%nat
      /\ ((RFC_TERM_LIMIT < g_q g)%nat -> r = SPF_FAIL)
      /\ state_ok (g_exp g) (g_mech g)
      /\ (sess_ok X = true -> forall spf h, spfreceived X spf g = Some h -> hdr_ok h = true)
  | Crash _ => exists t d e w, makro t d e = Crash w
  | OutOfFuel => False
  end.
Proof. exact check_host_correct. Qed.
Print Assumptions C11_check_host.

(** the same for the evaluator with the macro expander of Model/SpfMacro.v: no assumption left *)
Theorem C11_check_host_c : forall D X domain e0 m0, state_ok e0 m0 ->
  match check_host_c D X domain e0 m0 with
  | Ok (r, g) => C11_outcome D X (spf_makro D X) r g
  | Crash _ => exists t d e w, spf_makro D X t d e = Crash w
  | OutOfFuel => False
  end.
Proof. exact check_host_c_correct. Qed.
Print Assumptions C11_check_host_c.

(** the limit the code implements is the one of RFC 7208, 4.6.4 *)
Theorem C11_limit_is_rfc : SPF_TERM_LIMIT = RFC_TERM_LIMIT /\ RFC_TERM_LIMIT = 10%nat.
Proof. split; [exact limit_is_rfc|reflexivity]. Qed.
Print Assumptions C11_limit_is_rfc.

(** the other numbers of RFC 7208 the code tests against: at most 10 MX names (the code counts
    one too many: 10 names already fail) and 10 PTR names, prefix lengths up to 32 / 128, 253 octets
    of a name used for a lookup; and an included "fail" is kept exactly when the counter is over the limit *)
Theorem C11_rfc_constants :
  SPF_MX_LIMIT = 10%nat /\ SPF_PTR_LIMIT = 10%nat /\ CIDR4_MAX = 32%Z /\ CIDR6_MAX = 128%Z
  /\ IP4_PREFIX_MAX = 32%N /\ IP6_PREFIX_MAX = 128%N /\ SPF_TXT_MAXLEN = 253%Z
  /\ SPF_INCLUDE_KEEP_FAIL = SPF_TERM_LIMIT.
Proof. repeat split; reflexivity. Qed.
Print Assumptions C11_rfc_constants.

(** Stage 2.  record_bad_token(): for every text, what is stored for the Received-SPF comment is
    printable ASCII (33..126) without '(' ')' and backslash. *)
Theorem C11_bad_token_clean : forall tk, forallb comment_byte (record_bad_token tk) = true.
Proof. exact record_bad_token_clean. Qed.
Print Assumptions C11_bad_token_clean.

(** the exp= text: either dropped, or every byte is < 128 and the result is the text with every
    byte below 32 replaced by '%' — so 32..127 pass (DEL included), CR/LF/NUL/8-bit never *)
Theorem C11_exp_text_clean : forall s r, exp_sanitise s = Some r ->
  reply_text r = true /\ length r = length s
  /\ Forall2 (fun a b => (a < 128)%N /\ b = (if (a <? 32)%N then 37%N else a)) s r.
Proof.
  intros s r H. destruct (exp_sanitise_clean s r H) as [A B]. split; [exact A|]. split; [exact B|].
  exact (exp_sanitise_bytes s r H).
Qed.
Print Assumptions C11_exp_text_clean.

(** spfreceived() writes a well formed header field from any clean state *)
Theorem C11_received_spf_clean : forall X spf g h,
  sess_ok X = true -> exp_ok (g_exp g) = true -> mech_ok (g_mech g) ->
  spfreceived X spf g = Some h -> hdr_ok h = true.
Proof. exact spfreceived_clean. Qed.
Print Assumptions C11_received_spf_clean.

(** Stage 3 (only refuted here; what does hold is checked by the correspondence run, not proved).
    The full statement "for every zone and client the result is the one RFC 7208 prescribes
    (Spec/SpfRfc.v), wherever that reference gives one" is FALSE of the evaluator: *)
Theorem C11_rfc_agreement_refuted :
  ~ (forall D X domain r g, check_host_c D X domain None None = Ok (r, g) ->
                            rfc_agrees (rfc_check_host D X domain) r = true).
Proof. exact rfc_agreement_refuted. Qed.
Print Assumptions C11_rfc_agreement_refuted.

(** one witness per known class of deviation (known_findings: F-C11-2, -10, -11, -12, -13) *)
Theorem C11_rfc_deviation_witnesses :
  (result_of (check_host_c w2_zone (w_sess w_v4 []) w_name None None) = Some SPF_PERMERROR
   /\ rfc_check_host w2_zone (w_sess w_v4 []) w_name = RCode SPF_PASS)
  /\ (result_of (check_host_c w10_zone (w_sess w_v4 []) w_name None None) = Some SPF_FAIL
      /\ rfc_check_host w10_zone (w_sess w_v4 []) w_name = RCode SPF_PASS)
  /\ (result_of (check_host_c w11_zone (w_sess w_v4 []) w_name None None) = Some SPF_FAIL
      /\ rfc_check_host w11_zone (w_sess w_v4 []) w_name = RCode SPF_PERMERROR)
  /\ (result_of (check_host_c w12_zone (w_sess w_v4 [114%N]) w_name None None) = Some SPF_TEMPERROR
      /\ rfc_check_host w12_zone (w_sess w_v4 [114%N]) w_name = RCode SPF_NEUTRAL)
  /\ (result_of (check_host_c w13_zone (w_sess 42540766411282592856903984951653826561%N []) w_name None None) = Some SPF_PERMERROR
      /\ rfc_check_host w13_zone (w_sess 42540766411282592856903984951653826561%N []) w_name = RCode SPF_NEUTRAL).
Proof.
  exact (conj witness_prefix_below_8 (conj witness_mx_hosts_10 (conj witness_redirect_no_record
        (conj witness_ptr_dns_error witness_ip6_unspecified)))).
Qed.
Print Assumptions C11_rfc_deviation_witnesses.

(** Stage 3, the part that IS proved.  For every resolver [D] (all zones), every session [X] (client
    address, sender, HELO, reverse name) and every sender domain: if the zone is in the class
    [in_class D X domain] — a decidable predicate: evaluating it by RFC 7208 for this client meets no
    record outside the strict macro-free grammar of Spec/SpfRfc.v, no resolver error RFC 7208 has no
    result for (local / permanent errors; temporary ones are in), no invalid initial domain, and none
    of the known deviations F-C11-2 (ip4/ip6 length < 8), F-C11-10 (10 or more MX hosts), F-C11-11
    (redirect to a domain without record), F-C11-12 (DNS error of the PTR lookup), F-C11-13 ("ip6:::") — then check_host() of the model (the one
    tied to qsmtpd/spf.c, with the macro expander of Model/SpfMacro.v) returns exactly the result of
    the RFC 7208 evaluator: pass / fail / softfail / neutral as the first matching mechanism dictates
    (all, ip4, ip6, a, mx, ptr, exists, include with its result mapping, redirect), none without a
    record, permerror for more than one record or duplicate redirect / exp, temperror on a temporary
    DNS failure, unknown modifiers and exp ignored; and "fail" where RFC 7208 says the limit of 10
    DNS terms is exceeded (RLimit).  Records with syntax errors are NOT in the class (they make the
    reference answer RSkip): there qsmtpd/spf.c is known to differ (it stops at the first match). *)
Theorem C11_rfc_agreement_partial : forall D X domain e0 m0 r g,
  check_host_c D X domain e0 m0 = Ok (r, g) -> in_class D X domain = true ->
  match rfc_check_host D X domain with
  | RCode z => r = z
  | RLimit => r = SPF_FAIL
  | RSkip => False
  end.
Proof. exact rfc_agreement_partial. Qed.
Print Assumptions C11_rfc_agreement_partial.

(** the class is defined through the reference evaluator with its [strict] switch on; what that
    evaluator answers is what the plain RFC 7208 evaluator answers, or RSkip *)
Theorem C11_strict_reference_is_rfc : forall D X domain,
  rfc_check_host_strict D X domain = RSkip \/ rfc_check_host_strict D X domain = rfc_check_host D X domain.
Proof. exact strict_is_rfc. Qed.
Print Assumptions C11_strict_reference_is_rfc.

(** the class is not empty: a zone with ip4, a with CIDR, include, mx, ~all, evaluated for two clients,
    and the cyclic zone of the non-vacuity example (limit exceeded) *)
Example C11_agreement_nonvacuous :
  (in_class wc_zone (w_sess w_v4 []) w_name = true
   /\ rfc_check_host wc_zone (w_sess w_v4 []) w_name = RCode SPF_PASS
   /\ result_of (check_host_c wc_zone (w_sess w_v4 []) w_name None None) = Some SPF_PASS)
  /\ (in_class wc_zone (w_sess 281470698652999%N []) w_name = true
      /\ rfc_check_host wc_zone (w_sess 281470698652999%N []) w_name = RCode SPF_SOFTFAIL
      /\ result_of (check_host_c wc_zone (w_sess 281470698652999%N []) w_name None None) = Some SPF_SOFTFAIL)
  /\ (in_class ex_zone ex_sess ex_name = true /\ rfc_check_host ex_zone ex_sess ex_name = RLimit).
Proof.
  split; [exact class_example_pass|]. split; [exact class_example_softfail|]. split; vm_compute; reflexivity.
Qed.

(** non-vacuity: a record that includes itself is evaluated, 10 terms deep, and fails *)
Example C11_nonvacuous :
  state_ok None None
  /\ exists g, check_host_c ex_zone ex_sess ex_name None None = Ok (SPF_FAIL, g)
               /\ count_terms (g_log g) = 10%nat /\ g_q g = 11%nat /\ length (queries_of (g_log g)) = 11%nat.
Proof. split; [split; [reflexivity|exact I]|exact example_cycle]. Qed.

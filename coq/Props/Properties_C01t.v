(** C01 - no open relay, third entitlement: "... or it presented a TLS client certificate that verifies against
    clientca.pem and whose address is listed in control/tlsclients."  Statements only; proofs in Proofs/TlsVerifyProofs.v.

    Model/TlsVerify.v is a literal model of tls_verify() + tls_check_cert() (qsmtpd/starttls.c) and of is_authenticated()
    (qsmtpd/commands.c).  OpenSSL, the file system and the network are oracles, one record [env] per call; the theorems
    hold for ALL oracle values, all start states and all sequences of calls.  The only assumption, [netw_ok], is the
    contract of net_writen() (0 or -errno, never positive), whose result tls_out() passes on.
    [cert_entitles e name] (Spec/TlsVerifySpec.v) is the right-hand side of the property. *)
From Qv Require Import Common.Bytes Gen.GenTlsVerify Model.TlsVerify Spec.TlsVerifySpec Proofs.TlsVerifyProofs.
Local Open Scope Z_scope.

(** tls_verify() > 0 ONLY IF TLS is active, the check has not run before on this connection, the client is not
    authenticated otherwise, and the oracles entitle: tlsclients was read and is a list, the CA file was loaded, the session
    id context was set, the rehandshake succeeded, the verification result is X509_V_OK, a certificate is present, and its
    emailAddress (without one: its commonName) is octet for octet an entry of tlsclients.  Then the result is 1,
    xmitstat.tlsclient is that name, ssl_verified is set and relayclient is untouched. *)
Theorem C01t_verify_positive_only_if : forall e st r st' lg,
  netw_ok e -> tls_verify e st = (Ret r, st', lg) -> 0 < r ->
  r = 1 /\ e_tls e = true /\ verified st = false /\ e_auth e = false /\ tlsclient st = None /\
  verified st' = true /\ relay st' = relay st /\
  exists name, cert_entitles e name /\ tlsclient st' = Some name.
Proof. exact verify_positive_only_if. Qed.
Print Assumptions C01t_verify_positive_only_if.

(** and IF: on a connection where the check has not run, an entitling certificate is accepted (the model is not vacuous:
    the function computes exactly the specification) *)
Theorem C01t_verify_complete : forall e st name,
  e_tls e = true /\ verified st = false /\ authed e st = false -> cert_entitles e name ->
  tls_verify e st = (Ret 1, {| verified := true; tlsclient := Some name; relay := relay st |}, [LL; LA; LI; LH; LV; LP; LD]).
Proof. exact verify_complete. Qed.
Print Assumptions C01t_verify_complete.

(** a name with an embedded NUL octet never matches: whatever stands in front of the NUL (e.g. a listed address) and
    whatever tlsclients contains, the result is not positive and xmitstat.tlsclient stays as it was *)
Theorem C01t_embedded_nul_never_matches : forall e st o st' lg subj name,
  netw_ok e -> e_peer e = Some subj -> spec_name subj = Some name -> In 0%N name ->
  tls_verify e st = (o, st', lg) -> (forall r, o = Ret r -> r <= 0) /\ tlsclient st' = tlsclient st.
Proof. exact embedded_nul_never_matches. Qed.
Print Assumptions C01t_embedded_nul_never_matches.

(** fails closed: no TLS, unreadable tlsclients (loadlistfd < 0), no / empty tlsclients, CA file not loaded, session id
    context not set, failed rehandshake, verification result other than X509_V_OK, no certificate, failed strdup:
    never a positive result, xmitstat.tlsclient not set *)
Theorem C01t_fails_closed : forall e st o st' lg,
  netw_ok e ->
  (e_tls e = false \/ (exists en, e_list e = LErr en) \/ e_list e = LNull \/ e_ca e = false \/ e_sid e <> 1 \/ e_hs e < 0 \/
   e_verify e <> TV_X509_V_OK \/ e_peer e = None \/ e_dup e = false) ->
  tls_verify e st = (o, st', lg) ->
  (forall r, o = Ret r -> r <= 0) /\ tlsclient st' = tlsclient st.
Proof. exact fails_closed. Qed.
Print Assumptions C01t_fails_closed.

(** xmitstat.tlsclient is set exactly when the result is positive *)
Theorem C01t_tlsclient_set_exactly_then : forall e st o st' lg,
  netw_ok e -> tls_verify e st = (o, st', lg) ->
  (tlsclient st' <> tlsclient st <-> exists r, o = Ret r /\ 0 < r).
Proof. exact tlsclient_set_exactly_then. Qed.
Print Assumptions C01t_tlsclient_set_exactly_then.

(** with ssl_verified set the function returns 0 at once: no oracle is consulted, nothing changes (no assumption at all) *)
Theorem C01t_checked_once : forall e st, verified st = true -> tls_verify e st = (Ret 0, st, []).
Proof. exact checked_once. Qed.
Print Assumptions C01t_checked_once.

(** for every sequence of events on a connection - calls of tls_verify() / is_authenticated() (several RCPT TO in a row)
    and ends of transactions (OpFree: what freedata() does, i.e. RSET, HELO/EHLO, DATA, a new MAIL FROM) - and every oracle:
    once ssl_verified is set - after the first check, whatever it gave, in particular an error or "no" - no later call
    runs the check again and none gives xmitstat.tlsclient a name it did not have: a negative first result is not
    retried into a positive one *)
Theorem C01t_no_retry : forall cs st,
  verified st = true ->
  Forall (fun res => verified (snd (fst res)) = true /\
                     (forall n, tlsclient (snd (fst res)) = Some n -> tlsclient st = Some n) /\ ~ In LL (snd res)) (run cs st).
Proof. exact no_retry. Qed.
Print Assumptions C01t_no_retry.

(** ... and the check (letter L: loadlistfd of tlsclients, followed by the rehandshake) runs in at most one call *)
Theorem C01t_check_at_most_once : forall cs st,
  (length (filter (fun res => ran_check (snd res)) (run cs st)) <= 1)%nat.
Proof. exact check_at_most_once. Qed.
Print Assumptions C01t_check_at_most_once.

(** is_authenticated(): an error result (< 0), or a process that dies in dieerror(), never leaves relayclient = 1
    (no assumption on any oracle) *)
Theorem C01t_error_never_entitles : forall e st o st' lg,
  is_authenticated e st = (o, st', lg) -> failed o = true -> relay st' <> 1.
Proof. exact error_never_entitles. Qed.
Print Assumptions C01t_error_never_entitles.

(** is_authenticated(): relayclient is 1 afterwards only if it was 1 before, or it was 0 and the relay list lookup was
    positive, or the certificate entitled in this very call (and then xmitstat.tlsclient is the name) *)
Theorem C01t_relayclient_only_if : forall e st o st' lg,
  netw_ok e -> is_authenticated e st = (o, st', lg) -> relay st' = 1 ->
  relay st = 1 \/ (relay st = 0 /\ 0 < e_ipbl e /\ authed e st = false) \/
  (exists name, cert_entitles e name /\ tlsclient st' = Some name /\ verified st = false /\ authed e st = false /\ In LL lg).
Proof. exact relayclient_only_if. Qed.
Print Assumptions C01t_relayclient_only_if.

(** is_authenticated() > 0 only for a client that is authenticated (AUTH name or certificate name) or with relayclient = 1 *)
Theorem C01t_is_authenticated_positive_only_if : forall e st r st' lg,
  netw_ok e -> is_authenticated e st = (Ret r, st', lg) -> 0 < r ->
  r = 1 /\ (authed e st = true \/ relay st' = 1).
Proof. exact is_authenticated_positive_only_if. Qed.
Print Assumptions C01t_is_authenticated_positive_only_if.

(** the whole connection, from any start state: whenever xmitstat.tlsclient is a name after some call, that name was
    there at the start or one of the calls had entitling oracles for exactly that name; whenever relayclient is 1, it
    was 1 at the start or an is_authenticated() call had a positive relay list lookup or an entitling certificate.
    From [st_init] (tlsclient = NULL, relayclient = 0) the first alternatives are impossible. *)
Theorem C01t_connection : forall cs st,
  Forall (fun oe => netw_ok (snd oe)) cs ->
  Forall (fun res =>
            (forall name, tlsclient (snd (fst res)) = Some name ->
               tlsclient st = Some name \/ exists oe, In oe cs /\ cert_entitles (snd oe) name)
            /\ (relay (snd (fst res)) = 1 ->
               relay st = 1 \/ exists oe, In oe cs /\ fst oe = OpIsAuth /\ (0 < e_ipbl (snd oe) \/ exists name, cert_entitles (snd oe) name)))
         (run cs st).
Proof. exact connection. Qed.
Print Assumptions C01t_connection.

(** the checker that judges the C output (spec mode of the driver) accepts every run of the model: a "bad" on the
    implementation is a deviation from the proved behaviour *)
Theorem C01t_checker_sound : forall cs st,
  pre_ok cs = true -> spec_ok_C01t cs st (map obs_of (run cs st)) = true.
Proof. exact checker_sound. Qed.
Print Assumptions C01t_checker_sound.

(** ------------------------------------------------------------------ non-vacuity *)

Definition ex_env (subj : subject) : env :=
  {| e_tls := true; e_auth := false; e_ipbl := 0; e_list := LList [[97; 64; 98; 46; 99]; [120; 64; 121]]%N; e_ca := true; e_sid := 1; e_hs := 0;
     e_verify := 0; e_peer := Some subj; e_dup := true; e_netw := 0 |}.

(** emailAddress a@b.c, listed: RCPT TO runs is_authenticated(), relayclient becomes 1; a second call does not ask again *)
Example C01t_nonvacuous :
  map (fun res => (fst (fst res), relay (snd (fst res)), tlsclient (snd (fst res)), snd res))
      (run [(OpIsAuth, ex_env [(1, [97; 64; 98; 46; 99])]%N); (OpIsAuth, ex_env [(1, [97; 64; 98; 46; 99])]%N)] st_init)
  = [(Ret 1, 1, Some [97; 64; 98; 46; 99]%N, [LB; LL; LA; LI; LH; LV; LP; LD]); (Ret 1, 1, Some [97; 64; 98; 46; 99]%N, [])].
Proof. vm_compute. reflexivity. Qed.

(** emailAddress "a@b.c<NUL>evil": not entitled, and a later call with a good certificate is not looked at any more;
    commonName listed but an (unlisted) emailAddress present: not entitled; unreadable tlsclients (EACCES): error -13, relayclient stays 2 *)
Example C01t_nonvacuous_negative :
  map (fun res => (fst (fst res), relay (snd (fst res)), tlsclient (snd (fst res))))
      (run [(OpIsAuth, ex_env [(1, [97; 64; 98; 46; 99; 0; 101; 118; 105; 108])]%N); (OpIsAuth, ex_env [(1, [97; 64; 98; 46; 99])]%N)] st_init)
  = [(Ret 0, 2, None); (Ret 0, 2, None)]
  /\ fst (fst (tls_verify (ex_env [(1, [113; 64; 113]); (2, [97; 64; 98; 46; 99])]%N) st_init)) = Ret 0
  /\ fst (fst (tls_verify (ex_env [(2, [97; 64; 98; 46; 99])]%N) st_init)) = Ret 1
  /\ map (fun res => (fst (fst res), relay (snd (fst res))))
         (run [(OpIsAuth, {| e_tls := true; e_auth := false; e_ipbl := 0; e_list := LErr 13; e_ca := true; e_sid := 1; e_hs := 0;
                             e_verify := 0; e_peer := None; e_dup := true; e_netw := 0 |})] st_init) = [(Ret (-13), 2)].
Proof. vm_compute. repeat split; reflexivity. Qed.

(** the end of the transaction forgets the name (freedata) but not the entitlement: relayclient stays 1, the next
    RCPT TO is answered from it without consulting anything *)
Example C01t_nonvacuous_transactions :
  map (fun res => (fst (fst res), relay (snd (fst res)), tlsclient (snd (fst res)), snd res))
      (run [(OpIsAuth, ex_env [(1, [97; 64; 98; 46; 99])]%N); (OpFree, ex_env []); (OpIsAuth, ex_env [])] st_init)
  = [(Ret 1, 1, Some [97; 64; 98; 46; 99]%N, [LB; LL; LA; LI; LH; LV; LP; LD]); (Ret 0, 1, None, []); (Ret 1, 1, None, [])].
Proof. vm_compute. reflexivity. Qed.

(** C20 — Qremote target choice: MX order, each address once, never itself.
    Only statements here; proofs live in Proofs/Mx*Proofs.v. *)
From Coq Require Import List NArith ZArith Bool Sorting.Permutation Sorting.Sorted.
From Qv Require Import Common.Bytes Gen.GenMx Model.Mx Model.MxRoute Model.MxDns
  Spec.MxSpec Spec.MxRouteSpec Spec.MxDnsSpec
  Gen.GenNetio Gen.GenQremote Gen.GenStarttls Model.NetRead Model.TlsClient Model.QrConnect Model.MxConnect Spec.MxConnectSpec
  Proofs.MxSortProofs Proofs.MxConnProofs Proofs.MxFilterProofs Proofs.MxRouteProofs Proofs.MxDnsProofs
  Proofs.QrConnectProofs Proofs.MxConnectProofs Proofs.MxSortComplete
  Model.InetPton Model.InetPtonVal Model.MxRouteKeys Spec.MxRouteKeysSpec Proofs.InetPtonValProofs Proofs.MxRouteKeysProofs.
Import ListNotations.

(** sortmx (with fixes/C20-sortmx-v6first.diff applied): for every non-empty list of MX entries
    that all have an address it does not crash and returns a rearrangement of the list (same
    entries, same addresses inside each entry) in which preference values ascend, at equal
    preference no IPv4-only entry stands before an entry that contains an IPv6 address, and
    inside each entry all IPv6 addresses precede all IPv4 addresses. *)
Theorem C20_sortmx : forall l,
  l <> [] -> Forall nonempty l ->
  exists out, sortmx l = Ok out /\ sort_spec l out.
Proof. exact sortmx_correct. Qed.
Print Assumptions C20_sortmx.

(** ... and the sort is stable: entries of the same preference and the same family class keep
    the order DNS delivered them in. *)
Theorem C20_sortmx_stable : forall l p v6,
  l <> [] -> Forall nonempty l ->
  exists out, sortmx l = Ok out /\
    filter (same_class p v6) out = filter (same_class p v6) (map sort_entry l).
Proof. exact sortmx_stable. Qed.
Print Assumptions C20_sortmx_stable.

(** the boolean checker that is run on the outputs of the C sortmx DECIDES the specification above: it
    accepts a list exactly when it is a rearrangement of the input that ascends in preference with
    IPv6-containing entries before IPv4-only ones at equal preference and IPv6 addresses first inside each
    entry.  So it accepts every order a correct sort may produce, stable or not; that sortmx() yields the
    STABLE one among them is C20_sortmx_stable for the model and the differential run for the C. *)
Theorem C20_spec_checker_sound : forall inp out,
  spec_ok_C20_sort inp out = true -> sort_spec inp out.
Proof. exact spec_ok_sort_sound. Qed.
Print Assumptions C20_spec_checker_sound.

Theorem C20_spec_checker_complete : forall inp out,
  spec_ok_C20_sort inp out = true <-> sort_spec inp out.
Proof. exact spec_ok_sort_iff. Qed.
Print Assumptions C20_spec_checker_complete.

(** in particular no false alarm on what sortmx() returns *)
Theorem C20_spec_checker_accepts_sortmx : forall l,
  l <> [] -> Forall nonempty l -> exists out, sortmx l = Ok out /\ spec_ok_C20_sort l out = true.
Proof. exact checker_accepts_sortmx. Qed.
Print Assumptions C20_spec_checker_accepts_sortmx.

(** tryconn, called any number of times (connect_mx calls it again after a failed greeting or
    EHLO) on a list on which nothing has been tried, for every sequence of connect() outcomes:
    no crash, and what happens is what the reference [ref_calls] says — candidates are taken in
    list order, one connect() outcome each, a call returns at the first success and answers
    -ENOENT when nothing is left.  Hence every address is attempted at most once and in order
    (the attempts are an initial segment of the candidates), -ENOENT is only answered once every
    address was attempted, and the IPv4 outgoing address is bound exactly for v4-mapped targets. *)
Theorem C20_tryconn_once : forall l cs0 oracle n,
  Forall fresh l ->
  exists s outs,
    tryconn_calls n (mkst l cs0 oracle) = Ok (s, outs)
    /\ outs = ref_calls n (flat_targets l) oracle
    /\ once_in_order l outs
    /\ noent_only_when_exhausted l outs
    /\ binds_right_family outs.
Proof. exact tryconn_once. Qed.
Print Assumptions C20_tryconn_once.

(** filter_my_ips (getifaddrs() succeeded): exactly the addresses that an interface address
    declares local are removed (v4-mapped: equal to an AF_INET interface address, or 127/8, or
    0.0.0.0, as soon as one AF_INET interface exists; otherwise equal to an AF_INET6 interface
    address), order is kept, entries that lose all addresses disappear; so no local address is left. *)
Theorem C20_not_me : forall ifs l,
  Forall nonempty l ->
  filter_my_ips false ifs l = Ok (filter_ref ifs l) /\ no_me ifs (filter_ref ifs l).
Proof. exact filter_my_ips_correct. Qed.
Print Assumptions C20_not_me.

(** the sequence of main() on port 25: either every address is local (Qremote reports that all
    mail exchangers point back to it and connects nowhere), or the filtered list is sorted as
    specified, connection attempts follow the sorted list once each in order, -ENOENT comes
    only after all of them, and no attempted address is a local one. *)
Theorem C20_targets : forall ifs l cs0 oracle n,
  l <> [] -> Forall fresh l ->
  (filter_ref ifs l = [] /\ qremote_targets FILTER_PORT false ifs l cs0 oracle n = Ok AllMe)
  \/
  exists l2 s outs,
    qremote_targets FILTER_PORT false ifs l cs0 oracle n = Ok (Tried (filter_ref ifs l) l2 s outs)
    /\ sort_spec (filter_ref ifs l) l2
    /\ outs = ref_calls n (flat_targets l2) oracle
    /\ once_in_order l2 outs
    /\ noent_only_when_exhausted l2 outs
    /\ Forall (fun a => is_me ifs a = false) (all_attempts outs).
Proof. exact qremote_targets_correct. Qed.
Print Assumptions C20_targets.

(** smtproute(), for every configuration (does control/smtproutes.d exist, which files with which
    content does it hold, content of control/smtproutes, which relay names resolve) and every target
    name of at most 254 octets: no crash, and the answer is [route_ref] — if the directory exists,
    the first of  name, "*" + each dot suffix of name (longest first), "default"  that exists as a
    file decides alone (control/smtproutes and all other files are not consulted); otherwise the
    first syntactically valid line of control/smtproutes whose pattern is empty or matches decides;
    otherwise there is no route and the port is 25. *)
Theorem C20_route_order : forall (cfg : route_cfg) (remhost : bytes),
  length remhost <= 254 -> smtproute cfg remhost = Ok (route_ref cfg remhost).
Proof. exact smtproute_order. Qed.
Print Assumptions C20_route_order.

(** an empty relay means "use DNS": the answer then never carries relay addresses, and a port
    given next to it (digits, 1..65535) is the port of the answer *)
Theorem C20_route_empty_relay : forall cfg,
  (forall port, match parse_route_params cfg None port with Route (Some _) _ => False | _ => True end)
  /\ (forall p v, strtoul_uint p = (v, []) -> (0 < v < ROUTE_PORT_LIMIT)%N ->
                  parse_route_params cfg None (Some p) = Route None v).
Proof. intros cfg. split; [apply no_relay_no_mx|apply no_relay_keeps_port]. Qed.
Print Assumptions C20_route_empty_relay.

(** ask_dnsmx() over an arbitrary resolver (which names have addresses, which fail how, which MX
    records with 16-bit preferences exist): when it answers with a list, the list is not empty and
    every entry has an address and a priority tryconn counts as "not yet tried" (<= 65536; the
    implicit MX gets exactly 65536); with MX records present the list is exactly the records whose
    names have addresses, each with its own preference and all its addresses. *)
Theorem C20_dnsmx : forall tab flag recs name l,
  prio16 recs -> ask_dnsmx tab flag recs name = MxList l ->
  l <> [] /\ Forall fresh l /\ (flag = 0%N -> recs <> [] -> l = dnsmx_list_ref tab recs).
Proof.
  intros tab flag recs name l Hp H. destruct (ask_dnsmx_fresh tab flag recs name l Hp H) as [H1 H2].
  split; [exact H1|]. split; [exact H2|]. intros -> Hne. eapply ask_dnsmx_records; eassumption.
Qed.
Print Assumptions C20_dnsmx.

(** getmxlist() (target not an address literal): routes first — a route with a relay yields the
    relay's addresses and DNS MX is not consulted, a route without relay or no route yields the
    DNS answer, the port is always the route's; and whatever list comes out satisfies the
    preconditions of the sort and connect theorems. *)
Theorem C20_getmxlist : forall cfg tab flag recs (remhost : bytes),
  length remhost <= 254 -> prio16 recs ->
  getmxlist cfg tab flag recs remhost = Ok (getmxlist_ref cfg tab flag recs remhost)
  /\ (forall l port, getmxlist_ref cfg tab flag recs remhost = GList l port -> l <> [] /\ Forall fresh l).
Proof.
  intros cfg tab flag recs remhost Hl Hp. split; [apply getmxlist_spec; exact Hl|].
  intros l port H. eapply getmxlist_ref_fresh; eassumption.
Qed.
Print Assumptions C20_getmxlist.

(** the whole path getmxlist(); filter (port 25); sortmx; tryconn...: it never crashes and ends in
    [main_ok]: Qremote gives up exactly when the route is broken or DNS has no usable answer, reports
    "all point back to me" exactly when filtering on port 25 leaves nothing, and otherwise tries the
    sorted (filtered) list once each in order on the route's port, never a local address on port 25,
    -ENOENT only after all. *)
Theorem C20_main : forall cfg tab flag recs (remhost : bytes) gia ifs cs0 oracle n,
  length remhost <= 254 -> prio16 recs ->
  exists r, qremote_main cfg tab flag recs remhost gia ifs cs0 oracle n = Ok r
            /\ main_ok cfg tab flag recs remhost gia ifs oracle n r.
Proof. exact qremote_main_correct. Qed.
Print Assumptions C20_main.

(* ---------------------------------------------------------------------------------------------
   All keys of a smtproutes.d file and address literals (Model/MxRouteKeys.v; doc/man/Qremote.8). *)

(** the value-producing model of glibc's inet_pton yields an address exactly when C14's validity model
    (proved equivalent to the textual grammar in Proofs/LiteralEquiv.v) accepts the text *)
Theorem C20_inet_pton_value : forall s,
  is_some (pton4_val s) = pton4_ref s /\ is_some (pton6_val s) = pton6_ref s.
Proof. intros s. split; [apply pton4_val_valid|apply pton6_val_valid]. Qed.
Print Assumptions C20_inet_pton_value.

(** smtproute() with all keys, for every configuration, certificate-file oracle and target name <= 254 octets:
    no crash, and the answer — relay, port, whether the relay entry is named, expect_tls, certificate, key,
    outgoing addresses, or the error class — is [route_ref_x]: "Only values from one file are considered":
    the first existing file in the documented order decides everything, control/smtproutes otherwise *)
Theorem C20_route_keys_order : forall (cfg : route_cfg) (ke : key_env) (remhost : bytes),
  length remhost <= 254 -> smtproute_x cfg ke remhost = Ok (route_ref_x cfg ke remhost).
Proof. exact smtproute_x_order. Qed.
Print Assumptions C20_route_keys_order.

(** ... and it extends the relay/port statement C20_route_order: forgetting the settings gives the same answer *)
Theorem C20_route_keys_erase : forall cfg ke h,
  route_ref cfg h <> RouteOther -> erase_x (route_ref_x cfg ke h) = route_ref cfg h.
Proof. exact route_ref_x_erase. Qed.
Print Assumptions C20_route_keys_erase.

(** what a file whose keys all pass leaves behind / what it takes to pass (missing key: setting untouched;
    clientcert, clientkey: readable files; expect_tls: clientcert in a non-default file; outgoingip: dotted quad,
    stored v4-mapped — an IPv6 text is an error; outgoingip6: IPv6 text that is not v4-mapped) *)
Theorem C20_route_keys_meaning : forall ke d mask lines s,
  eval_keys ke d mask lines = inr s ->
  s_cert s = key_value mask lines 2 /\ s_key s = key_value mask lines 3
  /\ (forall f, key_value mask lines 2 = Some f -> mem_bytes f (k_readable ke) = true)
  /\ (forall f, key_value mask lines 3 = Some f -> mem_bytes f (k_readable ke) = true)
  /\ s_expect_tls s = (match key_value mask lines 2 with Some _ => negb d | None => false end)
  /\ (key_value mask lines 4 = None -> s_oip s = None)
  /\ (forall t, key_value mask lines 4 = Some t ->
        pton4_ref t = true /\ exists q, pton4_val t = Some q /\ s_oip s = Some ([0; 0; 0; 0; 0; 0; 0; 0; 0; 0; 255; 255]%N ++ q))
  /\ (key_value mask lines 5 = None -> s_oip6 s = None)
  /\ (forall t, key_value mask lines 5 = Some t ->
        pton6_ref t = true /\ exists a, pton6_val t = Some a /\ is_v4mapped a = false /\ s_oip6 s = Some a).
Proof. exact eval_keys_ok. Qed.
Print Assumptions C20_route_keys_meaning.

(** an invalid value is an ERROR (err_confn: Qremote terminates), never ignored; the error reported is that of
    the first offending key in the order clientcert, clientkey, outgoingip, outgoingip6 *)
Theorem C20_route_keys_errors : forall ke d mask lines,
  match eval_keys ke d mask lines with
  | inl c =>
      (c = F_CERT /\ check_file ke (key_value mask lines 2) F_CERT = Some F_CERT)
      \/ (c = F_KEY /\ check_file ke (key_value mask lines 2) F_CERT = None /\ check_file ke (key_value mask lines 3) F_KEY = Some F_KEY)
      \/ (c = F_OIP /\ check_file ke (key_value mask lines 2) F_CERT = None /\ check_file ke (key_value mask lines 3) F_KEY = None
          /\ check_oip (key_value mask lines 4) = inl F_OIP)
      \/ ((c = F_OIP6 \/ c = F_OIP6_V4) /\ check_file ke (key_value mask lines 2) F_CERT = None
          /\ check_file ke (key_value mask lines 3) F_KEY = None /\ (exists o, check_oip (key_value mask lines 4) = inr o)
          /\ check_oip6 (key_value mask lines 5) = inl c)
  | inr _ => True
  end.
Proof. exact eval_keys_error_order. Qed.
Print Assumptions C20_route_keys_errors.

(** duplicate keys (the man page: "forbidden"): the code rejects the later line only (logged as invalid entry,
    dropped), keeps using the file, and the value of the FIRST line counts *)
Theorem C20_route_duplicate_keys :
  (forall mask line i, validroute [] line = Some [i] -> In i mask -> validroute mask line = None)
  /\ (forall line rest i v,
        validroute [] line = Some [i] -> line = nth i ROUTE_TAGS [] ++ EQSIGN :: v ->
        let '(mask, lines) := load_valid [] (line :: rest) in key_value mask lines i = Some v).
Proof. split; [exact validroute_duplicate|exact first_value_wins]. Qed.
Print Assumptions C20_route_duplicate_keys.

(** "clientkey: if not given clientcert is used" *)
Theorem C20_route_key_name : forall s,
  key_name s = match s_key s, s_cert s with
               | Some k, _ => k
               | None, Some c => c
               | None, None => if s_defkey s then ROUTE_DEFAULT_KEY else ROUTE_DEFAULT_CERT
               end.
Proof. exact key_name_rule. Qed.
Print Assumptions C20_route_key_name.

(** an address literal "[text]" as target is accepted exactly for an IPv6 text or a dotted quad; then
    smtproutes.d, smtproutes and DNS are not consulted whatever they contain: one unnamed entry with that
    address, port 25, no settings; a malformed literal is "Z4.3.0 parse error in first argument" *)
Theorem C20_target_literal :
  (forall inner, (exists a, target_literal (LBRACKET :: inner ++ [RBRACKET]) = Some (Some a))
                 <-> pton6_ref inner || pton4_ref inner = true)
  /\ (forall cfg tab flag recs remhost a, target_literal remhost = Some (Some a) ->
        getmxlist_x cfg tab flag recs remhost = Ok (GList [mkmx 0 253 [a]] DEFAULT_PORT))
  /\ (forall cfg tab flag recs remhost, target_literal remhost = Some None ->
        getmxlist_x cfg tab flag recs remhost = Ok (GDie 3))
  /\ (forall cfg tab flag recs remhost, target_literal remhost = None ->
        getmxlist_x cfg tab flag recs remhost = getmxlist cfg tab flag recs remhost).
Proof.
  split; [exact target_literal_accepts|]. split; [exact literal_skips_routes|]. split; [exact literal_malformed|exact nonliteral_same].
Qed.
Print Assumptions C20_target_literal.

(** the two rules as they were before fixes/C20-relay-literal-name.diff and fixes/C20-default-clientkey.diff *)
Theorem C20_relay_literal_name :
  relay_named_old W_host4 [W_v4] = true
  /\ forall host al, pton6_ref host || pton4_ref host = true -> relay_named host al = false.
Proof. exact relay_literal_name_old_vs_fixed. Qed.
Print Assumptions C20_relay_literal_name.

Theorem C20_default_clientkey : forall cfg ke,
  dir_exists cfg = true -> k_defkey ke = true ->
  key_name (line_settings_old cfg ke) = ROUTE_DEFAULT_CERT /\ key_name (line_settings cfg ke) = ROUTE_DEFAULT_KEY.
Proof. exact default_key_old_vs_fixed. Qed.
Print Assumptions C20_default_clientkey.

(* ---------------------------------------------------------------------------------------------
   The last clause: connect_mx() over the real tryconn() (Model/MxConnect.v = QrConnect's transcription
   of connect_mx() — greeting, EHLO/HELO, STARTTLS, QUIT paths at byte level — with its tryconn oracle
   replaced by Model/Mx.v's tryconn). *)

(** composition: on the list getmxlist/sortmx hand over, with a scripted server for every connection that
    comes about, the run of connect_mx() IS QrConnect's run on the servers of exactly those candidates
    whose connect() succeeds, in list order; connect() is called for an initial segment of the candidates
    (each at most once, in sortmx order: a refused connection, a failed greeting, EHLO/HELO or STARTTLS
    step all lead to the NEXT candidate); and the loop ends with -ENOENT only after the last one. *)
Theorem C20_connect_compose : forall fe fd all l cs0 oracle servers k s,
  Forall fresh l ->
  length (conn_ids (flat_targets l) oracle) <= length servers ->
  exists n,
    connect_mx_c (S (S (total_addrs l))) fe fd all k (mkst l cs0 oracle) servers [] s
    = (connect_mx_q fe fd all k (reached servers (conn_ids (flat_targets l) oracle)) s,
       map att_of (firstn n (flat_targets l)))
    /\ (forall s', connect_mx_q fe fd all k (reached servers (conn_ids (flat_targets l) oracle)) s = Ret None s'
                   -> n = length (flat_targets l)).
Proof. exact connect_compose. Qed.
Print Assumptions C20_connect_compose.

(** each candidate at most once, in order, whatever the servers do *)
Theorem C20_connect_once : forall fe fd k,
  pre_connect k ->
  exists n, snd (connect_phase_c fe fd k) = map att_of (firstn n (flat_targets (m_list k))).
Proof. exact connect_once. Qed.
Print Assumptions C20_connect_once.

(** "Z4.4.2 can't connect to any server" (connect_mx() returning -ENOENT) only after every candidate was tried *)
Theorem C20_connect_noent_after_all : forall fe fd k s',
  pre_connect k -> fst (loop_of fe fd k) = Ret None s' -> all_tried k (snd (loop_of fe fd k)).
Proof. exact connect_noent_after_all. Qed.
Print Assumptions C20_connect_noent_after_all.

(** never stuck; every exit inside connect_mx() has written a report starting with Z; a connection is
    handed on with the status stream untouched (C04's report discipline carried over) *)
Theorem C20_connect_total : forall k,
  pre_connect k ->
  match fst (loop_of true true k) with
  | Stuck _ => False
  | r => rk [] r
  end.
Proof. exact connect_phase_c_total. Qed.
Print Assumptions C20_connect_total.

(** The clause in full — "whenever Qremote gives up, every candidate has been tried" — is FALSE of the
    code: a first MX that accepts the connection and stays silent ends the attempt with
    "Z4.4.1 connection to remote server timed out"; the second MX is never contacted (finding F-C20-5). *)
Theorem C20_temp_failure_refuted : ~ C20_temp_failure_after_all_full.
Proof. exact temp_failure_refuted. Qed.
Print Assumptions C20_temp_failure_refuted.

(** what does hold: Qremote gives up with candidates left ONLY when the process exits inside an iteration
    of the loop or main() refuses the pinned host without TLS ... *)
Theorem C20_temp_failure_partial : forall k,
  pre_connect k ->
  let '(p, atts) := connect_phase_c true true k in
  ends_without_connection p -> all_tried k atts \/ gave_up_inside k.
Proof. exact temp_failure_partial. Qed.
Print Assumptions C20_temp_failure_partial.

(** ... and an iteration exits only for: a failing dup2(); an error other than "closed"/"invalid" on the first
    line of the greeting (in the modelled network: the server stays silent, -ETIMEDOUT); STARTTLS offered and
    tls_init() not returning >= 0 (local TLS problem: it reported and returned < 0).  Every other failure
    (connection refused, closed, invalid or non-220 greeting, EHLO and HELO refused, handshake failure,
    missing STARTTLS where TLS is required) moves on to the next candidate, by C20_connect_compose. *)
Theorem C20_connect_exit_classes : forall fe fd k qc tlsa s s',
  conn_iter_q fe fd k qc tlsa s = Exit s' ->
  q_dup2 qc = true
  \/ (exists v s1, netget_first (q_silent qc) (log (EvConn k) (open_conn (q_conn qc) s)) = Ret v s1
                   /\ (v < 0)%Z /\ v <> neg ST_ECONNRESET /\ v <> neg ST_EINVAL)
  \/ (exists g s3, starttls_offered g = true
                   /\ match tls_init (q_conn qc) tlsa s3 with Ret r _ => (r < 0)%Z | Exit _ => True | Stuck _ => False end).
Proof. exact conn_iter_q_exit. Qed.
Print Assumptions C20_connect_exit_classes.

(** the port on which main() filters the local addresses is the SMTP port, which is also the
    default of conn.c and of smtproute(); the marks of tryconn are ordered as the proofs need
    (values regenerated from the C on every run) *)
Theorem C20_ports :
  FILTER_PORT = 25%N /\ DEFAULT_PORT = 25%N /\ ROUTE_DEFAULT_PORT = 25%N
  /\ (MX_PRIORITY_IMPLICIT <= TRYCONN_FRESH_MAX < MX_PRIORITY_USED)%N
  /\ (TRYCONN_FRESH_MAX < MX_PRIORITY_CURRENT)%N /\ MX_PRIORITY_USED <> MX_PRIORITY_CURRENT
  /\ (65535 <= TRYCONN_FRESH_MAX)%N.
Proof. repeat split; try reflexivity; try discriminate. Qed.
Print Assumptions C20_ports.

(** the hypotheses are met by a non-trivial input: finding F-C20-1, [A v6/10, B v4/20, C v6/20],
    is sorted to A, C, B; with B's address being the local one and the first connect() failing
    the attempts are A then C, then -ENOENT. *)
Example C20_nonvacuous :
  let a6 n := [32; 1; 13; 184; 0; 0; 0; 0; 0; 0; 0; 0; 0; 0; 0; n]%N in
  let a4 n := [0; 0; 0; 0; 0; 0; 0; 0; 0; 0; 255; 255; 192; 0; 2; n]%N in
  let A := mkmx 10%N 1%N [a6 1%N] in let B := mkmx 20%N 2%N [a4 2%N] in let C := mkmx 20%N 3%N [a6 3%N] in
  Forall fresh [A; B; C]
  /\ sortmx [A; B; C] = Ok [A; C; B]
  /\ exists s, qremote_targets FILTER_PORT false [If4 (a4 2%N)] [A; B; C] 0 [111; 111]%N 3
       = Ok (Tried [A; C] [A; C] s [([(a6 1%N, false); (a6 3%N, false)], TcNoent); ([], TcNoent); ([], TcNoent)]).
Proof.
  cbv zeta. split; [|split].
  - repeat constructor; cbn; try discriminate; unfold TRYCONN_FRESH_MAX; apply N.leb_le; reflexivity.
  - vm_compute. reflexivity.
  - eexists. vm_compute. reflexivity.
Qed.

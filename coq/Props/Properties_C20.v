(** C20 — Qremote target choice: MX order, each address once, never itself.
    Only statements here; proofs live in Proofs/Mx*Proofs.v. *)
From Coq Require Import List NArith ZArith Bool Sorting.Permutation Sorting.Sorted.
From Qv Require Import Common.Bytes Gen.GenMx Model.Mx Model.MxRoute Model.MxDns
  Spec.MxSpec Spec.MxRouteSpec Spec.MxDnsSpec
  Gen.GenNetio Gen.GenQremote Gen.GenStarttls Model.NetRead Model.TlsClient Model.QrConnect Model.MxConnect Spec.MxConnectSpec
  Proofs.MxSortProofs Proofs.MxConnProofs Proofs.MxFilterProofs Proofs.MxRouteProofs Proofs.MxDnsProofs
  Proofs.QrConnectProofs Proofs.MxConnectProofs Proofs.MxSortComplete.
Import ListNotations.

(** sortmx (with fixes/C20-sortmx-v6first.diff applied): for every non-empty list of MX entries
    that all have an address it does not crash and returns a rearrangement of the list (same
    entries, same addresses inside each entry) in which preference values ascend, at equal
    preference no IPv4-only entry stands before an entry that contains an IPv6 address, and
    inside each entry all IPv6 addresses precede all IPv4 addresses. *)
Theorem C20_sortmx : forall l,
  l <> [] -> Forall nonempty l ->
  exists out, sortmx l = Ok out /\ sort_spec l out.
Proof. exact sortmx_correct. Qed.
Print Assumptions C20_sortmx.

(** ... and the sort is stable: entries of the same preference and the same family class keep
    the order DNS delivered them in. *)
Theorem C20_sortmx_stable : forall l p v6,
  l <> [] -> Forall nonempty l ->
  exists out, sortmx l = Ok out /\
    filter (same_class p v6) out = filter (same_class p v6) (map sort_entry l).
Proof. exact sortmx_stable. Qed.
Print Assumptions C20_sortmx_stable.

(** the boolean checker that is run on the outputs of the C sortmx DECIDES the specification above: it
    accepts a list exactly when it is a rearrangement of the input that ascends in preference with
    IPv6-containing entries before IPv4-only ones at equal preference and IPv6 addresses first inside each
    entry.  So it accepts every order a correct sort may produce, stable or not; that sortmx() yields the
    STABLE one among them is C20_sortmx_stable for the model and the differential run for the C. *)
Theorem C20_spec_checker_sound : forall inp out,
  spec_ok_C20_sort inp out = true -> sort_spec inp out.
Proof. exact spec_ok_sort_sound. Qed.
Print Assumptions C20_spec_checker_sound.

Theorem C20_spec_checker_complete : forall inp out,
  spec_ok_C20_sort inp out = true <-> sort_spec inp out.
Proof. exact spec_ok_sort_iff. Qed.
Print Assumptions C20_spec_checker_complete.

(** in particular no false alarm on what sortmx() returns *)
Theorem C20_spec_checker_accepts_sortmx : forall l,
  l <> [] -> Forall nonempty l -> exists out, sortmx l = Ok out /\ spec_ok_C20_sort l out = true.
Proof. exact checker_accepts_sortmx. Qed.
Print Assumptions C20_spec_checker_accepts_sortmx.

(** tryconn, called any number of times (connect_mx calls it again after a failed greeting or
    EHLO) on a list on which nothing has been tried, for every sequence of connect() outcomes:
    no crash, and what happens is what the reference [ref_calls] says — candidates are taken in
    list order, one connect() outcome each, a call returns at the first success and answers
    -ENOENT when nothing is left.  Hence every address is attempted at most once and in order
    (the attempts are an initial segment of the candidates), -ENOENT is only answered once every
    address was attempted, and the IPv4 outgoing address is bound exactly for v4-mapped targets. *)
Theorem C20_tryconn_once : forall l cs0 oracle n,
  Forall fresh l ->
  exists s outs,
    tryconn_calls n (mkst l cs0 oracle) = Ok (s, outs)
    /\ outs = ref_calls n (flat_targets l) oracle
    /\ once_in_order l outs
    /\ noent_only_when_exhausted l outs
    /\ binds_right_family outs.
Proof. exact tryconn_once. Qed.
Print Assumptions C20_tryconn_once.

(** filter_my_ips (getifaddrs() succeeded): exactly the addresses that an interface address
    declares local are removed (v4-mapped: equal to an AF_INET interface address, or 127/8, or
    0.0.0.0, as soon as one AF_INET interface exists; otherwise equal to an AF_INET6 interface
    address), order is kept, entries that lose all addresses disappear; so no local address is left. *)
Theorem C20_not_me : forall ifs l,
  Forall nonempty l ->
  filter_my_ips false ifs l = Ok (filter_ref ifs l) /\ no_me ifs (filter_ref ifs l).
Proof. exact filter_my_ips_correct. Qed.
Print Assumptions C20_not_me.

(** the sequence of main() on port 25: either every address is local (Qremote reports that all
    mail exchangers point back to it and connects nowhere), or the filtered list is sorted as
    specified, connection attempts follow the sorted list once each in order, -ENOENT comes
    only after all of them, and no attempted address is a local one. *)
Theorem C20_targets : forall ifs l cs0 oracle n,
  l <> [] -> Forall fresh l ->
  (filter_ref ifs l = [] /\ qremote_targets FILTER_PORT false ifs l cs0 oracle n = Ok AllMe)
  \/
  exists l2 s outs,
    qremote_targets FILTER_PORT false ifs l cs0 oracle n = Ok (Tried (filter_ref ifs l) l2 s outs)
    /\ sort_spec (filter_ref ifs l) l2
    /\ outs = ref_calls n (flat_targets l2) oracle
    /\ once_in_order l2 outs
    /\ noent_only_when_exhausted l2 outs
    /\ Forall (fun a => is_me ifs a = false) (all_attempts outs).
Proof. exact qremote_targets_correct. Qed.
Print Assumptions C20_targets.

(** smtproute(), for every configuration (does control/smtproutes.d exist, which files with which
    content does it hold, content of control/smtproutes, which relay names resolve) and every target
    name of at most 254 octets: no crash, and the answer is [route_ref] — if the directory exists,
    the first of  name, "*" + each dot suffix of name (longest first), "default"  that exists as a
    file decides alone (control/smtproutes and all other files are not consulted); otherwise the
    first syntactically valid line of control/smtproutes whose pattern is empty or matches decides;
    otherwise there is no route and the port is 25. *)
Theorem C20_route_order : forall (cfg : route_cfg) (remhost : bytes),
  length remhost <= 254 -> smtproute cfg remhost = Ok (route_ref cfg remhost).
Proof. exact smtproute_order. Qed.
Print Assumptions C20_route_order.

(** an empty relay means "use DNS": the answer then never carries relay addresses, and a port
    given next to it (digits, 1..65535) is the port of the answer *)
Theorem C20_route_empty_relay : forall cfg,
  (forall port, match parse_route_params cfg None port with Route (Some _) _ => False | _ => True end)
  /\ (forall p v, strtoul_uint p = (v, []) -> (0 < v < ROUTE_PORT_LIMIT)%N ->
                  parse_route_params cfg None (Some p) = Route None v).
Proof. intros cfg. split; [apply no_relay_no_mx|apply no_relay_keeps_port]. Qed.
Print Assumptions C20_route_empty_relay.

(** ask_dnsmx() over an arbitrary resolver (which names have addresses, which fail how, which MX
    records with 16-bit preferences exist): when it answers with a list, the list is not empty and
    every entry has an address and a priority tryconn counts as "not yet tried" (<= 65536; the
    implicit MX gets exactly 65536); with MX records present the list is exactly the records whose
    names have addresses, each with its own preference and all its addresses. *)
Theorem C20_dnsmx : forall tab flag recs name l,
  prio16 recs -> ask_dnsmx tab flag recs name = MxList l ->
  l <> [] /\ Forall fresh l /\ (flag = 0%N -> recs <> [] -> l = dnsmx_list_ref tab recs).
Proof.
  intros tab flag recs name l Hp H. destruct (ask_dnsmx_fresh tab flag recs name l Hp H) as [H1 H2].
  split; [exact H1|]. split; [exact H2|]. intros -> Hne. eapply ask_dnsmx_records; eassumption.
Qed.
Print Assumptions C20_dnsmx.

(** getmxlist() (target not an address literal): routes first — a route with a relay yields the
    relay's addresses and DNS MX is not consulted, a route without relay or no route yields the
    DNS answer, the port is always the route's; and whatever list comes out satisfies the
    preconditions of the sort and connect theorems. *)
Theorem C20_getmxlist : forall cfg tab flag recs (remhost : bytes),
  length remhost <= 254 -> prio16 recs ->
  getmxlist cfg tab flag recs remhost = Ok (getmxlist_ref cfg tab flag recs remhost)
  /\ (forall l port, getmxlist_ref cfg tab flag recs remhost = GList l port -> l <> [] /\ Forall fresh l).
Proof.
  intros cfg tab flag recs remhost Hl Hp. split; [apply getmxlist_spec; exact Hl|].
  intros l port H. eapply getmxlist_ref_fresh; eassumption.
Qed.
Print Assumptions C20_getmxlist.

(** the whole path getmxlist(); filter (port 25); sortmx; tryconn...: it never crashes and ends in
    [main_ok]: Qremote gives up exactly when the route is broken or DNS has no usable answer, reports
    "all point back to me" exactly when filtering on port 25 leaves nothing, and otherwise tries the
    sorted (filtered) list once each in order on the route's port, never a local address on port 25,
    -ENOENT only after all. *)
Theorem C20_main : forall cfg tab flag recs (remhost : bytes) gia ifs cs0 oracle n,
  length remhost <= 254 -> prio16 recs ->
  exists r, qremote_main cfg tab flag recs remhost gia ifs cs0 oracle n = Ok r
            /\ main_ok cfg tab flag recs remhost gia ifs oracle n r.
Proof. exact qremote_main_correct. Qed.
Print Assumptions C20_main.

(* ---------------------------------------------------------------------------------------------
   The last clause: connect_mx() over the real tryconn() (Model/MxConnect.v = QrConnect's transcription
   of connect_mx() — greeting, EHLO/HELO, STARTTLS, QUIT paths at byte level — with its tryconn oracle
   replaced by Model/Mx.v's tryconn). *)

(** composition: on the list getmxlist/sortmx hand over, with a scripted server for every connection that
    comes about, the run of connect_mx() IS QrConnect's run on the servers of exactly those candidates
    whose connect() succeeds, in list order; connect() is called for an initial segment of the candidates
    (each at most once, in sortmx order: a refused connection, a failed greeting, EHLO/HELO or STARTTLS
    step all lead to the NEXT candidate); and the loop ends with -ENOENT only after the last one. *)
Theorem C20_connect_compose : forall fe fd all l cs0 oracle servers k s,
  Forall fresh l ->
  length (conn_ids (flat_targets l) oracle) <= length servers ->
  exists n,
    connect_mx_c (S (S (total_addrs l))) fe fd all k (mkst l cs0 oracle) servers [] s
    = (connect_mx_q fe fd all k (reached servers (conn_ids (flat_targets l) oracle)) s,
       map att_of (firstn n (flat_targets l)))
    /\ (forall s', connect_mx_q fe fd all k (reached servers (conn_ids (flat_targets l) oracle)) s = Ret None s'
                   -> n = length (flat_targets l)).
Proof. exact connect_compose. Qed.
Print Assumptions C20_connect_compose.

(** each candidate at most once, in order, whatever the servers do *)
Theorem C20_connect_once : forall fe fd k,
  pre_connect k ->
  exists n, snd (connect_phase_c fe fd k) = map att_of (firstn n (flat_targets (m_list k))).
Proof. exact connect_once. Qed.
Print Assumptions C20_connect_once.

(** "Z4.4.2 can't connect to any server" (connect_mx() returning -ENOENT) only after every candidate was tried *)
Theorem C20_connect_noent_after_all : forall fe fd k s',
  pre_connect k -> fst (loop_of fe fd k) = Ret None s' -> all_tried k (snd (loop_of fe fd k)).
Proof. exact connect_noent_after_all. Qed.
Print Assumptions C20_connect_noent_after_all.

(** never stuck; every exit inside connect_mx() has written a report starting with Z; a connection is
    handed on with the status stream untouched (C04's report discipline carried over) *)
Theorem C20_connect_total : forall k,
  pre_connect k ->
  match fst (loop_of true true k) with
  | Stuck _ => False
  | r => rk [] r
  end.
Proof. exact connect_phase_c_total. Qed.
Print Assumptions C20_connect_total.

(** The clause in full — "whenever Qremote gives up, every candidate has been tried" — is FALSE of the
    code: a first MX that accepts the connection and stays silent ends the attempt with
    "Z4.4.1 connection to remote server timed out"; the second MX is never contacted (finding F-C20-5). *)
Theorem C20_temp_failure_refuted : ~ C20_temp_failure_after_all_full.
Proof. exact temp_failure_refuted. Qed.
Print Assumptions C20_temp_failure_refuted.

(** what does hold: Qremote gives up with candidates left ONLY when the process exits inside an iteration
    of the loop or main() refuses the pinned host without TLS ... *)
Theorem C20_temp_failure_partial : forall k,
  pre_connect k ->
  let '(p, atts) := connect_phase_c true true k in
  ends_without_connection p -> all_tried k atts \/ gave_up_inside k.
Proof. exact temp_failure_partial. Qed.
Print Assumptions C20_temp_failure_partial.

(** ... and an iteration exits only for: a failing dup2(); an error other than "closed"/"invalid" on the first
    line of the greeting (in the modelled network: the server stays silent, -ETIMEDOUT); STARTTLS offered and
    tls_init() not returning >= 0 (local TLS problem: it reported and returned < 0).  Every other failure
    (connection refused, closed, invalid or non-220 greeting, EHLO and HELO refused, handshake failure,
    missing STARTTLS where TLS is required) moves on to the next candidate, by C20_connect_compose. *)
Theorem C20_connect_exit_classes : forall fe fd k qc tlsa s s',
  conn_iter_q fe fd k qc tlsa s = Exit s' ->
  q_dup2 qc = true
  \/ (exists v s1, netget_first (q_silent qc) (log (EvConn k) (open_conn (q_conn qc) s)) = Ret v s1
                   /\ (v < 0)%Z /\ v <> neg ST_ECONNRESET /\ v <> neg ST_EINVAL)
  \/ (exists g s3, starttls_offered g = true
                   /\ match tls_init (q_conn qc) tlsa s3 with Ret r _ => (r < 0)%Z | Exit _ => True | Stuck _ => False end).
Proof. exact conn_iter_q_exit. Qed.
Print Assumptions C20_connect_exit_classes.

(** the port on which main() filters the local addresses is the SMTP port, which is also the
    default of conn.c and of smtproute(); the marks of tryconn are ordered as the proofs need
    (values regenerated from the C on every run) *)
Theorem C20_ports :
  FILTER_PORT = 25%N /\ DEFAULT_PORT = 25%N /\ ROUTE_DEFAULT_PORT = 25%N
  /\ (MX_PRIORITY_IMPLICIT <= TRYCONN_FRESH_MAX < MX_PRIORITY_USED)%N
  /\ (TRYCONN_FRESH_MAX < MX_PRIORITY_CURRENT)%N /\ MX_PRIORITY_USED <> MX_PRIORITY_CURRENT
  /\ (65535 <= TRYCONN_FRESH_MAX)%N.
Proof. repeat split; try reflexivity; try discriminate. Qed.
Print Assumptions C20_ports.

(** the hypotheses are met by a non-trivial input: finding F-C20-1, [A v6/10, B v4/20, C v6/20],
    is sorted to A, C, B; with B's address being the local one and the first connect() failing
    the attempts are A then C, then -ENOENT. *)
Example C20_nonvacuous :
  let a6 n := [32; 1; 13; 184; 0; 0; 0; 0; 0; 0; 0; 0; 0; 0; 0; n]%N in
  let a4 n := [0; 0; 0; 0; 0; 0; 0; 0; 0; 0; 255; 255; 192; 0; 2; n]%N in
  let A := mkmx 10%N 1%N [a6 1%N] in let B := mkmx 20%N 2%N [a4 2%N] in let C := mkmx 20%N 3%N [a6 3%N] in
  Forall fresh [A; B; C]
  /\ sortmx [A; B; C] = Ok [A; C; B]
  /\ exists s, qremote_targets FILTER_PORT false [If4 (a4 2%N)] [A; B; C] 0 [111; 111]%N 3
       = Ok (Tried [A; C] [A; C] s [([(a6 1%N, false); (a6 3%N, false)], TcNoent); ([], TcNoent); ([], TcNoent)]).
Proof.
  cbv zeta. split; [|split].
  - repeat constructor; cbn; try discriminate; unfold TRYCONN_FRESH_MAX; apply N.leb_le; reflexivity.
  - vm_compute. reflexivity.
  - eexists. vm_compute. reflexivity.
Qed.

(** C20 — Qremote target choice: MX order, each address once, never itself.
    Only statements here; proofs live in Proofs/Mx*Proofs.v. *)
From Coq Require Import List NArith Bool Sorting.Permutation Sorting.Sorted.
From Qv Require Import Common.Bytes Gen.GenMx Model.Mx Model.MxRoute Spec.MxSpec Spec.MxRouteSpec
  Proofs.MxSortProofs Proofs.MxConnProofs Proofs.MxFilterProofs Proofs.MxRouteProofs.
Import ListNotations.

(** sortmx (with fixes/C20-sortmx-v6first.diff applied): for every non-empty list of MX entries
    that all have an address it does not crash and returns a rearrangement of the list (same
    entries, same addresses inside each entry) in which preference values ascend, at equal
    preference no IPv4-only entry stands before an entry that contains an IPv6 address, and
    inside each entry all IPv6 addresses precede all IPv4 addresses. *)
Theorem C20_sortmx : forall l,
  l <> [] -> Forall nonempty l ->
  exists out, sortmx l = Ok out /\ sort_spec l out.
Proof. exact sortmx_correct. Qed.
Print Assumptions C20_sortmx.

(** ... and the sort is stable: entries of the same preference and the same family class keep
    the order DNS delivered them in. *)
Theorem C20_sortmx_stable : forall l p v6,
  l <> [] -> Forall nonempty l ->
  exists out, sortmx l = Ok out /\
    filter (same_class p v6) out = filter (same_class p v6) (map sort_entry l).
Proof. exact sortmx_stable. Qed.
Print Assumptions C20_sortmx_stable.

(** the boolean checker that is run on the outputs of the C sortmx accepts only lists that
    satisfy the specification above *)
Theorem C20_spec_checker_sound : forall inp out,
  spec_ok_C20_sort inp out = true -> sort_spec inp out.
Proof. exact spec_ok_sort_sound. Qed.
Print Assumptions C20_spec_checker_sound.

(** tryconn, called any number of times (connect_mx calls it again after a failed greeting or
    EHLO) on a list on which nothing has been tried, for every sequence of connect() outcomes:
    no crash, and what happens is what the reference [ref_calls] says — candidates are taken in
    list order, one connect() outcome each, a call returns at the first success and answers
    -ENOENT when nothing is left.  Hence every address is attempted at most once and in order
    (the attempts are an initial segment of the candidates), -ENOENT is only answered once every
    address was attempted, and the IPv4 outgoing address is bound exactly for v4-mapped targets. *)
Theorem C20_tryconn_once : forall l cs0 oracle n,
  Forall fresh l ->
  exists s outs,
    tryconn_calls n (mkst l cs0 oracle) = Ok (s, outs)
    /\ outs = ref_calls n (flat_targets l) oracle
    /\ once_in_order l outs
    /\ noent_only_when_exhausted l outs
    /\ binds_right_family outs.
Proof. exact tryconn_once. Qed.
Print Assumptions C20_tryconn_once.

(** filter_my_ips (getifaddrs() succeeded): exactly the addresses that an interface address
    declares local are removed (v4-mapped: equal to an AF_INET interface address, or 127/8, or
    0.0.0.0, as soon as one AF_INET interface exists; otherwise equal to an AF_INET6 interface
    address), order is kept, entries that lose all addresses disappear; so no local address is left. *)
Theorem C20_not_me : forall ifs l,
  Forall nonempty l ->
  filter_my_ips false ifs l = Ok (filter_ref ifs l) /\ no_me ifs (filter_ref ifs l).
Proof. exact filter_my_ips_correct. Qed.
Print Assumptions C20_not_me.

(** the sequence of main() on port 25: either every address is local (Qremote reports that all
    mail exchangers point back to it and connects nowhere), or the filtered list is sorted as
    specified, connection attempts follow the sorted list once each in order, -ENOENT comes
    only after all of them, and no attempted address is a local one. *)
Theorem C20_targets : forall ifs l cs0 oracle n,
  l <> [] -> Forall fresh l ->
  (filter_ref ifs l = [] /\ qremote_targets FILTER_PORT false ifs l cs0 oracle n = Ok AllMe)
  \/
  exists l2 s outs,
    qremote_targets FILTER_PORT false ifs l cs0 oracle n = Ok (Tried (filter_ref ifs l) l2 s outs)
    /\ sort_spec (filter_ref ifs l) l2
    /\ outs = ref_calls n (flat_targets l2) oracle
    /\ once_in_order l2 outs
    /\ noent_only_when_exhausted l2 outs
    /\ Forall (fun a => is_me ifs a = false) (all_attempts outs).
Proof. exact qremote_targets_correct. Qed.
Print Assumptions C20_targets.

(** smtproute(), for every configuration (does control/smtproutes.d exist, which files with which
    content does it hold, content of control/smtproutes, which relay names resolve) and every target
    name of at most 254 octets: no crash, and the answer is [route_ref] — if the directory exists,
    the first of  name, "*" + each dot suffix of name (longest first), "default"  that exists as a
    file decides alone (control/smtproutes and all other files are not consulted); otherwise the
    first syntactically valid line of control/smtproutes whose pattern is empty or matches decides;
    otherwise there is no route and the port is 25. *)
Theorem C20_route_order : forall (cfg : route_cfg) (remhost : bytes),
  length remhost <= 254 -> smtproute cfg remhost = Ok (route_ref cfg remhost).
Proof. exact smtproute_order. Qed.
Print Assumptions C20_route_order.

(** an empty relay means "use DNS": the answer then never carries relay addresses, and a port
    given next to it (digits, 1..65535) is the port of the answer *)
Theorem C20_route_empty_relay : forall cfg,
  (forall port, match parse_route_params cfg None port with Route (Some _) _ => False | _ => True end)
  /\ (forall p v, strtoul_uint p = (v, []) -> (0 < v < ROUTE_PORT_LIMIT)%N ->
                  parse_route_params cfg None (Some p) = Route None v).
Proof. intros cfg. split; [apply no_relay_no_mx|apply no_relay_keeps_port]. Qed.
Print Assumptions C20_route_empty_relay.

(** the port on which main() filters the local addresses is the SMTP port, which is also the
    default of conn.c and of smtproute(); the marks of tryconn are ordered as the proofs need
    (values regenerated from the C on every run) *)
Theorem C20_ports :
  FILTER_PORT = 25%N /\ DEFAULT_PORT = 25%N /\ ROUTE_DEFAULT_PORT = 25%N
  /\ (MX_PRIORITY_IMPLICIT <= TRYCONN_FRESH_MAX < MX_PRIORITY_USED)%N
  /\ (TRYCONN_FRESH_MAX < MX_PRIORITY_CURRENT)%N /\ MX_PRIORITY_USED <> MX_PRIORITY_CURRENT
  /\ (65535 <= TRYCONN_FRESH_MAX)%N.
Proof. repeat split; try reflexivity; try discriminate. Qed.
Print Assumptions C20_ports.

(** the hypotheses are met by a non-trivial input: finding F-C20-1, [A v6/10, B v4/20, C v6/20],
    is sorted to A, C, B; with B's address being the local one and the first connect() failing
    the attempts are A then C, then -ENOENT. *)
Example C20_nonvacuous :
  let a6 n := [32; 1; 13; 184; 0; 0; 0; 0; 0; 0; 0; 0; 0; 0; 0; n]%N in
  let a4 n := [0; 0; 0; 0; 0; 0; 0; 0; 0; 0; 255; 255; 192; 0; 2; n]%N in
  let A := mkmx 10%N 1%N [a6 1%N] in let B := mkmx 20%N 2%N [a4 2%N] in let C := mkmx 20%N 3%N [a6 3%N] in
  Forall fresh [A; B; C]
  /\ sortmx [A; B; C] = Ok [A; C; B]
  /\ exists s, qremote_targets FILTER_PORT false [If4 (a4 2%N)] [A; B; C] 0 [111; 111]%N 3
       = Ok (Tried [A; C] [A; C] s [([(a6 1%N, false); (a6 3%N, false)], TcNoent); ([], TcNoent); ([], TcNoent)]).
Proof.
  cbv zeta. split; [|split].
  - repeat constructor; cbn; try discriminate; unfold TRYCONN_FRESH_MAX; apply N.leb_le; reflexivity.
  - vm_compute. reflexivity.
  - eexists. vm_compute. reflexivity.
Qed.

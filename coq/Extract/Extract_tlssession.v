(** Extraction of the tlssession engine (C17). Directives: ExtrOcamlBasic only. *)
From Coq Require Import ExtrOcamlBasic.
From Qv Require Import Common.Bytes Model.NetRead Model.Session Model.Trace Spec.SessionSpec Model.TlsSwitch Spec.TlsSpec Model.SpfBase Model.SpfEnv Model.SpfMacro Model.Spf.
Extraction "m.ml" trun spec_ok_C17 ttrace_run shape_ok a_init trace_header trace_header_with check_host_c spfreceived octets_to_N submission_port.

(** Extraction of the replysites engine (call-site models + boolean spec checkers) to OCaml.
    Directives: ExtrOcamlBasic only. *)
From Coq Require Import ExtrOcamlBasic.
From Qv Require Import Common.Bytes Common.ReplyTpl Gen.GenReplies Model.NetWriten Model.ReplySites Spec.ReplySpec Spec.ReplySitesSpec.
Extraction "m.ml" site_model literal_model cb_nomail class_of_letter case_pre spec_ok_site spec_ok_nomail spec_ok_literal wait_for_quit spec_ok_stream smtp_data_model FN_smtp_data.

(** Extraction of the addr engine (models + reference inet_pton + boolean spec checkers) to OCaml.
    Directives: ExtrOcamlBasic only. *)
From Coq Require Import ExtrOcamlBasic.
From Qv Require Import Common.Bytes Gen.GenAddr Model.InetPton Model.Addr Spec.AddrSpec.
Extraction "m.ml" domainvalid parselocalpart parseaddr checkaddr addrspec_valid addrsyntax xtextlen addrparse_syntax
  pton4_ref pton6_ref CHAR_SIGNED PA_BUF4 PA_BUF6
  spec_dv spec_lp spec_pa spec_as spec_ap spec_xt local_class lweak_b local_rfc_b.

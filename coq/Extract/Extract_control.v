(** Extraction of the control engine (models + boolean spec checkers) to OCaml.
    Directives: ExtrOcamlBasic only. *)
From Coq Require Import ExtrOcamlBasic.
From Qv Require Import Common.Bytes Model.FindDomain Model.MatchNet Model.LoadFile Model.LoadListArr Spec.ControlSpec.
Extraction "m.ml" finddomain finddomain_orig matchdomain expr_matchb ip4_matchnet ip6_matchnet check_ip4 check_ip6
  lloadfile loadlist loadint loadoneliner loadlist_arr read_ptrs
  cstr fd_spec in_net4b in_net6b ipbl_file_spec bytes_okb list_spec int_spec plain_lines oneliner_spec pieces cat.

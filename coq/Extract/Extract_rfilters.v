(** Extraction of the rfilters engine (models of the real filter functions + the checker run on C outputs). *)
From Coq Require Import ExtrOcamlBasic.
From Qv Require Import Common.Bytes Gen.GenFilters Model.Filters Model.RealFilters Spec.FiltersSpec Spec.RealFiltersSpec.
Extraction "m.ml" rf_case spec_ok_rf Z.add Z.mul Z.opp.

(** Extraction of the auth engine (model of qsmtpd/auth.c + checkpassword backend, boolean spec checker) to OCaml.
    Directives: ExtrOcamlBasic only. *)
From Coq Require Import ExtrOcamlBasic.
From Qv Require Import Common.Bytes Common.AuthDefs Model.Base64 Model.Auth Spec.Base64Spec Spec.AuthSpec.
Extraction "m.ml" smtp_auth backend_of spec_ok_C09_auth.

(** Extraction of the qrconn engine (C04, connect phase): TlsClient's model of connect_mx() with silent
    servers and a failing dup2(), and the boolean connect-phase specification.  ExtrOcamlBasic only. *)
From Coq Require Import ExtrOcamlBasic.
From Qv Require Import Common.Bytes Gen.GenQremote Model.NetRead Model.TlsClient Model.QrConnect Spec.QrConnectSpec.
Extraction "m.ml" run_q connect_phase final conn_spec_ok QR_CONN_ERR_REPORTS QR_CONN_DUP2_REPORTS.

(** Extraction of the bdat engine (models + boolean spec checkers) to OCaml.
    Directives: ExtrOcamlBasic only (bool, option, unit, prod, list, sumbool, sumor). *)
From Coq Require Import ExtrOcamlBasic.
From Qv Require Import Common.Bytes Gen.GenBdatRx Model.BdatTx Model.BdatRx Spec.BdatSpec Spec.BdatRxSpec.
Extraction "m.ml" send_bdat spec_ok_C19_tx RX_KIB RX_CR_AFTER_LOOP rx_session spec_ok_C19_rx rx_script spec_ok_C19_rxs.

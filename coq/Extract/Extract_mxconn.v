(** Extraction of the mxconn engine (C20, connect_mx() over the real tryconn()).  ExtrOcamlBasic only. *)
From Coq Require Import ExtrOcamlBasic.
From Qv Require Import Common.Bytes Gen.GenQremote Gen.GenStarttls Model.NetRead Model.TlsClient Model.QrConnect
  Model.Mx Model.MxConnect Spec.MxConnectSpec.
Extraction "m.ml" run_c connect_phase_c final spec_ok_C20_connect early_exit_b
  QR_CONN_ERR_REPORTS QR_CONN_DUP2_REPORTS ST_RPT_NOCONN.

(** Extraction of the cdb engine: cdb_seekmm / vget_dir on raw file bytes, the Gallina cdbmake. ExtrOcamlBasic only. *)
From Coq Require Import ExtrOcamlBasic.
From Qv Require Import Common.Bytes Model.Cdb Model.Vpop Model.VpopFile.
Extraction "m.ml" cdb_seekmm vget_dir_real cdb_make.

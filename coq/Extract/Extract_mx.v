(** Extraction of the mx engine (models + boolean spec checkers) to OCaml.
    Directives: ExtrOcamlBasic only (bool, option, unit, prod, list, sumbool, sumor). *)
From Coq Require Import ExtrOcamlBasic.
From Qv Require Import Common.Bytes Model.Mx Model.MxRoute Model.MxDns Model.MxRouteKeys Spec.MxSpec Spec.MxRouteSpec Spec.MxDnsSpec Spec.MxRouteKeysSpec.
Extraction "m.ml" sortmx tryconn_calls filter_my_ips qremote_targets
  spec_ok_C20_sort pre_C20_sort spec_ok_C20_try pre_C20_try spec_ok_C20_filter pre_C20_filter
  spec_ok_C20_targets spec_ok_C20_allme
  smtproute spec_ok_C20_route pre_C20_route
  ask_dnsmx qremote_main spec_ok_C20_dnsmx spec_ok_C20_main pre_C20_main plain_table zero_ident
  smtproute_x qremote_main_x observe spec_ok_C20_route_x pre_C20_route_x target_literal spec_ok_C20_main_x pre_C20_main_x.

(** Extraction of the netio engine (models + boolean spec checkers) to OCaml.
    Directives: ExtrOcamlBasic only (bool, option, unit, prod, list, sumbool, sumor). *)
From Coq Require Import ExtrOcamlBasic.
From Qv Require Import Common.Bytes Model.NetWriten Model.NetRead Spec.ReplySpec Spec.LineSpec Proofs.NetReadClean.
Extraction "m.ml" net_writen spec_ok_C10 run_reader shape_ok resync_ok sched_ok clean_stream spec_items.

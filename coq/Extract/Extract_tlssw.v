(** Extraction of the tlssw engine (model of Qremote's connection set-up around STARTTLS and
    the boolean C18 specification) to OCaml.  Directives: ExtrOcamlBasic only. *)
From Coq Require Import ExtrOcamlBasic.
From Qv Require Import Common.Bytes Model.NetRead Model.TlsClient Spec.TlsSwitchSpec.
Extraction "m.ml" run final spec_ok_C18 class_wrong_host.

(** Extraction of the session engine. Directives: ExtrOcamlBasic only. *)
From Coq Require Import ExtrOcamlBasic.
From Qv Require Import Common.Bytes Model.NetRead Model.Session.
Extraction "m.ml" run_session.

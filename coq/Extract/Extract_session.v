(** Extraction of the session engine. Directives: ExtrOcamlBasic only. *)
From Coq Require Import ExtrOcamlBasic.
From Qv Require Import Common.Bytes Model.NetRead Model.Session Model.Trace Spec.SessionSpec Spec.TraceSpec Model.SpfBase Model.SpfEnv Model.SpfMacro Model.Spf.
Extraction "m.ml" run_session trace_run queue_run a_init trace_header trace_header_with check_host_c spfreceived octets_to_N data_verdict_ok maxbytes handoff_msg_ok handoff_hdr_check submission_port.

(** Extraction of the session engine. Directives: ExtrOcamlBasic only. *)
From Coq Require Import ExtrOcamlBasic.
From Qv Require Import Common.Bytes Model.NetRead Model.Session Model.Trace Spec.SessionSpec.
Extraction "m.ml" run_session trace_run queue_run a_init trace_header data_verdict_ok maxbytes handoff_msg_ok submission_port.

(** Extraction of the b64 engine (models of lib/base64.c + boolean spec checkers) to OCaml.
    Directives: ExtrOcamlBasic only. *)
From Coq Require Import ExtrOcamlBasic.
From Qv Require Import Common.Bytes Model.Base64 Spec.Base64Spec.
Extraction "m.ml" b64decode b64encode spec_ok_C09_dec spec_ok_C09_enc pad_regular strict_decode.

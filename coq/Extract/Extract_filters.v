(** Extraction of the filters engine (model of the RCPT policy decision + the checker run on C outputs) to OCaml.
    Directives: ExtrOcamlBasic only (bool, option, unit, prod, list, sumbool, sumor). *)
From Coq Require Import ExtrOcamlBasic.
From Qv Require Import Common.Bytes Gen.GenFilters Model.Filters Spec.FiltersSpec.
Extraction "m.ml" rcpt_case observe spec_ok_C12 head9 Z.add Z.mul Z.opp.

(** Extraction of the tlsverify engine (C01, TLS client certificate). Directives: ExtrOcamlBasic only. *)
From Coq Require Import ExtrOcamlBasic.
From Qv Require Import Common.Bytes Gen.GenTlsVerify Model.TlsVerify Spec.TlsVerifySpec.
Extraction "m.ml" run spec_ok_C01t pre_ok TV_EDONE.

(** Extraction of the vpop engine (model of user_exists, the concrete directory semantics used by the
    correspondence run, and the boolean spec checker) to OCaml.  Directives: ExtrOcamlBasic only. *)
From Coq Require Import ExtrOcamlBasic.
From Qv Require Import Common.Bytes Model.Cdb Model.Vpop Model.VpopFile Model.VpopDs Spec.VpopSpec.
Extraction "m.ml" user_exists vget_dir user_exists_ds ds_fresh held addrparse_rcpt addrparse_literal fs_of_layout vpopbounce_of conf_of spec_ok_C13 spec_ok_C13_rcpt.

(** Extraction of the qrenv engine (model of Qremote's envelope/data/report flow and the
    boolean C04 specification) to OCaml.  Directives: ExtrOcamlBasic only. *)
From Coq Require Import ExtrOcamlBasic.
From Qv Require Import Common.Bytes Model.QrEnvelope Spec.QrReportSpec.
Extraction "m.ml" qremote_main spec_ok_C04 class_dup class_merge class_3xx class_longcmd class_ml354.

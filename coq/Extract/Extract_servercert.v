(** Extraction of the servercert engine (C17). Directives: ExtrOcamlBasic only. *)
From Coq Require Import ExtrOcamlBasic.
From Qv Require Import Common.Bytes Model.ServerCert Spec.ServerCertSpec.
Extraction "m.ml" calls sc_init spec_ok_servercert.

(** Extraction of the qrdata engine (models + boolean spec checkers) to OCaml.
    Directives: ExtrOcamlBasic only (bool, option, unit, prod, list, sumbool, sumor). *)
From Coq Require Import ExtrOcamlBasic.
From Qv Require Import Common.Bytes Gen.GenQrdata Model.Mime Model.QrData Spec.SmtpDataSpec Spec.DeliverSpec.
Extraction "m.ml" send_data flags_val ESMTP_8BITMIME spec_ok_C06 spec_ok_C07.

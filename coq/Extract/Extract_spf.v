(** Extraction of the spf engine (model + zone decoding + boolean spec checker) to OCaml.
    Directives: ExtrOcamlBasic only. *)
From Coq Require Import ExtrOcamlBasic.
From Qv Require Import Common.Bytes Model.SpfBase Model.SpfEnv Model.SpfMacro Model.Spf Model.SpfZone Spec.SpfSpec Spec.SpfRfc.
Extraction "m.ml" check_host_c spfreceived decode_zone zone_dns queries_of spec_ok_C11 has_exp_mod sess_ok octets_to_N addr_octets rfc_check_host rfc_check_host_strict rfc_agrees.

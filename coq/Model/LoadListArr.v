(** Literal model of lib/control.c: compact_buffer, data_array and loadlistfd (with
    check callback) over a byte array.  Executable definitions only.

    A heap block is the list of its bytes; an index outside it is [Crash]
    (30 read, 31 store, 32 memmove/memset range).  [aget]/[aset] are the only
    accesses; memmove is the C memmove (copy through a temporary, overlap allowed).
    The editing loop of lloadfilefd stays [LoadFile.ll_scan] (already literal); the
    block it leaves is its image followed by the terminator slot inbuf[oldlen] = 0.

    data_array: the block returned by realloc keeps the old bytes and continues
    with arbitrary bytes ([fill] gives the byte at each offset); the pointer table
    is kept beside the byte image ([ptrs], offsets from the start of the block,
    [None] = NULL): the bytes of the table area are never read as characters. *)
From Qv Require Import Common.Bytes Gen.GenControl Model.LoadFile.

Definition aget (a : bytes) (i : nat) : Cres N :=
  match nth_error a i with Some b => Ok b | None => Crash 30 end.

Definition aset (a : bytes) (i : nat) (v : N) : Cres bytes :=
  if Nat.ltb i (length a) then Ok (firstn i a ++ v :: skipn (S i) a) else Crash 31.

(** strnlen(a + j, n) *)
Fixpoint strnlen_at (a : bytes) (j n : nat) : Cres nat :=
  match n with
  | O => Ok 0
  | S n' => do b <- aget a j;
            if N.eqb b 0 then Ok 0 else do r <- strnlen_at a (S j) n'; Ok (S r)
  end.

(** strlen(a + j); fuel = bytes that can be looked at *)
Fixpoint strlen_at (fuel : nat) (a : bytes) (j : nat) : Cres nat :=
  match fuel with
  | O => OutOfFuel
  | S f => do b <- aget a j;
           if N.eqb b 0 then Ok 0 else do r <- strlen_at f a (S j); Ok (S r)
  end.

(** memmove(a + k, a + j, n) *)
Definition memmove_at (a : bytes) (k j n : nat) : Cres bytes :=
  if Nat.leb (j + n) (length a) && Nat.leb (k + n) (length a)
  then Ok (firstn k a ++ firstn n (skipn j a) ++ skipn (k + n) a)
  else Crash 32.

(** memset(a + k, '\0', n) *)
Definition memset0_at (a : bytes) (k n : nat) : Cres bytes :=
  if Nat.leb (k + n) (length a) then Ok (firstn k a ++ repeat 0%N n ++ skipn (k + n) a) else Crash 32.

(** while ((j < oldlen) && !inbuf[j]) j++; *)
Fixpoint skip_zeros (fuel : nat) (a : bytes) (j oldlen : nat) : Cres nat :=
  match fuel with
  | O => OutOfFuel
  | S f => if Nat.ltb j oldlen
           then do b <- aget a j; if N.eqb b 0 then skip_zeros f a (S j) oldlen else Ok j
           else Ok j
  end.

(** while (j < oldlen) { jlen = strnlen(inbuf + j, oldlen - j); if (j != k) memmove(inbuf + k, inbuf + j, jlen);
      j += jlen + 1; k += jlen; inbuf[k++] = '\0'; while ((j < oldlen) && !inbuf[j]) j++; } *)
Fixpoint compact_loop (fuel : nat) (a : bytes) (j k oldlen : nat) : Cres (bytes * nat) :=
  match fuel with
  | O => OutOfFuel
  | S f =>
      if Nat.ltb j oldlen then
        do jlen <- strnlen_at a j (oldlen - j);
        do a1 <- (if Nat.eqb j k then Ok a else memmove_at a k j jlen);
        do a2 <- aset a1 (k + jlen) 0%N;
        do j2 <- skip_zeros (S (length a)) a2 (j + jlen + 1) oldlen;
        compact_loop f a2 j2 (S (k + jlen)) oldlen
      else Ok (a, k)
  end.

(** compact_buffer(&buf, inbuf, oldlen): returned length and block ([] with 0 = freed, NULL) *)
Definition compact_buffer (a : bytes) (oldlen : nat) : Cres (nat * bytes) :=
  do j0 <- skip_zeros (S (length a)) a 0 oldlen;
  do r <- compact_loop (S oldlen) a j0 0 oldlen;
  let (a', k) := r in
  if Nat.eqb k 0 then Ok (0, [])
  else if Nat.eqb k (oldlen + 1) then Ok (k, a')
  else Ok (k, firstn k a').                                  (* realloc(inbuf, k) *)

(** lloadfilefd(fd, &buf, 3) with the in-place compact_buffer *)
Definition lloadfile3_arr (content : bytes) : Cres (lres (nat * bytes)) :=
  match content with
  | [] => Ok (LOk (0, []))
  | _ =>
      do r <- ll_scan (S (length content)) LOADLIST_MODE [] content;
      match r with
      | None => Ok LErr
      | Some img => do c <- compact_buffer (img ++ [0%N]) (length content); Ok (LOk c)
      end
  end.

(** the C string at a + j (what the callback is given) *)
Definition cstring_at (a : bytes) (j : nat) : Cres bytes :=
  do l <- strlen_at (S (length a)) a j; Ok (firstn l (skipn j a)).

(** the counting loop of loadlistfd:
    while (k < i) { if (!cf || !cf(buf + k)) j++;
                    else { l = strlen(buf + k); memset(buf + k, 0, l); k += l; haserr = 1; }
                    k += strlen(buf + k) + 1; }
    a NULL callback is [fun _ => false] *)
Fixpoint count_loop (fuel : nat) (cf : bytes -> bool) (a : bytes) (k i j : nat) (haserr : bool)
  : Cres (bytes * nat * bool) :=
  match fuel with
  | O => OutOfFuel
  | S f =>
      if Nat.ltb k i then
        do s <- cstring_at a k;
        if negb (cf s) then
          do l <- strlen_at (S (length a)) a k;
          count_loop f cf a (k + l + 1) i (S j) haserr
        else
          do l <- strlen_at (S (length a)) a k;
          do a1 <- memset0_at a k l;
          do l2 <- strlen_at (S (length a1)) a1 (k + l);
          count_loop f cf a1 (k + l + l2 + 1) i j true
      else Ok (a, j, haserr)
  end.

Definition PTR_SIZE : nat := 8.          (* size of a pointer to pointer to char; _Static_assert in the harness *)

Record block := { mem : bytes; ptrs : list (option nat) }.

(** while (i < j) { ( *bufa)[i++] = buf; buf += strlen(buf) + 1; }   [p] = buf as an offset *)
Fixpoint ptr_loop (n : nat) (m : bytes) (p : nat) : Cres (list (option nat)) :=
  match n with
  | O => Ok []
  | S n' => do l <- strlen_at (S (length m)) m p;
            do r <- ptr_loop n' m (p + l + 1); Ok (Some p :: r)
  end.

(** data_array(entries, datalen, oldbuf, oldlen) followed by the pointer loop of loadlistfd *)
Definition data_array (fill : nat -> N) (entries datalen : nat) (oldbuf : bytes) (oldlen : nat) : Cres bytes :=
  let psize := (entries + 1) * PTR_SIZE in
  let dsize := entries + datalen in
  (* realloc(oldbuf, psize + dsize): old content kept, the rest arbitrary *)
  let ret := firstn (psize + dsize) oldbuf ++ map fill (seq (length oldbuf) (psize + dsize - length oldbuf)) in
  if Nat.eqb oldlen 0 then Ok ret else memmove_at ret psize 0 oldlen.

Definition loadlist_arr (cf : bytes -> bool) (fill : nat -> N) (content : bytes) : Cres (lres (option block)) :=
  do r <- lloadfile3_arr content;
  match r with
  | LErr => Ok LErr
  | LOk (datalen, buf) =>
      if Nat.eqb datalen 0 then Ok (LOk None) else
      do c <- count_loop (S datalen) cf buf 0 (datalen - 1) 0 false;
      let '(buf1, j, haserr) := c in
      if Nat.eqb j 0 then Ok (LOk None) else
      do c2 <- (if haserr then compact_buffer buf1 datalen else Ok (datalen, buf1));
      let (i, buf2) := c2 in
      do m <- data_array fill j i buf2 i;
      do ps <- ptr_loop j m ((j + 1) * PTR_SIZE);
      Ok (LOk (Some {| mem := m; ptrs := ps ++ [None] |}))       (* ret[entries] = NULL *)
  end.

(** what a user of the array sees: the strings behind the pointers *)
Fixpoint read_ptrs (m : bytes) (ps : list (option nat)) : Cres (list (nat * bytes)) :=
  match ps with
  | Some p :: r => do s <- cstring_at m p; do t <- read_ptrs m r; Ok ((p, s) :: t)
  | _ => Ok []
  end.

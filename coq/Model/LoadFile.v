(** Model of lib/control.c: lloadfilefd (after the file has been read into
    inbuf[0..oldlen), inbuf[oldlen] = 0), compact_buffer, loadlistfd (without a
    check callback), loadintfd (with fixes/C16-loadint-strict.diff) and
    loadonelinerfd.  Executable definitions only.

    The buffer during the in-place edit is  rev done ++ rest ++ [0]:
    [done] = the bytes already passed (as they are now, newest first), so
    inbuf[j-1] = head of [done] and j = 0 iff [done] is empty; [rest] = the
    bytes from j on (unchanged so far); the terminator slot reads as 0.
    The open/flock/fstat/read error paths are outside the model.
    compact_buffer (memmove in place) and data_array (realloc + pointer table)
    are modelled by their functional result. *)
From Qv Require Import Common.Bytes Gen.GenControl.

Inductive lres (A : Type) : Type :=
| LOk (a : A)
| LErr.                       (* return -1 with errno = EINVAL *)
Arguments LOk {A} a.
Arguments LErr {A}.

Definition ll_blank (b : N) : bool := N.eqb b LL_BLANK_A || N.eqb b LL_BLANK_B.

(** while ((inbuf[j] != '\0') && (inbuf[j] != '\n')) inbuf[j++] = '\0';
    returns the zeros written (newest first = any order) and what is left *)
Fixpoint zero_comment (rest : bytes) : bytes * bytes :=
  match rest with
  | [] => ([], [])                                  (* inbuf[oldlen] == 0 *)
  | b :: r =>
      if N.eqb b 0 || N.eqb b LL_LF then ([], rest)
      else let (z, r') := zero_comment r in (0%N :: z, r')
  end.

(** the [while] part of  do { inbuf[j++] = '\0'; } while (inbuf[j] == ' ' || inbuf[j] == '\t'); *)
Fixpoint zero_blanks (rest : bytes) : bytes * bytes :=
  match rest with
  | [] => ([], [])
  | b :: r =>
      if ll_blank b then let (z, r') := zero_blanks r in (0%N :: z, r')
      else ([], rest)
  end.

Definition has_bit (striptab bit : nat) : bool := negb (Nat.eqb (Nat.land striptab bit) 0).

(** the main editing loop; [None] = EINVAL *)
Fixpoint ll_scan (fuel : nat) (striptab : nat) (done rest : bytes) : Cres (option bytes) :=
  match fuel with
  | O => OutOfFuel
  | S fuel' =>
      match rest with
      | [] => Ok (Some (rev done))
      | b :: r =>
          if N.eqb b LL_COMMENT &&
             (match done with [] => true | p :: _ => negb (N.eqb p LL_ESC) end)
          then
            let (z, r') := zero_comment rest in
            ll_scan fuel' striptab (z ++ done) r'
          else if has_bit striptab LL_STRIP_BIT && ll_blank b then
            let (z, r') := zero_blanks r in
            let nxt := hd 0%N r' in
            if negb (N.eqb nxt 0) && negb (N.eqb nxt LL_LF) then Ok None
            else ll_scan fuel' striptab (z ++ 0%N :: done) r'
          else if N.eqb b LL_LF then ll_scan fuel' striptab (0%N :: done) r
          else ll_scan fuel' striptab (b :: done) r
      end
  end.

(** compact_buffer: every maximal NUL-free run, followed by one NUL; [seg] = the run being read, newest first *)
Fixpoint compact (seg : bytes) (l : bytes) : bytes :=
  match l with
  | [] => match seg with [] => [] | _ => rev seg ++ [0%N] end
  | b :: r =>
      if N.eqb b 0
      then match seg with [] => compact [] r | _ => rev seg ++ 0%N :: compact [] r end
      else compact (b :: seg) r
  end.

(** lloadfilefd: (returned length, buffer); length 0 comes with buf = NULL *)
Definition lloadfile (striptab : nat) (content : bytes) : Cres (lres (nat * bytes)) :=
  match content with
  | [] => Ok (LOk (0, []))                                         (* !st.st_size *)
  | _ =>
      if Nat.eqb striptab 0 then Ok (LOk (length content, content))
      else
        do r <- ll_scan (S (length content)) striptab [] content;
        match r with
        | None => Ok LErr
        | Some inbuf =>
            if has_bit striptab LL_COMPACT_BIT then
              let c := compact [] inbuf in
              Ok (LOk (length c, c))                               (* k == 0: buf = NULL *)
            else if forallb (N.eqb 0) inbuf then Ok (LOk (0, []))
            else Ok (LOk (length inbuf, inbuf))
        end
  end.

(** strlen(buf) and the rest behind the terminator; reading past the buffer is a Crash *)
Fixpoint take_cstr (buf : bytes) : Cres (bytes * bytes) :=
  match buf with
  | [] => Crash 20
  | b :: r => if N.eqb b 0 then Ok ([], r)
              else do x <- take_cstr r; let (s, r') := x in Ok (b :: s, r')
  end.

(** while (k < i) { j++; k += strlen(buf + k) + 1; }   with cf == NULL;  [buf] = buf + k as a suffix, [left] = datalen - k *)
Fixpoint count_entries (fuel : nat) (buf : bytes) (left : nat) : Cres nat :=
  match fuel with
  | O => OutOfFuel
  | S fuel' =>
      if Nat.ltb 1 left                                            (* k < datalen - 1 *)
      then do x <- take_cstr buf; let (s, r) := x in
           do j <- count_entries fuel' r (left - (length s + 1)); Ok (S j)
      else Ok 0
  end.

(** while (i < j) { bufa[i++] = buf; buf += strlen(buf) + 1; } *)
Fixpoint take_entries (j : nat) (buf : bytes) : Cres (list bytes) :=
  match j with
  | O => Ok []
  | S j' => do x <- take_cstr buf; let (s, r) := x in
            do es <- take_entries j' r; Ok (s :: es)
  end.

Definition loadlist (content : bytes) : Cres (lres (list bytes)) :=
  do r <- lloadfile LOADLIST_MODE content;
  match r with
  | LErr => Ok LErr
  | LOk (datalen, buf) =>
      if Nat.eqb datalen 0 then Ok (LOk [])
      else
        do j <- count_entries (S datalen) buf datalen;
        if Nat.eqb j 0 then Ok (LOk [])
        else do es <- take_entries j buf; Ok (LOk es)
  end.

(** strtoul(s, &l, 10) on a C string that starts with a digit (the fixed loadintfd
    guarantees it): value with saturation, and the unparsed rest.
    [None] = ERANGE (the C result is ULONG_MAX) *)
Definition ULONG_MAX : N := 18446744073709551615%N.

Fixpoint strtoul_digits (s : bytes) (acc : N) (ovf : bool) : (N * bool) * bytes :=
  match s with
  | b :: r => if is_digit b
              then let v := (acc * N.of_nat LOADINT_BASE + (b - 48))%N in
                   strtoul_digits r v (ovf || N.ltb ULONG_MAX v)
              else ((acc, ovf), s)
  | [] => ((acc, ovf), [])
  end.

Definition is_nil_b (l : bytes) : bool := match l with [] => true | _ => false end.

Definition loadint (content : bytes) (def : N) : Cres (lres N) :=
  do r <- lloadfile LOADINT_MODE content;
  match r with
  | LErr => Ok LErr
  | LOk (i, buf) =>
      if Nat.eqb i 0 then Ok (LOk def) else
      do x <- take_cstr buf; let (s, _) := x in
      let c0 := hd 0%N s in
      if negb (Nat.eqb (length s + 1) i) || N.ltb c0 LOADINT_DIGIT_LO || N.ltb LOADINT_DIGIT_HI c0 then Ok LErr else
      match strtoul_digits s 0%N false with
      | ((v, ovf), rest) =>
          if negb (is_nil_b rest) || ovf then Ok LErr else Ok (LOk v)
      end
  end.

(** loadonelinerfd: length of the line and the line; LErr = EINVAL; [None] = ENOENT (no content) *)
Definition loadoneliner (content : bytes) : Cres (lres (option bytes)) :=
  do r <- lloadfile LOADONELINER_MODE content;
  match r with
  | LErr => Ok LErr
  | LOk (j, buf) =>
      if Nat.eqb j 0 then Ok (LOk None) else
      do x <- take_cstr buf; let (s, _) := x in
      if negb (Nat.eqb (length s + 1) j) then Ok LErr else Ok (LOk (Some s))
  end.

(** -------- loadintfd before fixes/C16-loadint-strict.diff (kept for the record of F-C16-3):
    mode 2 (no compaction), strtoul on the first C string of the buffer with its
    white-space skip and optional sign, only [*l] tested. *)
Definition c_isspace (b : N) : bool :=
  N.eqb b 32 || (N.leb 9 b && N.leb b 13).

Fixpoint skip_space (s : bytes) : bytes :=
  match s with
  | b :: r => if c_isspace b then skip_space r else s
  | [] => []
  end.

Definition strtoul_c (s : bytes) : N * bytes :=           (* value, unparsed rest (endptr) *)
  let t := skip_space s in
  let '(neg, t1) := match t with
                    | 45%N :: r => (true, r)
                    | 43%N :: r => (false, r)
                    | _ => (false, t)
                    end in
  match t1 with
  | b :: _ =>
      if is_digit b then
        match strtoul_digits t1 0%N false with
        | ((v, ovf), rest) =>
            if ovf then (ULONG_MAX, rest)
            else ((if neg then (18446744073709551616 - v) mod 18446744073709551616 else v)%N, rest)
        end
      else (0%N, s)
  | [] => (0%N, s)
  end.

Fixpoint cstr0 (d : bytes) : bytes :=
  match d with
  | [] => []
  | b :: d' => if N.eqb b 0 then [] else b :: cstr0 d'
  end.

Definition loadint_orig (content : bytes) (def : N) : Cres (lres N) :=
  do r <- lloadfile 2 content;
  match r with
  | LErr => Ok LErr
  | LOk (i, buf) =>
      if Nat.eqb i 0 then Ok (LOk def) else
      let '(v, rest) := strtoul_c (cstr0 buf) in
      if is_nil_b rest then Ok (LOk v) else Ok LErr
  end.

(** user_exists() with the real users/cdb: vget_dir() = cdb_seekmm() on the file's bytes + the record parser
    (Model/Cdb.v), then get_dirfd(AT_FDCWD, path) answered by [pathfs], then the rest of user_exists()
    (Model/Vpop.v).  Definitions only. *)
From Qv Require Import Common.Bytes Gen.GenVpop Gen.GenCdb Model.Cdb Model.Vpop.

Definition vget_dir_real (file : option bytes) (domain : bytes) : Cres vres :=
  vget_dir_file VP_CDBKEY VP_KEY_FIRST VP_KEY_LAST
    (- Z.of_N VP_EFAULT)%Z (- Z.of_N VP_ENOMEM)%Z (- Z.of_N VP_EDONE)%Z file domain.

(** [pathfs path]: what the domain path of the record (with its trailing '/') points to *)
Definition vg_of (pathfs : bytes -> domstate) (v : vres) : Z + option domstate :=
  match v with
  | VErr rc => inl rc
  | VNone => inr None
  | VPath p => inr (Some (pathfs p))
  end.

Definition user_exists_file (file : option bytes) (pathfs : bytes -> domstate) (fs : name -> entry)
    (vb : option bytes) (domain local : bytes) : Cres outcome :=
  if refused local then Ok (mkOut 0 None []) else          (* before users/cdb is opened *)
  do v <- vget_dir_real file domain;
  Ok (user_exists_with (vg_of pathfs v) fs vb local).

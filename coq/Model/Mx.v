(** Executable model of Qremote's choice among MX hosts (property C20):
      lib/dns_helpers.c : ip6_sort, mx_sorts_before, sortmx
      qremote/conn.c    : tryconn (with its function-static cur_s)
      lib/ipme.c        : filter_my_ips
      qremote/qremote.c : the statement sequence of main() that strings them together
    Definitions only.  A linked list of [struct ips] is a Coq list of [mx]; the pointer
    surgery of the C becomes list surgery at the same place.  [count] is the length of
    [addrs].  Reading [addr[0]] of an entry without addresses (the C would read past a
    zero-sized allocation) and dereferencing an empty list are [Crash]. *)
From Coq Require Import List NArith Bool Arith.
From Qv Require Import Common.Bytes Gen.GenMx.
Import ListNotations.
Local Open Scope bool_scope.

(** an address is the 16 octets of a [struct in6_addr] in memory (network) order *)
Definition addr := list N.

Fixpoint list_eqb (a b : list N) : bool :=
  match a, b with
  | [], [] => true
  | x :: a', y :: b' => N.eqb x y && list_eqb a' b'
  | _, _ => false
  end.

(** IN6_IS_ADDR_V4MAPPED: 32-bit words 0 and 1 are zero, word 2 is htonl(0xffff) *)
Definition is_v4mapped (a : addr) : bool :=
  list_eqb (firstn 12 a) [0; 0; 0; 0; 0; 0; 0; 0; 0; 0; 255; 255]%N.

Record mx : Type := mkmx { prio : N; ident : N; addrs : list addr }.

Definition set_prio (e : mx) (p : N) : mx := mkmx p (ident e) (addrs e).
Definition set_addrs (e : mx) (l : list addr) : mx := mkmx (prio e) (ident e) l.

(* ------------------------------------------------------------------ sortmx *)

(** qsort(addr, count, 16, ip6_sort) with ip6_sort = "not v4-mapped is smaller" (IPV4ONLY undefined):
    glibc's qsort is a merge sort for arrays this small, i.e. stable, so the result is the
    IPv6 addresses in their old order followed by the IPv4 ones in their old order. *)
Definition qsort_ip6 (l : list addr) : list addr :=
  filter (fun a => negb (is_v4mapped a)) l ++ filter is_v4mapped l.

(** first loop of sortmx: [if (next->count == 1) continue; qsort(...)] *)
Definition sort_entry (e : mx) : mx :=
  if Nat.eqb (length (addrs e)) 1 then e else set_addrs e (qsort_ip6 (addrs e)).

(** IN6_IS_ADDR_V4MAPPED(e->addr): looks at the first address of the entry *)
Definition first_v4 (e : mx) : Cres bool :=
  match addrs e with
  | [] => Crash 1
  | a :: _ => Ok (is_v4mapped a)
  end.

(** mx_sorts_before(n, cur)   (IPV4ONLY undefined)
      if (n->priority != cur->priority) return n->priority < cur->priority;
      return !IN6_IS_ADDR_V4MAPPED(n->addr) && IN6_IS_ADDR_V4MAPPED(cur->addr); *)
Definition mx_sorts_before (n cur : mx) : Cres bool :=
  if negb (N.eqb (prio n) (prio cur)) then Ok (N.ltb (prio n) (prio cur))
  else
    do n4 <- first_v4 n;
    if n4 then Ok false
    else do c4 <- first_v4 cur; Ok c4.

(** [while (this->next && !mx_sorts_before(next, this->next)) this = this->next;] then link [next] in;
    the argument is the chain hanging off [this->next], the result is the new chain *)
Fixpoint walk (n : mx) (rest : list mx) : Cres (list mx) :=
  match rest with
  | [] => Ok [n]
  | c :: r =>
      do b <- mx_sorts_before n c;
      if b then Ok (n :: c :: r)
      else do r' <- walk n r; Ok (c :: r')
  end.

(** one round of the outer while loop: [res] is the sorted list built so far, [n] is [next] *)
Definition insert_one (res : list mx) (n : mx) : Cres (list mx) :=
  match res with
  | [] => Crash 2
  | r0 :: rest =>
      do b <- mx_sorts_before n r0;
      if b then Ok (n :: res)
      else do r' <- walk n rest; Ok (r0 :: r')
  end.

Fixpoint insert_all (res : list mx) (l : list mx) : Cres (list mx) :=
  match l with
  | [] => Ok res
  | n :: t => do res' <- insert_one res n; insert_all res' t
  end.

Definition sortmx (l : list mx) : Cres (list mx) :=
  match map sort_entry l with
  | [] => Crash 3                       (* p[0]->next with p[0] == NULL *)
  | h :: t => insert_all [h] t
  end.

(* ------------------------------------------------------------------ tryconn *)

(** the [for (thisip = mx; thisip; thisip = thisip->next)] scan: returns the list with the marks
    it set, the new value of cur_s and the entry it stopped at (None: ran off the end) *)
Fixpoint scan (l : list mx) (cs : nat) : list mx * nat * option mx :=
  match l with
  | [] => ([], cs, None)
  | e :: r =>
      if N.eqb (prio e) MX_PRIORITY_CURRENT then
        if Nat.ltb (S cs) (length (addrs e)) then (e :: r, S cs, Some e)    (* cur_s < count - 1 *)
        else let '(r', cs', sel) := scan r cs in (set_prio e MX_PRIORITY_USED :: r', cs', sel)
      else if N.leb (prio e) TRYCONN_FRESH_MAX then
        (set_prio e MX_PRIORITY_CURRENT :: r, 0, Some e)
      else let '(r', cs', sel) := scan r cs in (e :: r', cs', sel)
  end.

Inductive tc_result : Type :=
| TcConnected (id : N) (idx : nat)      (* socket returned; getrhost(thisip, cur_s) was called *)
| TcNoent.                              (* -ENOENT *)

(** one connection attempt as seen by bind()/connect(): target address and whether the IPv4
    outgoing address was bound (else the IPv6 one) *)
Definition attempt : Type := (addr * bool)%type.

Record tc_state : Type := mkst { st_list : list mx; st_cur : nat; st_oracle : list N }.

(** the [while (1)] of tryconn.  The oracle holds one value per connect(): 0 = success, anything
    else = failure; an exhausted oracle fails. *)
Fixpoint tryconn_loop (fuel : nat) (l : list mx) (cs : nat) (oracle : list N) (acc : list attempt)
  : Cres (tc_state * list attempt * tc_result) :=
  match fuel with
  | O => OutOfFuel
  | S f =>
      let '(l', cs', sel) := scan l cs in
      match sel with
      | None => Ok (mkst l' cs' oracle, rev acc, TcNoent)
      | Some e =>
          match nth_error (addrs e) cs' with
          | None => Crash 4                 (* addr[cur_s] outside the array *)
          | Some a =>
              let att := (a, is_v4mapped a) in
              match oracle with
              | o :: rest =>
                  if N.eqb o 0 then Ok (mkst l' cs' rest, rev (att :: acc), TcConnected (ident e) cs')
                  else tryconn_loop f l' cs' rest (att :: acc)
              | [] => tryconn_loop f l' cs' [] (att :: acc)
              end
          end
      end
  end.

Definition total_addrs (l : list mx) : nat := length (concat (map addrs l)).

Definition tryconn (s : tc_state) : Cres (tc_state * list attempt * tc_result) :=
  tryconn_loop (S (S (total_addrs (st_list s)))) (st_list s) (st_cur s) (st_oracle s) [].

(** what connect_mx does with it: call again after a failed greeting/EHLO.  [n] calls. *)
Fixpoint tryconn_calls (n : nat) (s : tc_state) : Cres (tc_state * list (list attempt * tc_result)) :=
  match n with
  | O => Ok (s, [])
  | S n' =>
      do r <- tryconn s;
      let '(s', atts, res) := r in
      do r2 <- tryconn_calls n' s';
      let '(s'', outs) := r2 in
      Ok (s'', (atts, res) :: outs)
  end.

(* ------------------------------------------------------------------ filter_my_ips *)

Inductive iface : Type :=
| IfNull                 (* ifa_addr == NULL *)
| IfOther                (* a family other than AF_INET / AF_INET6 *)
| If4 (a : addr)         (* AF_INET; only the last four octets of [a] are the address *)
| If6 (a : addr).        (* AF_INET6 *)

Definition last4 (a : addr) : list N := skipn 12 a.

(** AF_INET branch, loop body: true = [break] (the address is "me") *)
Definition match4 (ifa : addr) (a : addr) : bool :=
  is_v4mapped a &&
  (list_eqb (last4 a) (last4 ifa) || N.eqb (nth 12 a 0%N) IN_LOOPBACKNET || list_eqb (last4 a) [0; 0; 0; 0]%N).

(** AF_INET6 branch: IN6_ARE_ADDR_EQUAL *)
Definition match6 (ifa : addr) (a : addr) : bool := list_eqb a ifa.

(** [for (s = 0; s < count; s++) if (match) break;] : Some s, or None for s == count *)
Fixpoint find_idx (m : addr -> bool) (l : list addr) : option nat :=
  match l with
  | [] => None
  | a :: r => if m a then Some 0 else option_map S (find_idx m r)
  end.

Fixpoint remove_nth {A} (n : nat) (l : list A) : list A :=
  match l, n with
  | [], _ => []
  | _ :: r, O => r
  | x :: r, S n' => x :: remove_nth n' r
  end.

(** what the inner while loop does while [tmp] stays on one entry: None = the entry was unlinked and freed *)
Fixpoint entry_loop (fuel : nat) (m : addr -> bool) (e : mx) : Cres (option mx) :=
  match fuel with
  | O => OutOfFuel
  | S f =>
      match find_idx m (addrs e) with
      | None => Ok (Some e)                                          (* s == tmp->count: next entry *)
      | Some s =>
          if Nat.eqb (length (addrs e)) 1 then Ok None                (* tmp->count == 1: drop the entry *)
          else entry_loop f m (set_addrs e (remove_nth s (addrs e)))  (* count--, memmove, stay on tmp *)
      end
  end.

Fixpoint filter_one (m : addr -> bool) (l : list mx) : Cres (list mx) :=
  match l with
  | [] => Ok []
  | e :: r =>
      do oe <- entry_loop (S (length (addrs e))) m e;
      do r' <- filter_one m r;
      Ok (match oe with Some e' => e' :: r' | None => r' end)
  end.

Fixpoint filter_ifs (ifs : list iface) (l : list mx) : Cres (list mx) :=
  match ifs with
  | [] => Ok l
  | IfNull :: t | IfOther :: t => filter_ifs t l
  | If4 a :: t => do l' <- filter_one (match4 a) l; filter_ifs t l'
  | If6 a :: t => do l' <- filter_one (match6 a) l; filter_ifs t l'
  end.

(** [gia_fails]: getifaddrs() returned an error, the list is handed back unchanged *)
Definition filter_my_ips (gia_fails : bool) (ifs : list iface) (l : list mx) : Cres (list mx) :=
  if gia_fails then Ok l else filter_ifs ifs l.

(* ------------------------------------------------------------------ qremote.c main() *)

Inductive targets_result : Type :=
| AllMe                                                          (* "all mail exchangers ... point back to me" *)
| Tried (l1 l2 : list mx) (s : tc_state) (outs : list (list attempt * tc_result)).   (* list after filtering, after sorting *)

(** getmxlist() has produced [l] and [port]; then
      if (targetport == 25) { mx = filter_my_ips(mx); if (mx == NULL) die }   sortmx(&mx);   connect_mx -> tryconn... *)
Definition qremote_targets (port : N) (gia_fails : bool) (ifs : list iface) (l : list mx)
           (cs0 : nat) (oracle : list N) (ncalls : nat) : Cres targets_result :=
  do l1 <- (if N.eqb port FILTER_PORT then filter_my_ips gia_fails ifs l else Ok l);
  match l1 with
  | [] => Ok AllMe
  | _ =>
      do l2 <- sortmx l1;
      do r <- tryconn_calls ncalls (mkst l2 cs0 oracle);
      let '(s, outs) := r in Ok (Tried l1 l2 s outs)
  end.

(** Property C20, last clause: qremote/conn_mx.c:connect_mx() with the REAL tryconn().
    Model/TlsClient.v (C18) and Model/QrConnect.v (C04) transcribe the loop of connect_mx() and everything
    behind the greeting, but take tryconn() as "the next element of a list of connections, -ENOENT at the
    end".  Here that oracle is replaced by Model/Mx.v's [tryconn] (the scan over the MX list with its
    USED/CURRENT marks, cur_s, one connect() outcome per attempt), and nothing else is changed:
    [connect_mx_c] is [QrConnect.connect_mx_q] with the list walk swapped for the call of [tryconn].

    The case: the MX list as sortmx() left it, one connect() outcome per attempt ([m_oracle], 0 = the
    connection is established), and the scripted servers in the order in which connections come about
    ([m_servers]: the i-th established connection talks to the i-th server).  Whether the partner has a
    name (partner_fqdn, set by getrhost() from the entry tryconn() stopped at) is taken from the entry:
    [ident] 0 stands for "no name".  dnstlsa() is asked for the name of the HEAD of the list before every
    tryconn() ([m_headtlsa] = its TLSA records), as in the C. *)
From Coq Require Import List NArith ZArith Bool Arith.
From Qv Require Import Common.Bytes Gen.GenMx Gen.GenNetio Gen.GenQremote Gen.GenStarttls
  Model.NetRead Model.TlsClient Model.QrConnect Model.Mx.
Import ListNotations.
Local Open Scope bool_scope.

Record mcase : Type := mkMC {
  m_route : bool;
  m_list : list mx;
  m_cs0 : nat;                     (* value of tryconn()'s static cur_s at the start (irrelevant for a fresh list) *)
  m_oracle : list N;
  m_headtlsa : list (N * Z);
  m_servers : list qconn
}.

Definition entry_named (id : N) : bool := negb (N.eqb id 0).

Definition set_named (qc : qconn) (b : bool) : qconn :=
  let c := q_conn qc in
  mkQ (mkConn b (c_pinfile c) (c_pinload c) (c_tlsa c) (c_hs c) (c_verify c) (c_pre c) (c_post c) (c_tls c))
      (q_silent qc) (q_dup2 qc).

(** what connect_mx() knows of the list head: mx->name and the answer of dnstlsa(mx->name) *)
Definition head_conns (l : list mx) (tlsa : list (N * Z)) : list conn :=
  match l with
  | e :: _ => [mkConn (entry_named (ident e)) false false tlsa 0 0 [] [] []]
  | [] => []
  end.

(** the do-while of connect_mx(); second component: every connect() attempt made, in order *)
Fixpoint connect_mx_c (fuel : nat) (fx_err fx_dup : bool) (all : list conn) (k : nat) (ts : tc_state)
         (servers : list qconn) (acc : list attempt) (s : st) : res (option (conn * Z)) * list attempt :=
  match fuel with
  | O => (Stuck s, acc)
  | S f =>
      let s := if asks_tlsa all then log (EvTlsa 0) s else s in
      match tryconn ts with
      | Ok (ts', atts, TcNoent) => (Ret None s, acc ++ atts)            (* socketd < 0: return socketd *)
      | Ok (ts', atts, TcConnected id idx) =>
          match servers with
          | [] => (Stuck s, acc ++ atts)                                (* the script is too short *)
          | qc0 :: servers' =>
              let qc := set_named qc0 (entry_named id) in
              match conn_iter_q fx_err fx_dup k qc (tlsa_eff all) s with
              | Ret (Some g) s1 => (Ret (Some (q_conn qc, g)) s1, acc ++ atts)
              | Ret None s1 => connect_mx_c f fx_err fx_dup all (S k) ts' servers' (acc ++ atts) s1
              | Exit s1 => (Exit s1, acc ++ atts)
              | Stuck s1 => (Stuck s1, acc ++ atts)
              end
          end
      | _ => (Stuck s, acc)                                             (* tryconn() out of its contract *)
      end
  end.

Definition mc_fuel (k : mcase) : nat := S (S (total_addrs (m_list k))).

(** main() from behind sortmx() to the call of send_envelope() *)
Definition connect_phase_c (fx_err fx_dup : bool) (k : mcase) : phase_end * list attempt :=
  let '(r, atts) := connect_mx_c (mc_fuel k) fx_err fx_dup (head_conns (m_list k) (m_headtlsa k)) 0
                                 (mkst (m_list k) (m_cs0 k) (m_oracle k)) (m_servers k) []
                                 (init_st (mkCase (m_route k) [])) in
  (match r with
   | Ret None s =>
       match @shutdown_abort unit (report ST_RPT_NOCONN s) with
       | Exit s' => PExited s' | Ret _ s' => PStuck s' | Stuck s' => PStuck s'
       end
   | Ret (Some (c, g)) s =>
       if ST_PINNED_NEEDS_TLS && negb (s_ssl s) && pinned c then
         match @shutdown_clean unit (report ST_RPT_PINNED s) with
         | Exit s' => PExited s' | Ret _ s' => PStuck s' | Stuck s' => PStuck s'
         end
       else PConnected c g s
   | Exit s => PExited s
   | Stuck s => PStuck s
   end, atts).

(** the whole run of the harness (op ca of harness/tlssw_h.c) *)
Definition run_c (k : mcase) : res unit * list attempt :=
  let '(p, atts) := connect_phase_c QR_CONN_ERR_REPORTS QR_CONN_DUP2_REPORTS k in
  (match p with
   | PExited s => Exit s
   | PConnected c g s => shutdown_clean (nwrite MAIL_CMD (log (EvMail (s_ssl s) (Z.to_N g)) s))
   | PStuck s => Stuck s
   end, atts).

(** Macro expansion of qsmtpd/spf.c (spf_makro, spf_makroletter, spf_makroparam,
    spf_appendmakro, urlencode) as a function from the macro string to its
    expansion.  This is a functional description (split / reverse / select /
    join), not a transcription of the buffer code: it is tied to the C by the
    correspondence run only, and no theorem looks inside it (the theorems of
    C11 hold for every function of this type).  Executable definitions only. *)
From Qv Require Import Common.Bytes Gen.GenSpf Model.SpfBase Model.SpfEnv.
Local Open Scope N_scope.

(** result of spf_makro() *)
Inductive mres := MOk (out : bytes) | MPerm | MLocal.

(** spf_delimiters = ".-+,/_=" *)
Definition is_delim (c : N) : bool := mem c [46; 45; 43; 44; 47; 95; 61].

(** length of the token handed to spf_makro() with ex == 0: up to white space
    or '/', but a '/' between "%{" and "}" is a delimiter and does not end it *)
Fixpoint tok_scan (s : bytes) (brace : bool) (skip : bool) : nat :=
  match s with
  | [] => 0
  | c :: t =>
      if skip then S (tok_scan t brace false)
      else if wspace c then 0
      else if negb brace && (c =? 47) then 0
      else if brace then S (tok_scan t (negb (c =? 125)) false)
      else if c =? 37 then
        if hd0 t =? 123 then S (tok_scan t true false)
        else if hd0 t =? 37 then S (tok_scan t false true)
        else S (tok_scan t false false)
      else S (tok_scan t false false)
  end.

(** split at the characters in [ds] *)
Fixpoint split_on (ds : bytes) (s : bytes) (cur : bytes) : list bytes :=
  match s with
  | [] => [rev cur]
  | c :: t => if mem c ds then rev cur :: split_on ds t [] else split_on ds t (c :: cur)
  end.
Fixpoint join_dot (l : list bytes) : bytes :=
  match l with
  | [] => []
  | [x] => x
  | x :: r => x ++ 46 :: join_dot r
  end.
Definition lastn {A} (n : nat) (l : list A) : list A := skipn (length l - n) l.

Definition hexdig_u (n : N) : N := if 9 <? n then 55 + n else 48 + n.
Definition hexdig_l (n : N) : N := if 9 <? n then 87 + n else 48 + n.
Definition url_unreserved (c : N) : bool := is_alnum c || mem c [45; 95; 46; 33; 126; 42; 39; 40; 41].
Fixpoint urlencode (s : bytes) : bytes :=
  match s with
  | [] => []
  | c :: t => if url_unreserved c then c :: urlencode t
              else 37 :: hexdig_u (c / 16) :: hexdig_u (c mod 16) :: urlencode t
  end.

(** spf_appendmakro(): [num] parts, [rv] = r & 1, [url] = r & 2, [ds] the delimiters *)
Definition append_makro (s : bytes) (num : nat) (rv url : bool) (ds : bytes) : bytes :=
  let parts := split_on ds s [] in
  let sel := if rv then rev (firstn num parts) else lastn num parts in
  let o := join_dot sel in
  if url then urlencode o else o.

(** dotip6(): the 32 nibbles of the address, lowest first *)
Fixpoint nibbles (k : nat) (a : N) : list bytes :=
  match k with
  | O => []
  | S k' => [hexdig_l (a mod 16)] :: nibbles k' (a / 16)
  end.
Definition dotip6 (a : N) : bytes := join_dot (nibbles 32 a).

(** spf_makroparam(): the DIGIT transformer, saturating like the C *)
Fixpoint num_val (s : bytes) (acc : N) : N * bytes :=
  match s with
  | c :: t => if is_digit c then num_val t (if acc <? 100000 then acc * 10 + (c - 48) else acc) else (acc, s)
  | [] => (acc, [])
  end.

Definition S_POSTMASTER : bytes := [112; 111; 115; 116; 109; 97; 115; 116; 101; 114].
Definition S_UNKNOWN : bytes := [117; 110; 107; 110; 111; 119; 110].
Definition S_INADDR : bytes := [105; 110; 45; 97; 100; 100; 114].
Definition S_IP6 : bytes := [105; 112; 54].

Section Macro.
Variable D : dns.
Variable X : sess.

Definition local_part (m : bytes) : bytes := take_while (fun c => negb (c =? 64)) m.
Definition domain_part (m : bytes) : bytes := match after_char 64 m with Some d => d | None => [] end.

(** what one macro letter yields *)
Inductive lres :=
| LText (t : bytes)                      (* appended text *)
| LPerm | LLocal
| LCrash.                                (* spf_appendmakro() called with an empty string *)

Definition app_src (src : bytes) (num : nat) (rv url : bool) (ds : bytes) : lres :=
  match src with
  | [] => LCrash
  | _ => LText (append_makro src num rv url ds)
  end.

(** spf_makroletter(): [p] is the text after "%{".  Yields the expansion, the text after the closing brace and the
    resolver calls made (%{p}). *)
Definition makroletter (p : bytes) (domain : bytes) (ex : bool) : lres * bytes * list qev :=
  match p with
  | [] => (LPerm, [], [])
  | ch :: p0 =>
      let '(numo, p1) := match p0 with
                         | c :: _ => if is_digit c then let '(n, r) := num_val p0 0 in (Some n, r) else (None, p0)
                         | [] => (None, p0)
                         end in
      match numo with
      | Some 0 => (LPerm, [], [])
      | _ =>
        let num := match numo with Some n => N.to_nat n | None => 255%nat end in
        let '(rv, p2) := match p1 with 114 :: t => (true, t) | _ => (false, p1) end in
        let dl := take_while is_delim p2 in
        let p3 := drop_while is_delim p2 in
        match p3 with
        | 125 :: rest =>
            let ds := 46 :: dl in
            let url := is_upper ch in
            let l := to_lower ch in
            let '(r, q) :=
              if l =? 115 then
                match s_mailfrom X with
                | [] => (app_src (S_POSTMASTER ++ 64 :: HELOSTR X) num rv url ds, [])
                | m => (app_src m num rv url ds, [])
                end
              else if l =? 108 then
                match s_mailfrom X with
                | [] => (LText S_POSTMASTER, [])
                | m => (app_src (local_part m) num rv url ds, [])
                end
              else if l =? 111 then
                match s_mailfrom X with
                | [] => (app_src (HELOSTR X) num rv url ds, [])
                | m => (app_src (domain_part m) num rv url ds, [])
                end
              else if l =? 100 then (app_src domain num rv url ds, [])
              else if (l =? 99) && negb ex then (LPerm, [])
              else if (l =? 99) && negb (client_v4 X) then (LText (s_iptext X), [])
              else if (l =? 99) || (l =? 105) then
                if client_v4 X then (app_src (s_iptext X) num rv url ds, [])
                else (app_src (dotip6 (s_client X)) num (negb rv && negb url) false ds, [])
              else if l =? 116 then
                if ex then (LText (ultostr (s_now X)), []) else (LPerm, [])
              else if l =? 112 then
                let '(v, qv) := validate_domain D X in
                match v with
                | inl ELocal => (LLocal, qv)
                | inl _ => (LText S_UNKNOWN, qv)
                | inr [] => (LText S_UNKNOWN, qv)
                | inr (d :: _) => (app_src d num rv url ds, qv)
                end
              else if l =? 114 then
                if ex then (app_src (s_heloname X) num rv url ds, []) else (LPerm, [])
              else if l =? 118 then
                if client_v4 X then (app_src S_INADDR num rv url (filter (fun c => (c =? 46) || (c =? 45)) ds), [])
                else (LText S_IP6, [])
              else if l =? 104 then (app_src (HELOSTR X) num rv url ds, [])
              else (LPerm, []) in
            (r, rest, q)
        | _ => (LPerm, [], [])
        end
      end
  end.

Definition not_pct (c : N) : bool := negb (c =? 37).

(** the do-while loop of spf_makro(): [s] starts at a '%' *)
Fixpoint makro_loop (fuel : nat) (s : bytes) (domain : bytes) (ex : bool) (acc : bytes) (q : list qev)
  : Cres (mres * list qev) :=
  match fuel with
  | O => Crash 98
  | S f =>
    match s with
    | c0 :: c :: t =>
        if negb (c0 =? 37) then Ok (MPerm, q) else
        let cont (add : bytes) (t' : bytes) (q' : list qev) :=
            let acc' := acc ++ add ++ take_while not_pct t' in
            match drop_while not_pct t' with
            | [] => Ok (MOk acc', q')
            | s' => makro_loop f s' domain ex acc' q'
            end in
        if c =? 45 then cont [37; 50; 48] t q
        else if c =? 95 then cont [32] t q
        else if c =? 37 then cont [37] t q
        else if c =? 123 then
          match makroletter t domain ex with
          | (LText e, t', ql) => cont e t' (q ++ ql)
          | (LPerm, _, ql) => Ok (MPerm, q ++ ql)
          | (LLocal, _, ql) => Ok (MLocal, q ++ ql)
          | (LCrash, _, _) => Crash 97
          end
        else Ok (MPerm, q)
    | _ => Ok (MPerm, q)
    end
  end.

(** spf_makro(token, domain, ex, &result) *)
Definition spf_makro (tok : bytes) (domain : bytes) (ex : bool) : Cres (mres * list qev) :=
  let tokstr := if ex then tok else firstn (tok_scan tok false false) tok in
  match drop_while not_pct tokstr with
  | [] => Ok (MOk tokstr, [])
  | s => makro_loop (S (length s)) s domain ex (take_while not_pct tokstr) []
  end.

End Macro.

(** Executable model of qremote/smtproutes.c:smtproute() (property C20, "routes first"):
    which smtproutes.d file or control/smtproutes line decides where Qremote connects.
    Strings are byte lists without NUL.  The file system is abstracted to: does
    control/smtproutes.d exist, which files does it hold (name, content), is there a
    control/smtproutes (content).  File contents are "clean": lines of non-blank octets
    separated by LF (no comments, no blanks), so that lloadfilefd() amounts to splitting at
    LF and dropping empty lines.  Only the keys relay= and port= are modelled for
    smtproutes.d files (clientcert/clientkey/outgoingip/outgoingip6 are [RouteOther]).
    DNS (ask_dnsaaaa of the relay name) is an oracle table. *)
From Coq Require Import List NArith Bool Arith.
From Qv Require Import Common.Bytes Gen.GenMx Model.Mx.
Import ListNotations.
Local Open Scope bool_scope.

Definition COLON : N := 58%N.
Definition EQSIGN : N := 61%N.
Definition STAR : N := 42%N.
Definition PLUS : N := 43%N.
Definition MINUS : N := 45%N.
Definition default_name : bytes := [100; 101; 102; 97; 117; 108; 116]%N.   (* "default" *)

(** strchr(s, c): the suffix of s that starts at the first c *)
Fixpoint strchr (s : bytes) (c : N) : option bytes :=
  match s with
  | [] => None
  | x :: r => if N.eqb x c then Some s else strchr r c
  end.

(** the part of s before the first c (what remains after "*strchr(s, c) = 0") *)
Fixpoint before (s : bytes) (c : N) : bytes :=
  match s with
  | [] => []
  | x :: r => if N.eqb x c then [] else x :: before r c
  end.

Fixpoint is_prefix (p s : bytes) : bool :=
  match p, s with
  | [], _ => true
  | x :: p', y :: s' => N.eqb x y && is_prefix p' s'
  | _ :: _, [] => false
  end.

(* ------------------------------------------------------------------ configuration *)

Record route_cfg : Type := mkcfg {
  dir_exists : bool;                       (* control/smtproutes.d can be opened *)
  dir_files : list (bytes * bytes);        (* its files: name, content *)
  routes_file : option bytes;              (* control/smtproutes, if present *)
  dns_table : list (bytes * list addr)     (* ask_dnsaaaa: names that resolve, with their addresses *)
}.

Fixpoint assoc {B} (k : bytes) (l : list (bytes * B)) : option B :=
  match l with
  | [] => None
  | (k', v) :: r => if list_eqb k k' then Some v else assoc k r
  end.

(** lloadfilefd() on clean content: split at LF, drop empty lines *)
Fixpoint split_lines_aux (cur : bytes) (s : bytes) : list bytes :=
  match s with
  | [] => match cur with [] => [] | _ => [rev cur] end
  | x :: r => if N.eqb x LF then
                match cur with [] => split_lines_aux [] r | _ => rev cur :: split_lines_aux [] r end
              else split_lines_aux (x :: cur) r
  end.
Definition load_lines (content : bytes) : list bytes := split_lines_aux [] content.

(* ------------------------------------------------------------------ result *)

Inductive route_result : Type :=
| RouteFatal                                 (* err_confn(): configuration error, Qremote terminates *)
| RouteOther                                 (* keys outside the model *)
| Route (mx : option (list addr)) (port : N).  (* relay addresses (None: use DNS MX) and targetport *)

(* ------------------------------------------------------------------ parse_route_params *)

(** strtoul(port, &more, 10) followed by the assignment to an unsigned int:
    returns (value mod 2^32, rest) ; no digits: (0, the whole string) *)
Fixpoint take_digits (s : bytes) (acc : N) : N * bytes :=
  match s with
  | x :: r => if is_digit x then take_digits r (acc * 10 + (x - 48))%N else (acc, s)
  | [] => (acc, [])
  end.

Definition ULONG_MAX : N := 18446744073709551615%N.
Definition UINT_MOD : N := 4294967296%N.

Definition strtoul_uint (s : bytes) : N * bytes :=
  let '(neg, body) := match s with
                      | x :: r => if N.eqb x MINUS then (true, r) else if N.eqb x PLUS then (false, r) else (false, s)
                      | [] => (false, [])
                      end in
  match body with
  | d :: _ =>
      if is_digit d then
        let '(v, rest) := take_digits body 0%N in
        let ul := if N.ltb ULONG_MAX v then ULONG_MAX
                  else if neg then ((ULONG_MAX + 1 - v) mod (ULONG_MAX + 1))%N else v in
        ((ul mod UINT_MOD)%N, rest)
      else (0%N, s)
  | [] => (0%N, s)
  end.

Definition parse_route_params (cfg : route_cfg) (host port : option bytes) : route_result :=
  let hostres :=
    match host with
    | None => Some None
    | Some h => match assoc h (dns_table cfg) with
                | Some (a :: r) => Some (Some (a :: r))
                | _ => None                             (* cnt <= 0: "cannot find IP address for static route" *)
                end
    end in
  match hostres with
  | None => RouteFatal
  | Some mxo =>
      match port with
      | None => Route mxo ROUTE_DEFAULT_PORT
      | Some p =>
          let '(v, more) := strtoul_uint p in
          match more with
          | _ :: _ => RouteFatal
          | [] => if N.leb ROUTE_PORT_LIMIT v || N.eqb v 0 then RouteFatal else Route mxo v
          end
      end
  end.

(* ------------------------------------------------------------------ smtproutes.d *)

Inductive probe_result : Type :=
| PFound (content : bytes)
| PNone
| PFatal.                 (* openat() failed with something else than ENOENT *)

Definition NAME_MAX : nat := N.to_nat SYS_NAME_MAX.      (* limits.h, via the translator *)

(** the probing loop: [fn] is the name tried now, [curpart] what is left of remhost (None: "default" is
    being tried).  openat(dirfd, fn) succeeds iff [files] has the name; a name longer than NAME_MAX gives
    ENAMETOOLONG, which is fatal; names are assumed to be free of '/' and different from "." and "..". *)
Fixpoint probe (fuel : nat) (files : list (bytes * bytes)) (fn : bytes) (curpart : option bytes)
  : Cres probe_result :=
  match fuel with
  | O => OutOfFuel
  | S f =>
      if Nat.ltb NAME_MAX (length fn) then Ok PFatal
      else
      match assoc fn files with
      | Some content => Ok (PFound content)
      | None =>
          match curpart with
          | None => Ok PNone
          | Some cp =>
              match strchr cp DOT with
              | None => probe f files default_name None
              | Some dot =>
                  (* assert(strlen(dot) < sizeof(fnbuf) - 2) is compiled out; strcpy(fnbuf + 1, dot) into char fnbuf[DOMAINNAME_MAX + 2] *)
                  if Nat.leb (N.to_nat ROUTE_FNBUF_SIZE - 1) (length dot) then Crash 5
                  else probe f files (STAR :: dot) (Some (tl dot))
              end
          end
      end
  end.

(** validroute(): key=value with a known key that was not seen before; returns the new tagmask (list of seen tag indexes) *)
Fixpoint tag_index_from (i : nat) (tags : list bytes) (key : bytes) : option nat :=
  match tags with
  | [] => None
  | t :: r => if list_eqb t key then Some i else tag_index_from (S i) r key
  end.

Definition validroute (mask : list nat) (line : bytes) : option (list nat) :=
  match strchr line EQSIGN with
  | None => None
  | Some _ =>
      let key := before line EQSIGN in
      match key with
      | [] => None
      | _ => match tag_index_from 0 ROUTE_TAGS key with
             | None => None
             | Some i => if existsb (Nat.eqb i) mask then None else Some (i :: mask)
             end
      end
  end.

(** loadlistfd(fd, &array, validroute): invalid lines are logged and dropped *)
Fixpoint load_valid (mask : list nat) (lines : list bytes) : list nat * list bytes :=
  match lines with
  | [] => (mask, [])
  | l :: r => match validroute mask l with
              | Some mask' => let '(m, ls) := load_valid mask' r in (m, l :: ls)
              | None => load_valid mask r
              end
  end.

(** tagvalue() (with fixes/C20-tagvalue-prefix.diff): the first line that starts with "name=", behind it *)
Fixpoint tagvalue (lines : list bytes) (tag : bytes) : option bytes :=
  match lines with
  | [] => None                                   (* cannot happen when the bit is set *)
  | l :: r => if is_prefix tag l && N.eqb (nth (length tag) l 0%N) EQSIGN
              then Some (skipn (S (length tag)) l) else tagvalue r tag
  end.

Definition eval_file (cfg : route_cfg) (content : bytes) : route_result :=
  let '(mask, lines) := load_valid [] (load_lines content) in
  if existsb (fun i => Nat.leb 2 i) mask then RouteOther
  else
    let hv := if existsb (Nat.eqb 0) mask then tagvalue lines (nth 0 ROUTE_TAGS []) else None in
    let pv := if existsb (Nat.eqb 1) mask then tagvalue lines (nth 1 ROUTE_TAGS []) else None in
    parse_route_params cfg hv pv.

(* ------------------------------------------------------------------ control/smtproutes *)

(** hascolon(): 0 (valid) iff exactly one colon, or two and only digits after the second *)
Definition hascolon_ok (s : bytes) : bool :=
  match strchr s COLON with
  | None => false
  | Some c1 => match strchr (tl c1) COLON with
               | None => true
               | Some c2 => forallb is_digit (tl c2)
               end
  end.

Fixpoint strcaseeq (a b : bytes) : bool :=
  match a, b with
  | [], [] => true
  | x :: a', y :: b' => N.eqb (to_lower x) (to_lower y) && strcaseeq a' b'
  | _, _ => false
  end.

(** matchdomain(domain, dl, expr) *)
Definition matchdomain (domain expr : bytes) : bool :=
  let el := length expr in let dl := length domain in
  if Nat.ltb dl el then false
  else match expr with
       | x :: _ => if N.eqb x DOT then strcaseeq (skipn (dl - el) domain) expr
                   else if Nat.eqb el dl then strcaseeq domain expr else false
       | [] => if Nat.eqb el dl then strcaseeq domain expr else false
       end.

(** one line "pattern:relay[:port]" that passed hascolon() *)
Definition line_matches (remhost : bytes) (line : bytes) : bool :=
  let pat := before line COLON in
  match pat with [] => true | _ => matchdomain remhost pat end.

Definition eval_line (cfg : route_cfg) (line : bytes) : route_result :=
  let target := tl (match strchr line COLON with Some c => c | None => [] end) in
  let relay := before target COLON in
  let port := match strchr target COLON with Some c => Some (tl c) | None => None end in
  parse_route_params cfg (match relay with [] => None | _ => Some relay end) port.

Fixpoint first_match (cfg : route_cfg) (remhost : bytes) (lines : list bytes) : route_result :=
  match lines with
  | [] => Route None ROUTE_DEFAULT_PORT
  | l :: r => if line_matches remhost l then eval_line cfg l else first_match cfg remhost r
  end.

Definition eval_routes (cfg : route_cfg) (remhost : bytes) : route_result :=
  match routes_file cfg with
  | None => Route None ROUTE_DEFAULT_PORT
  | Some content => first_match cfg remhost (filter hascolon_ok (load_lines content))
  end.

(* ------------------------------------------------------------------ smtproute() *)

Definition smtproute (cfg : route_cfg) (remhost : bytes) : Cres route_result :=
  if dir_exists cfg then
    do found <- probe (length remhost + 3) (dir_files cfg) remhost (Some remhost);
    match found with
    | PFound content => Ok (eval_file cfg content)
    | PNone => Ok (eval_routes cfg remhost)
    | PFatal => Ok RouteFatal
    end
  else Ok (eval_routes cfg remhost).

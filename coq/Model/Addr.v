(** Model of the address parsers of Qsmtpd.  Executable definitions only.

      lib/dns_helpers.c   domainvalid
      qsmtpd/addrsyntax.c parselocalpart, parseaddr, checkaddr, addrspec_valid, addrsyntax
      qsmtpd/xtext.c      xtextlen

    Memory.  A C pointer into a NUL-terminated buffer is modelled by the list of
    bytes from the pointer to the END OF THE MAPPED BUFFER (the terminator is the
    last byte when the caller passes [s ++ [0]]).  Reading [p[0]] takes the head;
    a read with nothing left is a read past the buffer: [Crash].  Indices
    ([h], [t], [at_], ...) are offsets from the start of the function's argument,
    exactly the C pointer differences.  Character classes and limits come from
    Gen/GenAddr.v (cut out of the C source of this run); [tbl T c] is the value of
    the C boolean expression for the char [c].  inet_pton() is a parameter
    ([pton4], [pton6]) of the section; it receives the bytes copied to ipbuf. *)
From Qv Require Import Common.Bytes Gen.GenAddr.

Definition NUL : N := 0%N.
Definition AT : N := 64%N.
Definition QUOTE : N := 34%N.
Definition BSL : N := 92%N.
Definition LBR : N := 91%N.
Definition RBR : N := 93%N.
Definition COMMA : N := 44%N.
Definition COLON : N := 58%N.
Definition GT : N := 62%N.
Definition PLUS : N := 43%N.

Definition tbl (t : list bool) (c : N) : bool := nth (N.to_nat c) t false.
Definition tblN (t : list N) (c : N) : N := nth (N.to_nat c) t 0%N.

(** p[k] *)
Definition rd (p : bytes) (k : nat) : Cres N :=
  match nth_error p k with Some b => Ok b | None => Crash 1 end.

(** p[i] = v *)
Definition upd (mem : bytes) (i : nat) (v : N) : Cres bytes :=
  if Nat.ltb i (length mem) then Ok (firstn i mem ++ v :: skipn (S i) mem) else Crash 2.

(** strchr(p, c) for c <> 0; the result is [base] + offset of the hit *)
Fixpoint strchr (p : bytes) (c : N) (base : nat) : Cres (option nat) :=
  match p with
  | [] => Crash 3
  | x :: p' => if N.eqb x c then Ok (Some base)
               else if N.eqb x NUL then Ok None
               else strchr p' c (S base)
  end.

(** the string at p (bytes before the first NUL): strlen/strdup *)
Fixpoint cstr (p : bytes) : Cres bytes :=
  match p with
  | [] => Crash 4
  | x :: p' => if N.eqb x NUL then Ok [] else do r <- cstr p'; Ok (x :: r)
  end.

(** strncmp(a, b, n) == 0 *)
Fixpoint strncmp_eq (a b : bytes) (n : nat) {struct n} : Cres bool :=
  match n with
  | O => Ok true
  | S n' =>
      match a, b with
      | x :: a', y :: b' =>
          if N.eqb x y then (if N.eqb x NUL then Ok true else strncmp_eq a' b' n') else Ok false
      | _, _ => Crash 5
      end
  end.

(** strcmp(a, b) == 0 *)
Fixpoint strcmp_eq (a b : bytes) : Cres bool :=
  match a, b with
  | x :: a', y :: b' =>
      if N.eqb x y then (if N.eqb x NUL then Ok true else strcmp_eq a' b') else Ok false
  | _, _ => Crash 6
  end.

(** strcasecmp(a, b) == 0 (C locale) *)
Fixpoint strcase_eq (a b : bytes) : Cres bool :=
  match a, b with
  | x :: a', y :: b' =>
      if N.eqb (to_lower x) (to_lower y) then (if N.eqb x NUL then Ok true else strcase_eq a' b') else Ok false
  | _, _ => Crash 7
  end.

(* ------------------------------------------------------------------ domainvalid *)

(** the [while ( *h )] loop.  [p] = bytes from h on, [h] = h - host, [dt] = dt - host.
    [None]: the loop returned 1.  [Some (h, dt)]: the loop ended at the terminator. *)
Fixpoint dv_loop (p : bytes) (h : nat) (dt : option nat) : Cres (option (nat * option nat)) :=
  match p with
  | [] => Crash 10
  | c :: p' =>
      if N.eqb c NUL then Ok (Some (h, dt))
      else if negb (tbl DV_CHAR_OK c) then Ok None
      else if N.eqb c DOT then
        let lstart := match dt with None => 0 | Some d => d + DV_DT_SKIP end in
        if Z.ltb (Z.of_nat DV_LABEL_MAX) (Z.of_nat h - Z.of_nat lstart) then Ok None
        else (* dt = h; h++; if ( *h == '.' ) return 1; continue *)
          match p' with
          | [] => Crash 11
          | c2 :: _ => if N.eqb c2 DOT then Ok None else dv_loop p' (S h) (Some h)
          end
      else dv_loop p' (S h) dt
  end.

(** return value of domainvalid (0 = valid, 1 = invalid) *)
Definition domainvalid (host : bytes) : Cres nat :=
  match host with
  | [] => Crash 12
  | c0 :: _ =>
      if N.eqb c0 NUL || N.eqb c0 DOT then Ok 1
      else
        do r <- dv_loop host 0 None;
        match r with
        | None => Ok 1
        | Some (h, dt) =>
            if Z.ltb (Z.of_nat DV_TOTAL_MAX) (Z.of_nat h) then Ok 1 else
            match dt with
            | None => Ok 1
            | Some d =>
                let diff := (Z.of_nat h - Z.of_nat d)%Z in
                if Z.ltb diff (Z.of_nat DV_LAST_MIN) || Z.ltb (Z.of_nat DV_LAST_MAX) diff then Ok 1 else
                (* h--; then read h[0] *)
                match h with
                | O => Crash 13
                | S h1 =>
                    do c <- rd host h1;
                    if tbl DV_LAST_OK c then Ok 0 else Ok 1
                end
            end
        end
  end.

(* ------------------------------------------------------------------ parselocalpart *)

(** the [while ( *t && *t != '@' )] loop and the two returns behind it *)
Fixpoint lp_loop (p : bytes) (t : nat) (quoted : bool) : Cres Z :=
  match p with
  | [] => Crash 20
  | c :: p' =>
      if N.eqb c NUL || N.eqb c AT then (if quoted then Ok (-1)%Z else Ok (Z.of_nat t))
      else if N.eqb c QUOTE then lp_loop p' (S t) (negb quoted)
      else if negb quoted then
        (if tbl LP_UNQ_OK c then lp_loop p' (S t) quoted else Ok (-1)%Z)
      else
        if tbl LP_Q_OK c then lp_loop p' (S t) quoted
        else if N.eqb c BSL then
          match p' with
          | [] => Crash 21
          | e :: p'' => if tbl LP_ESC_OK e then lp_loop p'' (S (S t)) quoted else Ok (-1)%Z
          end
        else Ok (-1)%Z
  end.

Definition parselocalpart (addr : bytes) : Cres Z := lp_loop addr 0 false.

(* ------------------------------------------------------------------ parseaddr, addrsyntax, xtextlen *)

Record asres : Type := mk_asres {
  as_rc : Z;                   (* return value *)
  as_addr : option bytes;      (* None: *addr untouched; Some s: addr->s[0..len) (Some [] = STREMPTY) *)
  as_more : option nat;        (* None: *more untouched; Some k: *more = in + k *)
  as_mem : bytes               (* the line buffer afterwards *)
}.

Section Oracle.
Variable pton4 : bytes -> bool.     (* inet_pton(AF_INET, s, _) > 0 *)
Variable pton6 : bytes -> bool.     (* inet_pton(AF_INET6, s, _) > 0 *)

(** one of the two address-literal branches: addrlen = cl - at - off (size_t) *)
Definition literal (addr : bytes) (at_ cl off bufsz : nat) (pton : bytes -> bool) : Cres nat :=
  let addrlen := (Z.of_nat cl - Z.of_nat at_ - Z.of_nat off)%Z in
  (* a negative difference is a huge size_t, >= the buffer size *)
  if Z.ltb addrlen 0 then Ok 0
  else if Z.leb (Z.of_nat bufsz) addrlen then Ok 0
  else
    let n := Z.to_nat addrlen in
    (* memcpy(ipbuf, at + off, addrlen) *)
    if Nat.ltb (length addr) (at_ + off + n) then Crash 30
    else Ok (if pton (sub addr (at_ + off) n) then PA_RC_LIT else 0).

Definition parseaddr (addr : bytes) : Cres nat :=
  do at0 <- strchr addr AT 0;
  match at0 with
  | None => do dv <- domainvalid addr; Ok (1 - dv)
  | Some at_ =>
      do lp <- parselocalpart addr;
      if Z.ltb lp 0 then Ok 0 else
      do a0 <- rd addr 0;
      if N.eqb a0 AT then
        do dv <- domainvalid (skipn 1 addr); Ok (if Nat.eqb dv 0 then PA_RC_DOMONLY else 0)
      else
        do a1 <- rd addr (at_ + 1);
        if N.eqb a1 LBR then
          do cl0 <- strchr (skipn (at_ + PA_LIT_SKIP) addr) RBR (at_ + PA_LIT_SKIP);
          match cl0 with
          | None => Ok 0
          | Some cl =>
              do c1 <- rd addr (cl + 1);
              if negb (N.eqb c1 NUL) then Ok 0 else
              do is6 <- strncmp_eq (skipn (at_ + PA_LIT_SKIP) addr) (PA_TAG6 ++ [NUL]) PA_TAG6_N;
              if is6 then literal addr at_ cl PA_OFF6 PA_BUF6 pton6
              else literal addr at_ cl PA_OFF4 PA_BUF4 pton4
          end
        else
          do dv <- domainvalid (skipn (at_ + 1) addr); Ok (if Nat.eqb dv 0 then PA_RC_FULL else 0)
  end.

Definition checkaddr (addr : bytes) : Cres nat :=
  do x <- parseaddr addr; Ok (if Nat.eqb x 0 then 1 else 0).

Definition addrspec_valid (addr : bytes) : Cres bool :=
  do x <- parseaddr addr; Ok (Nat.leb AV_MIN x).

(** the [while ((t = strchr(f, ',')))] loop of the source route.
    Result: the buffer and [Some f] to go on, [None] for "return 0". *)
Fixpoint route_loop (fuel : nat) (mem : bytes) (f : nat) : Cres (bytes * option nat) :=
  match fuel with
  | O => OutOfFuel
  | S fuel' =>
      do t0 <- strchr (skipn f mem) COMMA f;
      match t0 with
      | None => Ok (mem, Some f)
      | Some t =>
          do mem1 <- upd mem t NUL;
          do dv <- domainvalid (skipn (f + 1) mem1);
          if negb (Nat.eqb dv 0) then Ok (mem1, None) else
          do c <- rd mem1 (t + 1);
          if negb (N.eqb c AT) then Ok (mem1, None) else route_loop fuel' mem1 (t + 1)
      end
  end.

Definition as_fail (more : option nat) (mem : bytes) : asres := mk_asres 0 None more mem.

(** addrsyntax(in, flags, &addr, &more) with addr and more non-NULL, malloc succeeding *)
Definition addrsyntax (mem0 : bytes) (flags : Z) : Cres asres :=
  do c0 <- rd mem0 0;
  do r <- (if Z.eqb flags 1 && N.eqb c0 AT then
             do rl <- route_loop (length mem0) mem0 0;
             match rl with
             | (mem1, None) => Ok (mem1, None)
             | (mem1, Some f) =>
                 do t0 <- strchr (skipn f mem1) COLON f;
                 match t0 with
                 | None => Ok (mem1, None)
                 | Some t =>
                     do mem2 <- upd mem1 t NUL;
                     do dv <- domainvalid (skipn (f + 1) mem2);
                     if negb (Nat.eqb dv 0) then Ok (mem2, None)
                     else if Nat.ltb AS_ROUTE_MAX (t + 1) then Ok (mem2, None)
                     else Ok (mem2, Some (t + 1))
                 end
             end
           else Ok (mem0, Some 0));
  match r with
  | (mem, None) => Ok (as_fail None mem)
  | (mem, Some f) =>
      do l0 <- strchr (skipn f mem) GT f;
      match l0 with
      | None => Ok (as_fail None mem)
      | Some l =>
          let len := l - f in
          do l1 <- rd mem (l + 1);
          let more := if N.eqb l1 NUL then None else Some (l + 1) in
          if Z.eqb flags 0 && Nat.eqb len 0 then Ok (mk_asres (Z.of_nat AS_RC_EMPTY) (Some []) more mem)
          else
            do mem' <- upd mem l NUL;
            do call <- (if negb (Z.eqb flags 1) then Ok true
                        else do pm <- strcase_eq (skipn f mem') (AS_POSTMASTER ++ [NUL]); Ok (negb pm));
            do x <- (if call then parseaddr (skipn f mem') else Ok AS_RC_POSTMASTER);
            if call && Nat.ltb x AS_MIN then Ok (as_fail more mem')
            else
              (* dupstr(addr, f); lower-case the first len bytes of the copy *)
              do s <- cstr (skipn f mem');
              if Nat.ltb (length s + 1) len then Crash 40
              else Ok (mk_asres (Z.of_nat x)
                         (Some (map to_lower (firstn len s) ++ skipn len s)) more mem')
      end
  end.

(** the [while ( *str && *str != ' ' )] loop.  [acc] = addrspec[0..idx).
    [None]: return -1 inside the loop. *)
Fixpoint xt_loop (p : bytes) (acc : bytes) (result : Z) : Cres (option (bytes * Z)) :=
  match p with
  | [] => Crash 50
  | c :: p1 =>
      if N.eqb c NUL || N.eqb c SP then Ok (Some (acc, result))
      else if negb (tbl XT_RANGE_OK c) then Ok None
      else if Nat.ltb (XT_BUF - XT_IDX_MARGIN) (length acc) then Ok None
      else if N.eqb c PLUS then
        match p1 with
        | [] => Crash 51
        | h1 :: p2 =>
            if negb (tbl XT_HEX_OK h1) then Ok None else
            match p2 with
            | [] => Crash 52
            | h2 :: p3 =>
                if negb (tbl XT_HEX_OK h2) then Ok None else
                if Nat.leb XT_BUF (length acc) then Crash 53 else
                let v := ((tblN XT_HEXVAL h1 * 16 + tblN XT_HEXVAL h2) mod 256)%N in
                if XT_REJECT_NUL && N.eqb v NUL then Ok None else
                xt_loop p3 (acc ++ [v]) (result + 3)%Z
            end
        end
      else if tbl XT_PLAIN_OK c then
        (if Nat.leb XT_BUF (length acc) then Crash 54 else xt_loop p1 (acc ++ [c]) (result + 1)%Z)
      else Ok None
  end.

Definition xtextlen (str : bytes) : Cres Z :=
  do r <- xt_loop str [] 0%Z;
  match r with
  | None => Ok (-1)%Z
  | Some (acc, result) =>
      if Nat.eqb (length acc) 0 then Ok result else
      if Nat.leb XT_BUF (length acc) then Crash 55 else
      (* only addrspec[0..idx] is initialised: reading further is a Crash *)
      let buf := acc ++ [NUL] in
      do np <- strcmp_eq buf (XT_NULLPATH ++ [NUL]);
      if np then Ok result else
      do v <- addrspec_valid buf;
      if v then Ok result else Ok (-1)%Z
  end.

(** the syntactic front end of qsmtpd/addrparse.c:addrparse: [None] = "501 5.1.3 ... syntactically incorrect",
    [Some a] = the address handed on to the existence checks *)
Definition addrparse_syntax (mem : bytes) (flags : Z) : Cres (option bytes) :=
  do r <- addrsyntax mem flags;
  let j := as_rc r in
  if Z.eqb j 0 || (negb (Z.eqb flags 1) && Z.eqb j (Z.of_nat PA_RC_LIT)) then Ok None
  else Ok (match as_addr r with Some a => Some a | None => Some [] end).

End Oracle.

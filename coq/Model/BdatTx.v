(** Model of qremote/qrbdat.c:send_bdat (sending side of C19) and of
    lib/fmt.c:ultostr.  Executable definitions only.

    C variables kept: off, len, cpoff, linel, lenlen, i, hl, bare_cr_warning.
    chunkbuf is modelled in two parts:
      - the reserved header area chunkbuf[0 .. lenlen) is a sized array [hdr]
        (initial content = whatever malloc returned; the harness fills it with
        0xEE); every store into it is a bounds-checked [blit];
      - the data area chunkbuf[lenlen .. len) is only ever appended to at
        index [len] (chunkbuf[len++] = c; memcpy(chunkbuf + len, ..)), so it is
        the list [pay] with the invariant len = lenlen + |pay|; every append is
        checked against chunksize.
    msgdata[k] with k >= msgsize (or k < 0) is [Crash].
    Output: the list of netnwrite() calls (one per BDAT command, header and
    data together), whether the transaction ran to the end, and how often the
    bare-CR warning was logged.
    All constants come from Gen/GenBdat.v, i.e. from the C source of this run. *)
From Qv Require Import Common.Bytes Gen.GenBdat.

Definition MALLOC_FILL : N := 238%N.   (* 0xEE, see harness/bdat_h.c *)

(** [while (i) { n++; i /= 10; }] *)
Fixpoint ndigits_loop (fuel : nat) (base i : nat) : nat :=
  match fuel with
  | O => 0
  | S f => if Nat.eqb i 0 then 0 else S (ndigits_loop f base (i / base))
  end.
Definition ndigits (i : nat) : nat := ndigits_loop i BD_BASE i.

(** lib/fmt.c:ultostr — [j = 1; v = u; while (v /= 10) j++;] *)
Fixpoint ul_count (fuel : nat) (v j : nat) : nat :=
  match fuel with
  | O => j
  | S f => let v' := v / UL_BASE in if Nat.eqb v' 0 then j else ul_count f v' (S j)
  end.
(** [do { res[--j] = '0' + v % 10; v /= 10; } while (j);]  ([acc] = res[j..]) *)
Fixpoint ul_fill (j v : nat) (acc : bytes) : bytes :=
  match j with
  | O => acc
  | S j' => ul_fill j' (v / UL_BASE) (N.of_nat (48 + v mod UL_BASE) :: acc)
  end.
(** the bytes stored at res[0..]: the digits and the terminating NUL *)
Definition ultostr (u : nat) : bytes := ul_fill (ul_count u u 1) u [0%N].

(** bounds-checked store of [src] at [buf + pos]; [lim] = size of the malloc'ed block *)
Definition blit (lim : nat) (buf : bytes) (pos : nat) (src : bytes) : Cres bytes :=
  if Nat.ltb lim (pos + length src) then Crash 10
  else if Nat.ltb (length buf) (pos + length src) then Crash 11
  else Ok (firstn pos buf ++ src ++ skipn (pos + length src) buf).

(** memcpy(dst, "literal", n): the literal carries a terminating NUL *)
Definition lit_bytes (lit : bytes) (n : nat) : Cres bytes :=
  if Nat.ltb (length lit + 1) n then Crash 12 else Ok (firstn n (lit ++ [0%N])).

(** msgdata[k] *)
Definition rd (msg : bytes) (k : nat) : Cres N :=
  if Nat.ltb k (length msg) then Ok (nth k msg 0%N) else Crash 13.

Record ist := mk_ist { i_off : nat; i_len : nat; i_cpoff : nat; i_linel : nat; i_pay : bytes }.

(** chunkbuf[len++] = c *)
Definition put (cs : nat) (len : nat) (pay : bytes) (c : N) : Cres (nat * bytes) :=
  if Nat.ltb len cs then Ok (S len, pay ++ [c]) else Crash 14.
(** memcpy(chunkbuf + len, msgdata + cpoff, linel)  (len is advanced by the caller) *)
Definition copy_line (cs : nat) (msg : bytes) (len cpoff linel : nat) (pay : bytes) : Cres bytes :=
  if Nat.ltb cs (len + linel) then Crash 15
  else if Nat.ltb (length msg) (cpoff + linel) then Crash 16
  else Ok (pay ++ sub msg cpoff linel).

(** [len + linel < chunksize - 1] in size_t arithmetic (chunksize - 1 wraps for 0) *)
Definition room (cs len linel : nat) : bool :=
  Nat.ltb cs BD_CS_MARGIN || Nat.ltb (len + linel) (cs - BD_CS_MARGIN).

(** the inner [while] loop *)
Fixpoint inner (fuel : nat) (cs : nat) (msg : bytes) (s : ist) : Cres ist :=
  let '(mk_ist off len cpoff linel pay) := s in
  if Nat.ltb off (length msg) && room cs len linel then
    match fuel with
    | O => OutOfFuel
    | S f =>
        do c <- rd msg off;
        if N.eqb c LF then
          if Nat.eqb linel 0 then
            do r <- put cs len pay CR;
            let '(len1, pay1) := r in
            inner f cs msg (mk_ist (S off) len1 cpoff (S linel) pay1)
          else
            if Nat.eqb off 0 then Crash 17 else
            do p <- rd msg (off - 1);
            if negb (N.eqb p CR) then
              do pay1 <- copy_line cs msg len cpoff linel pay;
              let len1 := len + linel in
              let linel1 := S linel in
              do r <- put cs len1 pay1 CR;
              let '(len2, pay2) := r in
              do r <- put cs len2 pay2 LF;
              let '(len3, pay3) := r in
              inner f cs msg (mk_ist (S off) len3 (cpoff + linel1) 0 pay3)
            else inner f cs msg (mk_ist (S off) len cpoff (S linel) pay)
        else inner f cs msg (mk_ist (S off) len cpoff (S linel) pay)
    end
  else Ok s.

(** after the inner loop: copy the pending line, complete a chunk-final CR.
    [margin] = BD_SKIP_MARGIN (0 in the repaired code, 1 in the original).
    result: off, len, pay, number of warnings logged now *)
Definition finish_chunk (margin : nat) (cs : nat) (msg : bytes) (s : ist) (warned : bool)
  : Cres (nat * nat * bytes * bool) :=
  let '(mk_ist off len cpoff linel pay) := s in
  if Nat.eqb linel 0 then Ok (off, len, pay, warned) else
  do pay1 <- copy_line cs msg len cpoff linel pay;
  let len1 := len + linel in
  if Nat.eqb off 0 then Crash 18 else
  do p <- rd msg (off - 1);
  if N.eqb p CR then
    do r <- put cs len1 pay1 LF;
    let '(len2, pay2) := r in
    (* (off < msgsize - margin) && (msgdata[off] == '\n'); off_t is signed, no wrap *)
    if Nat.ltb (off + margin) (length msg) then
      do c <- rd msg off;
      if N.eqb c LF then Ok (S off, len2, pay2, warned) else Ok (off, len2, pay2, true)
    else Ok (off, len2, pay2, true)
  else Ok (off, len1, pay1, warned).

(** the header: returns the new header area and the index hl the write starts at *)
Definition header (cs lenlen : nat) (hdr : bytes) (plen : nat) (last : bool) : Cres (bytes * nat) :=
  let i := BD_HDR_FIXED + (if Nat.eqb plen 0 then 1 else ndigits plen) + (if last then BD_LAST_ADD else 0) in
  if Nat.ltb lenlen i then Crash 19 else
  let hl := lenlen - i in
  do cmd <- lit_bytes BD_CMD BD_CMD_LEN;
  do h1 <- blit cs hdr hl cmd;
  do h2 <- blit cs h1 (hl + BD_NUM_OFF) (ultostr plen);
  if last then
    if Nat.ltb lenlen BD_LAST_BACK then Crash 20 else
    do l <- lit_bytes BD_LAST BD_LAST_LEN;
    do h3 <- blit cs h2 (lenlen - BD_LAST_BACK) l;
    Ok (h3, hl)
  else
    if Nat.ltb lenlen BD_CR_BACK || Nat.ltb lenlen BD_LF_BACK then Crash 21 else
    do h3 <- blit cs h2 (lenlen - BD_CR_BACK) [CR];
    do h4 <- blit cs h3 (lenlen - BD_LF_BACK) [LF];
    Ok (h4, hl).

Inductive tx_end := TxDone | TxAbort.

(** one iteration of the outer [for] loop up to and including netnwrite():
    result = (write, off', hdr', warned') *)
Definition one_chunk (margin cs lenlen : nat) (msg : bytes) (off : nat) (hdr : bytes) (warned : bool)
  : Cres (bytes * nat * bytes * bool) :=
  do s <- inner (S (length msg)) cs msg (mk_ist off lenlen off 0 []);
  do r <- finish_chunk margin cs msg s warned;
  let '(off1, len1, pay1, warned1) := r in
  if Nat.ltb len1 lenlen then Crash 22 else
  do h <- header cs lenlen hdr (len1 - lenlen) (Nat.eqb off1 (length msg));
  let '(hdr1, hl) := h in
  (* netnwrite(chunkbuf + hl, len - hl) *)
  Ok (skipn hl hdr1 ++ pay1, off1, hdr1, warned1).

(** the outer loop.  [nok] = number of further intermediate replies that are 250
    ([None] = all of them). *)
Fixpoint outer (fuel : nat) (margin cs lenlen : nat) (msg : bytes) (off : nat) (hdr : bytes)
         (warned : bool) (nok : option nat) : Cres (list bytes * tx_end * bool) :=
  if Nat.ltb off (length msg) then
    match fuel with
    | O => OutOfFuel
    | S f =>
        do r <- one_chunk margin cs lenlen msg off hdr warned;
        let '(w, off1, hdr1, warned1) := r in
        if Nat.eqb off1 (length msg) then
          do r2 <- outer f margin cs lenlen msg off1 hdr1 warned1 nok;
          let '(ws, e, wn) := r2 in Ok (w :: ws, e, wn)
        else
          match nok with
          | Some O => Ok ([w], TxAbort, warned1)
          | _ =>
              do r2 <- outer f margin cs lenlen msg off1 hdr1 warned1
                         (match nok with Some (S n) => Some n | _ => None end);
              let '(ws, e, wn) := r2 in Ok (w :: ws, e, wn)
          end
    end
  else Ok ([], TxDone, warned).

Definition send_bdat_m (margin : nat) (cs : nat) (msg : bytes) (nok : option nat)
  : Cres (list bytes * tx_end * bool) :=
  let lenlen := ndigits cs + BD_RESERVE in
  outer (S (length msg)) margin cs lenlen msg 0 (repeat MALLOC_FILL lenlen) false nok.

(** the code of this run *)
Definition send_bdat := send_bdat_m BD_SKIP_MARGIN.

(** C10, engine `replysites`: the places where Qsmtpd builds a reply.  Executable definitions only.

    - [inst]: the argument vector a call site hands to net_writen / net_write_multiline, i.e. a
      generated template (Gen/GenReplies.v) with its holes filled;
    - [net_write_multiline]: lib/netio.c, the writer for fixed multi-line replies;
    - [san_byte], [txt_sanitise], [dnstxt]: the loop of lib/libowfatconn.c:dnstxt() that replaces
      control octets of a TXT record (fixes/C10-dnstxt-control-chars.diff);
    - [nomail_sanitise], [nomail_codebeg], [nomail_args], [cb_nomail]: qsmtpd/filters/nomail.c after
      fixes/C10-nomail-code-and-control-chars.diff;
    - [site_model], [literal_model]: what the correspondence run compares with the C call sites.
    Every constant and every template comes from Gen/GenReplies.v / Gen/GenNetio.v. *)
From Qv Require Import Common.Bytes Common.ReplyTpl Gen.GenNetio Gen.GenReplies Model.NetWriten.

(** ** templates *)

(** fill the holes of a template, one value per hole, in order *)
Fixpoint inst (t : list elem) (vs : list bytes) : option (list bytes) :=
  match t with
  | [] => match vs with [] => Some [] | _ => None end
  | Lit b :: t' => option_map (cons b) (inst t' vs)
  | Hole _ :: t' =>
      match vs with
      | v :: vs' => option_map (cons v) (inst t' vs')
      | [] => None
      end
  end.

(** ** lib/netio.c:net_write_multiline

    len = sum of strlen(s[i]); buf = the strings concatenated; one netnwrite(buf, len).
    The three asserts are the contract (compiled out with NDEBUG: then an empty array writes
    nothing and a text without final CRLF is written as it is).  When malloc() fails the
    strings are written one by one: the same octets in the same order, so the model has the
    single write only. *)
Definition net_write_multiline (s : list bytes) : Cres (list bytes) :=
  let buf := concat s in
  if Nat.eqb (length s) 0 then Crash 20
  else if Nat.leb (length buf) NWM_MIN_LEN then Crash 21
  else if negb (ends_crlf buf) then Crash 22
  else Ok [buf].

(** ** the sanitising loops *)

(** if (((c < LOW) && (c != KEEP)) || (c == DEL)) c = REPL; *)
Definition san_byte (low keep del repl : N) (c : N) : N :=
  if (N.ltb c low && negb (N.eqb c keep)) || N.eqb c del then repl else c.

(** a C string: the octets in front of the first NUL *)
Fixpoint cstr (s : bytes) : bytes :=
  match s with
  | [] => []
  | b :: r => if N.eqb b 0 then [] else b :: cstr r
  end.

Definition txt_sanitise (s : bytes) : bytes := map (san_byte TXT_SAN_LOW TXT_SAN_KEEP TXT_SAN_DEL TXT_SAN_REPL) s.

(** dnstxt(): [raw] = what libowfat's dns_txt() delivers (the character strings of all TXT
    records, any octets).  None = no text (out is set to NULL); otherwise the string the callers
    (check_rbl, cb_namebl) see *)
Definition dnstxt (raw : bytes) : option bytes :=
  match raw with
  | [] => None
  | _ => Some (cstr (txt_sanitise raw))
  end.

Definition nomail_sanitise (s : bytes) : bytes :=
  map (san_byte NOMAIL_SAN_LOW NOMAIL_SAN_KEEP NOMAIL_SAN_DEL NOMAIL_SAN_REPL) s.

(** ** qsmtpd/filters/nomail.c *)

(** the switch (i) of the code test: "([45])[0-9][0-9] \1\.[0-9]\.[0-9] " *)
Definition nomail_pos_ok (m : bytes) (i : nat) : bool :=
  let at_ k := nth k m 0%N in
  match i with
  | 0 => N.eqb (at_ 0) 52 || N.eqb (at_ 0) 53
  | 3 | 9 => N.eqb (at_ i) SP
  | 4 => N.eqb (at_ 4) (at_ 0)
  | 5 | 7 => N.eqb (at_ i) DOT
  | _ => is_digit (at_ i)
  end.

(** codebeg = (len > 10); for (i = 0; (i < 10) && codebeg; i++) codebeg = <test i> *)
Definition nomail_codebeg (m : bytes) : bool :=
  Nat.ltb NOMAIL_MINLEN (length m) && forallb (nomail_pos_ok m) (seq 0 NOMAIL_CODELEN).

Definition first_is_codeprefix (t : list elem) : bool :=
  match t with Hole HCodePrefix :: _ => true | _ => false end.
Definition first_is_lit (t : list elem) : bool :=
  match t with Lit _ :: _ => true | _ => false end.

Definition templates_of (tbl : list (bytes * bytes * list elem)) (func : bytes) : list (list elem) :=
  map snd (filter (fun e => bytes_eqb (snd (fst e)) func) tbl).

Definition nomail_func : bytes := NOMAIL_FUNC.

(** the argument vector of the net_writen call of cb_nomail for the (NUL free) text [raw] of the
    control file: the generated template of the branch taken, filled in.
    Crash: code[] too small for the copy / not terminated inside it. *)
Definition nomail_args (raw : bytes) : Cres (option (list bytes)) :=
  let m := nomail_sanitise raw in
  if nomail_codebeg m then
    if Nat.ltb NOMAIL_BUF (NOMAIL_COPY + 1) then Crash 30
    else if negb (Nat.eqb NOMAIL_TERM NOMAIL_COPY) then Crash 31
    else
      match filter first_is_codeprefix (templates_of writen_templates nomail_func) with
      | [t] => Ok (inst t [firstn NOMAIL_COPY m; skipn NOMAIL_REST m])
      | _ => Ok None
      end
  else
    match filter first_is_lit (templates_of writen_templates nomail_func) with
    | [t] => Ok (inst t [m])
    | _ => Ok None
    end.

(** what cb_nomail writes; None = the generated table has no template for the branch *)
Definition cb_nomail (raw : bytes) : Cres (option (list bytes)) :=
  do a <- nomail_args raw;
  match a with
  | Some (s0 :: parts) => do ls <- net_writen s0 parts; Ok (Some ls)
  | _ => Ok None
  end.

(** ** the other call sites, as driven by the correspondence run *)

(** a case names the function, and gives the expected array: literals and, for every hole, its
    class and the string as its SOURCE delivers it; the value that reaches the writer is: *)
Definition class_value (c : hclass) (raw : bytes) : bytes :=
  match c with
  | HDnsTxt => cstr (txt_sanitise raw)
  | _ => raw
  end.

Definition case_elem : Type := (option hclass * bytes)%type.     (* None = literal *)

Definition hclass_eqb (a b : hclass) : bool :=
  match a, b with
  | HAddr, HAddr | HDomain, HDomain | HSpfExp, HSpfExp | HDnsTxt, HDnsTxt | HConfText, HConfText
  | HCodePrefix, HCodePrefix | HLineArg, HLineArg | HHdrName, HHdrName | HB64, HB64 | HLibErr, HLibErr
  | HAuthList, HAuthList | HNumCRLF, HNumCRLF => true
  | _, _ => false
  end.

(** a literal of the case stands for the literal of the template it is a prefix of (the generated
    cases give the whole literal; hand-written ones only what tells the shapes of a function apart) *)
Fixpoint is_prefix (p b : bytes) : bool :=
  match p, b with
  | [], _ => true
  | x :: p', y :: b' => N.eqb x y && is_prefix p' b'
  | _ :: _, [] => false
  end.

Fixpoint shape_matches (t : list elem) (es : list case_elem) : bool :=
  match t, es with
  | [], [] => true
  | Lit b :: t', (None, p) :: es' => is_prefix p b && shape_matches t' es'
  | Hole c :: t', (Some c', _) :: es' => hclass_eqb c c' && shape_matches t' es'
  | _, _ => false
  end.

(** the case gives every literal in full *)
Fixpoint shape_exact (t : list elem) (es : list case_elem) : bool :=
  match t, es with
  | [], [] => true
  | Lit b :: t', (None, p) :: es' => bytes_eqb p b && shape_exact t' es'
  | Hole _ :: t', _ :: es' => shape_exact t' es'
  | _, _ => false
  end.

(** the array of the call: the literals of the template, the holes filled from the case *)
Fixpoint shape_args (t : list elem) (es : list case_elem) : list bytes :=
  match t, es with
  | Lit b :: t', _ :: es' => b :: shape_args t' es'
  | Hole c :: t', e :: es' => class_value c (snd e) :: shape_args t' es'
  | _, _ => []
  end.

(** the first generated template of the function that has the shape of the case
    (false = net_writen site, true = net_write_multiline site) *)
Definition resolve_tpl (func : bytes) (es : list case_elem) : option (bool * list elem) :=
  match find (fun t => shape_matches t es) (templates_of writen_templates func) with
  | Some t => Some (false, t)
  | None =>
      match find (fun t => shape_matches t es) (templates_of multiline_templates func) with
      | Some t => Some (true, t)
      | None => None
      end
  end.

Definition resolve (func : bytes) (es : list case_elem) : option (bool * list bytes) :=
  match resolve_tpl func es with
  | Some (ml, t) => Some (ml, shape_args t es)
  | None => None
  end.

Inductive site_result : Type :=
| NoShape                                   (* no generated template of that function has this shape *)
| Wrote (r : Cres (list bytes)).

Definition site_model (func : bytes) (es : list case_elem) : site_result :=
  match resolve func es with
  | Some (false, s0 :: parts) => Wrote (net_writen s0 parts)
  | Some (true, args) => Wrote (net_write_multiline args)
  | _ => NoShape
  end.

(** handlers that answer with a fixed literal: the literal replies of that function *)
Definition literal_model (func : bytes) : list bytes :=
  map snd (filter (fun e => bytes_eqb (snd (fst e)) func) netwrite_literals).

(** the class letter used in case files *)
Definition class_of_letter (l : N) : option hclass :=
  match l with
  | 65%N => Some HAddr        (* A *)
  | 68%N => Some HDomain      (* D *)
  | 83%N => Some HSpfExp      (* S *)
  | 84%N => Some HDnsTxt      (* T *)
  | 67%N => Some HConfText    (* C *)
  | 80%N => Some HCodePrefix  (* P *)
  | 76%N => Some HLineArg     (* L *)
  | 72%N => Some HHdrName     (* H *)
  | 66%N => Some HB64         (* B *)
  | 69%N => Some HLibErr      (* E *)
  | 85%N => Some HAuthList    (* U *)
  | 78%N => Some HNumCRLF     (* N *)
  | _ => None
  end.

(** ** the two functions as they were before the proposed fixes (for the refutation only) *)
Definition dnstxt_orig (raw : bytes) : option bytes :=
  match raw with [] => None | _ => Some (cstr raw) end.

(** netmsg[1] = rejmsg; net_writen(netmsg + !!codebeg) *)
Definition cb_nomail_orig (lit raw : bytes) : Cres (list bytes) :=
  if nomail_codebeg raw then net_writen raw [] else net_writen lit [raw].

(** ** session level: qsmtpd/syntax.c wait_for_quit() / check_max_bad_commands()

    [pieces_out]: what the calls of one entry of [reply_sequences] write, one list element per
    netnwrite(); all holes of the last call are filled with [v] (the host name).
    [wait_for_quit helo lines badcmds]: the loop reads a line; "QUIT" (any case, nothing behind it) ->
    smtp_quit(); otherwise check_max_bad_commands(): with more than MAXBADCMDS bad commands before
    this one the two-call reply and the end of the connection, else the counter goes up and the fixed
    "bad sequence" reply is written.  The input ends -> net_read() does not return (dieerror). *)
Definition fill_all (t : list elem) (v : bytes) : list bytes :=
  map (fun e => match e with Lit b => b | Hole _ => v end) t.

Fixpoint pieces_out (ps : list piece) (v : bytes) : Cres (list bytes) :=
  match ps with
  | [] => Ok []
  | PLit b :: r => do o <- pieces_out r v; Ok (b :: o)
  | PWriten t :: r =>
      match fill_all t v with
      | s0 :: parts => do ls <- net_writen s0 parts; do o <- pieces_out r v; Ok (ls ++ o)
      | [] => Crash 40
      end
  | PMulti t :: r => do ls <- net_write_multiline (fill_all t v); do o <- pieces_out r v; Ok (ls ++ o)
  end.

Definition sequences_of (func : bytes) : list (list piece) :=
  map snd (filter (fun e => bytes_eqb (snd (fst e)) func) reply_sequences).

Definition is_quit_line (l : bytes) : bool := bytes_eqb (map to_upper l) [81; 85; 73; 84]%N.

Definition smtp_quit_out (helo : bytes) : Cres (list bytes) :=
  match templates_of writen_templates FN_smtp_quit with
  | [t] => pieces_out [PWriten t] helo
  | _ => Crash 41
  end.

Fixpoint wait_for_quit (helo : bytes) (lines : list bytes) (badcmds : nat) : Cres (list bytes) :=
  match lines with
  | [] => Ok []
  | l :: r =>
      if is_quit_line l then smtp_quit_out helo
      else if Nat.leb badcmds MAXBADCMDS then
        match literal_model FN_wait_for_quit with
        | [lit] => do o <- wait_for_quit helo r (S badcmds); Ok (lit :: o)
        | _ => Crash 42
        end
      else
        match sequences_of FN_check_max_bad_commands with
        | [ps] => pieces_out ps helo
        | _ => Crash 43
        end
  end.

(** smtp_data() refusing a message: the 354 reply (the literal of smtp_data that starts with '3'),
    then, after the end of the data, the error reply of the case's shape *)
Definition smtp_data_model (es : list case_elem) : site_result :=
  match filter (fun l => N.eqb (hd 0%N l) 51) (literal_model FN_smtp_data), site_model FN_smtp_data es with
  | [go], Wrote (Ok ls) => Wrote (Ok (go :: ls))
  | _, Wrote r => Wrote r
  | _, NoShape => NoShape
  end.

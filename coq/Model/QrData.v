(** Literal model of qremote/qrdata.c: need_recode, send_plain, recodeheader,
    wrap_line, send_wrapped, wrap_header, qp_header, recode_qp, skip_tpad,
    send_qp, send_data.  Executable definitions only.

    C variables are kept (idx, chunk, off, llen, pos, partoff, bo, ...), tests are
    in the order of the C, every threshold and buffer size comes from
    Gen/GenQrdata.v, i.e. from the C source of this run.  A window (buf, len) of
    the C is the pair (b, len) of an offset into the one mapping [m] and a
    length; reads go through [rd] ([Crash] outside the mapping), stores into a
    sendbuf through [sb_add] ([Crash] past its size).  The nested loops of
    send_plain / recode_qp are flattened into one recursion on fuel: a step is
    one round of the inner while, or the code between two inner loops.

    Output: the list of netnwrite() calls (newest first in [out]) and the
    static [lastlf].  net_conn_shutdown() after write_status() is [Die why]. *)
From Qv Require Import Common.Bytes Gen.GenQrdata Model.Mime.

Record St := mkSt { out : list bytes; lastlf : bool }.
Definition wr (st : St) (w : bytes) : St := mkSt (w :: out st) (lastlf st).
Definition set_lastlf (st : St) (v : bool) : St := mkSt (out st) v.

(** outcome of code that may give up through net_conn_shutdown() *)
Inductive Run (A : Type) : Type :=
| Done (a : A) (st : St)
| Die (why : N) (st : St).
Arguments Done {A} a st.
Arguments Die {A} why st.

Definition bindR {A B} (x : Cres (Run A)) (f : A -> St -> Cres (Run B)) : Cres (Run B) :=
  match x with
  | Ok (Done a st) => f a st
  | Ok (Die w st) => Ok (Die w st)
  | Crash w => Crash w
  | OutOfFuel => OutOfFuel
  end.

(* ------------------------------------------------------------------ need_recode *)
(** the result bits: recode_8bit, recode_long_line, recode_long_header *)
Record Flags := mkFlags { f8 : bool; fline : bool; fhdr : bool }.
Definition flags0 := mkFlags false false false.
Definition flags_val (f : Flags) : nat :=
  (if f8 f then RECODE_8BIT else 0) + (if fline f then RECODE_LONG_LINE else 0) + (if fhdr f then RECODE_LONG_HEADER else 0).
(** res |= long_flag, where long_flag is recode_long_header until the first empty line, recode_long_line after it *)
Definition set_long (f : Flags) (inbody : bool) : Flags :=
  if inbody then mkFlags (f8 f) true (fhdr f) else mkFlags (f8 f) (fline f) true.
(** ((signed char)c) <= 0 *)
Definition is8 (c : N) : bool := N.eqb c 0 || N.leb 128 c.

Fixpoint nr_loop (fuel : nat) (m : bytes) (b len pos : nat) (res : Flags) (llen : nat) (inbody : bool) : Cres Flags :=
  if Nat.ltb pos len && negb (f8 res && fline res) then
    match fuel with
    | O => OutOfFuel
    | S fu =>
        let res := if Nat.ltb NR_LIMIT llen then set_long res inbody else res in
        do c <- rd m (b + pos);
        if is8 c then nr_loop fu m b len (S pos) (mkFlags true (fline res) (fhdr res)) (S llen) inbody
        else if is_eol c then
          do pos1 <- (if N.eqb c CR && Nat.ltb (S pos) len then
                        do c2 <- rd m (b + S pos); Ok (if N.eqb c2 LF then S pos else pos)
                      else Ok pos);
          let inbody1 := if Nat.eqb llen 0 then true else inbody in
          if Nat.ltb (len - pos1) NR_SHORT && f8 res then Ok res
          else nr_loop fu m b len (S pos1) res 0 inbody1
        else nr_loop fu m b len (S pos) res (S llen) inbody
    end
  else Ok (if Nat.ltb NR_LIMIT llen then set_long res inbody else res).

Definition need_recode (m : bytes) (b len : nat) : Cres Flags :=
  nr_loop (S len) m b len 0 flags0 0 false.

(* ------------------------------------------------------------------ send_plain *)
(** append to a staging buffer of [cap] bytes that holds [idx] bytes *)
Definition sb_add (cap idx : nat) (sb x : bytes) : Cres bytes :=
  if Nat.ltb cap (idx + length x) then Crash 2%N else Ok (sb ++ x).

Fixpoint sp_loop (fuel : nat) (m : bytes) (b len : nat) (idx chunk off : nat) (llen : bool) (sb : bytes) (st : St) : Cres St :=
  match fuel with
  | O => OutOfFuel
  | S fu =>
      if Nat.ltb (idx + chunk) (SP_BUF - SP_MARGIN) && negb (Nat.eqb (off + chunk) len) then
        do c <- rd m (b + (off + chunk));
        if N.eqb c CR then
          let chunk1 := S chunk in
          do lf <- (if negb (Nat.eqb (off + chunk1) len) then do c2 <- rd m (b + (off + chunk1)); Ok (N.eqb c2 LF) else Ok false);
          if lf then sp_loop fu m b len idx (S chunk1) off false sb st
          else
            do d <- rdn m (b + off) chunk1;
            do sb1 <- sb_add SP_BUF idx sb (d ++ [LF]);
            sp_loop fu m b len (idx + chunk1 + 1) 0 (off + chunk1) false sb1 st
        else if N.eqb c LF then
          do d <- rdn m (b + off) chunk;
          do sb1 <- sb_add SP_BUF idx sb (d ++ [CR; LF]);
          sp_loop fu m b len (idx + chunk + 2) 0 (off + chunk + 1) false sb1 st
        else if N.eqb c DOT && negb llen then
          do d <- rdn m (b + off) (S chunk);
          do sb1 <- sb_add SP_BUF idx sb (d ++ [DOT]);
          sp_loop fu m b len (idx + S chunk + 1) 0 (off + S chunk) true sb1 st
        else sp_loop fu m b len idx (S chunk) off true sb st
      else
        (* if (chunk) memcpy; netnwrite(sendbuf, idx); lastlf = (sendbuf[idx - 1] == '\n'); idx = 0; *)
        do d <- rdn m (b + off) chunk;
        do sb1 <- sb_add SP_BUF idx sb d;
        let off1 := off + chunk in
        match rev sb1 with
        | [] => Crash 4%N
        | lastc :: _ =>
            let st1 := mkSt (sb1 :: out st) (N.eqb lastc LF) in
            if Nat.ltb off1 len then sp_loop fu m b len 0 0 off1 llen [] st1 else Ok st1
        end
  end.

Definition send_plain (m : bytes) (b len : nat) (st : St) : Cres St :=
  if Nat.eqb len 0 then Ok st else sp_loop (2 * len + 2) m b len 0 0 0 false [] st.

(* ------------------------------------------------------------------ recodeheader *)
Definition recodeheader (helo : bytes) (st : St) : St := wr st (RECODED_STR ++ helo ++ CRLF).

(* ------------------------------------------------------------------ wrap_line *)
(** while (partoff && (buf[pos + partoff] != ' ')) partoff--; *)
Fixpoint scan_down (m : bytes) (base partoff : nat) : Cres nat :=
  match partoff with
  | O => Ok O
  | S p => do c <- rd m (base + partoff); if N.eqb c SP then Ok partoff else scan_down m base p
  end.

(** while ((lateoff < WL_LATEMAX) && (buf[pos + lateoff] != ' ')) lateoff++; *)
Fixpoint scan_up (fuel : nat) (m : bytes) (base lateoff : nat) : Cres nat :=
  match fuel with
  | O => OutOfFuel
  | S fu =>
      if Nat.ltb lateoff WL_LATEMAX then
        do c <- rd m (base + lateoff);
        if N.eqb c SP then Ok lateoff else scan_up fu m base (S lateoff)
      else Ok lateoff
  end.

(** the while (off >= WL_LONG) loop; returns (pos, off, bo, sendbuf, st) *)
Fixpoint wl_loop (fuel : nat) (m : bytes) (b : nat) (off pos bo : nat) (sb : bytes) (st : St)
  : Cres (nat * nat * nat * bytes * St) :=
  if Nat.leb WL_LONG off then
    match fuel with
    | O => OutOfFuel
    | S fu =>
        do p0 <- scan_down m (b + pos) WL_PART;
        do partoff <- (if Nat.ltb p0 WL_SHORT then
                         do lateoff <- scan_up (S WL_LATEMAX) m (b + pos) WL_LATE;
                         Ok (if Nat.ltb lateoff WL_LATEMAX then lateoff else p0)
                       else Ok p0);
        let '(bo, sb, st) := if Nat.leb (WL_BUF - WL_FLUSH_MARGIN) (partoff + bo) then (0, [], wr st sb) else (bo, sb, st) in
        (* if (pos) sendbuf[bo++] = ' '; else if (buf[0] == '.') sendbuf[bo++] = '.'; *)
        do s1 <- (if Nat.eqb pos 0 then
                    do c0 <- rd m b;
                    if N.eqb c0 DOT then do sb1 <- sb_add WL_BUF bo sb [DOT]; Ok (S bo, sb1) else Ok (bo, sb)
                  else do sb1 <- sb_add WL_BUF bo sb [SP]; Ok (S bo, sb1));
        let '(bo, sb) := s1 in
        let partoff := S partoff in
        do d <- rdn m (b + pos) partoff;
        do sb1 <- sb_add WL_BUF bo sb (d ++ CRLF);
        if Nat.ltb off partoff then Crash 30%N else      (* believed impossible: off is unsigned here *)
        wl_loop fu m b (off - partoff) (pos + partoff) (bo + partoff + 2) sb1 st
    end
  else Ok (pos, off, bo, sb, st).

(** wrap_line(buf = b, len): returns the C return value *)
Definition wrap_line (m : bytes) (b len : nat) (st : St) : Cres (nat * St) :=
  do r <- wl_loop (S len) m b len 0 0 [] st;
  let '(pos, off, bo, sb, st) := r in
  do sb1 <- sb_add WL_BUF bo sb [SP];
  let bo := S bo in
  (* not enough room for the end of the line: flush first *)
  let '(bo, sb1, st) := if Nat.leb (WL_BUF - WL_END_MARGIN) (off + bo) then (0, [], wr st sb1) else (bo, sb1, st) in
  do d <- rdn m (b + pos) off;
  do sb2 <- sb_add WL_BUF bo sb1 (d ++ CRLF);
  Ok (len, set_lastlf (wr st sb2) true).

(* ------------------------------------------------------------------ send_wrapped / wrap_header *)
(** returns (pos, off, ll) *)
Definition send_wrapped (m : bytes) (b : nat) (pos off ll l : nat) (st : St) : Cres (nat * nat * nat * St) :=
  if Nat.ltb ll SW_LIMIT then Ok (pos, off + ll + l, 0, st)
  else
    do st1 <- send_plain m (b + pos) off st;
    let pos := pos + off in
    do r <- wrap_line m (b + pos) ll st1;
    let '(po, st2) := r in
    let pos := pos + po in
    if negb (Nat.eqb po ll) then Ok (pos, 0, ll - po, st2) else Ok (pos + l, 0, 0, st2).

Fixpoint wh_loop (fuel : nat) (m : bytes) (b len : nat) (pos off ll : nat) (st : St) : Cres (nat * nat * nat * St) :=
  if Nat.ltb (pos + off + ll) len then
    match fuel with
    | O => OutOfFuel
    | S fu =>
        do c <- rd m (b + (pos + off + ll));
        let l := if N.eqb c CR then 1 else 0 in
        do l <- (if Nat.ltb (pos + off + ll + l) len then
                   do c2 <- rd m (b + (pos + off + ll + l)); Ok (if N.eqb c2 LF then S l else l)
                 else Ok l);
        if Nat.eqb l 0 then wh_loop fu m b len pos off (S ll) st
        else
          do r <- send_wrapped m b pos off ll l st;
          let '(pos, off, ll, st) := r in
          wh_loop fu m b len pos off ll st
    end
  else Ok (pos, off, ll, st).

Definition wrap_header (m : bytes) (b len : nat) (st : St) : Cres St :=
  do fl <- need_recode m b len;
  if negb (fhdr fl) then send_plain m b len st
  else
    do r <- wh_loop (2 * len + 2) m b len 0 0 0 st;
    let '(pos, off, ll, st) := r in
    do r2 <- send_wrapped m b pos off ll 0 st;
    let '(pos, off, ll, st) := r2 in
    send_plain m (b + pos) (off + ll) st.

(* ------------------------------------------------------------------ qp_header *)
Definition CT_TAIL : bytes := [111; 110; 116; 101; 110; 116; 45; 84; 121; 112; 101; 58]%N.     (* "ontent-Type:" *)
Definition CTE_TAIL : bytes :=
  [111; 110; 116; 101; 110; 116; 45; 84; 114; 97; 110; 115; 102; 101; 114; 45; 69; 110; 99; 111; 100; 105; 110; 103; 58]%N.
  (* "ontent-Transfer-Encoding:" *)

(** the header scan: returns (header, off, ctype, cenc) with the two fields as (start relative to b, len) *)
Fixpoint qh_scan (fuel : nat) (m : bytes) (b len : nat) (off : nat) (ctype cenc : nat * nat)
  : Cres (nat * nat * (nat * nat) * (nat * nat)) :=
  match fuel with
  | O => OutOfFuel
  | S fu =>
      if Nat.ltb off len then
        do c <- rd m (b + off);
        if N.eqb c CR then
          let off := S off in
          do off <- (if Nat.ltb off len then do c2 <- rd m (b + off); Ok (if N.eqb c2 LF then S off else off) else Ok off);
          if Nat.eqb off len then qh_scan fu m b len off ctype cenc else
          do c3 <- rd m (b + off);
          if is_eol c3 then Ok (off, off, ctype, cenc) else qh_scan fu m b len off ctype cenc
        else if N.eqb c LF then
          let off := S off in
          if Nat.eqb off len then qh_scan fu m b len off ctype cenc else
          do c3 <- rd m (b + off);
          if is_eol c3 then Ok (off, off, ctype, cenc) else qh_scan fu m b len off ctype cenc
        else
          (* case 'c' / 'C' first, then the default: skip to the end of the line *)
          let skip :=
            (fix skipline (fuel2 : nat) (off : nat) : Cres nat :=
               match fuel2 with
               | O => OutOfFuel
               | S f2 =>
                   if Nat.ltb off len then
                     do x <- rd m (b + off);
                     if is_eol x then Ok off else skipline f2 (S off)
                   else Ok off
               end) (S len) (S off) in
          let dflt (ctype cenc : nat * nat) :=
            do off1 <- skip; qh_scan fu m b len off1 ctype cenc in
          if N.eqb c 99 || N.eqb c 67 then
            let rest := len - off in
            do isct <- (if Nat.ltb (length CT_TAIL) rest then casecmp_at m (b + S off) CT_TAIL else Ok false);
            if isct then
              do fl <- getfieldlen m (b + off) (len - off);
              if negb (Nat.eqb fl 0) then
                if Nat.ltb fl 2 then Crash 31%N else
                qh_scan fu m b len (off + fl - 2) (off, fl) cenc
              else dflt (fst ctype, 0) cenc
            else
              do iscte <- (if Nat.ltb (length CTE_TAIL) rest then casecmp_at m (b + S off) CTE_TAIL else Ok false);
              if iscte then
                do fl <- getfieldlen m (b + off) (len - off);
                if negb (Nat.eqb fl 0) then
                  if Nat.ltb fl 2 then Crash 31%N else
                  qh_scan fu m b len (off + fl - 2) ctype (off, fl)
                else dflt ctype (fst cenc, 0)
              else dflt ctype cenc
          else dflt ctype cenc
      else Ok (0, off, ctype, cenc)
  end.

(** qp_header(buf, len, &boundary, &multipart, body_recode): returns (header, multipart result) *)
Definition qp_header (m : bytes) (helo : bytes) (b len : nat) (body_recode : bool) (st : St) : Cres (Run (nat * MpRes)) :=
  do c0 <- rd m b;
  do header0 <-
    (if N.eqb c0 CR then
       if Nat.ltb 1 len then do c1 <- rd m (S b); Ok (if N.eqb c1 LF then 2 else 1) else Ok 1
     else if N.eqb c0 LF then Ok 1 else Ok 0);
  do r <- (if Nat.eqb header0 0 then qh_scan (2 * len + 2) m b len header0 (0, 0) (0, 0)
           else Ok (header0, header0, (0, 0), (0, 0)));
  let '(header, off, ctype, cenc) := r in
  let header := if Nat.eqb header 0 then len else header in
  do fl <- need_recode m b header;
  if f8 fl then Ok (Die 1%N st) else
  do mp <- is_multipart m (b + fst ctype) (snd ctype);
  (* the part of the header behind the Content-Transfer-Encoding field *)
  let after_cenc := fst cenc + snd cenc in
  match mp with
  | MpDie w => Ok (Die w st)
  | MpSyntax => Ok (Die 2%N st)
  | MpYes _ _ =>
      if negb (Nat.eqb (snd cenc) 0) then
        do st1 <- wrap_header m b (fst cenc) st;
        (* length buf + header - cenc.s - cenc.len: were it negative, need_recode() and send_plain() would do nothing *)
        do st2 <- (if Nat.ltb header after_cenc then Ok st1 else wrap_header m (b + after_cenc) (header - after_cenc) st1);
        Ok (Done (header, mp) st2)
      else
        do st1 <- wrap_header m b header st; Ok (Done (header, mp) st1)
  | MpNo =>
      if negb body_recode then
        do st1 <- wrap_header m b header st; Ok (Done (header, mp) st1)
      else if negb (Nat.eqb (snd cenc) 0) then
        do st1 <- wrap_header m b (fst cenc) st;
        let st2 := recodeheader helo st1 in
        do st3 <- (if Nat.ltb header after_cenc then Ok st2 else wrap_header m (b + after_cenc) (header - after_cenc) st2);
        Ok (Done (header, mp) st3)
      else
        do st1 <- wrap_header m b header (recodeheader helo st); Ok (Done (header, mp) st1)
  end.

(* ------------------------------------------------------------------ recode_qp *)
Definition hexchar (n : N) : N := nth (N.to_nat n) QP_HEXCHARS 0%N.
Definition is_blank (c : N) : bool := N.eqb c HT || N.eqb c SP.
(** (c > 32) && (c < 127) && (c != '=') with c a (signed) char *)
Definition qp_plain_next (c : N) : bool := N.ltb 32 c && N.ltb c 127 && negb (N.eqb c EQUALS).
(** (c < 32) || (c == '=') || (c > 126) with c a (signed) char: bytes >= 128 are negative *)
Definition qp_must_encode (c : N) : bool := N.ltb c 32 || N.eqb c EQUALS || N.ltb 126 c.

(** One recursion for the for loop and the inner while.  [inner = false]: at the head of the for
    loop body (flush, chunk = 0).  [inner = true]: at the test of the inner while. *)
Fixpoint qp_loop (fuel : nat) (m : bytes) (b len : nat) (inner : bool) (idx chunk off llen : nat) (sb : bytes) (st : St) : Cres St :=
  match fuel with
  | O => OutOfFuel
  | S fu =>
      if negb inner then
        if Nat.ltb off len then
          (* chunk = 0; if (idx > 0) { netnwrite(sendbuf, idx); lastlf = ...; idx = 0; } *)
          match rev sb with
          | [] => qp_loop fu m b len true 0 0 off llen [] st
          | lastc :: _ => qp_loop fu m b len true 0 0 off llen [] (mkSt (sb :: out st) (N.eqb lastc LF))
          end
        else
          (* behind the for loop: lastlf = (sendbuf[idx - 1] == '\n'); netnwrite(sendbuf, idx); *)
          match rev sb with
          | [] => Crash 4%N
          | lastc :: _ => Ok (mkSt (sb :: out st) (N.eqb lastc LF))
          end
      else
      if Nat.ltb (idx + chunk) (QP_BUF - QP_MARGIN) && Nat.ltb (off + chunk) len then
        do c <- rd m (b + (off + chunk));
        if N.eqb c CR then
          let chunk1 := S chunk in
          do lf <- (if Nat.ltb (off + chunk1) len then do c2 <- rd m (b + (off + chunk1)); Ok (N.eqb c2 LF) else Ok false);
          if lf then qp_loop fu m b len true idx (S chunk1) off 0 sb st
          else
            do d <- rdn m (b + off) chunk1;
            do sb1 <- sb_add QP_BUF idx sb (d ++ [LF]);
            qp_loop fu m b len true (idx + chunk1 + 1) 0 (off + chunk1) 0 sb1 st
        else if N.eqb c LF then
          do d <- rdn m (b + off) chunk;
          do sb1 <- sb_add QP_BUF idx sb (d ++ [CR; LF]);
          qp_loop fu m b len true (idx + chunk + 2) 0 (off + chunk + 1) 0 sb1 st
        else if Nat.ltb QP_SOFT llen then
          (* soft line break *)
          do d <- rdn m (b + off) chunk;
          do sb1 <- sb_add QP_BUF idx sb d;
          let off := off + chunk in
          let idx := idx + chunk in
          do r <-
            (match rev sb1 with
             | lastc :: before =>
                 if is_blank lastc then
                   do nx <- (if Nat.ltb off len then do x <- rd m (b + off); Ok (if qp_plain_next x then Some x else None) else Ok None);
                   match nx with
                   | Some x => do sb2 <- sb_add QP_BUF idx sb1 [x]; Ok (S idx, S off, sb2)
                   | None =>
                       let code := if N.eqb lastc HT then [EQUALS; 48; 57]%N else [EQUALS; 50; 48]%N in
                       do sb2 <- sb_add QP_BUF (idx - 1) (rev before) code; Ok (idx + 2, off, sb2)
                   end
                 else Ok (idx, off, sb1)
             | [] => Ok (idx, off, sb1)
             end);
          let '(idx, off, sb2) := r in
          do sb3 <- sb_add QP_BUF idx sb2 [EQUALS; CR; LF];
          qp_loop fu m b len true (idx + 3) 0 off 0 sb3 st
        else if Nat.eqb llen 0 && N.eqb c DOT then
          do d <- rdn m (b + off) (S chunk);
          do sb1 <- sb_add QP_BUF idx sb (d ++ [DOT]);
          qp_loop fu m b len true (idx + S chunk + 1) 0 (off + S chunk) (S llen) sb1 st
        else if is_blank c then
          do eolnext <- (if Nat.eqb (off + chunk + 1) len then Ok true
                         else do x <- rd m (b + (off + chunk + 1)); Ok (is_eol x));
          if eolnext then
            do d <- rdn m (b + off) chunk;
            let off := off + chunk in
            do x <- rd m (b + off);
            let code := if N.eqb x HT then [EQUALS; 48; 57; CR; LF]%N else [EQUALS; 50; 48; CR; LF]%N in
            do sb1 <- sb_add QP_BUF idx sb (d ++ code);
            let off := S off in
            do off <- (if Nat.ltb off len then do y <- rd m (b + off); Ok (if N.eqb y CR then S off else off) else Ok off);
            do off <- (if Nat.ltb off len then do y <- rd m (b + off); Ok (if N.eqb y LF then S off else off) else Ok off);
            qp_loop fu m b len true (idx + chunk + 5) 0 off 0 sb1 st
          else qp_loop fu m b len true idx (S chunk) off (S llen) sb st
        else if qp_must_encode c then
          do d <- rdn m (b + off) chunk;
          do sb1 <- sb_add QP_BUF idx sb (d ++ [EQUALS; hexchar (N.land (N.shiftr c 4) 15); hexchar (N.land c 15)]);
          qp_loop fu m b len true (idx + chunk + 3) 0 (off + chunk + 1) (llen + 3) sb1 st
        else qp_loop fu m b len true idx (S chunk) off (S llen) sb st
      else
        (* behind the inner while: if (chunk) memcpy; next round of the for loop *)
        do d <- rdn m (b + off) chunk;
        do sb1 <- sb_add QP_BUF idx sb d;
        qp_loop fu m b len false (idx + chunk) 0 (off + chunk) llen sb1 st
  end.

Definition recode_qp (m : bytes) (b len : nat) (st : St) : Cres St :=
  if Nat.eqb len 0 then Ok st else qp_loop (6 * len + 6) m b len false 0 0 0 0 [] st.

(* ------------------------------------------------------------------ skip_tpad *)
Fixpoint tpad_blanks (fuel : nat) (m : bytes) (b len off : nat) : Cres nat :=
  match fuel with
  | O => OutOfFuel
  | S fu =>
      if Nat.ltb off len then
        do c <- rd m (b + off);
        if is_blank c then tpad_blanks fu m b len (S off) else Ok off
      else Ok off
  end.

Definition skip_tpad (m : bytes) (b len : nat) : Cres nat :=
  do off <- tpad_blanks (S len) m b len 0;
  do off <- (if Nat.ltb off len then do c <- rd m (b + off); Ok (if N.eqb c CR then S off else off) else Ok off);
  do off <- (if Nat.ltb off len then do c <- rd m (b + off); Ok (if N.eqb c LF then S off else off) else Ok off);
  Ok off.

(* ------------------------------------------------------------------ send_qp *)
Definition S_CRLF_DD : bytes := [CR; LF; DASH; DASH].          (* "\r\n--" *)
Definition S_CRLFCRLF_DD : bytes := [CR; LF; CR; LF; DASH; DASH].
Definition S_DD : bytes := [DASH; DASH].
Definition S_DD_CRLF : bytes := [DASH; DASH; CR; LF].

Definition flags_any (f : Flags) : bool := f8 f || fline f || fhdr f.
(** nr & nr_match with nr_match = (smtpext & esmtp_8bitmime) ? NR_MATCH_8BITMIME : NR_MATCH_7BIT, both masks from the C source *)
Definition mask_hits (mask : nat) (f : Flags) : bool :=
  negb (N.eqb (N.land (N.of_nat (flags_val f)) (N.of_nat mask)) 0).
Definition nr_match (ext8 : bool) (f : Flags) : bool :=
  mask_hits (if ext8 then NR_MATCH_8BITMIME else NR_MATCH_7BIT) f.

Definition lift {A} (x : Cres (A * St)) : Cres (Run A) := do r <- x; let '(a, st) := r in Ok (Done a st).
Definition liftS (x : Cres St) : Cres (Run unit) := do st <- x; Ok (Done tt st).

(** the while loop over the parts is [parts]; both recursions (into a part, to the next part) use [fuel] *)
Fixpoint send_qp (fuel : nat) (m : bytes) (helo : bytes) (ext8 : bool) (b len : nat) (st : St) {struct fuel} : Cres (Run unit) :=
  match fuel with
  | O => OutOfFuel
  | S fu =>
      do recodeflag <- need_recode m b len;
      if Nat.eqb len 0 then Ok (Done tt st) else
      (* (recodeflag & recode_qp_body) is used as a truth value: either bit *)
      let body_recode := f8 recodeflag || fline recodeflag in
      bindR (qp_header m helo b len body_recode st) (fun hm st =>
      let '(off, mp) := hm in
      if Nat.ltb len off then Crash 40%N else
      match mp with
      | MpYes bs bl =>
          do bnd <- rdn m bs bl;
          do nextoff <- find_boundary m (b + off) (len - off) bnd;
          if Nat.eqb nextoff 0 then
            let st := wr (wr (wr st S_CRLF_DD) bnd) CRLF in
            let st := wr (recodeheader helo st) CRLF in
            do st <- recode_qp m (b + off) (len - off) st;
            let st := wr (wr (wr st S_CRLF_DD) bnd) S_DD_CRLF in
            Ok (Done tt (set_lastlf st true))
          else
            do pre <- need_recode m (b + off) nextoff;
            do st <- (if flags_any pre then Ok (wr (wr st PREAMBLE_TXT) bnd)
                      else send_plain m (b + off) nextoff st);
            let off := off + nextoff in
            do e1 <- (if Nat.ltb off len then do c <- rd m (b + off); Ok (N.eqb c DASH) else Ok false);
            let '(st, islast, off) :=
              if e1 then (wr (wr (wr st S_CRLFCRLF_DD) bnd) S_DD, true, off + 2) else (st, false, off) in
            if Nat.ltb len off then Crash 41%N else
            do t <- skip_tpad m (b + off) (len - off);
            let off := off + t in
            let st := wr st CRLF in
            (fix parts (fuel2 : nat) (off : nat) (islast : bool) (st : St) {struct fuel2} : Cres (Run unit) :=
               match fuel2 with
               | O => OutOfFuel
               | S f2 =>
                   do nextoff <- (if Nat.ltb off len && negb islast then find_boundary m (b + off) (len - off) bnd else Ok 0);
                   if negb (Nat.eqb nextoff 0) then
                     if Nat.ltb nextoff (bl + 2) then Crash 42%N else
                     let partlen := nextoff - bl - 2 in
                     do nr <- need_recode m (b + off) partlen;
                     bindR (if nr_match ext8 nr then send_qp fu m helo ext8 (b + off) partlen st
                            else liftS (send_plain m (b + off) partlen st)) (fun _ st =>
                     let st := wr (wr st S_DD) bnd in
                     let off := off + nextoff in
                     do e <- (if Nat.ltb off len then do c <- rd m (b + off); Ok (N.eqb c DASH) else Ok false);
                     let '(st, islast, off) := if e then (wr st S_DD, true, off + 2) else (st, islast, off) in
                     if Nat.ltb len off then Crash 43%N else
                     do t <- skip_tpad m (b + off) (len - off);
                     let off := off + t in
                     if Nat.eqb off len && negb islast then Ok (Done tt (set_lastlf (wr st S_DD_CRLF) true))
                     else
                       let st := wr st CRLF in
                       if Nat.eqb off len then Ok (Done tt st) else parts f2 off islast st)
                   else
                     (* behind the while loop *)
                     if negb islast then
                       if Nat.ltb len off then Crash 44%N else
                       bindR (send_qp fu m helo ext8 (b + off) (len - off) st) (fun _ st =>
                       Ok (Done tt (wr (wr (wr st S_CRLF_DD) bnd) S_DD_CRLF)))
                     else
                       if Nat.ltb len off then Crash 45%N else
                       do epi <- need_recode m (b + off) (len - off);
                       if flags_any epi then Ok (Done tt (set_lastlf (wr st EPILOGUE_TXT) true))
                       else liftS (send_plain m (b + off) (len - off) st)
               end) (S len) off islast st
      | _ =>
          if body_recode then liftS (recode_qp m (b + off) (len - off) st)
          else liftS (send_plain m (b + off) (len - off) st)
      end)
  end.

(* ------------------------------------------------------------------ send_data *)
Definition TERM_LF : bytes := [DOT; CR; LF].                 (* ".\r\n" *)
Definition TERM_NOLF : bytes := [CR; LF; DOT; CR; LF].       (* "\r\n.\r\n" *)

(** (!(smtpext & esmtp_8bitmime) && (recodeflag & recode_8bit)) || (recodeflag & recode_long) *)
Definition takes_qp (ext8 : bool) (f : Flags) : bool := (negb ext8 && f8 f) || fline f || fhdr f.

(** what qremote.c does between the 354 and the final reply; [lastlf] starts as 1.
    Result: the flags, whether the quoted-printable path was taken, and the outcome. *)
Definition send_data (m : bytes) (helo : bytes) (ext8 : bool) : Cres (Flags * bool * Run unit) :=
  let n := length m in
  do fl <- need_recode m 0 n;
  let st0 := mkSt [] true in
  let q := takes_qp ext8 fl in
  do r <- (if q then send_qp (S n) m helo ext8 0 n st0 else liftS (send_plain m 0 n st0));
  match r with
  | Done _ st => Ok (fl, q, Done tt (wr st (if lastlf st then TERM_LF else TERM_NOLF)))
  | Die w st => Ok (fl, q, Die w st)
  end.

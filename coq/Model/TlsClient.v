(** Model of Qremote's connection set-up around STARTTLS (property C18):
    lib/netio.c (net_read with fatal = 0 over the buffer [lineinn] that clear text
    and TLS share, drop_stale_input), qremote/reply.c (netget(0)), qremote/greeting.c
    (greeting, esmtp_check_extension and its callbacks), qremote/starttlsr.c
    (tls_init), qremote/conn_mx.c (connect_mx, quitmsg_if_net, connection_died),
    qremote/qremote.c (quitmsg, net_conn_shutdown, the part of main() around
    connect_mx).  Executable definitions only.

    OpenSSL is an oracle: the case says how the handshake ends ([c_hs]), what
    SSL_get_verify_result returns ([c_verify]), what SSL_read delivers ([c_tls]),
    whether the pinned certificate loads and what SSL_dane_tlsa_add answers.
    The clear-text network of a connection is a list of segments ([c_pre]); what
    is still unread when the handshake starts is eaten by the handshake, after a
    failed handshake the segments [c_post] follow.

    Every MX of the case is one connection attempt (one address per MX).
    Switches that say which code exists come from Gen/GenStarttls.v:
    [ST_PURGES] (lib/netio.c drops input buffered under another TLS state),
    [ST_LOOPLONG_PASSES_FATAL] (loop_long() reads with the caller's fatal, not with 1),
    [ST_QUITMSG_RESETS_ROUTE], [ST_QIN_FREES_SSL], [ST_PINNED_NEEDS_TLS]. *)
From Qv Require Import Common.Bytes Gen.GenNetio Gen.GenQremote Gen.GenStarttls Model.NetRead.
Local Open Scope bool_scope.

(* ------------------------------------------------------------------ the case *)
Record conn := mkConn {
  c_named : bool;             (* the MX entry has a name: partner_fqdn != NULL *)
  c_pinfile : bool;           (* stat("control/tlshosts/<fqdn>.pem") == 0 *)
  c_pinload : bool;           (* SSL_CTX_load_verify_locations() succeeds *)
  c_tlsa : list (N * Z);      (* TLSA records of this host: cert_usage, result of SSL_dane_tlsa_add *)
  c_hs : N;                   (* ssl_timeoutconn: 0 = success, else the errno (ST_E...) *)
  c_verify : N;               (* SSL_get_verify_result, 0 = X509_V_OK *)
  c_pre : list bytes;
  c_post : list bytes;
  c_tls : list bytes
}.
Record tcase := mkCase {
  k_route : bool;             (* smtproutes.d file with clientcert=: expect_tls, own client certificate *)
  k_conns : list conn
}.

(* ------------------------------------------------------------------ net_read(0) *)
Inductive ritem :=
| RLine (l : bytes)
| RInval                      (* -1, errno EINVAL *)
| R2big                       (* -1, errno E2BIG *)
| RReset                      (* -1, errno ECONNRESET: read() = 0 resp. SSL_read: connection closed *)
| RDie                        (* loop_long() reading with fatal = 1: dieerror(ECONNRESET), no return (see [long_end]) *)
| RStuck.

(** the stream ends while loop_long() skips an over-long line.  Qremote reads with net_read(0): when
    loop_long() passes the caller's [fatal] on to readinput() (Gen: [ST_LOOPLONG_PASSES_FATAL]) the
    failed read leaves linenlen = 0 and net_read() returns -1 with errno ECONNRESET like any other end of
    the stream; with [fatal] hard-wired to 1 readinput() calls dieerror() and the process exits. *)
Definition long_end : ritem := if ST_LOOPLONG_PASSES_FATAL then RReset else RDie.

(** as [NetRead.read_loop], telling the two ways apart in which the stream can end *)
Fixpoint read_loop2 (fuel : nat) (buf : bytes) (e : env) : ritem * rstate :=
  match fuel with
  | O => (RStuck, {| inn := []; en := e |})
  | S f =>
      match readinput e (LINEINBUF - length buf) with
      | None => (RReset, {| inn := []; en := e |})
      | Some (d, e') =>
          let buf' := buf ++ d in
          let ro := length buf' in
          let '(p, valid) := find_eol buf' in
          let retry := match p with
                       | Some p' => negb valid && Nat.eqb p' ro && Nat.ltb ro (LINEINBUF - 1)
                                    && N.eqb (nth (p' - 1) buf' 0%N) CR
                       | None => false end in
          let p := if retry then None else p in
          match p with
          | None =>
              if Nat.ltb ro (LINEINBUF - 1) then read_loop2 f buf' e'
              else
                match loop_long (S (length (rest e'))) e' false with
                | (Some i, e'') => (R2big, {| inn := i; en := e'' |})
                | (None, e'') => (long_end, {| inn := []; en := e'' |})
                end
          | Some p' =>
              if valid then (RLine (firstn (p' - 2) buf'), {| inn := skipn p' buf'; en := e' |})
              else if Nat.eqb p' (LINEINBUF - 1) && N.eqb (nth (p' - 1) buf' 0%N) CR then
                match loop_long (S (length (rest e'))) e' true with
                | (Some i, e'') => (R2big, {| inn := i; en := e'' |})
                | (None, e'') => (long_end, {| inn := []; en := e'' |})
                end
              else (RInval, {| inn := skipn p' buf'; en := e' |})
          end
      end
  end.

Definition net_read2 (s : rstate) : ritem * rstate :=
  match inn s with
  | [] => read_loop2 (S (length (rest (en s)))) [] (en s)
  | _ =>
      let '(p, valid) := find_eol (inn s) in
      match p with
      | None => read_loop2 (S (length (rest (en s)))) (inn s) (en s)
      | Some p' =>
          if valid then (RLine (firstn (p' - 2) (inn s)), {| inn := skipn p' (inn s); en := en s |})
          else if N.eqb (nth (p' - 1) (inn s) 0%N) CR && Nat.eqb p' (length (inn s))
          then read_loop2 (S (length (rest (en s)))) (inn s) (en s)
          else (RInval, {| inn := skipn p' (inn s); en := en s |})
      end
  end.

(* ------------------------------------------------------------------ observation *)
Inductive ev :=
| EvTlsa (k : nat)                          (* dnstlsa() asked for the records of MX k *)
| EvConn (k : nat)                          (* tryconn(): connected to MX k *)
| EvCert (route : bool)                     (* tls_init loads the client certificate: the route's / the default one *)
| EvW (t : bool) (b : bytes)                (* netnwrite(): t = through the TLS session *)
| EvR (t : bool) (it : ritem) (left : nat)  (* net_read() returned; left = linenlen + unread bytes of the stream read from *)
| EvHs (pending : nat) (h : N)              (* ssl_timeoutconn() called with linenlen = pending; its result *)
| EvVfy (v : N)                             (* SSL_get_verify_result() *)
| EvMail (t : bool) (ext : N).              (* main() got a connection: send_envelope() with this smtpext *)

(* ------------------------------------------------------------------ program state *)
Record st := mkSt {
  s_inn : bytes;        (* lineinn[0 .. linenlen): survives connections *)
  s_innssl : bool;      (* linenssl != NULL: the TLS state the buffered bytes were received under *)
  s_clr : env;          (* clear-text network of the current connection *)
  s_tls : env;          (* what SSL_read will deliver on the current connection *)
  s_ssl : bool;         (* ssl != NULL *)
  s_sock : bool;        (* socketd >= 0 *)
  s_linein : bytes;     (* linein.s[0 .. linein.len) *)
  s_xtls : bool;        (* expect_tls *)
  s_rcert : bool;       (* clientcertname is the route's file *)
  s_tr : list ev;       (* events so far *)
  s_rpt : list bytes    (* first words of the reports written to fd 1 *)
}.

Definition upd_net (s : st) (i : bytes) (e : env) : st :=
  if s_ssl s then mkSt i (s_innssl s) (s_clr s) e (s_ssl s) (s_sock s) (s_linein s) (s_xtls s) (s_rcert s) (s_tr s) (s_rpt s)
  else mkSt i (s_innssl s) e (s_tls s) (s_ssl s) (s_sock s) (s_linein s) (s_xtls s) (s_rcert s) (s_tr s) (s_rpt s).
Definition log (e : ev) (s : st) : st :=
  mkSt (s_inn s) (s_innssl s) (s_clr s) (s_tls s) (s_ssl s) (s_sock s) (s_linein s) (s_xtls s) (s_rcert s) (s_tr s ++ [e]) (s_rpt s).
Definition report (w : bytes) (s : st) : st :=
  mkSt (s_inn s) (s_innssl s) (s_clr s) (s_tls s) (s_ssl s) (s_sock s) (s_linein s) (s_xtls s) (s_rcert s) (s_tr s) (s_rpt s ++ [w]).
Definition set_linein (l : bytes) (s : st) : st :=
  mkSt (s_inn s) (s_innssl s) (s_clr s) (s_tls s) (s_ssl s) (s_sock s) l (s_xtls s) (s_rcert s) (s_tr s) (s_rpt s).
Definition set_conn (ssl sock : bool) (s : st) : st :=
  mkSt (s_inn s) (s_innssl s) (s_clr s) (s_tls s) ssl sock (s_linein s) (s_xtls s) (s_rcert s) (s_tr s) (s_rpt s).
Definition set_route (x r : bool) (s : st) : st :=
  mkSt (s_inn s) (s_innssl s) (s_clr s) (s_tls s) (s_ssl s) (s_sock s) (s_linein s) x r (s_tr s) (s_rpt s).
Definition set_clr (i : bytes) (e : env) (s : st) : st :=
  mkSt i (s_innssl s) e (s_tls s) (s_ssl s) (s_sock s) (s_linein s) (s_xtls s) (s_rcert s) (s_tr s) (s_rpt s).
(** drop_stale_input() *)
Definition purge (s : st) : st :=
  if ST_PURGES && negb (Bool.eqb (s_innssl s) (s_ssl s))
  then mkSt [] (s_ssl s) (s_clr s) (s_tls s) (s_ssl s) (s_sock s) (s_linein s) (s_xtls s) (s_rcert s) (s_tr s) (s_rpt s)
  else s.
Definition open_conn (c : conn) (s : st) : st :=
  mkSt (s_inn s) (s_innssl s) {| cur := []; future := c_pre c |} {| cur := []; future := c_tls c |} (s_ssl s) true
       (s_linein s) (s_xtls s) (s_rcert s) (s_tr s) (s_rpt s).

Definition chan (s : st) : env := if s_ssl s then s_tls s else s_clr s.
(** what the stream being read can still deliver, plus the buffer *)
Definition avail (s : st) : nat := length (s_inn s) + length (rest (chan s)).

(** a C function returns, or the process exits, or the model ran out of fuel *)
Inductive res (A : Type) :=
| Ret (a : A) (s : st)
| Exit (s : st)
| Stuck (s : st).
Arguments Ret {A} a s.
Arguments Exit {A} s.
Arguments Stuck {A} s.

Definition rbind {A B} (m : res A) (f : A -> st -> res B) : res B :=
  match m with
  | Ret a s => f a s
  | Exit s => Exit s
  | Stuck s => Stuck s
  end.
Notation "'rdo' ( x , s ) <- m ; f" := (rbind m (fun x s => f))
  (at level 200, x pattern, s name, m at level 100, f at level 200).

(* ------------------------------------------------------------------ netio.c *)
Definition nwrite (b : bytes) (s : st) : st := log (EvW (s_ssl s) b) s.

(** dieerror(ECONNRESET): report, net_conn_shutdown(shutdown_abort) *)
Definition die (s : st) : st := set_conn false false (report ST_RPT_DIED s).

(** net_read(0): input buffered under another TLS state is dropped first *)
Definition nread (s0 : st) : res ritem :=
  let s := purge s0 in
  let '(it, r) := net_read2 {| inn := s_inn s; en := chan s |} in
  let s1 := upd_net s (inn r) (en r) in
  match it with
  | RDie => Exit (die s1)
  | RStuck => Stuck s1
  | _ => Ret it (log (EvR (s_ssl s) it (length (inn r) + length (rest (en r)))) s1)
  end.

(* ------------------------------------------------------------------ reply.c: netget(0) *)
Definition zch (l : bytes) (i : nat) : Z := Z.of_N (nth i l 0%N).

Definition netget_code (l : bytes) : option Z :=
  if Nat.ltb 3 (length l) && (N.eqb (nth 3 l 0%N) SP || N.eqb (nth 3 l 0%N) DASH) then
    let r := (zch l 0 - 48)%Z in
    let q := (zch l 1 - 48)%Z in
    if (QR_NG_D0_MIN <=? r)%Z && (r <=? QR_NG_D0_MAX)%Z && (0 <=? q)%Z && (q <=? 9)%Z then
      let r := (r * 10 + q)%Z in
      let q := (zch l 2 - 48)%Z in
      if (0 <=? q)%Z && (q <=? 9)%Z then Some (r * 10 + q)%Z else None
    else None
  else None.

Definition neg (e : N) : Z := (- Z.of_N e)%Z.

(** a reply code (200..599), or minus an errno *)
Definition netget0 (s : st) : res Z :=
  rdo (it, s1) <- nread s;
  match it with
  | RLine l =>
      let s2 := set_linein l s1 in
      match netget_code l with
      | Some c => Ret c s2
      | None => Ret (neg ST_EINVAL) s2
      end
  | RReset => Ret (neg ST_ECONNRESET) s1
  | _ => Ret (neg ST_EINVAL) s1
  end.

Definition dash3 (s : st) : bool := N.eqb (nth 3 (s_linein s) 0%N) DASH.

(* ------------------------------------------------------------------ greeting.c *)
Fixpoint cstr (b : bytes) : bytes :=
  match b with
  | [] => []
  | x :: b' => if N.eqb x 0 then [] else x :: cstr b'
  end.

Fixpoint drop_while (f : N -> bool) (b : bytes) : bytes :=
  match b with
  | x :: b' => if f x then drop_while f b' else b
  | [] => []
  end.

(** isspace() in the C locale *)
Definition is_cspace (b : N) : bool := N.eqb b 32 || (N.leb 9 b && N.leb b 13).

(** cb_size(more) != 0: strtoul(more, &s, 10) and then *s *)
Definition cb_size_bad (more : bytes) : bool :=
  match more with
  | [] => false
  | _ =>
      let a := drop_while is_cspace more in
      let b := match a with
               | x :: a' => if N.eqb x 43 || N.eqb x 45 then a' else a
               | [] => []
               end in
      let d := drop_while is_digit b in
      if Nat.eqb (length d) (length b) then true   (* no digits: s = more, and *more is not NUL *)
      else match d with [] => false | _ => true end
  end.

(** cb_auth(more) != 0 *)
Definition cb_auth_bad (more : bytes) : bool :=
  existsb (fun b => N.ltb b ST_AUTH_LO || N.leb ST_AUTH_HI b) (drop_while (fun b => N.eqb b 32) more).

Definition cb_bad (kind : N) (more : bytes) : bool :=
  if N.eqb kind 1 then cb_size_bad more
  else if N.eqb kind 2 then cb_auth_bad more
  else false.

(** strncasecmp(input, name, strlen(name)) == 0; [input] has no NUL *)
Definition ncase_eq (input name : bytes) : bool :=
  bytes_eqb (map to_lower (firstn (length name) input)) (map to_lower name).

(** esmtp_check_extension(): 1 << j, 0 (unknown) or -1 (syntax error) *)
Fixpoint check_ext_tab (tab : list (bytes * N)) (j : N) (input : bytes) : Z :=
  match tab with
  | [] => 0%Z
  | (name, kind) :: tab' =>
      if negb (ncase_eq input name) then check_ext_tab tab' (j + 1)%N input
      else
        let c := nth (length name) input 0%N in
        if N.eqb c 0 || N.eqb c SP then
          if N.eqb kind 0 then (if N.eqb c 0 then Z.of_N (N.shiftl 1 j) else (-1)%Z)
          else if cb_bad kind (skipn (length name) input) then (-1)%Z else Z.of_N (N.shiftl 1 j)
        else check_ext_tab tab' (j + 1)%N input
  end.
Definition check_ext (input : bytes) : Z := check_ext_tab ST_EXT_TABLE 0 input.
(** linein.s + 4 as a C string *)
Definition ext_arg (l : bytes) : bytes := cstr (skipn 4 l).

(** the helo name of the harness; net_writen() puts a command this short on one line *)
Definition HELONAME : bytes :=
  [99; 108; 105; 101; 110; 116; 46; 101; 120; 97; 109; 112; 108; 101; 46; 111; 114; 103]%N.
Definition helo_cmd (c : bytes) : bytes := c ++ HELONAME ++ [CR; LF].

(** [while (linein.s[3] == '-')] of the EHLO part *)
Fixpoint ehlo_loop (fuel : nat) (sc : Z) (ret : N) (err : bool) (s : st) : res (Z + (N * bool)) :=
  if dash3 s then
    match fuel with
    | O => Stuck s
    | S f =>
        rdo (t, s1) <- netget0 s;
        if negb (Z.eqb sc t) then
          if (t <? 0)%Z then Ret (inl t) s1
          else ehlo_loop f sc ret true s1
        else if Z.eqb sc ST_EHLO_OK && negb err then
          let ext := check_ext (ext_arg (s_linein s1)) in
          if (ext <? 0)%Z then ehlo_loop f sc ret true s1
          else ehlo_loop f sc (N.lor ret (Z.to_N ext)) err s1
        else ehlo_loop f sc ret err s1
    end
  else Ret (inr (ret, err)) s.

Fixpoint helo_loop (fuel : nat) (sc : Z) (err : bool) (s : st) : res (Z + bool) :=
  if dash3 s then
    match fuel with
    | O => Stuck s
    | S f =>
        rdo (t, s1) <- netget0 s;
        if (t <? 0)%Z then Ret (inl t) s1
        else helo_loop f sc (err || negb (Z.eqb t sc)) s1
    end
  else Ret (inr err) s.

(** greeting(): the extension bits (>= 0) or minus an errno *)
Definition greeting (s : st) : res Z :=
  let s0 := nwrite (helo_cmd ST_CMD_EHLO) s in
  rdo (sc, s1) <- netget0 s0;
  if (sc <? 0)%Z then Ret sc s1 else
  rdo (r, s2) <- ehlo_loop (S (avail s1)) sc 0 false s1;
  match r with
  | inl t => Ret t s2
  | inr (ret, err) =>
      if err then Ret (neg ST_EINVAL) s2
      else if Z.eqb sc ST_EHLO_OK then Ret (Z.of_N ret) s2
      else
        let s3 := nwrite (helo_cmd ST_CMD_HELO) s2 in
        rdo (sh, s4) <- netget0 s3;
        if (sh <? 0)%Z then Ret sh s4 else
        rdo (r2, s5) <- helo_loop (S (avail s4)) sh false s4;
        match r2 with
        | inl t => Ret t s5
        | inr err2 =>
            if negb err2 && Z.eqb sh ST_EHLO_OK then Ret 0%Z s5
            else if negb err2 && (ST_HELO_FAIL_LO <=? sh)%Z && (sh <=? ST_HELO_FAIL_HI)%Z then Ret (neg ST_EDONE) s5
            else Ret (neg ST_EINVAL) s5
        end
  end.

(* ------------------------------------------------------------------ qremote.c: quitmsg, net_conn_shutdown *)
(** [do { if (net_read(0)) break; } while (linein.len >= 4 && linein.s[3] == '-')] *)
Fixpoint quit_loop (fuel : nat) (s : st) : res unit :=
  match fuel with
  | O => Stuck s
  | S f =>
      rdo (it, s1) <- nread s;
      match it with
      | RLine l =>
          if Nat.leb 4 (length l) && N.eqb (nth 3 l 0%N) DASH then quit_loop f (set_linein l s1)
          else Ret tt (set_linein l s1)
      | _ => Ret tt s1
      end
  end.

Definition quitmsg (s : st) : res unit :=
  let s0 := nwrite ST_CMD_QUIT s in
  rdo (_, s1) <- quit_loop (S (avail s0)) s0;
  let s2 := set_conn false false s1 in
  Ret tt (if ST_QUITMSG_RESETS_ROUTE then set_route false false s2 else s2).

(** both end in exit(0) *)
Definition shutdown_clean {A} (s : st) : res A :=
  if s_sock s then
    match quitmsg s with
    | Ret _ s1 => Exit s1
    | Exit s1 => Exit s1
    | Stuck s1 => Stuck s1
    end
  else Exit s.
Definition shutdown_abort {A} (s : st) : res A := Exit (set_conn false false s).

(* ------------------------------------------------------------------ conn_mx.c helpers *)
Definition closes_socket (err : Z) : bool :=
  (err <? 0)%Z && existsb (fun e => Z.eqb (neg e) err) ST_QIN_CLOSE.

(** quitmsg_if_net(error) *)
Definition quitmsg_if_net (err : Z) (s : st) : res unit :=
  if closes_socket err then Ret tt (set_conn (if ST_QIN_FREES_SSL then false else s_ssl s) false s)
  else quitmsg s.

(** connection_died() *)
Definition connection_died (s : st) : st := set_conn (s_ssl s) false s.

(* ------------------------------------------------------------------ starttlsr.c: tls_init *)
Definition usage_usable (u : N) : bool := existsb (N.eqb u) ST_TLSA_USABLE.

Definition count_usable (t : list (N * Z)) : nat := length (filter (fun r => usage_usable (fst r)) t).

(** the loop over SSL_dane_tlsa_add(): None = a negative result (local error), else what is left of tlsa_usable *)
Fixpoint dane_add (t : list (N * Z)) (usable : nat) : option nat :=
  match t with
  | [] => Some usable
  | (u, r) :: t' =>
      if negb (usage_usable u) then dane_add t' usable
      else if (r <? 0)%Z then None
      else if Z.eqb r 0 then (if Nat.eqb (usable - 1) 0 then Some 0 else dane_add t' (usable - 1))
      else dane_add t' usable
  end.

(** the reply to STARTTLS: [while ((i > 0) && (linein.s[3] == '-'))] *)
Fixpoint tls_reply_loop (fuel : nat) (i : Z) (s : st) : res Z :=
  if (0 <? i)%Z && dash3 s then
    match fuel with
    | O => Stuck s
    | S f =>
        rdo (k, s1) <- netget0 s;
        if negb (Z.eqb i k) then Ret (if (k <? 0)%Z then k else Z.of_N ST_EDONE) s1
        else tls_reply_loop f i s1
    end
  else Ret i s.

Definition pinned (c : conn) : bool := c_named c && c_pinfile c.

(** 0, a positive errno (EDONE: "the connection may still be intact") or -1 (local error, reported) *)
Definition tls_init (c : conn) (tlsa : list (N * Z)) (s : st) : res Z :=
  if pinned c && negb (c_pinload c) then Ret (-1)%Z (report ST_RPT_PINLOAD s) else
  let s := log (EvCert (s_rcert s)) s in
  let usable0 := count_usable tlsa in
  match (if Nat.eqb usable0 0 then Some 0 else dane_add tlsa usable0) with
  | None => Ret (-1)%Z (report ST_RPT_TLSAADD s)
  | Some usable =>
      let s0 := nwrite ST_CMD_STARTTLS s in
      rdo (i0, s1) <- netget0 s0;
      rdo (i, s2) <- tls_reply_loop (S (avail s1)) i0 s1;
      if negb (Z.eqb i ST_STARTTLS_OK) then Ret (if (i <? 0)%Z then (- i)%Z else Z.of_N ST_EDONE) s2
      else
          (* ssl_timeoutconn(): what was still coming in clear is gone; lineinn is not touched *)
          let s4 := log (EvHs (length (s_inn s2)) (c_hs c)) (set_clr (s_inn s2) {| cur := []; future := c_post c |} s2) in
          if negb (N.eqb (c_hs c) 0) then Ret (Z.of_N (c_hs c)) s4
          else
            let s5 := set_conn true (s_sock s4) s4 in
            if pinned c || Nat.ltb 0 usable then
              let s6 := log (EvVfy (c_verify c)) s5 in
              if negb (N.eqb (c_verify c) 0) then Ret (Z.of_N ST_EDONE) s6 else Ret 0%Z s6
            else Ret 0%Z s5
  end.

(* ------------------------------------------------------------------ conn_mx.c: connect_mx *)
(** the rest of a multi-line greeting: (s, flagerr) *)
Fixpoint banner_loop (fuel : nat) (sc : Z) (flagerr : bool) (s : st) : res (Z * bool) :=
  if dash3 s then
    match fuel with
    | O => Stuck s
    | S f =>
        rdo (t, s1) <- netget0 s;
        if Z.eqb t (neg ST_ECONNRESET) then Ret (t, flagerr) s1
        else
          let flagerr := flagerr || negb (Z.eqb sc t) in
          if (0 <? t)%Z then banner_loop f sc flagerr s1
          else Ret (t, flagerr) s1
    end
  else Ret (sc, flagerr) s.

(** one pass through the body of the do-while: Some smtpext = a usable connection (socketd >= 0) *)
Definition conn_iter (k : nat) (c : conn) (tlsa : list (N * Z)) (s : st) : res (option Z) :=
  let s := log (EvConn k) (open_conn c s) in
  let next (m : res unit) : res (option Z) := rdo (_, s') <- m; Ret None s' in
  rdo (sc0, s1) <- netget0 s;
  if (sc0 <? 0)%Z && Z.eqb sc0 (neg ST_ECONNRESET) then Ret None (connection_died s1)
  else if (sc0 <? 0)%Z && Z.eqb sc0 (neg ST_EINVAL) then next (quitmsg s1)
  else if (sc0 <? 0)%Z then shutdown_abort s1
  else
  rdo (r, s2) <- banner_loop (S (avail s1)) sc0 false s1;
  let '(sc, flagerr) := r in
  if Z.eqb sc (neg ST_ECONNRESET) then Ret None (connection_died s2)
  else if negb (Z.eqb sc ST_GREETING_OK) || flagerr then next (quitmsg_if_net sc s2)
  else
  rdo (g, s3) <- greeting s2;
  if (g <? 0)%Z then next (quitmsg_if_net g s3)
  else
  if negb (N.eqb (N.land (Z.to_N g) ST_ESMTP_STARTTLS) 0) then
    rdo (r, s4) <- tls_init c tlsa s3;
    if (r <? 0)%Z then shutdown_clean s4
    else if negb (Z.eqb r 0) then next (quitmsg_if_net (- r)%Z s4)
    else
      rdo (g2, s5) <- greeting s4;
      if (g2 <? 0)%Z then next (quitmsg_if_net g2 s5)
      else Ret (Some g2) s5
  else if s_xtls s3 then next (quitmsg s3)
  else if Nat.ltb 0 (length tlsa) then next (quitmsg s3)
  else Ret (Some g) s3.

(** whose TLSA records connect_mx() works with, whatever MX it talks to: dnstlsa(mx->name) is
    asked before tryconn() picks the host, and [mx] is the head of the list (the translator
    checks that this is what the code does) *)
Definition tlsa_eff (conns : list conn) : list (N * Z) :=
  match conns with
  | h :: _ => if c_named h then c_tlsa h else []
  | [] => []
  end.
Definition asks_tlsa (conns : list conn) : bool :=
  match conns with h :: _ => c_named h | [] => false end.

Fixpoint connect_mx (all : list conn) (k : nat) (todo : list conn) (s : st) : res (option (conn * Z)) :=
  let s := if asks_tlsa all then log (EvTlsa 0) s else s in
  match todo with
  | [] => Ret None s                        (* tryconn(): -ENOENT *)
  | c :: todo' =>
      rdo (r, s1) <- conn_iter k c (tlsa_eff all) s;
      match r with
      | Some g => Ret (Some (c, g)) s1
      | None => connect_mx all (S k) todo' s1
      end
  end.

(* ------------------------------------------------------------------ main() around connect_mx *)
(** what the stand-in for send_envelope() writes before it fails *)
Definition MAIL_CMD : bytes := [77; 65; 73; 76; 32; 70; 82; 79; 77; 58; 60; 62; 13; 10]%N.

Definition init_st (k : tcase) : st :=
  mkSt [] false {| cur := []; future := [] |} {| cur := []; future := [] |} false false [] (k_route k) (k_route k) [] [].

Definition run (k : tcase) : res unit :=
  rdo (r, s) <- connect_mx (k_conns k) 0 (k_conns k) (init_st k);
  match r with
  | None => shutdown_abort (report ST_RPT_NOCONN s)
  | Some (c, g) =>
      (* a certificate in control/tlshosts, but no TLS session *)
      if ST_PINNED_NEEDS_TLS && negb (s_ssl s) && pinned c then shutdown_clean (report ST_RPT_PINNED s)
      else shutdown_clean (nwrite MAIL_CMD (log (EvMail (s_ssl s) (Z.to_N g)) s))
  end.

Definition final (r : res unit) : st := match r with Ret _ s => s | Exit s => s | Stuck s => s end.
Definition trace (k : tcase) : list ev := s_tr (final (run k)).

(** Models of lib/match.c:ip4_matchnet / ip6_matchnet and of
    qsmtpd/antispam.c:check_ipbl_file (with check_ip4 / check_ip6).
    Executable definitions only.

    Addresses are byte lists in memory order (= network byte order).  The C
    loads them as 32-bit host words ([s6_addr32[i]], [s_addr]); the host of the
    correspondence run is little-endian, so a load of the bytes b0 b1 b2 b3 is
    b0 + 2^8 b1 + 2^16 b2 + 2^24 b3 ([ld32]), and [htonl x] is the host word
    whose memory image is the big-endian image of [x].  On a big-endian host
    both are the big-endian value and the same proofs go through with [rev]
    removed; the theorems are stated on the big-endian (network) value of the
    address bytes and do not mention the host order.

    UB of the C is explicit: a shift count outside 0..31 ([Crash 10]), a store
    outside maskv6.s6_addr32[4] ([Crash 11]), a read outside an address or the
    mapped file ([Crash 12]). *)
From Qv Require Import Common.Bytes Gen.GenControl.

Local Open Scope N_scope.

(** host (little-endian) load of the 32-bit word at byte offset [off] *)
Definition ld32 (l : bytes) (off : nat) : Cres N :=
  match skipn off l with
  | b0 :: b1 :: b2 :: b3 :: _ => Ok (b0 + 256 * b1 + 65536 * b2 + 16777216 * b3)
  | _ => Crash 12
  end.

(** htonl on a little-endian host: byte swap of a 32-bit value *)
Definition htonl (x : N) : N :=
  (x / 16777216) mod 256 + 256 * ((x / 65536) mod 256) + 65536 * ((x / 256) mod 256) + 16777216 * (x mod 256).

(** -1 - ((1U << k) - 1) in 32-bit unsigned arithmetic; the shift is UB for k outside 0..31 *)
Definition netmask_word (k : Z) : Cres N :=
  if (Z.ltb k 0 || Z.leb (Z.of_nat MN_WORD) k)%bool then Crash 10
  else Ok (4294967295 - (2 ^ (Z.to_N k) - 1)).

Definition ip4_matchnet (ip net : bytes) (mask : N) : Cres bool :=
  if N.eqb mask 0 then Ok true else
  do mw <- netmask_word (Z.of_nat MN_WORD - Z.of_N mask);
  let m := htonl mw in
  do a <- ld32 ip (4 * MN_V4_WORD)%nat;
  do n <- ld32 net 0;
  Ok (N.eqb (N.land a m) (N.land n m)).

(** maskv6.s6_addr32[i] = v  (array of MN_V6_WORDS words) *)
Definition set_word (m : list N) (i : nat) (v : N) : Cres (list N) :=
  if Nat.ltb i (length m) then Ok (firstn i m ++ v :: skipn (S i) m) else Crash 11.

(** for (int i = 0; i < mask / 32; ++i) maskv6.s6_addr32[i] = -1;   [n] = iterations left *)
Fixpoint fill_ones (n : nat) (i : nat) (m : list N) : Cres (list N) :=
  match n with
  | O => Ok m
  | S n' => do m' <- set_word m i 4294967295; fill_ones n' (S i) m'
  end.

(** for (int i = 3; i >= 0; i--) if ((ip[i] & m[i]) != (net[i] & m[i])) return 0;   return 1;
    [n] counts i+1 *)
Fixpoint cmp_words (n : nat) (ip net : bytes) (m : list N) : Cres bool :=
  match n with
  | O => Ok true
  | S i =>
      do a <- ld32 ip (4 * i)%nat;
      do b <- ld32 net (4 * i)%nat;
      let mi := nth i m 0%N in
      if N.eqb (N.land a mi) (N.land b mi) then cmp_words i ip net m else Ok false
  end.

Definition ip6_matchnet (ip net : bytes) (mask : N) : Cres bool :=
  let w := N.of_nat MN_WORD in
  let m0 := repeat 0 MN_V6_WORDS in                              (* memset *)
  do m1 <- fill_ones (N.to_nat (mask / w)) 0 m0;
  do m2 <- (if N.eqb (mask mod w) 0 then Ok m1
            else do mw <- netmask_word (Z.of_nat MN_WORD - Z.of_N (mask mod w));
                 set_word m1 (N.to_nat (mask / w)) (htonl mw));
  cmp_words MN_V6_WORDS ip net m2.

(** ---------------- check_ipbl_file (qsmtpd/antispam.c), with the F-C16-2 fix:
    all prefix lengths are validated before the first comparison. *)

Local Close Scope N_scope.

Definition IN_ADDR_LEN : nat := 4.      (* sizeof(struct in_addr), <netinet/in.h>; _Static_assert in the harness *)
Definition IN6_ADDR_LEN : nat := 16.    (* sizeof(struct in6_addr) *)

Definition mask_in_range (iplen : nat) (netmask : N) : bool :=
  negb (N.ltb netmask (N.of_nat IPBL_MINMASK) || N.ltb (N.of_nat (IPBL_BYTE_BITS * iplen)) netmask).

(** first loop: for (i = 0; i < flen; i += recordlen) { netmask = buf[i + iplen]; range test }
    [cur] = buf + i as a suffix; true = all prefixes in range *)
Fixpoint ipbl_validate (fuel : nat) (iplen : nat) (cur : bytes) : Cres bool :=
  match fuel with
  | O => OutOfFuel
  | S fuel' =>
      match cur with
      | [] => Ok true
      | _ =>
          match nth_error cur iplen with
          | None => Crash 12
          | Some netmask =>
              if mask_in_range iplen netmask
              then ipbl_validate fuel' iplen (skipn (iplen + IPBL_REC_EXTRA) cur)
              else Ok false
          end
      end
  end.

(** second loop: memcpy(tmp, buf, recordlen); if (matchfunc(&sremoteip, tmp, netmask)) return 1; buf += recordlen *)
Fixpoint ipbl_scan (fuel : nat) (iplen : nat) (matchf : bytes -> bytes -> N -> Cres bool)
         (ip : bytes) (cur : bytes) : Cres bool :=
  match fuel with
  | O => OutOfFuel
  | S fuel' =>
      match cur with
      | [] => Ok false
      | _ =>
          let recordlen := iplen + IPBL_REC_EXTRA in
          match nth_error cur iplen with
          | None => Crash 12
          | Some netmask =>
              if Nat.ltb (length cur) recordlen then Crash 12 else       (* memcpy source *)
              do hit <- matchf ip (firstn recordlen cur) netmask;
              if hit then Ok true else ipbl_scan fuel' iplen matchf ip (skipn recordlen cur)
          end
      end
  end.

Definition check_ipbl_file (iplen : nat) (matchf : bytes -> bytes -> N -> Cres bool)
           (ip buf : bytes) : Cres Z :=
  let flen := length buf in
  let recordlen := iplen + IPBL_REC_EXTRA in
  if negb (Nat.eqb (flen mod recordlen) 0) then Ok (-1)%Z else
  do v <- ipbl_validate (S flen) iplen buf;
  if negb v then Ok (-1)%Z else
  do hit <- ipbl_scan (S flen) iplen matchf ip buf;
  Ok (if hit then 1%Z else 0%Z).

Definition check_ip4 (ip buf : bytes) : Cres Z := check_ipbl_file IN_ADDR_LEN ip4_matchnet ip buf.
Definition check_ip6 (ip buf : bytes) : Cres Z := check_ipbl_file IN6_ADDR_LEN ip6_matchnet ip buf.

(** ---------------- the code before the F-C16-2 fix: validation inside the matching loop *)
Fixpoint ipbl_scan_orig (fuel : nat) (iplen : nat) (matchf : bytes -> bytes -> N -> Cres bool)
         (ip : bytes) (cur : bytes) : Cres Z :=
  match fuel with
  | O => OutOfFuel
  | S fuel' =>
      match cur with
      | [] => Ok 0%Z
      | _ =>
          let recordlen := iplen + IPBL_REC_EXTRA in
          match nth_error cur iplen with
          | None => Crash 12
          | Some netmask =>
              if negb (mask_in_range iplen netmask) then Ok (-1)%Z else
              if Nat.ltb (length cur) recordlen then Crash 12 else
              do hit <- matchf ip (firstn recordlen cur) netmask;
              if hit then Ok 1%Z else ipbl_scan_orig fuel' iplen matchf ip (skipn recordlen cur)
          end
      end
  end.

Definition check_ipbl_file_orig (iplen : nat) (matchf : bytes -> bytes -> N -> Cres bool)
           (ip buf : bytes) : Cres Z :=
  let flen := length buf in
  if negb (Nat.eqb (flen mod (iplen + IPBL_REC_EXTRA)) 0) then Ok (-1)%Z
  else ipbl_scan_orig (S flen) iplen matchf ip buf.

(** user_exists() on a struct userconf that may already be filled (the global cache [uconf] used for MAIL FROM,
    dsp == NULL): what vget_dir() keeps, what it closes, which descriptors are open afterwards.
    Code with fixes/C13-dirfd-leak.diff applied.  Definitions only. *)
From Qv Require Import Common.Bytes Gen.GenVpop Model.Cdb Model.Vpop Model.VpopFile.

(** the part of struct userconf that matters here: domainpath ([] = empty), domaindirfd >= 0, userdirfd >= 0 *)
Record dsst := mkDs { d_path : bytes; d_dom : bool; d_user : bool }.
Definition ds_fresh : dsst := mkDs [] false false.            (* userconf_init() *)

Inductive fdev := EvOpen | EvClose.                            (* a descriptor was opened and kept / an open one was closed *)

Definition held (s : dsst) : nat := (if d_dom s then 1 else 0) + (if d_user s then 1 else 0).

(** (len + 1 == ds->domainpath.len) && (memcmp(ds->domainpath.s, cdb_buf, len) == 0), [p] = the new path with its '/' *)
Definition same_path (s : dsst) (p : bytes) : bool :=
  (length p =? length (d_path s)) && bytes_eqb (firstn (length p - 1) (d_path s)) (firstn (length p - 1) p).

(** vget_dir() found the record: either the path differs (userconf_free(), new path) or it is kept and the
    two descriptors are closed *)
Definition vget_ds (s : dsst) (p : bytes) : dsst * list fdev :=
  if same_path s p then (mkDs (d_path s) false false, repeat EvClose (held s))
  else (mkDs p false false, repeat EvClose (held s)).

Definition user_exists_ds (s : dsst) (v : vres) (pathfs : bytes -> domstate) (fs : name -> entry)
    (vb : option bytes) (local : bytes) : outcome * dsst * list fdev :=
  if refused local then (mkOut 0 None [], s, []) else
  match v with
  | VErr rc => (mkOut rc None [], s, [])
  | VNone => (mkOut VP_RC_NOTLOCAL None [], s, [])
  | VPath p =>
      let '(s1, ev1) := vget_ds s p in
      let o := user_exists_with (inr (Some (pathfs (d_path s1)))) fs vb local in
      match dom_errno (pathfs (d_path s1)) with
      | None =>
          (* the domain directory was opened; the user directory too when it exists *)
          let s2 := mkDs (d_path s1) true (match userdir o with Some _ => true | None => false end) in
          let ev2 := EvOpen :: (if d_user s2 then [EvOpen] else []) in
          if Z.ltb 0 (rc o) then (o, s2, ev1 ++ ev2)
          else (o, ds_fresh, ev1 ++ ev2 ++ repeat EvClose (held s2))         (* userconf_free() *)
      | Some _ =>
          if Z.ltb 0 (rc o) then (o, s1, ev1) else (o, ds_fresh, ev1)
      end
  end.

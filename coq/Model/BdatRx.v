(** Model of the receiving side of C19: lib/netio.c:net_readbin (with readinput and
    get_from_inbuffer) and qsmtpd/data.c:smtp_bdat, in both versions: [c_fix] = the CR held back at the
    very end of the data is written behind the read loop (fixes/C19-bdat-rx-trailing-cr.diff) instead
    of inside it; the translator reports which version the C of this run is (RX_CR_AFTER_LOOP).
    Executable definitions only.

    Kept from the C: linenlen/lineinn (the list [n_ln]), num/offs, chunksize, chunk,
    lastcr, bdaterr, msgsize, goodrcpt, comstate (three relevant values), queuefd_data /
    queuefd_hdr (open or not), and inside one buffer: pos, rlen, cr (as indices into inbuf).
    The environment is explicit: the octets still to come from the socket, the size
    of each read() result ([n_cuts]), the read()/write() that fails, queue_init's
    result, maxbytes.  Output: the event list the harness prints (queue writes with
    their boundaries, replies, queue_init/queue_reset/freedata/queue_envelope).
    Parsing of the "BDAT n [LAST]" argument is not modelled (the harness only
    issues well-formed commands); hops is always 0 in the C, so that branch is dead. *)
From Qv Require Import Common.Bytes Gen.GenBdatRx.

(** * lib/netio.c: the binary reader *)
Record netst := mk_net {
  n_ln : bytes;              (* lineinn[0 .. linenlen) *)
  n_stream : bytes;          (* what the peer still sends *)
  n_cuts : list nat;         (* size of the next read() results; afterwards: as much as asked for *)
  n_rfail : option nat       (* the read() with this index fails (-1, errno = EIO) *)
}.

Inductive rdres := RData (d : bytes) | RErr | RDied.

(** readinput(buffer, len, 1) without TLS: poll says readable, read(0, buffer, len - 1);
    0 octets = connection closed = dieerror(ECONNRESET) *)
Definition readinput (len : nat) (st : netst) : rdres * netst :=
  match n_rfail st with
  | Some O => (RErr, mk_net (n_ln st) (n_stream st) (n_cuts st) None)
  | rf =>
      let rf' := match rf with Some (S k) => Some k | _ => None end in
      let want := len - RI_BACK in
      let k0 := match n_cuts st with c :: _ => (if Nat.eqb c 0 then 1 else c) | [] => want end in
      let k := Nat.min (Nat.min k0 want) (length (n_stream st)) in
      let cuts' := match n_cuts st with _ :: t => t | [] => [] end in
      if Nat.eqb k 0 then (RDied, mk_net (n_ln st) (n_stream st) cuts' rf')
      else (RData (firstn k (n_stream st)), mk_net (n_ln st) (skipn k (n_stream st)) cuts' rf')
  end.

(** the [while (num)] loop of net_readbin; [bufsize] = size of the caller's buffer,
    readinput stores a NUL behind what it read *)
Fixpoint readbin_loop (fuel : nat) (bufsize : nat) (num offs : nat) (acc : bytes) (st : netst)
  : Cres (rdres * netst) :=
  if Nat.eqb num 0 then Ok (RData acc, st) else
  match fuel with
  | O => OutOfFuel
  | S f =>
      if Nat.ltb bufsize (offs + (num + RB_EXTRA - RI_BACK) + 1) then Crash 40 else
      match readinput (num + RB_EXTRA) st with
      | (RData d, st') => readbin_loop f bufsize (num - length d) (offs + length d) (acc ++ d) st'
      | (r, st') => Ok (r, st')
      end
  end.

Definition net_readbin (bufsize : nat) (num : nat) (st : netst) : Cres (rdres * netst) :=
  let linenlen := length (n_ln st) in
  if negb (Nat.eqb linenlen 0) then
    if Nat.ltb num linenlen then
      (* get_from_inbuffer(buf, num, 0) *)
      if Nat.ltb bufsize num then Crash 41 else
      Ok (RData (firstn num (n_ln st)), mk_net (skipn num (n_ln st)) (n_stream st) (n_cuts st) (n_rfail st))
    else
      if Nat.ltb bufsize linenlen then Crash 42 else
      readbin_loop (S num) bufsize (num - linenlen) linenlen (n_ln st)
                   (mk_net [] (n_stream st) (n_cuts st) (n_rfail st))
  else readbin_loop (S num) bufsize num 0 [] st.

(** * qsmtpd/data.c: one buffer of chunk data *)
(** memchr(buf + from, '\r', n): index of the first CR in buf[from, from+n).  Reading
    past the part of inbuf that was filled (data and the NUL stored behind it) is [Crash]. *)
Fixpoint memchr_scan (buf : bytes) (from n : nat) : option nat :=
  match n with
  | O => None
  | S n' => if N.eqb (nth from buf 0%N) CR then Some from else memchr_scan buf (S from) n'
  end.
Definition memchr_cr (buf : bytes) (from n : nat) : Cres (option nat) :=
  match memchr_scan buf from n with
  | Some i => if Nat.ltb i (length buf) then Ok (Some i) else Crash 43
  | None => if Nat.ltb (length buf) (from + n) then Crash 44 else Ok None
  end.
Definition rdb (buf : bytes) (k : nat) : Cres N :=
  if Nat.ltb k (length buf) then Ok (nth k buf 0%N) else Crash 45.

(** [while ((cr != NULL) && (cr[1] != '\n')) { o = cr - pos; cr = memchr(cr + 1, '\r', rlen - o); }] *)
Fixpoint skip_bare_cr (fuel : nat) (buf : bytes) (pos rlen : nat) (cr : option nat) : Cres (option nat) :=
  match cr with
  | None => Ok None
  | Some c =>
      do x <- rdb buf (S c);
      if N.eqb x LF then Ok (Some c) else
      match fuel with
      | O => OutOfFuel
      | S f =>
          if Nat.ltb c pos then Crash 46 else
          let o := c - pos in
          if Nat.ltb rlen o then Crash 47 else
          do cr' <- memchr_cr buf (S c) (rlen - o);
          skip_bare_cr f buf pos rlen cr'
      end
  end.

Definition set_nth (buf : bytes) (k : nat) (v : N) : bytes := firstn k buf ++ [v] ++ skipn (S k) buf.

(** [while ((rlen > 0) && (cr != NULL))]: the CRLF-terminated lines of one buffer.
    result: the WRITE(pos, l) calls made, then buf, pos, rlen for the final WRITE *)
Fixpoint crlf_loop (fuel : nat) (buf : bytes) (pos rlen : nat) (cr : option nat) (acc : list bytes)
  : Cres (list bytes * bytes * nat * nat) :=
  match cr with
  | Some c0 =>
      if Nat.ltb 0 rlen then
        match fuel with
        | O => OutOfFuel
        | S f =>
            do cr1 <- memchr_cr buf c0 rlen;
            do cr2 <- skip_bare_cr (S rlen) buf pos rlen cr1;
            match cr2 with
            | Some c =>
                do x <- rdb buf (S c);
                if N.eqb x LF then
                  if Nat.ltb c pos then Crash 48 else
                  let l := c - pos + 1 in
                  let buf' := set_nth buf c LF in
                  if Nat.ltb (length buf') (pos + l) then Crash 49 else
                  if Nat.ltb rlen (l + 1) then Crash 50 else
                  crlf_loop f buf' (c + 2) (rlen - (l + 1)) (Some (c + 2)) (acc ++ [sub buf' pos l])
                else crlf_loop f buf pos rlen cr2 acc
            | None => Ok (acc, buf, pos, rlen)
            end
        end
      else Ok (acc, buf, pos, rlen)
  | None => Ok (acc, buf, pos, rlen)
  end.

(** everything done with one buffer [d] = inbuf[0 .. chunk), chunk > 0: the write made
    before lastcr is assigned (the CR held back from the previous buffer), the new
    lastcr, and the writes made afterwards, in order *)
Definition piece (lastcr : bool) (addcr : bool) (d : bytes) : Cres (list bytes * bool * list bytes) :=
  let chunk := length d in
  if Nat.eqb chunk 0 then Crash 51 else
  let w0 := if lastcr && negb (N.eqb (nth 0 d 0%N) LF) then [[CR]] else [] in
  let lastcr' := N.eqb (nth (chunk - 1) d 0%N) CR in
  let chunk' := if lastcr' then chunk - 1 else chunk in
  let buf := firstn chunk' d ++ [0%N] in      (* inbuf[chunk] = '\0' *)
  do r <- crlf_loop (S chunk') buf 0 chunk' (Some 0) [];
  let '(ws, buf', pos, rlen) := r in
  if Nat.ltb (length buf') (pos + rlen) then Crash 52 else
  (* unrepaired code, final buffer of the LAST chunk: pos[rlen++] = '\r' (the slot of the NUL) *)
  Ok (w0, lastcr', ws ++ [sub buf' pos rlen ++ (if addcr && lastcr' then [CR] else [])]).

(** * qsmtpd/data.c: smtp_bdat *)
Inductive err := E0 | EDONE | EMSGSIZE | EPIPE | EBADF | EIO | EINVAL | E2BIG | ENOSPC | EFBIG | ENOMEM.
Definition err_eqb (a b : err) : bool :=
  match a, b with
  | E0, E0 | EDONE, EDONE | EMSGSIZE, EMSGSIZE | EPIPE, EPIPE | EBADF, EBADF | EIO, EIO
  | EINVAL, EINVAL | E2BIG, E2BIG | ENOSPC, ENOSPC | EFBIG, EFBIG | ENOMEM, ENOMEM => true
  | _, _ => false
  end.
(** comstate: 0x0040 (after RCPT TO; [qf] = the queue_init() of this transaction will fail: part of the
    environment, kept here so that it can differ per transaction), 0x0800, 0x0010 *)
Inductive comst := CsRcpt (qf : bool) | CsBdat | CsHelo.

Inductive ev :=
| EvInit | EvHdr | EvHBadf | EvQ (b : bytes) | EvQBadf | EvQFail
| EvReply (code : nat) | EvEnv (n : nat) | EvReset | EvFree | EvTarpit
| EvRc (e : err) | Ev503
| EvBegin (pos : nat) | EvRsetOk.      (* session scripts: start of a transaction (stream octets consumed so far), RSET *)

(** [c_wfail = Some (k, e)]: the queue write() with index k fails with errno e *)
Record rxcfg := mk_cfg { c_wfail : option (nat * err); c_maxbytes : nat; c_rs : nat (* sizeof(inbuf) *);
                          c_fix : bool (* the repaired smtp_bdat *) }.

Record rxst := mk_rx {
  r_com : comst; r_lastcr : bool; r_bdaterr : err; r_msgsize : nat; r_goodrcpt : bool;
  r_qdata : bool; r_qhdr : bool; r_wcount : nat; r_net : netst }.

Definition set_net (s : rxst) (n : netst) : rxst :=
  mk_rx (r_com s) (r_lastcr s) (r_bdaterr s) (r_msgsize s) (r_goodrcpt s) (r_qdata s) (r_qhdr s) (r_wcount s) n.

(** WRITE(buf, len): write(queuefd_data, ..) *)
Definition q_write (cfg : rxcfg) (s : rxst) (b : bytes) : option err * rxst * list ev :=
  if negb (r_qdata s) then (Some EBADF, s, [EvQBadf]) else
  let s' := mk_rx (r_com s) (r_lastcr s) (r_bdaterr s) (r_msgsize s) (r_goodrcpt s) (r_qdata s) (r_qhdr s)
                  (S (r_wcount s)) (r_net s) in
  match c_wfail cfg with
  | Some (k, e) => if Nat.eqb k (r_wcount s) then (Some e, s', [EvQFail]) else (None, s', [EvQ b])
  | None => (None, s', [EvQ b])
  end.

Fixpoint q_writes (cfg : rxcfg) (s : rxst) (bs : list bytes) : option err * rxst * list ev :=
  match bs with
  | [] => (None, s, [])
  | b :: bs' =>
      match q_write cfg s b with
      | (Some e, s', evs) => (Some e, s', evs)
      | (None, s', evs) => let '(r, s'', evs') := q_writes cfg s' bs' in (r, s'', evs ++ evs')
      end
  end.

Inductive loop_end := LoopOk | LoopErrWrite (e : err) | LoopDied.

(** the [while (chunksize > 0)] loop *)
Fixpoint chunk_loop (fuel : nat) (cfg : rxcfg) (last : bool) (chunksize : N) (s : rxst) (evs : list ev)
  : Cres (loop_end * rxst * list ev) :=
  if N.eqb chunksize 0 then Ok (LoopOk, s, evs) else
  match fuel with
  | O => OutOfFuel
  | S f =>
      let num := if N.leb (N.of_nat (c_rs cfg)) chunksize then c_rs cfg - RX_READ_BACK else N.to_nat chunksize in
      do r <- net_readbin (c_rs cfg) num (r_net s);
      let '(rd, net') := r in
      let s1 := set_net s net' in
      match rd with
      | RDied => Ok (LoopDied, s1, evs)
      | RErr =>
          let be := if err_eqb (r_bdaterr s1) E0 then EIO else r_bdaterr s1 in
          Ok (LoopOk, mk_rx (r_com s1) (r_lastcr s1) be (r_msgsize s1) (r_goodrcpt s1) (r_qdata s1) (r_qhdr s1)
                            (r_wcount s1) (r_net s1), evs)
      | RData d =>
          let chunk := length d in
          if Nat.eqb chunk 0 then chunk_loop f cfg last chunksize s1 evs else
          if N.ltb chunksize (N.of_nat chunk) then Crash 53 else
          (* unrepaired: if (LAST && lastcr && (chunksize == 0)) pos[rlen++] = CR; *)
          do p <- piece (r_lastcr s1) (negb (c_fix cfg) && last && N.eqb (chunksize - N.of_nat chunk) 0) d;
          let '(w0, lastcr', ws) := p in
          let s2 := mk_rx (r_com s1) (r_lastcr s1) (r_bdaterr s1) (r_msgsize s1 + chunk) (r_goodrcpt s1)
                          (r_qdata s1) (r_qhdr s1) (r_wcount s1) (r_net s1) in
          let '(wr0, s3, wevs0) := q_writes cfg s2 w0 in
          match wr0 with
          | Some e => Ok (LoopErrWrite e, s3, evs ++ wevs0)
          | None =>
              let s4 := mk_rx (r_com s3) lastcr' (r_bdaterr s3) (r_msgsize s3) (r_goodrcpt s3) (r_qdata s3) (r_qhdr s3)
                              (r_wcount s3) (r_net s3) in
              let '(wr, s5, wevs) := q_writes cfg s4 ws in
              match wr with
              | Some e => Ok (LoopErrWrite e, s5, evs ++ wevs0 ++ wevs)
              | None => chunk_loop f cfg last (chunksize - N.of_nat chunk) s5 (evs ++ wevs0 ++ wevs)
              end
          end
      end
  end.

Definition freedata (s : rxst) : rxst :=
  mk_rx (r_com s) (r_lastcr s) (r_bdaterr s) (r_msgsize s) false (r_qdata s) (r_qhdr s) (r_wcount s) (r_net s).
Definition queue_reset (s : rxst) : rxst :=
  mk_rx (r_com s) (r_lastcr s) (r_bdaterr s) (r_msgsize s) (r_goodrcpt s) false false (r_wcount s) (r_net s).

(** the err_write label; [e] = errno of the failed write *)
Definition err_write (e : err) (s : rxst) (evs : list ev) : option err * rxst * list ev :=
  let s' := freedata (queue_reset s) in
  let rc := match e with ENOSPC | EFBIG => EMSGSIZE | _ => e end in
  match rc with
  | EMSGSIZE | E2BIG | ENOMEM => (Some rc, s', evs ++ [EvReset; EvFree])
  | _ => (Some EDONE, s', evs ++ [EvReset; EvFree; EvReply 451])
  end.

(** the start of a transaction: [if (comstate != 0x0800) { msgsize = 0; comstate = 0x0800; lastcr = 0;
    bdaterr = queue_init(); if (!bdaterr) bdaterr = write_received(1); }] *)
Definition bdat_init (s : rxst) : rxst * list ev :=
  match r_com s with
  | CsBdat => (s, [])
  | com =>
      if match com with CsRcpt qf => qf | _ => false end then
        (mk_rx CsBdat false EDONE 0 (r_goodrcpt s) (r_qdata s) (r_qhdr s) (r_wcount s) (r_net s), [EvInit])
      else
        (mk_rx CsBdat false E0 0 (r_goodrcpt s) true true (r_wcount s) (r_net s), [EvInit; EvHdr])
  end.

(** smtp_bdat() behind the argument parser, for "BDAT size [LAST]"; result [None] = the process died (connection closed) *)
Definition bdat_rest (cfg : rxcfg) (size : N) (last : bool) (s1 : rxst) (ev1 : list ev) : Cres (option err * rxst * list ev) :=
  (* every round of the loop takes at least one octet from the connection or ends it *)
  do r <- chunk_loop (S (length (n_ln (r_net s1)) + length (n_stream (r_net s1)))) cfg last size s1 ev1;
  let '(le, s2, ev2) := r in
  match le with
  | LoopDied => Ok (None, s2, ev2)
  | LoopErrWrite e => Ok (err_write e s2 ev2)
  | LoopOk =>
      (* the repaired code: a CR held back at the very end of the data *)
      let '(wr, s3, ev3) :=
        if c_fix cfg && last && r_lastcr s2 && err_eqb (r_bdaterr s2) E0 then
          let '(wr, s', e') := q_write cfg s2 [CR] in
          (wr, mk_rx (r_com s') (match wr with None => false | Some _ => r_lastcr s' end) (r_bdaterr s') (r_msgsize s')
                     (r_goodrcpt s') (r_qdata s') (r_qhdr s') (r_wcount s') (r_net s'), ev2 ++ e')
        else (None, s2, ev2) in
      match wr with
      | Some e => Ok (err_write e s3 ev3)
      | None =>
          let '(s4, ev4) :=
            if Nat.ltb (c_maxbytes cfg) (r_msgsize s3) && err_eqb (r_bdaterr s3) E0 then
              (freedata (mk_rx (r_com s3) (r_lastcr s3) EMSGSIZE (r_msgsize s3) (r_goodrcpt s3) (r_qdata s3)
                               (r_qhdr s3) (r_wcount s3) (r_net s3)), ev3 ++ [EvFree])
            else (s3, ev3) in
          if last && err_eqb (r_bdaterr s4) E0 then
            (* queue_envelope(msgsize, 1) (closes both descriptors, freedata()); queue_result() *)
            Ok (Some E0, mk_rx CsHelo (r_lastcr s4) (r_bdaterr s4) (r_msgsize s4) false false false (r_wcount s4) (r_net s4),
                ev4 ++ [EvEnv (r_msgsize s4); EvFree; EvReply 250])
          else if negb (err_eqb (r_bdaterr s4) E0) then
            let '(s5, ev5) := if r_qhdr s4 then (queue_reset s4, ev4 ++ [EvReset]) else (s4, ev4) in
            Ok (Some (r_bdaterr s5), freedata s5, ev5 ++ [EvFree])
          else
            Ok (Some E0, s4, ev4 ++ [EvReply 250])
      end
  end.

Definition smtp_bdat (cfg : rxcfg) (size : N) (last : bool) (s : rxst) : Cres (option err * rxst * list ev) :=
  if negb (r_goodrcpt s) then Ok (Some EDONE, s, [EvTarpit; EvReply 554]) else
  let '(s1, ev1) := bdat_init s in bdat_rest cfg size last s1 ev1.

(** * the harness' command loop (stands for the dispatcher in qsmtpd.c and for net_read
    leaving pipelined octets in the line buffer) *)
Definition prebuffer (pre : nat) (n : netst) : netst :=
  if Nat.eqb (length (n_ln n)) 0 && negb (Nat.eqb pre 0) then
    let k := Nat.min (Nat.min pre RX_LINEBUF_MAX) (length (n_stream n)) in
    mk_net (firstn k (n_stream n)) (skipn k (n_stream n)) (n_cuts n) (n_rfail n)
  else n.

Fixpoint run_cmds (cfg : rxcfg) (cmds : list (nat * bool * nat)) (s : rxst) (evs : list ev)
  : Cres (bool * rxst * list ev) :=      (* bool: died *)
  match cmds with
  | [] => Ok (false, s, evs)
  | (size, last, pre) :: rest =>
      let s0 := set_net s (prebuffer pre (r_net s)) in
      match r_com s0 with
      | CsHelo => run_cmds cfg rest s0 (evs ++ [Ev503])
      | _ =>
          do r <- smtp_bdat cfg (N.of_nat size) last s0;
          let '(rc, s1, e1) := r in
          match rc with
          | None => Ok (true, s1, evs ++ e1)
          | Some e => run_cmds cfg rest s1 (evs ++ e1 ++ [EvRc e])
          end
      end
  end.

Definition rx_init (qf : bool) (stream : bytes) (cuts : list nat) (rfail : option nat) : rxst :=
  mk_rx (CsRcpt qf) false E0 0 true false false 0 (mk_net [] stream cuts rfail).

(** [qf]: queue_init() fails *)
Definition rx_session (cfg : rxcfg) (qf : bool) (cmds : list (nat * bool * nat)) (stream : bytes) (cuts : list nat)
           (rfail : option nat) : Cres (bool * rxst * list ev) :=
  run_cmds cfg cmds (rx_init qf stream cuts rfail) [].

(** * the argument of BDAT (qsmtpd/data.c:smtp_bdat, in front of everything else) *)
(** linein.s is a C string: it ends at the first NUL of the line *)
Fixpoint cstr (l : bytes) : bytes :=
  match l with [] => [] | b :: t => if N.eqb b 0 then [] else b :: cstr t end.

Definition ULLONG_MAX : N := 18446744073709551615%N.

(** strtoull(s, &more, 10) on a string that starts with a digit (no blank, no sign):
    the value while it fits, whether it overflowed (errno = ERANGE), and [more] *)
Fixpoint strtoull_digits (s : bytes) (acc : N) (ovf : bool) : N * bool * bytes :=
  match s with
  | b :: r => if N.leb BDAT_DIGIT_LO b && N.leb b BDAT_DIGIT_HI
              then let v := (acc * N.of_nat BDAT_BASE + (b - BDAT_DIGIT_LO))%N in
                   strtoull_digits r v (ovf || N.ltb ULLONG_MAX v)
              else (acc, ovf, s)
  | [] => (acc, ovf, [])
  end.

(** strcasecmp(a, b) == 0 for C strings (C locale) *)
Fixpoint strcaseeq (a b : bytes) : bool :=
  match a, b with
  | [], [] => true
  | x :: a', y :: b' => N.eqb (to_lower x) (to_lower y) && strcaseeq a' b'
  | _, _ => false
  end.

(** [None] = return EINVAL; [Some (chunksize, LAST)] otherwise.  The dispatcher has made sure that
    the line is at least "BDAT" and a blank, so linein.s + 5 is inside the string or at its NUL. *)
Definition parse_bdat (line : bytes) : option (N * bool) :=
  let arg := skipn BDAT_ARG_OFF (cstr line) in
  let c5 := hd 0%N arg in
  if N.ltb c5 BDAT_DIGIT_LO || N.ltb BDAT_DIGIT_HI c5 then None else
  let '(v, ovf, more) := strtoull_digits arg 0%N false in
  if ovf then None else
  match more with
  | [] => Some (v, false)
  | m :: rest => if negb (N.eqb m BDAT_SEP) then None
                 else if strcaseeq rest BDAT_LAST_WORD then Some (v, true) else None
  end.

(** smtp_bdat() as called by the dispatcher, [line] = linein *)
Definition smtp_bdat_line (cfg : rxcfg) (line : bytes) (s : rxst) : Cres (option err * rxst * list ev) :=
  if negb (r_goodrcpt s) then Ok (Some EDONE, s, [EvTarpit; EvReply 554]) else
  match parse_bdat line with
  | None => Ok (Some EINVAL, s, [])
  | Some (n, last) => smtp_bdat cfg n last s
  end.

(** * sessions: the BDAT row of smtploop(), RSET, and the start of a transaction (harness stand-ins) *)
Definition com_bit (c : comst) : N := match c with CsRcpt _ => 64%N | CsBdat => 2048%N | CsHelo => 16%N end.

Inductive sop := OpLine (pre : nat) (line : bytes) | OpRset (pre : nat) | OpBegin (pre : nat) (qf : bool).

(** smtploop() for a line that names BDAT: [None] = died *)
Definition dispatch_bdat (cfg : rxcfg) (line : bytes) (s : rxst) : Cres (option unit * rxst * list ev) :=
  if N.eqb (N.land (com_bit (r_com s)) BDAT_MASK) 0 then Ok (Some tt, s, [Ev503]) else
  if Nat.ltb RX_CMD_LINE_MAX (length line) then Ok (Some tt, s, [EvRc E2BIG]) else
  if negb (N.eqb (nth BDAT_NAME_LEN (cstr line) 0%N) BDAT_SEP) then Ok (Some tt, s, [EvRc EINVAL]) else
  do r <- smtp_bdat_line cfg line s;
  let '(rc, s1, e1) := r in
  match rc with
  | None => Ok (None, s1, e1)
  | Some e => Ok (Some tt, s1, e1 ++ [EvRc e])
  end.

Definition do_rset (s : rxst) : rxst * list ev :=
  let '(s1, e1) := match r_com s with CsBdat => (queue_reset s, [EvReset]) | _ => (s, []) end in
  (mk_rx CsHelo (r_lastcr s1) (r_bdaterr s1) (r_msgsize s1) false (r_qdata s1) (r_qhdr s1) (r_wcount s1) (r_net s1),
   e1 ++ [EvFree; EvReply 250; EvRsetOk]).

Definition do_begin (slen : nat) (qf : bool) (s : rxst) : rxst * list ev :=
  match r_com s with
  | CsHelo =>
      (mk_rx (CsRcpt qf) (r_lastcr s) (r_bdaterr s) (r_msgsize s) true (r_qdata s) (r_qhdr s) (r_wcount s) (r_net s),
       [EvBegin (slen - (length (n_ln (r_net s)) + length (n_stream (r_net s))))])
  | _ => (s, [Ev503])
  end.

Fixpoint run_script (cfg : rxcfg) (slen : nat) (ops : list sop) (s : rxst) (evs : list ev)
  : Cres (bool * rxst * list ev) :=
  match ops with
  | [] => Ok (false, s, evs)
  | OpLine pre line :: rest =>
      let s0 := set_net s (prebuffer pre (r_net s)) in
      do r <- dispatch_bdat cfg line s0;
      let '(alive, s1, e1) := r in
      match alive with
      | None => Ok (true, s1, evs ++ e1)
      | Some _ => run_script cfg slen rest s1 (evs ++ e1)
      end
  | OpRset pre :: rest =>
      let s0 := set_net s (prebuffer pre (r_net s)) in
      let '(s1, e1) := do_rset s0 in run_script cfg slen rest s1 (evs ++ e1)
  | OpBegin pre qf :: rest =>
      let s0 := set_net s (prebuffer pre (r_net s)) in
      let '(s1, e1) := do_begin slen qf s0 in run_script cfg slen rest s1 (evs ++ e1)
  end.

Definition rxs_init (stream : bytes) (cuts : list nat) (rfail : option nat) : rxst :=
  mk_rx CsHelo false E0 0 false false false 0 (mk_net [] stream cuts rfail).

Definition rx_script (cfg : rxcfg) (ops : list sop) (stream : bytes) (cuts : list nat) (rfail : option nat)
  : Cres (bool * rxst * list ev) :=
  run_script cfg (length stream) ops (rxs_init stream cuts rfail) [].

(** Literal model of the third relay entitlement of property C01, the TLS client certificate:
      qsmtpd/starttls.c   tls_verify(), tls_check_cert(), tls_out()
      qsmtpd/commands.c   is_authenticated()   (the relay list stage with lookupipbl_name() as an oracle,
                                                 the stage that calls tls_verify(), the final test)
      include/qsmtpd/qsmtpd.h  is_authenticated_client()
    Definitions only.

    OpenSSL, the file system and the network are ORACLES, one record [env] per call (so a sequence of calls may
    see different answers each time; nothing is assumed about their consistency).  The state that survives from
    call to call is what the C keeps in statics / globals: ssl_verified, xmitstat.tlsclient, relayclient.
    Every call also reports which oracles it consulted, in order (list of letters); the harness prints the same. *)
From Qv Require Import Common.Bytes Gen.GenTlsVerify.
Local Open Scope Z_scope.

(** result of loadlistfd(openat(controldir_fd, "tlsclients"), &clients, checkaddr) *)
Inductive loadres :=
| LErr (errno : N)                 (* < 0: unreadable, out of memory, ...; errno as left behind (ISO C: errno values are positive; 0 if nothing set it) *)
| LNull                            (* 0 and clients == NULL: no file, empty file, only invalid entries *)
| LList (cl : list bytes).         (* 0 and a NULL terminated array of C strings *)

(** subject name of the peer certificate: entries in order, tag (1 emailAddress, 2 commonName, anything else: other
    attribute types) and the octets of the ASN1 string, which may contain NUL octets and may be empty *)
Definition subject := list (N * bytes).

Record env := {
  e_tls : bool;                    (* xmitstat.ssl != NULL *)
  e_auth : bool;                   (* xmitstat.authname.len != 0 (set by a successful AUTH, property C09) *)
  e_ipbl : Z;                      (* lookupipbl_name("relayclients" / "relayclients6") *)
  e_list : loadres;
  e_ca : bool;                     (* SSL_load_client_CA_file(CLIENTCA) != NULL *)
  e_sid : Z;                       (* SSL_set_session_id_context() *)
  e_hs : Z;                        (* ssl_timeoutrehandshake() *)
  e_verify : Z;                    (* SSL_get_verify_result() *)
  e_peer : option subject;         (* SSL_get_peer_certificate(): None = NULL *)
  e_dup : bool;                    (* strdup() succeeds *)
  e_netw : Z                       (* net_writen() called by tls_out() *)
}.

Record state := {
  verified : bool;                 (* static int ssl_verified *)
  tlsclient : option bytes;        (* xmitstat.tlsclient: None = NULL *)
  relay : Z                        (* relayclient: 0 unchecked, 1 allowed, 2 denied *)
}.

Inductive outcome :=
| Ret (r : Z)                      (* the function returned r *)
| Die (errno : Z).                 (* dieerror(errno): the process ends *)

(** letters of the oracle log *)
Definition LB : N := 66%N.  (* relay list *)
Definition LL : N := 76%N.  (* loadlistfd of tlsclients *)
Definition LA : N := 65%N.  (* SSL_load_client_CA_file *)
Definition LI : N := 73%N.  (* SSL_set_session_id_context *)
Definition LH : N := 72%N.  (* ssl_timeoutrehandshake *)
Definition LV : N := 86%N.  (* SSL_get_verify_result *)
Definition LP : N := 80%N.  (* SSL_get_peer_certificate *)
Definition LD : N := 68%N.  (* strdup *)
Definition LW : N := 87%N.  (* net_writen in tls_out *)
Definition LX : N := 88%N.  (* dieerror *)

(** the C string a pointer to these octets denotes (OpenSSL keeps a NUL behind the octets of every ASN1 string;
    entries of tlsclients are C strings): the octets before the first NUL *)
Fixpoint cstr (b : bytes) : bytes :=
  match b with
  | [] => []
  | x :: r => if N.eqb x 0 then [] else x :: cstr r
  end.

(** X509_NAME_get_index_by_NID(subj, nid, -1) followed by X509_NAME_ENTRY_get_data(X509_NAME_get_entry(subj, n)):
    the string of the first entry with that tag *)
Fixpoint find_nid (nid : N) (s : subject) : option bytes :=
  match s with
  | [] => None
  | (t, d) :: r => if N.eqb t nid then Some d else find_nid nid r
  end.

(** n = index(first NID); if (n < 0) n = index(second NID); if (n >= 0) email = data of entry n *)
Definition select_name (s : subject) : option bytes :=
  match find_nid TV_NID_FIRST s with
  | Some d => Some d
  | None => find_nid TV_NID_SECOND s
  end.

(** the loop over clients[]: Some x = strdup() was called with the C string x *)
Fixpoint match_loop (email : bytes) (clients : list bytes) : option bytes :=
  match clients with
  | [] => None
  | c :: r =>
      if negb (Nat.eqb (length (cstr c)) (length email)) then match_loop email r     (* strlen(clients[i]) != email.len *)
      else if bytes_eqb (cstr email) (cstr c) then Some (cstr email)                 (* strcmp(email.s, clients[i]) == 0 *)
      else match_loop email r
  end.

(** tls_out(s1, s2, def_return): r = net_writen(msg); return r ? r : def_return *)
Definition tls_out (e : env) (def_return : Z) : Z :=
  if Z.eqb (e_netw e) 0 then def_return else e_netw e.

Definition tls_check_cert (clients : list bytes) (e : env) (st : state) : outcome * state * list N :=
  if negb (Z.eqb (e_sid e) TV_SID_OK) then (Ret (tls_out e (- TV_EPROTO)), st, [LI; LW])
  else
    let n := e_hs e in
    if Z.eqb n (- TV_ETIMEDOUT) then (Die TV_ETIMEDOUT, st, [LI; LH; LX])
    else if Z.ltb n 0 then (Ret (tls_out e n), st, [LI; LH; LW])
    else if negb (Z.eqb (e_verify e) TV_X509_V_OK) then (Ret 0, st, [LI; LH; LV])
    else
      match e_peer e with
      | None => (Ret 0, st, [LI; LH; LV; LP])
      | Some subj =>
          let email := match select_name subj with Some d => d | None => [] end in
          if Nat.eqb (length email) 0 then (Ret 0, st, [LI; LH; LV; LP])
          else
            match match_loop email clients with
            | None => (Ret 0, st, [LI; LH; LV; LP])
            | Some x =>
                if e_dup e
                then (Ret 1, {| verified := verified st; tlsclient := Some x; relay := relay st |}, [LI; LH; LV; LP; LD])
                else (Ret (- TV_ENOMEM), {| verified := verified st; tlsclient := None; relay := relay st |}, [LI; LH; LV; LP; LD])
            end
      end.

(** is_authenticated_client() *)
Definition authed (e : env) (st : state) : bool :=
  e_auth e || match tlsclient st with Some _ => true | None => false end.

Definition tls_verify (e : env) (st : state) : outcome * state * list N :=
  if negb (e_tls e) || verified st || authed e st then (Ret 0, st, [])
  else
    let st1 := {| verified := true; tlsclient := tlsclient st; relay := relay st |} in
    match e_list e with
    | LErr en => (Ret (- Z.of_N en), st1, [LL])
    | LNull => (Ret 0, st1, [LL])
    | LList cl =>
        if negb (e_ca e) then (Ret 0, st1, [LL; LA])
        else let '(o, st2, lg) := tls_check_cert cl e st1 in (o, st2, LL :: LA :: lg)
    end.

Definition set_relay (st : state) (v : Z) : state :=
  {| verified := verified st; tlsclient := tlsclient st; relay := v |}.

(** the stage of is_authenticated() that consults the certificate, and the final test *)
Definition ia_tls_stage (e : env) (st : state) (lg0 : list N) : outcome * state * list N :=
  if Z.eqb (Z.land (relay st) 1) 0 then
    let '(o, st1, lg) := tls_verify e st in
    match o with
    | Die en => (Die en, st1, lg0 ++ lg)
    | Ret i =>
        if Z.ltb i 0 then (Ret i, st1, lg0 ++ lg)
        else
          let st2 := set_relay st1 (if Z.eqb i 0 then relay st1 else 1) in
          (Ret (if Z.eqb (relay st2) 1 then 1 else 0), st2, lg0 ++ lg)
    end
  else (Ret (if Z.eqb (relay st) 1 then 1 else 0), st, lg0).

Definition is_authenticated (e : env) (st : state) : outcome * state * list N :=
  if authed e st then (Ret 1, st, [])
  else if Z.eqb (relay st) 0 then
    let ipbl := e_ipbl e in
    if Z.ltb ipbl 0 then (Ret ipbl, set_relay st 2, [LB])
    else ia_tls_stage e (set_relay st (if Z.ltb 0 ipbl then 1 else 2)) [LB]
  else ia_tls_stage e st [].

(** what freedata() (qsmtpd/qsmtpd.c; end of every mail transaction: RSET, HELO/EHLO, after DATA, a new MAIL FROM) does to
    this state: free(xmitstat.tlsclient); xmitstat.tlsclient = NULL.  relayclient and ssl_verified are per connection. *)
Definition freedata (st : state) : state :=
  {| verified := verified st; tlsclient := None; relay := relay st |}.

(** a sequence of events on one connection; it ends with the call that does not return *)
Inductive op := OpVerify | OpIsAuth | OpFree.

Definition call (o : op) (e : env) (st : state) : outcome * state * list N :=
  match o with
  | OpVerify => tls_verify e st
  | OpIsAuth => is_authenticated e st
  | OpFree => (Ret 0, freedata st, [])
  end.

Fixpoint run (cs : list (op * env)) (st : state) : list (outcome * state * list N) :=
  match cs with
  | [] => []
  | (o, e) :: r =>
      let res := call o e st in
      match fst (fst res) with
      | Die _ => [res]
      | Ret _ => res :: run r (snd (fst res))
      end
  end.

Definition st_init : state := {| verified := false; tlsclient := None; relay := 0 |}.

(** Model of STARTTLS in Qsmtpd: qsmtpd/starttls.c (smtp_starttls, tls_init), the
    STARTTLS row of commands[] (qsmtpd/qsmtpd.c), the STARTTLS announcement of
    smtp_ehlo (qsmtpd/commands.c) and the switch of the line reader from the
    clear-text socket to the TLS session (lib/netio.c: readinput, data_pending).
    Definitions only.

    Everything that is not STARTTLS is the command loop of Model/Session.v, used
    unchanged: one round of [tstep] is one round of [Session.step] unless the
    line that was read is a STARTTLS command.

    THE NETWORK.  The client follows a script: clear-text segments, then a
    handshake attempt, then the segments of the next phase, ... (record
    [script]).  Segments are delivered in lock step as in Model/NetRead.v.  A
    handshake item is acted upon only while the server waits for a ClientHello;
    the client stops when it comes up at any other time (the reader then sees
    the end of its input, as in Model/Session.v).  After a successful handshake
    the segments of the following phase are the payload of TLS records: the TLS
    session is a SECOND byte source that replaces the first.

    ORACLES (record [toracles]; theorems hold for all values):
      o_certfile   find_servercert() finds a readable certificate file and the
                   local port is not 465            (decides the EHLO announcement)
      o_tlsinit    every OpenSSL initialisation step of tls_init() up to
                   SSL_set_wfd succeeds (context, certificate chain, RSA key,
                   cipher list)
      hs_kind      outcome of SSL_accept() on a ClientHello: part of the script
                   ([HsOk]: completes, [HsFail]: fails having consumed the
                   client's handshake messages and nothing else)
      o_eat        number of clear-text bytes SSL_accept() takes from the socket
                   before it fails on input that is not a TLS record
      o_trace_tls  the Received: line written inside TLS ("... encrypted) ESMTPS")
    The record layer (SSL_read returns the bytes the client wrote, in order,
    one record at a time) is assumed, not modelled. *)
From Qv Require Import Common.Bytes Gen.GenNetio Gen.GenSession Gen.GenTls Model.NetRead Model.Session.

Inductive hs_kind := HsOk | HsFail.

Record toracles := {
  o_clear : oracles;
  o_trace_tls : bytes -> option bytes -> bytes -> bytes -> bool -> bytes -> N -> bytes;
  o_certfile : bool;
  o_tlsinit : bool;
  o_eat : nat
}.

(** the oracles of Model/Session.v as seen in clear text / inside TLS: the trace header differs, and tls_verify() has a TLS
    session to ask for a client certificate only inside TLS *)
Definition orc (o : toracles) (intls : bool) : oracles :=
  {| o_helo := o_helo (o_clear o); o_addr := o_addr (o_clear o); o_ext := o_ext (o_clear o);
     o_relay := o_relay (o_clear o); o_mx := o_mx (o_clear o); o_qq := o_qq (o_clear o);
     o_databytes := o_databytes (o_clear o); o_liphost := o_liphost (o_clear o);
     o_check2822 := o_check2822 (o_clear o);
     o_authperm := o_authperm (o_clear o); o_auth := o_auth (o_clear o);
     o_trace := if intls then o_trace_tls o else o_trace (o_clear o);
     o_submission := o_submission (o_clear o); o_subm_date := o_subm_date (o_clear o);
     o_subm_stamp := o_subm_stamp (o_clear o); o_msgidhost := o_msgidhost (o_clear o);
     (* xmitstat.ssl is NULL in clear text: tls_verify() returns 0 at once there; inside TLS its check is the oracle *)
     o_tls := intls; o_tlsverify := o_tlsverify (o_clear o) |}.

(** the client's script *)
Record script := {
  sc_first : list bytes;                         (* clear-text segments *)
  sc_later : list (hs_kind * list bytes);        (* handshake attempt, then the segments that follow it *)
  sc_closes : bool                               (* the client half-closes the connection at the end *)
}.

(** ---------- state ---------- *)
Record tstate := {
  ss : sstate;                                   (* the session state of Model/Session.v; its reader holds the current phase *)
  tls : bool;                                    (* xmitstat.ssl / ssl != NULL *)
  later : list (hs_kind * list bytes)            (* what the client does after the current phase *)
}.

Inductive tevent :=
| TE (intls : bool) (e : event)                  (* event of Model/Session.v; a reply is sent in clear text / inside TLS *)
| TOffer                                         (* the EHLO reply just sent announced STARTTLS *)
| TSwitch                                        (* SSL_accept succeeded: ssl and xmitstat.ssl are set *)
| TFail                                          (* SSL_accept failed on the client's handshake messages *)
| TUnmodelled.                                   (* a real ClientHello behind a partly consumed garbage prefix: outside the model *)

Definition tag (b : bool) (evs : list event) : list tevent := map (TE b) evs.
Definition mk (t : tstate) (s : sstate) : tstate := {| ss := s; tls := tls t; later := later t |}.

(** ---------- the handshake ---------- *)
(** nothing of the current phase is unread *)
Definition exhausted (e : env) : bool :=
  match cur e with
  | [] => match next_segment (future e) with None => true | Some _ => false end
  | _ => false
  end.

(** take [n] bytes from the segments (the first one is being read): what is left, None when fewer than n bytes come *)
Fixpoint eat (n : nat) (segs : list bytes) : option (list bytes) :=
  match segs with
  | [] => match n with O => Some [] | _ => None end
  | c :: f => if Nat.leb n (length c) then Some (skipn n c :: f) else eat (n - length c) f
  end.

Inductive hs_result :=
| HS_ok (segs : list bytes) (l' : list (hs_kind * list bytes))     (* SSL_accept succeeded; segs = payload of the TLS records to come *)
| HS_fail (attempt : bool) (e' : env) (l' : list (hs_kind * list bytes))   (* SSL_accept failed (attempt: on a ClientHello); the clear-text reader goes on with e' *)
| HS_eof                                                            (* the client closed: SSL_accept fails, the next read sees the end *)
| HS_wait                                                           (* nothing comes: the server waits for its timeout *)
| HS_unmodelled.

(** what ssl_timeoutaccept() meets on the socket.  [e]: what is left of the clear-text phase.  A clear-text segment
    that arrives now is taken by SSL_accept as handshake data. *)
Definition handshake (n : nat) (e : env) (l : list (hs_kind * list bytes)) (closes : bool) : hs_result :=
  if exhausted e then
    match l with
    | (HsOk, segs) :: l' => HS_ok segs l'
    | (HsFail, segs) :: l' => HS_fail true {| cur := []; future := segs |} l'
    | [] => if closes then HS_eof else HS_wait
    end
  else
    match eat n (cur e :: future e) with
    | Some (c :: f) => HS_fail false {| cur := c; future := f |} l
    | Some [] => HS_fail false {| cur := []; future := [] |} l
    | None => match l with [] => if closes then HS_eof else HS_wait | _ :: _ => HS_unmodelled end
    end.

(** ---------- smtp_starttls / tls_init ---------- *)
(** [s]: the session state after the STARTTLS line has been taken from the reader.
    Note what tls_init does NOT do: it neither empties lineinn nor looks at it after the handshake; the
    protection is the sync_pipelining() call before the 220 (and, as a second line, drop_stale_input() in net_read). *)
Definition h_starttls (f : nat) (o : toracles) (closes : bool) (t : tstate) (s : sstate) : list tevent * hres * tstate :=
  if (STARTTLS_REFUSES_IN_TLS && tls t) || (STARTTLS_REFUSES_NON_ESMTP && negb (esmtp s)) then ([], HSEQ, mk t s)   (* return 1 *)
  else if negb (o_tlsinit o) then (tag (tls t) [Reply TLS_FAIL_CODE], if TLS_ERR_RETURNS_EDONE then HEDONE else HUNKNOWN, mk t s)   (* tls_err() *)
  else
    let '(sp, s1) := if TLS_SYNC_BEFORE_READY then sync_pipelining f s else (None, s) in
    match sp with
    | Some evs => (tag (tls t) evs, HEXIT, mk t s1)                          (* wait_for_quit: does not return *)
    | None =>
        let r1 := rd s1 in
        match handshake (o_eat o) (en r1) (later t) closes with
        | HS_ok segs l' =>
            (* ssl = myssl; xmitstat.ssl = myssl; return 0.  From now on readinput() uses ssl_timeoutread().
               tls_init itself leaves lineinn alone; the next net_read() empties it when lib/netio.c has
               drop_stale_input() (ssl changed since the buffer was filled), otherwise it is used as it is. *)
            (tag (tls t) [Reply TLS_READY_CODE] ++ [TSwitch], H0,
             {| ss := set_rd s1 {| inn := if NETIO_DROPS_STALE_INPUT then [] else inn r1; en := {| cur := []; future := segs |} |};
                tls := true; later := l' |})
        | HS_fail attempt e' l' =>
            (* ssl_free(myssl); return -tls_out("connection failed", err, -EDONE) *)
            (tag (tls t) [Reply TLS_READY_CODE] ++ (if attempt then [TFail] else []) ++ tag (tls t) [Reply TLS_FAIL_CODE], HEDONE,
             {| ss := set_rd s1 {| inn := inn r1; en := e' |}; tls := tls t; later := l' |})
        | HS_eof =>
            (tag (tls t) [Reply TLS_READY_CODE; Reply TLS_FAIL_CODE], HEDONE,
             {| ss := set_rd s1 {| inn := inn r1; en := {| cur := []; future := [] |} |}; tls := tls t; later := [] |})
        | HS_wait => (tag (tls t) [Reply TLS_READY_CODE], HEXIT, mk t s1)
        | HS_unmodelled => (tag (tls t) [Reply TLS_READY_CODE] ++ [TUnmodelled], HEXIT, mk t s1)
        end
    end.

(** is this line dispatched to smtp_starttls?  (first matching row of commands[], as in smtploop) *)
Definition starttls_row (l : bytes) : option (nat * (list N * N * nat * Z * N)) :=
  if line_valid l then
    match find_cmd commands 0 l with
    | Some (i, (name, mask, hid, st, flags)) =>
        if Nat.eqb hid STARTTLS_HANDLER then Some (i, (name, mask, hid, st, flags)) else None
    | None => None
    end
  else None.

(** smtploop's checks around the handler, as Session.dispatch / Session.after_handler *)
Definition tdispatch (f : nat) (o : toracles) (closes : bool) (t : tstate) (s : sstate) (l : bytes)
  (i : nat) (row : list N * N * nat * Z * N) : list tevent * hres * tstate :=
  let '(name, mask, hid, st, flags) := row in
  if N.eqb (N.land (comstate s) mask) 0 then ([], HSEQ, mk t s)
  else if N.eqb (N.land flags 2) 0 && Nat.ltb CMD_LINE_MAX (length l) then ([], HE2BIG, mk t s)
  else
    let rest_ := skipn (length name) l in
    if N.eqb (N.land flags 1) 0 && negb (Nat.eqb (length rest_) 0) then ([], HEINVAL, mk t s)
    else if negb (N.eqb (N.land flags 4) 0) && negb (N.eqb (nth 0 rest_ 0%N) SP) then ([], HEINVAL, mk t s)
    else
      let '(evs, h, t1) := h_starttls f o closes t s in
      match h with
      | H0 =>
          let c := if Z.ltb 0 st then Z.to_N st
                   else if Z.eqb st 0 then N.shiftl 1 (N.of_nat i)
                   else comstate (ss t1) in
          (evs, H0, mk t1 (set_badcmds (set_comstate (ss t1) c) 0))
      | _ => (evs, h, t1)
      end.

(** the EHLO reply announces STARTTLS *)
Definition is_helo_note (e : event) : bool := match e with Note NHelo => true | _ => false end.
Definition offer (o : toracles) (t : tstate) (evs : list event) (so : option sstate) : list tevent :=
  match so with
  | Some s' =>
      if existsb is_helo_note evs && esmtp s'
         && (negb EHLO_OFFER_NEEDS_NO_TLS || negb (tls t)) && (negb EHLO_OFFER_NEEDS_CERT || o_certfile o)
      then [TOffer] else []
  | None => []
  end.

(** one round of smtploop *)
Definition tstep (f : nat) (o : toracles) (closes : bool) (t : tstate) : list tevent * option tstate :=
  let plain :=
    let '(evs, so) := step f (orc o (tls t)) (ss t) in
    (tag (tls t) evs ++ offer o t evs so, option_map (mk t) so) in
  match net_read (rd (ss t)) with
  | (Line l, r') =>
      match starttls_row l with
      | Some (i, row) =>
          let s := set_rd (ss t) r' in
          let '(evs, h, t1) := tdispatch f o closes t s l i row in
          match h with
          | HEXIT => (evs, None)
          | H0 => (evs ++ [TE (tls t1) (Note NBadReset)], Some t1)        (* badcmds = 0, as Session.step *)
          | _ => let '(ev, so) := on_error (ss t1) h in (evs ++ tag (tls t1) ev, option_map (mk t1) so)
          end
      | None => plain
      end
  | _ => plain
  end.

Definition no_later (t : tstate) : bool := match later t with [] => true | _ => false end.

Fixpoint tserve (fuel : nat) (o : toracles) (closes : bool) (t : tstate) : list tevent :=
  match fuel with
  | O => [TE (tls t) EStuck]
  | S f =>
      let '(ev, so) := tstep f o closes t in
      ev ++ match so with
            | Some t' => tserve f o closes t'
            | None => if closes && no_later t then [TE (tls t) Closed] else []     (* the half-close is seen: the server exits *)
            end
  end.

Definition tinit (sc : script) : tstate := {| ss := init_state (sc_first sc); tls := false; later := sc_later sc |}.

Definition script_bytes (sc : script) : nat :=
  length (concat (sc_first sc)) + fold_right (fun p n => length (concat (snd p)) + n) 0 (sc_later sc).
Definition tfuel (sc : script) : nat := S (S (script_bytes sc + length (sc_later sc))).

(** greeting, then the loop *)
Definition trun (o : toracles) (sc : script) : list tevent :=
  TE false (Reply 220) :: tserve (tfuel sc) o (sc_closes sc) (tinit sc).

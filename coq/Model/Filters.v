(** Model of the RCPT TO policy decision (property C12).  Executable definitions only.

    C code transcribed:
      lib/control.c                           lloadfilefd(fd, &buf, 3) + compact_buffer + loadlistfd(fd, &list, NULL)
      qsmtpd/backends/user_vpopm/vpop.c       userconf_load_configs
      qsmtpd/backends/user_vpopm/getfile.c    checkconfig, getsetting_internal, getsetting, getsettingglobal
      qsmtpd/commands.c                       smtp_rcpt: the loop over rcpt_cbs[] and the rejection switch
    Every number, name, reply text and the order of rcpt_cbs[] comes from Gen/GenFilters.v, i.e. from the C
    source of this run; so does the position of userconf_free(&ds) relative to the getsetting(&ds, ...) reads.

    A filterconf level is a [list bytes]: the entries loadlistfd() hands out (C strings: no NUL inside, non-empty). *)
From Qv Require Import Common.Bytes Gen.GenFilters.
Local Open Scope bool_scope.

(* ------------------------------------------------------------------------------------------------ *)
(** * Loading a filterconf file: lloadfilefd(.., striptab = 3), compact_buffer, loadlistfd(.., cf = NULL) *)

Definition HASH : N := 35%N.
Definition BACKSLASH : N := 92%N.

(** where the scanning loop of lloadfilefd is: in its main [while], inside the comment-stripping inner loop,
    or inside the trailing-whitespace inner loop.  [prevbs]: inbuf[j-1] == '\\' *)
Inductive lmode := MNormal (prevbs : bool) | MComment | MSpace.

(** the buffer after the in-place pass; [None] = the function returned -1 with errno = EINVAL.
    The end of the list is the sentinel inbuf[oldlen] = '\0', which ends both inner loops legally. *)
Fixpoint mutate (l : bytes) (m : lmode) : option bytes :=
  match l with
  | [] => Some []
  | c :: r =>
      let sep := N.eqb c 0 || N.eqb c LF in
      let blank := N.eqb c SP || N.eqb c HT in
      match m with
      | MComment =>
          (* while ((inbuf[j] != '\0') && (inbuf[j] != '\n')) inbuf[j++] = '\0';  then the main loop sees the 0 / LF *)
          if sep then option_map (cons 0%N) (mutate r (MNormal false))
          else option_map (cons 0%N) (mutate r MComment)
      | MSpace =>
          if blank then option_map (cons 0%N) (mutate r MSpace)
          else if sep then option_map (cons 0%N) (mutate r (MNormal false))
          else None
      | MNormal prevbs =>
          if N.eqb c HASH && negb prevbs then option_map (cons 0%N) (mutate r MComment)
          else if blank then option_map (cons 0%N) (mutate r MSpace)
          else if N.eqb c LF then option_map (cons 0%N) (mutate r (MNormal false))
          else option_map (cons c) (mutate r (MNormal (N.eqb c BACKSLASH)))
      end
  end.

(** compact_buffer + the entry pointers of loadlistfd: the non-empty pieces between NUL bytes.
    [cur] = the piece being collected (in order). *)
Fixpoint split0 (l : bytes) (cur : bytes) : list bytes :=
  match l with
  | [] => match cur with [] => [] | _ => [cur] end
  | c :: r =>
      if N.eqb c 0 then match cur with [] => split0 r [] | _ => cur :: split0 r [] end
      else split0 r (cur ++ [c])
  end.

(** loadlistfd(fd, &list, NULL) on a file with these bytes; [None] = error (-1).  NULL list = []. *)
Definition parse_conf (file : bytes) : option (list bytes) :=
  match mutate file (MNormal false) with
  | None => None
  | Some b => Some (split0 b [])
  end.

(** one level of the directory tree as the case gives it: mode 2 = the filterconf file exists *)
Definition load_level (mode : N) (file : bytes) : option (list bytes) :=
  if N.eqb mode 2 then parse_conf file else Some [].

(** userconf_load_configs: the user's file (when the user directory has one), then the domain's.
    Either does not parse -> error (smtp_rcpt answers through err_control2 and returns EDONE). *)
Definition load_configs (umode : N) (ufile : bytes) (dmode : N) (dfile : bytes) : option (list bytes * list bytes) :=
  match load_level umode ufile with
  | None => None
  | Some uc => match load_level dmode dfile with
               | None => None
               | Some dc => Some (uc, dc)
               end
  end.

(* ------------------------------------------------------------------------------------------------ *)
(** * checkconfig / getsetting *)

Inductive cerrno := E0 | EINVAL | ERANGE.

Definition LONG_MAX : Z := 9223372036854775807%Z.
Definition LONG_MIN : Z := (-9223372036854775808)%Z.

(** isspace() in the C locale *)
Definition is_space (c : N) : bool :=
  N.eqb c 32 || N.eqb c 9 || N.eqb c 10 || N.eqb c 11 || N.eqb c 12 || N.eqb c 13.

Fixpoint skip_space (l : bytes) : bytes :=
  match l with
  | c :: r => if is_space c then skip_space r else l
  | [] => []
  end.

(** the run of decimal digits at the head of [l]: (value with [acc] as the digits read so far, rest) *)
Fixpoint digits (l : bytes) (acc : Z) : Z * bytes :=
  match l with
  | c :: r => if is_digit c then digits r (acc * STRTOL_BASE + (Z.of_N c - 48))%Z else (acc, l)
  | [] => (acc, [])
  end.

(** strtol(s, &end, 10) on a NUL-free string: (result, what [end] points at, errno set to ERANGE) *)
Definition strtol (s : bytes) : Z * bytes * bool :=
  let s1 := skip_space s in
  let '(neg, s2) := match s1 with
                    | c :: r => if N.eqb c 45 then (true, r) else if N.eqb c 43 then (false, r) else (false, s1)
                    | [] => (false, s1)
                    end in
  match s2 with
  | d :: _ =>
      if is_digit d then
        let '(v, rest) := digits s2 0%Z in
        let sv := if neg then (- v)%Z else v in
        if (LONG_MAX <? sv)%Z then (LONG_MAX, rest, true)
        else if (sv <? LONG_MIN)%Z then (LONG_MIN, rest, true)
        else (sv, rest, false)
      else (0%Z, s, false)
  | [] => (0%Z, s, false)
  end.

(** strncmp(entry, flag, strlen(flag)) == 0 for NUL-free strings *)
Definition has_prefix (flag entry : bytes) : bool := bytes_eqb (firstn (length flag) entry) flag.

(** checkconfig(config, flag, strlen(flag)): (return value, errno afterwards) *)
Fixpoint checkconfig (config : list bytes) (flag : bytes) : Z * cerrno :=
  match config with
  | [] => (0%Z, E0)
  | e :: rest =>
      if has_prefix flag e then
        match skipn (length flag) e with
        | [] => (1%Z, E0)
        | c :: v =>
            if N.eqb c VALUE_SEP then
              let '(r, tail, erange) := strtol v in
              match tail with
              | _ :: _ => ((-1)%Z, EINVAL)
              | [] => (r, if erange then ERANGE else E0)
              end
            else checkconfig rest flag
        end
      else checkconfig rest flag
  end.

Definition is_err (e : cerrno) : bool := match e with E0 => false | _ => true end.

(** getsetting_internal: (value, *type, errno) *)
Definition getsetting_internal (uc dc gc : list bytes) (flag : bytes) (flags : N) : Z * Z * cerrno :=
  let '(r, e) := checkconfig uc flag in
  if (0 <? r)%Z then (r, CONFIG_USER, e)
  else if (r <? 0)%Z then ((if is_err e then r else 0%Z), CONFIG_USER, e)
  else
    let '(r, e) := checkconfig dc flag in
    if (0 <? r)%Z then (r, CONFIG_DOMAIN, e)
    else if (r <? 0)%Z then ((if is_err e then r else 0%Z), CONFIG_DOMAIN, e)
    else if N.eqb (N.land flags USERCONF_GLOBAL) 0 then (0%Z, CONFIG_DOMAIN, e)
    else
      let '(r, e) := checkconfig gc flag in
      ((if (r <? 0)%Z && negb (is_err e) then 0%Z else r), CONFIG_GLOBAL, e).

Definition getsetting (uc dc gc : list bytes) (flag : bytes) := getsetting_internal uc dc gc flag GETSETTING_FLAGS.
Definition getsettingglobal (uc dc gc : list bytes) (flag : bytes) := getsetting_internal uc dc gc flag GETSETTINGGLOBAL_FLAGS.

Definition setting_value (x : Z * Z * cerrno) : Z := fst (fst x).
Definition setting_type (x : Z * Z * cerrno) : Z := snd (fst x).

(* ------------------------------------------------------------------------------------------------ *)
(** * smtp_rcpt: the filter loop and the rejection switch *)

Inductive fres := FError | FPassed | FDeniedMsg | FDeniedUnspec | FDeniedNoUser | FDeniedTemp | FWhite.

Definition fr_code (r : fres) : Z :=
  match r with
  | FError => FR_ERROR | FPassed => FR_PASSED | FDeniedMsg => FR_DENIED_WITH_MESSAGE
  | FDeniedUnspec => FR_DENIED_UNSPECIFIC | FDeniedNoUser => FR_DENIED_NOUSER
  | FDeniedTemp => FR_DENIED_TEMPORARY | FWhite => FR_WHITELISTED
  end.

Definition fres_of_code (z : Z) : option fres :=
  if Z.eqb z FR_ERROR then Some FError else if Z.eqb z FR_PASSED then Some FPassed
  else if Z.eqb z FR_DENIED_WITH_MESSAGE then Some FDeniedMsg else if Z.eqb z FR_DENIED_UNSPECIFIC then Some FDeniedUnspec
  else if Z.eqb z FR_DENIED_NOUSER then Some FDeniedNoUser else if Z.eqb z FR_DENIED_TEMPORARY then Some FDeniedTemp
  else if Z.eqb z FR_WHITELISTED then Some FWhite else None.

(** filter_denied(): (r > FILTER_PASSED) && (r != FILTER_WHITELISTED) *)
Definition filter_denied (r : fres) : bool := (FR_PASSED <? fr_code r)%Z && negb (Z.eqb (fr_code r) FR_WHITELISTED).

(** the second half of the [while] condition *)
Definition loop_goes_on (fr : fres) : bool := existsb (Z.eqb (fr_code fr)) LOOP_CONTINUES_ON.

Definition fres_eqb (a b : fres) : bool := Z.eqb (fr_code a) (fr_code b).

(** the [while] loop.  [frs] = what rcpt_cbs[i], rcpt_cbs[i+1], ... return when called; state (fr, e) and the
    number of filters called so far. *)
Fixpoint filter_loop (frs : list fres) (fr : fres) (e : bool) (called : nat) : fres * bool * nat :=
  match frs with
  | [] => (fr, e, called)
  | r :: rest =>
      if loop_goes_on fr then
        match r with
        | FDeniedTemp => filter_loop rest FDeniedTemp true (S called)
        | FError => filter_loop rest FDeniedTemp true (S called)        (* e = 1; fr = FILTER_DENIED_TEMPORARY *)
        | _ => filter_loop rest r e (S called)
        end
      else (fr, e, called)
  end.

(** what smtp_rcpt itself sends *)
Inductive rcpt_reply := RNone | RLine (template : bytes).

Record rcpt_result := mk_result {
  rr_reply : rcpt_reply;      (* written by smtp_rcpt (a filter returning FILTER_DENIED_WITH_MESSAGE has written its own) *)
  rr_ok : bool;               (* r->ok, goodrcpt incremented *)
  rr_called : nat;            (* number of entries of rcpt_cbs[] that were called *)
  rr_leak : bool              (* the function returned without userconf_free(&ds) *)
}.

(** the struct userconf the rejection switch reads its two settings from: after userconf_free(&ds) both lists
    are NULL.  [free_before]: userconf_free(&ds) runs between the loop and the getsetting(&ds, ...) calls. *)
Definition settings_view (free_before : bool) (uc dc : list bytes) : list bytes * list bytes :=
  if free_before then ([], []) else (uc, dc).

Definition rcpt_policy_gen (free_before : bool) (uc dc gc : list bytes) (frs : list fres) : rcpt_result :=
  let '(fr0, e, called) := filter_loop frs FPassed false 0 in
  (* if ((fr == FILTER_PASSED) && e) fr = FILTER_DENIED_TEMPORARY; *)
  let fr := if fres_eqb fr0 FPassed && e then FDeniedTemp else fr0 in
  if negb (filter_denied fr) then mk_result (RLine REPLY_OK) true called (negb FREE_ON_ACCEPT)
  else
    let '(suc, sdc) := settings_view free_before uc dc in
    let nonexist := negb (Z.eqb (setting_value (getsetting suc sdc gc KEY_NONEXIST)) 0) in
    let unspecific := if nonexist then RLine REPLY_NOUSER else RLine REPLY_POLICY in
    let reply :=
      match fr with
      | FDeniedTemp =>
          if Z.eqb (setting_value (getsetting suc sdc gc KEY_FAIL_HARD)) 0 then RLine REPLY_TEMP
          else unspecific                                   (* fallthrough *)
      | FDeniedUnspec => unspecific
      | FDeniedNoUser => RLine REPLY_NOUSER
      | _ => RNone                                          (* default: *)
      end in
    mk_result reply false called (negb FREE_ON_REJECT).

(** smtp_rcpt of this source tree *)
Definition rcpt_policy := rcpt_policy_gen FREE_BEFORE_SETTINGS.

(* ------------------------------------------------------------------------------------------------ *)
(** * Stage 2: four real filters (qsmtpd/filters/boolean.c, usersize.c, smtpbugs.c, spf.c)

    Each returns (result, the reply it has sent itself).  Modelled for the sessions the harness sets up: no
    spfignore / rspf / spfstrict files, empty reverse lookup, no SPF explanation, writes to the network succeed. *)

Record session := mk_session {
  s_spf : N;            (* xmitstat.spf *)
  s_ssl : bool;         (* xmitstat.ssl != NULL *)
  s_auth : bool;        (* xmitstat.authname.len != 0 *)
  s_esmtp : bool;       (* xmitstat.esmtp *)
  s_apos : bool;        (* an apostrophe in the local part of MAIL FROM *)
  s_bounce : bool;      (* xmitstat.mailfrom.len == 0 *)
  s_spaces : N;         (* blanks between "RCPT TO:" and '<' of this command *)
  s_prebug : bool;      (* xmitstat.spacebug when the command arrives: recorded by MAIL FROM or an earlier RCPT TO *)
  s_bytes : Z           (* xmitstat.thisbytes *)
}.

Definition default_session : session := mk_session 0 false false false false false 0 false 0.

Definition passed : fres * option bytes := (FPassed, None).

Definition cb_boolean (s : session) (uc dc gc : list bytes) : fres * option bytes :=
  if (0 <? setting_value (getsettingglobal uc dc gc KEY_WHITELISTAUTH))%Z && s_auth s then (FWhite, None)
  else if negb (s_ssl s) && (0 <? setting_value (getsetting uc dc gc KEY_FORCESTARTTLS))%Z then (FDeniedMsg, Some REPLY_FORCESTARTTLS)
  else if s_bounce s && (0 <? setting_value (getsetting uc dc gc KEY_NOBOUNCE))%Z then (FDeniedMsg, Some REPLY_NOBOUNCE)
  else if (0 <? setting_value (getsetting uc dc gc KEY_NOAPOS))%Z && negb (s_bounce s) && s_apos s then (FDeniedUnspec, None)
  else passed.

Definition cb_usersize (s : session) (uc dc gc : list bytes) : fres * option bytes :=
  let usize := setting_value (getsetting uc dc gc KEY_USERSIZE) in
  if (usize <=? 0)%Z then passed
  else if (s_bytes s <=? usize)%Z then passed
  else (FDeniedMsg, Some REPLY_USERSIZE).

(** long -> int conversion of "int filter = getsettingglobal(...)" *)
Definition to_int (z : Z) : Z :=
  let m := (z mod 4294967296)%Z in if (m <? 2147483648)%Z then m else (m - 4294967296)%Z.

(** the head of smtp_rcpt: blanks between ':' and '<' are counted in bugoffset, then either
    "if (bugoffset != 0) xmitstat.spacebug = 1;" (SPACEBUG_STICKY) or an assignment of (bugoffset != 0).
    Result: xmitstat.spacebug as the filters see it. *)
Definition rcpt_spacebug (s : session) : bool :=
  let bug := negb (N.eqb (s_spaces s) 0) in
  if SPACEBUG_STICKY then (if bug then true else s_prebug s) else bug.

(** [spacebug]: xmitstat.spacebug *)
Definition cb_smtpbugs (spacebug : bool) (s : session) (uc dc gc : list bytes) : fres * option bytes :=
  if negb spacebug then passed else
  let filter := to_int (setting_value (getsettingglobal uc dc gc KEY_SMTP_SPACE_BUG)) in
  if (filter <=? 0)%Z then passed else
  let reject := (FDeniedMsg, Some REPLY_SMTPBUGS) in
  if Z.eqb filter SPB_PERMIT_TLS then (if s_ssl s then passed else if s_auth s then passed else reject)
  else if Z.eqb filter SPB_PERMIT_AUTH then (if s_auth s then passed else reject)
  else if Z.eqb filter SPB_PERMIT_ESMTP then (if s_esmtp s then passed else reject)
  else if Z.eqb filter SPB_REJECT_ALL then reject
  else passed.

(** how the [switch (p)] of cb_spf ends *)
Inductive spf_verdict := SBreak | SStrict | SBad | STemp.

Definition spf_case1 (x : N) : spf_verdict := if N.eqb x SPF_TEMPERROR then STemp else SStrict.
Definition spf_case2 (x : N) : spf_verdict :=
  if N.eqb x SPF_DNS_HARD_ERROR then SStrict else if N.eqb x SPF_FAIL || N.eqb x SPF_PERMERROR then SBreak else spf_case1 x.
Definition spf_case3 (x : N) : spf_verdict :=
  if N.eqb x SPF_SOFTFAIL then SStrict else if N.eqb x SPF_DNS_HARD_ERROR then SBad else spf_case2 x.
Definition spf_case4 (x : N) : spf_verdict :=
  if N.eqb x SPF_NEUTRAL then SStrict else if N.eqb x SPF_SOFTFAIL then SBreak else spf_case3 x.
Definition spf_case5 (x : N) : spf_verdict := if N.eqb x SPF_NEUTRAL then SBreak else spf_case4 x.
Definition spf_case6 (x : N) : spf_verdict := if N.eqb x SPF_NONE then SBreak else spf_case5 x.

Definition spf_switch (p : Z) (x : N) : spf_verdict :=
  if Z.eqb p 1 then spf_case1 x else if Z.eqb p 2 then spf_case2 x else if Z.eqb p 3 then spf_case3 x
  else if Z.eqb p 4 then spf_case4 x else if Z.eqb p 5 then spf_case5 x else spf_case6 x.

Definition cb_spf (s : session) (uc dc gc : list bytes) : fres * option bytes :=
  let x := s_spf s in
  if N.eqb x SPF_PASS || N.eqb x SPF_IGNORE then passed else
  let p := setting_value (getsettingglobal uc dc gc KEY_SPFPOLICY) in
  if (p <=? 0)%Z then passed else
  match spf_switch p x with
  | SBreak => (FDeniedMsg, Some REPLY_SPF_DENY)
  | SStrict => passed                                     (* userconf_find_domain(ds, "spfstrict", ...) == CONFIG_NONE *)
  | SBad => (FDeniedMsg, Some REPLY_SPF_BAD)
  | STemp =>
      if (setting_value (getsetting uc dc gc KEY_SPF_FAIL_HARD) <=? 0)%Z
      then (match fres_of_code SPF_TEMP_RETURNS with Some r => r | None => FDeniedMsg end, Some REPLY_SPF_TEMP)
      else (FDeniedTemp, None)
  end.

(* ------------------------------------------------------------------------------------------------ *)
(** * One correspondence case: directory tree + filter slots + probe key + session *)

(** what the case says about one filter: a fixed outcome (table-driven stand-in) or "call the real one" *)
Inductive slot := Standin (r : fres) | RealFilter.

Definition decode_slot (b : N) : option slot :=
  if N.eqb b 128 then Some RealFilter
  else match fres_of_code (Z.of_N b - 1)%Z with Some r => Some (Standin r) | None => None end.

Fixpoint decode_outcomes (l : bytes) : option (list slot) :=
  match l with
  | [] => Some []
  | b :: r => match decode_slot b, decode_outcomes r with
              | Some f, Some fs => Some (f :: fs)
              | _, _ => None
              end
  end.

(** canonical (alphabetical) ids of the filters the harness can run for real; a convention of the harness *)
Definition ID_BOOLEAN : nat := 2.
Definition ID_SMTPBUGS : nat := 11.
Definition ID_SPF : nat := 13.
Definition ID_USERSIZE : nat := 14.

(** "554 5.7.1": what the stand-in sends before it returns FILTER_DENIED_WITH_MESSAGE *)
Definition STANDIN_MSG : bytes := [53; 53; 52; 32; 53; 46; 55; 46; 49]%N.

Definition run_slot (spacebug : bool) (id : nat) (sl : slot) (s : session) (uc dc gc : list bytes) : option (fres * option bytes) :=
  match sl with
  | Standin r => Some (r, if fres_eqb r FDeniedMsg then Some STANDIN_MSG else None)
  | RealFilter =>
      if Nat.eqb id ID_BOOLEAN then Some (cb_boolean s uc dc gc)
      else if Nat.eqb id ID_SMTPBUGS then Some (cb_smtpbugs spacebug s uc dc gc)
      else if Nat.eqb id ID_SPF then Some (cb_spf s uc dc gc)
      else if Nat.eqb id ID_USERSIZE then Some (cb_usersize s uc dc gc)
      else None
  end.

(** session field: spf, flags (bit 5 or 6: the space-bug flag is already set), blanks, size (2 bytes, big endian); absent = all zero *)
Definition decode_session (l : bytes) : option session :=
  match l with
  | [] => Some default_session
  | [a; b; c; d; e] =>
      if N.leb c 8 then
        Some (mk_session (N.land a 15) (N.testbit b 0) (N.testbit b 1) (N.testbit b 2) (N.testbit b 3) (N.testbit b 4) c
                         (N.testbit b 5 || N.testbit b 6) (Z.of_N (d * 256 + e)))
      else None
  | _ => None
  end.

Inductive case_result :=
| CGlobalErr                                   (* control/filterconf does not parse *)
| CCtrlErr                                     (* user or domain filterconf does not parse: err_control2, EDONE *)
| CBadCase
| CDone (res : rcpt_result) (trace : list nat) (filtermsgs : list bytes) (p1 p2 : Z * Z * cerrno).

Fixpoint sequence {A} (l : list (option A)) : option (list A) :=
  match l with
  | [] => Some []
  | Some a :: r => match sequence r with Some rs => Some (a :: rs) | None => None end
  | None :: _ => None
  end.

Fixpoint collect_msgs (l : list (fres * option bytes)) : list bytes :=
  match l with
  | [] => []
  | (_, Some m) :: r => m :: collect_msgs r
  | (_, None) :: r => collect_msgs r
  end.

(** the results of all sixteen filters (indexed by canonical id) for this case *)
Definition all_results (spacebug : bool) (slots : list slot) (s : session) (uc dc gc : list bytes) : option (list (fres * option bytes)) :=
  sequence (map (fun id => run_slot spacebug id (nth id slots (Standin FPassed)) s uc dc gc) (seq 0 NFILTERS)).

(** [outcomes]: indexed by canonical filter id *)
Definition rcpt_case (outcomes : bytes) (umode : N) (ufile : bytes) (dmode : N) (dfile : bytes)
                     (gmode : N) (gfile : bytes) (key : bytes) (sess : bytes) : case_result :=
  match decode_outcomes outcomes, decode_session sess with
  | Some slots, Some s =>
      if negb (Nat.eqb (length slots) NFILTERS) then CBadCase else
      match load_level gmode gfile with
      | None => CGlobalErr
      | Some gc =>
          match load_configs umode ufile dmode dfile with
          | None => CCtrlErr
          | Some (uc, dc) =>
              match all_results (rcpt_spacebug s) slots s uc dc gc with
              | None => CBadCase
              | Some results =>
                  let inorder := map (fun id => nth id results passed) RCPT_CBS in
                  let frs := map fst inorder in
                  let res := rcpt_policy uc dc gc frs in
                  let trace := firstn (rr_called res) RCPT_CBS in
                  CDone res trace (collect_msgs (firstn (rr_called res) inorder))
                        (getsetting uc dc gc key) (getsettingglobal uc dc gc key)
              end
          end
      end
  | _, _ => CBadCase
  end.

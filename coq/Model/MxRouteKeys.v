(** smtproute() with ALL keys of a smtproutes.d file (relay, port, clientcert, clientkey, outgoingip,
    outgoingip6), the settings it leaves behind (expect_tls, clientcertname, clientkeyname, outgoingip,
    outgoingip6, whether the relay entry gets a name) and which error ends it; and getmxlist() for an
    address literal "[...]" as target.  Extends Model/MxRoute.v (which stops at relay/port) — the functions
    here reuse its pieces and are related to it by Proofs/MxRouteKeysProofs.v.
    New oracles: [k_readable] = the paths for which access(path, R_OK) succeeds; [k_defkey] =
    control/clientkey.pem is readable.  inet_pton is Model/InetPtonVal.v (glibc's algorithm with its value). *)
From Coq Require Import List NArith Bool Arith.
From Qv Require Import Common.Bytes Gen.GenMx Model.Mx Model.MxRoute Model.InetPton Model.InetPtonVal.
Import ListNotations.
Local Open Scope bool_scope.

Record key_env : Type := mkkenv {
  k_readable : list bytes;
  k_defkey : bool
}.

Fixpoint mem_bytes (x : bytes) (l : list bytes) : bool :=
  match l with [] => false | y :: r => list_eqb x y || mem_bytes x r end.

(** what smtproute() leaves in the globals; None = untouched (the value from the default control files) *)
Record settings : Type := mkset {
  s_expect_tls : bool;
  s_cert : option bytes;          (* clientcertname: Some = the route's file *)
  s_key : option bytes;           (* clientkeyname: Some f = file f, None = same as the certificate's default *)
  s_defkey : bool;                (* clientkeyname = "control/clientkey.pem" *)
  s_oip : option addr;            (* outgoingip *)
  s_oip6 : option addr            (* outgoingip6 *)
}.

Definition no_settings : settings := mkset false None None false None None.

(** why err_confn() was called *)
Definition F_OPEN : N := 1.      (* error opening smtproute.d file *)
Definition F_RELAY : N := 2.     (* cannot find IP address for static route *)
Definition F_PORT : N := 3.      (* invalid port number *)
Definition F_CERT : N := 4.      (* invalid certificate *)
Definition F_KEY : N := 5.       (* invalid key *)
Definition F_OIP : N := 6.       (* invalid outgoingip *)
Definition F_OIP6 : N := 7.      (* invalid outgoingip6 *)
Definition F_OIP6_V4 : N := 8.   (* IPv4 mapped address in outgoingip6 *)

Inductive route_x : Type :=
| XFatal (why : N)
| XRoute (mx : option (list addr)) (port : N) (named : bool) (s : settings).

(** parse_route_params(): the decision of Model/MxRoute.v plus the error class and the name rule
    (with fixes/C20-relay-literal-name.diff): the relay's name is kept unless it is the text of an address,
    i.e. unless inet_pton(AF_INET6) or inet_pton(AF_INET) accepts it *)
Definition relay_named (host : bytes) (addrs : list addr) : bool :=
  negb (pton6_ref host || pton4_ref host).

(** the rule before the fix: AF_INET6 was asked when the first address is v4-mapped, AF_INET otherwise,
    so "10.0.0.5" (v4-mapped result, not an IPv6 text) and "2001:db8::7" both kept a name (F-C20-6) *)
Definition relay_named_old (host : bytes) (addrs : list addr) : bool :=
  negb (match addrs with
        | a :: _ => if is_v4mapped a then pton6_ref host else pton4_ref host
        | [] => false
        end).

Definition parse_route_params_x (cfg : route_cfg) (host port : option bytes) (s : settings) : route_x :=
  match parse_route_params cfg host port with
  | Route mx p =>
      XRoute mx p (match host, mx with Some h, Some al => relay_named h al | _, _ => false end) s
  | _ =>
      XFatal (match host with
              | Some h => match assoc h (dns_table cfg) with Some (_ :: _) => F_PORT | _ => F_RELAY end
              | None => F_PORT
              end)
  end.

(** the for loop over tags[] for the keys 2..5, in table order; the first failing one ends the program *)
Definition key_value (mask : list nat) (lines : list bytes) (i : nat) : option bytes :=
  if existsb (Nat.eqb i) mask then tagvalue lines (nth i ROUTE_TAGS []) else None.

Definition check_file (ke : key_env) (v : option bytes) (code : N) : option N :=
  match v with
  | Some f => if mem_bytes f (k_readable ke) then None else Some code     (* access(v, R_OK) != 0 *)
  | None => None
  end.

Definition check_oip (v : option bytes) : N + option addr :=
  match v with
  | Some t => match pton_v4mapped_val t with Some a => inr (Some a) | None => inl F_OIP end
  | None => inr None
  end.

Definition check_oip6 (v : option bytes) : N + option addr :=
  match v with
  | Some t => match pton6_val t with
              | Some a => if is_v4mapped a then inl F_OIP6_V4 else inr (Some a)
              | None => inl F_OIP6
              end
  | None => inr None
  end.

Definition eval_keys (ke : key_env) (is_default : bool) (mask : list nat) (lines : list bytes) : N + settings :=
  let cert := key_value mask lines 2 in
  let key := key_value mask lines 3 in
  match check_file ke cert F_CERT with
  | Some c => inl c
  | None =>
      match check_file ke key F_KEY with
      | Some c => inl c
      | None =>
          match check_oip (key_value mask lines 4) with
          | inl c => inl c
          | inr o4 =>
              match check_oip6 (key_value mask lines 5) with
              | inl c => inl c
              | inr o6 =>
                  inr (mkset (match cert with Some _ => negb is_default | None => false end) cert key (k_defkey ke) o4 o6)
              end
          end
      end
  end.

(** a smtproutes.d file that was found *)
Definition eval_file_x (cfg : route_cfg) (ke : key_env) (is_default : bool) (content : bytes) : route_x :=
  let '(mask, lines) := load_valid [] (load_lines content) in
  match eval_keys ke is_default mask lines with
  | inl c => XFatal c
  | inr s => parse_route_params_x cfg (key_value mask lines 0) (key_value mask lines 1) s
  end.

(** control/smtproutes: no settings.  control/clientkey.pem, if readable, is the key of the default certificate
    (with fixes/C20-default-clientkey.diff: whether or not smtproutes.d exists; before, only without it: F-C20-7) *)
Definition line_settings (cfg : route_cfg) (ke : key_env) : settings :=
  mkset false None None (k_defkey ke) None None.
Definition line_settings_old (cfg : route_cfg) (ke : key_env) : settings :=
  mkset false None None (negb (dir_exists cfg) && k_defkey ke) None None.

Definition eval_line_x (cfg : route_cfg) (ke : key_env) (line : bytes) : route_x :=
  let target := tl (match strchr line COLON with Some c => c | None => [] end) in
  let relay := before target COLON in
  let port := match strchr target COLON with Some c => Some (tl c) | None => None end in
  parse_route_params_x cfg (match relay with [] => None | _ => Some relay end) port (line_settings cfg ke).

Fixpoint first_match_x (cfg : route_cfg) (ke : key_env) (remhost : bytes) (lines : list bytes) : route_x :=
  match lines with
  | [] => XRoute None ROUTE_DEFAULT_PORT false (line_settings cfg ke)
  | l :: r => if line_matches remhost l then eval_line_x cfg ke l else first_match_x cfg ke remhost r
  end.

Definition eval_routes_x (cfg : route_cfg) (ke : key_env) (remhost : bytes) : route_x :=
  match routes_file cfg with
  | None => XRoute None ROUTE_DEFAULT_PORT false (line_settings cfg ke)
  | Some content => first_match_x cfg ke remhost (filter hascolon_ok (load_lines content))
  end.

(** the probing loop of Model/MxRoute.v, also telling whether the file found is the one tried as "default"
    (is_default_file; a target that is itself called "default" is found in the first round: false) *)
Inductive probe_result_x : Type :=
| PXFound (content : bytes) (is_default : bool)
| PXNone
| PXFatal.

Fixpoint probe_x (fuel : nat) (files : list (bytes * bytes)) (fn : bytes) (curpart : option bytes)
  : Cres probe_result_x :=
  match fuel with
  | O => OutOfFuel
  | S f =>
      if Nat.ltb NAME_MAX (length fn) then Ok PXFatal
      else
      match assoc fn files with
      | Some content => Ok (PXFound content (match curpart with None => true | Some _ => false end))
      | None =>
          match curpart with
          | None => Ok PXNone
          | Some cp =>
              match strchr cp DOT with
              | None => probe_x f files default_name None
              | Some dot =>
                  if Nat.leb (N.to_nat ROUTE_FNBUF_SIZE - 1) (length dot) then Crash 5
                  else probe_x f files (STAR :: dot) (Some (tl dot))
              end
          end
      end
  end.

Definition smtproute_x (cfg : route_cfg) (ke : key_env) (remhost : bytes) : Cres route_x :=
  if dir_exists cfg then
    do found <- probe_x (length remhost + 3) (dir_files cfg) remhost (Some remhost);
    match found with
    | PXFound content d => Ok (eval_file_x cfg ke d content)
    | PXNone => Ok (eval_routes_x cfg ke remhost)
    | PXFatal => Ok (XFatal F_OPEN)
    end
  else Ok (eval_routes_x cfg ke remhost).

(* ------------------------------------------------------------------ getmxlist(): "[address]" as target *)
Definition LBRACKET : N := 91%N.
Definition RBRACKET : N := 93%N.

(** None: not an address literal (the route / DNS path is taken); Some None: "Z4.3.0 parse error in first
    argument"; Some (Some a): one entry (priority 0, no name) with this address — smtproute() is NOT called:
    no route, no settings, targetport keeps its initial value *)
Definition target_literal (remhost : bytes) : option (option addr) :=
  match remhost with
  | c :: rest =>
      if N.eqb c LBRACKET then
        Some (if N.eqb (last remhost 0%N) RBRACKET then
                let inner := removelast rest in
                match pton6_val inner with
                | Some a => Some a
                | None => pton_v4mapped_val inner
                end
              else None)
      else None
  | [] => None
  end.

(** getmxlist() and the sequence of main() behind it, address literals included *)
From Qv Require Import Model.MxDns.

Definition getmxlist_x (cfg : route_cfg) (tab : list (bytes * dns_entry)) (flag : N) (recs : list (N * bytes)) (remhost : bytes)
  : Cres mxlist_result :=
  match target_literal remhost with
  | Some (Some a) => Ok (GList [mkmx 0 253 [a]] DEFAULT_PORT)
  | Some None => Ok (GDie 3)                       (* "Z4.3.0 parse error in first argument" *)
  | None => getmxlist cfg tab flag recs remhost
  end.

Definition qremote_main_x (cfg : route_cfg) (tab : list (bytes * dns_entry)) (flag : N) (recs : list (N * bytes)) (remhost : bytes)
           (gia_fails : bool) (ifs : list iface) (cs0 : nat) (oracle : list N) (ncalls : nat) : Cres main_result :=
  do g <- getmxlist_x cfg tab flag recs remhost;
  match g with
  | GDie w => Ok (MDie w)
  | GList l port => do t <- qremote_targets port gia_fails ifs l cs0 oracle ncalls; Ok (MRun port t)
  end.

(** Model of qsmtpd/backends/user_vpopm/vpop.c: user_exists(), qmexists(), vget_dir()
    (with the three fixes of fixes/C13-*.diff applied: "." / ".." refused like '/', the dash scan
    bounded by the local part, ENAMETOOLONG counted as "does not exist").

    Executable definitions only.  The file system is an explicit argument: the domain
    directory is a total function [fs : name -> entry] saying what a single lookup of that
    name relative to the directory yields; the theorems quantify over every such function.
    [fs_of_layout] is the concrete instance the correspondence run uses (real directory tree
    built from the same layout).  Constants, literals, errno classes and the order/flags of the
    qmexists() call sites come from Gen/GenVpop.v (regenerated from the C on every run). *)
From Qv Require Import Common.Bytes Gen.GenVpop.

Definition name := bytes.

(** what a name in the domain directory is *)
Inductive entry :=
| EAbsent                 (* nothing of that name: open fails with ENOENT *)
| EFile (c : bytes)       (* regular file with contents c *)
| EDir                    (* directory *)
| EErr (e : N).           (* every open of that name fails with errno e *)

(** one open relative to the domain directory *)
Inductive probe :=
| PDir (n : name)         (* get_dirfd(domaindirfd, n): O_PATH | O_DIRECTORY *)
| PFile (n : name).       (* openat(domaindirfd, n, O_RDONLY) *)
Definition probe_name (p : probe) : name := match p with PDir n | PFile n => n end.

Definition mem (e : N) (l : list N) : bool := existsb (N.eqb e) l.

(** kernel: [None] = descriptor returned, [Some errno] = failure *)
Definition dir_open (e : entry) : option N :=
  match e with EDir => None | EAbsent => Some VP_ENOENT | EFile _ => Some VP_ENOTDIR | EErr c => Some c end.
Definition file_open (e : entry) : option N :=
  match e with EFile _ | EDir => None | EAbsent => Some VP_ENOENT | EErr c => Some c end.

(** ** qmexists *)
Inductive qmres :=
| QMyes (fd : option entry)   (* 1; [Some e] = open descriptor on e, [None] = *fd = -1 (EACCES) *)
| QMno                        (* 0 *)
| QMerr (rc : Z).             (* negative error code *)

Definition dot2colon (b : N) : N := if N.eqb b VP_DOT then VP_COLON else b.

(** the name built in filetmp[PATH_MAX]; [None] = one of the three length guards returned -ENOENT *)
Definition qmname (def : nat) (suff : bytes) : option name :=
  let l0 := length VP_DOTQM in
  let d2 := Nat.testbit def 1 in
  let d1 := Nat.testbit def 0 in
  if d2 then
    if VP_PATH_MAX <=? l0 + length suff then None else
    let nm := VP_DOTQM ++ map dot2colon suff in
    let l1 := l0 + length suff in
    if d1 then
      if VP_PATH_MAX <=? l1 + 1 then None else
      if VP_PATH_MAX <=? (l1 + 1) + length VP_DEFAULT then None else
      Some ((nm ++ [VP_DASH]) ++ VP_DEFAULT)
    else Some nm
  else
    if d1 then
      if VP_PATH_MAX <=? l0 + length VP_DEFAULT then None else Some (VP_DOTQM ++ VP_DEFAULT)
    else Some VP_DOTQM.

Definition qm_open (fs : name -> entry) (nm : name) : qmres :=
  match file_open (fs nm) with
  | None => QMyes (Some (fs nm))
  | Some e =>
      if mem e VP_QM_NOMEM then QMerr (- Z.of_N VP_ENOMEM)
      else if mem e VP_QM_EXISTS then QMyes None
      else if mem e VP_QM_ABSENT then QMno
      else QMerr (- Z.of_N VP_EDONE)          (* err_control() returned 0 *)
  end.

Definition qmexists (fs : name -> entry) (def : nat) (suff : bytes) : list probe * qmres :=
  match qmname def suff with
  | None => ([], QMerr (- Z.of_N VP_ENOENT))
  | Some nm => ([PFile nm], qm_open fs nm)
  end.

(** ** user_exists *)
Record outcome := mkOut { rc : Z; userdir : option name; probes : list probe }.

Definition flag (i : nat) : nat := nth i VP_QM_FLAGS 0.

(** while (p) { res = qmexists(.., localpart->s, p - localpart->s, 3, NULL); ...; p = memchr(p + 1, '-', rest) }
    [pre] = the bytes before the scan position, [rest] = the bytes from it to the end of the local part *)
Fixpoint dash_loop (fs : name -> entry) (pre rest : bytes) : list probe * option Z :=
  match rest with
  | [] => ([], None)
  | b :: rest' =>
      if N.eqb b VP_SCANDASH then
        let '(lg, r) := qmexists fs (flag 2) pre in
        match r with
        | QMyes _ => (lg, Some VP_RC_PREFIX)
        | QMerr e => (lg, Some e)
        | QMno => let '(lg', r') := dash_loop fs (pre ++ [b]) rest' in (lg ++ lg', r')
        end
      else dash_loop fs (pre ++ [b]) rest'
  end.

(** C string held by a buffer: up to the first NUL *)
Fixpoint cstr (l : bytes) : bytes :=
  match l with
  | [] => []
  | b :: l' => if N.eqb b 0 then [] else b :: cstr l'
  end.

(** read(fd, buff, 2*strlen(vpopbounce)); buff[r] = 0; strcmp(buff, vpopbounce) == 0 *)
Definition is_bounce (vb c : bytes) : bool :=
  bytes_eqb (cstr (firstn (VP_BOUNCE_MUL * length vb) c)) vb.

Definition catchall (fs : name -> entry) (vb : option bytes) : list probe * Z :=
  let '(lg, r) := qmexists fs (flag 3) [] in
  (lg,
   match r with
   | QMno => 0%Z
   | QMerr e => e
   | QMyes None => VP_RC_CATCHALL
   | QMyes (Some e) =>
       match vb with
       | None => VP_RC_CATCHALL
       | Some b =>
           match e with
           | EFile c => if is_bounce b c then 0%Z else VP_RC_CATCHALL
           | EDir => (- Z.of_N VP_EDONE)%Z       (* read() fails with EISDIR, err_control2() returned 0 *)
           | _ => VP_RC_CATCHALL
           end
       end
   end).

(** the part of user_exists() after the domain directory has been opened *)
Definition in_domain (fs : name -> entry) (vb : option bytes) (local : bytes) : outcome :=
  match dir_open (fs local) with
  | None => mkOut VP_RC_DIR (Some local) [PDir local]
  | Some e =>
      if negb (mem e VP_DIR_SOFT) then mkOut (- Z.of_N VP_EDONE) None [PDir local]   (* err_control2() returned 0 *)
      else if N.eqb e VP_EACCES then mkOut 1 None [PDir local]
      else
        let '(l1, r1) := qmexists fs (flag 0) local in
        let '(l2, r2) := match r1 with QMno => qmexists fs (flag 1) local | _ => ([], r1) end in
        match r2 with
        | QMyes _ => mkOut VP_RC_QMAIL None (PDir local :: l1 ++ l2)
        | QMerr e => mkOut e None (PDir local :: l1 ++ l2)
        | QMno =>
            let '(l3, r3) := dash_loop fs [] local in
            match r3 with
            | Some z => mkOut z None (PDir local :: l1 ++ l2 ++ l3)
            | None => let '(l4, z) := catchall fs vb in mkOut z None (PDir local :: l1 ++ l2 ++ l3 ++ l4)
            end
        end
  end.

(** what the path stored in users/cdb for a domain points to *)
Inductive domstate := DomTree | DomMissing | DomFile.
Definition dom_errno (d : domstate) : option N :=
  match d with DomTree => None | DomMissing => Some VP_ENOENT | DomFile => Some VP_ENOTDIR end.

(** users/cdb: [None] = the file does not exist; keys are "!" domain "-" *)
Definition cdb := option (list (bytes * domstate)).

Definition vget_dir (db : cdb) (domain : bytes) : Z + option domstate :=
  if VP_CDBKEY <=? (length domain + 2) + 1 then inl (- Z.of_N VP_EFAULT)%Z
  else match db with
       | None => inr None
       | Some l =>
           match find (fun kv => bytes_eqb (VP_KEY_FIRST :: fst kv ++ [VP_KEY_LAST]) (VP_KEY_FIRST :: domain ++ [VP_KEY_LAST])) l with
           | Some kv => inr (Some (snd kv))
           | None => inr None
           end
       end.

(** the two early refusals: a '/' anywhere, or the local part is "." or ".." *)
Definition refused (local : bytes) : bool :=
  mem VP_SLASH local
  || ((0 <? length local) && (length local <=? length VP_DOTS)
      && bytes_eqb local (firstn (length local) VP_DOTS)).

(** user_exists() given the outcome [vg] of vget_dir(): an error code, "not in users/cdb", or what the path in
    the record points to *)
Definition user_exists_with (vg : Z + option domstate) (fs : name -> entry) (vb : option bytes) (local : bytes) : outcome :=
  if refused local then mkOut 0 None [] else
  match vg with
  | inl e => mkOut e None []
  | inr None => mkOut VP_RC_NOTLOCAL None []
  | inr (Some d) =>
      match dom_errno d with
      | None => in_domain fs vb local
      | Some e =>
          if mem e VP_DOM_ERR then mkOut (- Z.of_N e) None []
          else if mem e VP_DOM_ABSENT then mkOut 0 None []
          else if mem e VP_DOM_EXISTS then mkOut 1 None []
          else mkOut (- Z.of_N VP_EDONE) None []
      end
  end.

Definition user_exists (db : cdb) (fs : name -> entry) (vb : option bytes) (domain local : bytes) : outcome :=
  user_exists_with (vget_dir db domain) fs vb local.

(** ** the concrete directory of the correspondence run
    [lay] lists the entries of the domain directory (first entry of a name wins); everything else is absent.
    Kernel facts used: "." and ".." resolve to directories (the directory itself, its parent), the empty name
    fails with ENOENT, a component longer than NAME_MAX with ENAMETOOLONG.  Names containing '/' are paths, not
    entries; they are outside this abstraction (never asked by the model; see C13_confined). *)
Definition fs_of_layout (lay : list (name * entry)) (n : name) : entry :=
  if bytes_eqb n [DOT] || bytes_eqb n [DOT; DOT] then EDir
  else match n with
       | [] => EAbsent
       | _ => if VP_NAME_MAX <? length n then EErr VP_ENAMETOOLONG
              else match find (fun kv => bytes_eqb (fst kv) n) lay with
                   | Some kv => snd kv
                   | None => EAbsent
                   end
       end.

(** vpopbounce as userbackend_init() leaves it: NULL when control/vpopbounce is missing or empty,
    else the C string at the start of the file's contents *)
Definition vpopbounce_of (file : option bytes) : option bytes :=
  match file with
  | None => None
  | Some [] => None
  | Some c => Some (cstr c)
  end.

(** which filterconf becomes the user's configuration when the caller goes on (userconf_load_configs):
    1 = the one in the user directory, 0 = none *)
Definition conf_of (o : outcome) : N :=
  match userdir o with Some _ => 1%N | None => 0%N end.

(** ** addrparse() on the argument of RCPT TO:<local@domain>
    for an address addrsyntax() accepts as a full address (result 3) whose domain finddomain() finds in
    rcpthosts: the address is lower-cased as a whole, the part before the '@' goes to user_exists() with the
    part behind it as domain; a negative result is returned as error (the caller answers 4xx), 0 is answered
    with the "no such user" reply (return -1), anything else is accepted (return 0). *)
Inductive rcpt_reply :=
| RAccept
| RNoUser (text : bytes)      (* the strings handed to net_writen, concatenated *)
| RError (e : Z).

Definition AT : N := 64%N.

(** what addrparse() makes of the result of user_exists() for the (lower-cased) address [addr] *)
Definition reply_of (addr : bytes) (o : outcome) : rcpt_reply :=
  if Z.ltb (rc o) 0 then RError (- rc o)
  else if Z.eqb (rc o) 0 then RNoUser (VP_NOUSER_PRE ++ addr ++ VP_NOUSER_POST)
  else RAccept.

Definition addrparse_rcpt (db : cdb) (fs : name -> entry) (vb : option bytes) (local domain : bytes)
    : rcpt_reply * outcome :=
  let l := map to_lower local in
  let d := map to_lower domain in
  let o := user_exists db fs vb d l in
  (reply_of (l ++ AT :: d) o, o).

(** RCPT TO:<local@[iptext]> (addrsyntax() result 4, with fixes/C13-ipv6-literal.diff): the text between the
    brackets, without an "IPv6:" tag (any case; the address has been lower-cased), is compared with the
    connection's local address [localip]; when they are equal the mailbox is looked up in the domain
    [liphost] (control/localiphost), otherwise the answer is "no such user". *)
Definition LBR : N := 91%N.
Definition RBR : N := 93%N.
Definition literal_text (ip : bytes) : bytes :=
  (if bytes_eqb (firstn (length VP_IPV6TAG) ip) (map to_lower VP_IPV6TAG) then skipn (length VP_IPV6TAG) ip else ip) ++ [RBR].
Definition literal_is_local (localip ip : bytes) : bool :=
  bytes_eqb (firstn (length localip) (literal_text ip)) localip && N.eqb (nth (length localip) (literal_text ip) 0%N) RBR.

Definition addrparse_literal (localip liphost : bytes) (db : cdb) (fs : name -> entry) (vb : option bytes)
    (local iptext : bytes) : rcpt_reply * outcome :=
  let l := map to_lower local in
  let ip := map to_lower iptext in
  let addr := l ++ AT :: LBR :: ip ++ [RBR] in
  if literal_is_local localip ip then
    let o := user_exists db fs vb liphost l in (reply_of addr o, o)
  else (RNoUser (VP_NOUSER_PRE ++ addr ++ VP_NOUSER_POST), mkOut 0 None []).

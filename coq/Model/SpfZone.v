(** The zone carried by a test case, as the resolver oracle [dns]: decoding of
    the zone entries of harness/spf_h.c (same layout, same first-match lookup).
    Only used by the extracted driver; the theorems quantify over every [dns]. *)
From Qv Require Import Common.Bytes Model.SpfBase Model.SpfEnv.
Local Open Scope N_scope.

Inductive zentry :=
| ZT (name : bytes) (a : txtans)
| ZA (name : bytes) (a : addrans)
| Z6 (name : bytes) (a : addrans)
| ZM (name : bytes) (a : mxans)
| ZN (ip : N) (a : nameans).

(** pieces terminated by 00; a trailing piece without terminator counts too *)
Fixpoint split_nul (s : bytes) (cur : bytes) : list bytes :=
  match s with
  | [] => match cur with [] => [] | _ => [rev cur] end
  | c :: t => if c =? 0 then rev cur :: split_nul t [] else split_nul t (c :: cur)
  end.

Fixpoint split_key (s : bytes) (cur : bytes) : option (bytes * bytes) :=
  match s with
  | [] => None
  | c :: t => if c =? 0 then Some (rev cur, t) else split_key t (c :: cur)
  end.

Definition err_of (pl : bytes) : dnserr :=
  match pl with
  | 1 :: _ => ELocal
  | 2 :: _ => ETemp
  | _ => EPerm
  end.
Definition txterr_of (pl : bytes) : txterr :=
  match pl with
  | 1 :: _ => TENoent
  | 3 :: _ => TEInval
  | c :: _ => if (c =? 2) || (c =? 5) || (c =? 6) || (c =? 7) then TETemp else TEOther
  | [] => TEOther
  end.

Fixpoint addrs_of (n : nat) (pl : bytes) : list N :=
  match n with
  | O => []
  | S n' => octets_to_N (firstn 16 pl) :: addrs_of n' (skipn 16 pl)
  end.
Definition addrs (pl : bytes) : list N := addrs_of (length pl / 16) pl.

Fixpoint mx_of (fuel : nat) (pl : bytes) : list (N * list N) :=
  match fuel with
  | O => []
  | S f =>
      if Nat.ltb (length pl) 5 then []
      else
        let prio := octets_to_N (firstn 4 pl) in
        let cnt := N.to_nat (nth 4 pl 0) in
        let rest := skipn 5 pl in
        if Nat.eqb cnt 0 || Nat.ltb (length rest) (16 * cnt) then []
        else (prio, addrs_of cnt rest) :: mx_of f (skipn (16 * cnt) rest)
  end.

Definition decode_entry (e : bytes) : option zentry :=
  match e with
  | [] => None
  | k :: r =>
      if (k =? 78) || (k =? 110) then
        if Nat.ltb (length r) 16 then None
        else
          let ip := octets_to_N (firstn 16 r) in
          let pl := skipn 16 r in
          Some (ZN ip (if k =? 110 then NErr (err_of pl) else NList (split_nul pl [])))
      else
        match split_key r [] with
        | None => None
        | Some (name, pl) =>
            if k =? 84 then Some (ZT name (TxtRecs (split_nul pl [])))
            else if k =? 116 then Some (ZT name (TxtErr (txterr_of pl)))
            else if k =? 65 then Some (ZA name (AList (addrs pl)))
            else if k =? 97 then Some (ZA name (AErr (err_of pl)))
            else if k =? 54 then Some (Z6 name (AList (addrs pl)))
            else if k =? 55 then Some (Z6 name (AErr (err_of pl)))
            else if k =? 77 then Some (ZM name (MxList (mx_of (length pl) pl)))
            else if k =? 109 then
              Some (ZM name (match pl with 4 :: _ => MxNoHost | 5 :: _ => MxNull | _ => MxErr (err_of pl) end))
            else None
        end
  end.

Fixpoint decode_zone (es : list bytes) : list zentry :=
  match es with
  | [] => []
  | e :: r => match decode_entry e with Some z => z :: decode_zone r | None => decode_zone r end
  end.

Fixpoint z_txt (z : list zentry) (n : bytes) : txtans :=
  match z with
  | ZT m a :: r => if bytes_eqb m n then a else z_txt r n
  | _ :: r => z_txt r n
  | [] => TxtErr TENoent
  end.
Fixpoint z_a (z : list zentry) (n : bytes) : addrans :=
  match z with
  | ZA m a :: r => if bytes_eqb m n then a else z_a r n
  | _ :: r => z_a r n
  | [] => AList []
  end.
Fixpoint z_aaaa (z : list zentry) (n : bytes) : addrans :=
  match z with
  | Z6 m a :: r => if bytes_eqb m n then a else z_aaaa r n
  | _ :: r => z_aaaa r n
  | [] => AList []
  end.
Fixpoint z_mx (z : list zentry) (n : bytes) : mxans :=
  match z with
  | ZM m a :: r => if bytes_eqb m n then a else z_mx r n
  | _ :: r => z_mx r n
  | [] => MxNoHost
  end.
Fixpoint z_name (z : list zentry) (ip : N) : nameans :=
  match z with
  | ZN i a :: r => if i =? ip then a else z_name r ip
  | _ :: r => z_name r ip
  | [] => NList []
  end.

Definition zone_dns (z : list zentry) : dns :=
  {| d_txt := z_txt z; d_a := z_a z; d_aaaa := z_aaaa z; d_mx := z_mx z; d_name := z_name z |}.

(** the 16 octets of an address (for printing ask_dnsname() calls) *)
Fixpoint n_octets (k : nat) (a : N) (acc : bytes) : bytes :=
  match k with
  | O => acc
  | S k' => n_octets k' (a / 256) ((a mod 256) :: acc)
  end.
Definition addr_octets (a : N) : bytes := n_octets 16 a [].

(** Model of qsmtpd/spf.c: check_host() / spflookup() with the shared counter of
    DNS querying terms, the mechanisms a, mx, ptr, exists, ip4, ip6, include,
    all, the redirect and exp modifiers, spf_domainspec(), record_bad_token(),
    the exp= sanitiser and spfreceived().

    The resolver ([D]) and macro expansion ([makro]) are parameters: any
    functions of these types.  Global state of the C (xmitstat.spfexp,
    xmitstat.spfmechanism, the counter) is threaded explicitly ([gst]); the
    calls of resolver entry points are recorded in [g_log], together with a
    ghost mark [ETerm] whenever a DNS querying term is evaluated.
    Executable definitions only. *)
From Qv Require Import Common.Bytes Gen.GenSpf Model.SpfBase Model.SpfEnv Model.SpfMacro.
Local Open Scope N_scope.

Inductive ev := EQ (q : qev) | ETerm.

Record gst := {
  g_q : nat;                  (* *queries *)
  g_log : list ev;            (* oldest first *)
  g_exp : option bytes;       (* xmitstat.spfexp *)
  g_mech : option bytes       (* xmitstat.spfmechanism *)
}.
Definition g_addq (g : gst) (qs : list qev) : gst :=
  {| g_q := g_q g; g_log := g_log g ++ map EQ qs; g_exp := g_exp g; g_mech := g_mech g |}.
Definition g_term (g : gst) : gst :=
  {| g_q := g_q g; g_log := g_log g ++ [ETerm]; g_exp := g_exp g; g_mech := g_mech g |}.
Definition g_setexp (g : gst) (e : option bytes) : gst :=
  {| g_q := g_q g; g_log := g_log g; g_exp := e; g_mech := g_mech g |}.
Definition g_setmech (g : gst) (m : option bytes) : gst :=
  {| g_q := g_q g; g_log := g_log g; g_exp := g_exp g; g_mech := m |}.
(** spf_dnsterm_limit(): count, and tell if the limit is exceeded *)
Definition g_limit (g : gst) : bool * gst :=
  let q' := S (g_q g) in
  (Nat.ltb SPF_TERM_LIMIT q', {| g_q := q'; g_log := g_log g; g_exp := g_exp g; g_mech := g_mech g |}).

Definition str (l : list N) : bytes := l.
Definition M_MX : bytes := [77; 88].
Definition M_PTR : bytes := [80; 84; 82].
Definition M_EXISTS : bytes := [101; 120; 105; 115; 116; 115].
Definition M_ALL : bytes := [97; 108; 108].
Definition M_A : bytes := [65].
Definition M_IP4 : bytes := [73; 80; 52].
Definition M_IP6 : bytes := [73; 80; 54].
Definition M_INCLUDE : bytes := [105; 110; 99; 108; 117; 100; 101].
Definition M_DEFAULT : bytes := [100; 101; 102; 97; 117; 108; 116].

(* ---------------------------------------------------------------- sanitisers *)
(** record_bad_token(): one character *)
Definition bt_char (c : N) : N :=
  if (negb (c =? BT_KEEP_CTL) && ((c <? BT_LOW) || (128 <=? c)))   (* signed char: >= 128 is negative *)
     || ((BT_HIGH <=? c) && (c <? 128))
     || mem c BT_DROP
  then BT_REPL else c.
(** [tk]: the text from the start of the current term (qualifier included) *)
Definition record_bad_token (tk : bytes) : bytes :=
  map bt_char (take_while (fun c => negb (wspace c)) tk).

(** the loop over the expanded explanation: None = freed *)
Fixpoint exp_sanitise (s : bytes) : option bytes :=
  match s with
  | [] => Some []
  | c :: t =>
      if c <? EXP_LOW then option_map (cons EXP_REPL) (exp_sanitise t)
      else if 128 <=? c then None
      else option_map (cons c) (exp_sanitise t)
  end.

(* ---------------------------------------------------------------- small parsers *)
(** match_mechanism(): Some rest-after-the-name *)
Definition match_mechanism (tok : bytes) (m : list N * list N) : option bytes :=
  let '(name, delims) := m in
  if case_prefix name tok then
    let nx := skipn (length name) tok in
    if at_end nx || mem (hd0 nx) delims then Some nx else None
  else None.

Definition modname_char (c : N) : bool := is_alpha c || is_digit c || (c =? 95) || (c =? 45) || (c =? 46).
Fixpoint modname_scan (s : bytes) (res : nat) : nat :=
  match s with
  | [] => 0
  | c :: t => if wspace c then 0%nat
              else if c =? 61 then res
              else if modname_char c then modname_scan t (S res) else 0%nat
  end.
(** spf_modifier_name(): position of the '=' or 0 *)
Definition spf_modifier_name (tok : bytes) : nat :=
  match tok with
  | c :: t => if is_alpha c then modname_scan t 1 else 0%nat
  | [] => 0%nat
  end.

(** may_have_domainspec(): 0, 1 or SPF_PERMERROR *)
Definition may_have_domainspec (tok : bytes) : Z :=
  match tok with
  | [] => 0%Z
  | c :: t => if wspace c then 0%Z
              else if c =? 58 then (if at_end t then SPF_PERMERROR else 1%Z)
              else if c =? 47 then 1%Z
              else SPF_PERMERROR
  end.

(** find_modifier(): the text after the first occurrence of [m] that follows white space *)
Fixpoint find_modifier (m : bytes) (s : bytes) (prev : N) : option bytes :=
  match s with
  | [] => None
  | c :: t => if wspace prev && case_prefix m s then Some (skipn (length m) s)
              else find_modifier m t c
  end.

(* ---------------------------------------------------------------- spf_domainspec *)
Inductive dsres := DErr (code : Z) | DOk (ds : option bytes) (i4 i6 : Z).
Inductive dstate := SNone | SPercent | SBrace | SLetter | STrans | SAfterR | SDelim.
Definition ds_top (st : dstate) : bool :=
  match st with SNone | STrans | SDelim => true | _ => false end.
Definition macro_letter (c : N) : bool := mem (to_upper c) [83; 76; 79; 68; 73; 80; 72; 67; 82; 84; 86].

(** the syntax scan; None = SPF_PERMERROR, else (t - token, index of the last '}', state at the end) *)
Fixpoint ds_scan (s : bytes) (st : dstate) (pos : nat) (te : option nat) : option (nat * option nat * dstate) :=
  match s with
  | [] => if ds_top st then Some (pos, te, st) else None
  | c :: t =>
      if ds_top st && (wspace c || (c =? 47)) then Some (pos, te, st)
      else if ds_top st && (128 <=? c) then None
      else
        let delim_switch :=
            if is_delim c then ds_scan t SDelim (S pos) te
            else if c =? 125 then ds_scan t SNone (S pos) (Some pos)
            else None in
        match st with
        | SNone => if c =? 37 then ds_scan t SPercent (S pos) te
                   else if (c <? 33) || (126 <? c) then None
                   else ds_scan t SNone (S pos) te
        | SPercent => if (c =? 37) || (c =? 95) || (c =? 45) then ds_scan t SNone (S pos) te
                      else if c =? 123 then ds_scan t SBrace (S pos) te
                      else None
        | SBrace => if macro_letter c then ds_scan t SLetter (S pos) te else None
        | SLetter | STrans => if is_digit c then ds_scan t STrans (S pos) te
                              else if c =? 114 then ds_scan t SAfterR (S pos) te
                              else delim_switch
        | SAfterR | SDelim => delim_switch
        end
  end.

(** "domainspec must end in toplabel" *)
Definition toplabel_ok (ds : bytes) : bool :=
  let ds' := if ends_with_dot ds then removelast ds else ds in
  if negb (mem 46 ds') then false
  else
    let label := rev (take_while (fun c => negb (c =? 46)) (rev ds')) in
    Nat.leb 2 (length label)
    && is_alnum (hd0 label)
    && match last_opt label with Some l => is_alnum l | None => false end
    && forallb (fun c => is_alnum c || (c =? 45)) label
    && existsb is_alpha label.

(** the CIDR part; [s] starts at the '/'.  None = SPF_PERMERROR *)
Definition parse_cidr (s : bytes) : option (Z * Z) :=
  if negb (hd0 s =? 47) then Some ((-1)%Z, (-1)%Z) else
  let c := tl s in
  let r4 :=
    if hd0 c =? 47 then Some ((-1)%Z, s)
    else if at_end c then None
    else let '(v, cend) := strtol_c c in
         let v := to_int32 v in
         if (v <? 0)%Z || (CIDR4_MAX <? v)%Z || negb (at_end cend || (hd0 cend =? 47)) then None
         else Some (v, cend) in
  match r4 with
  | None => None
  | Some (i4, c2) =>
      if negb (hd0 c2 =? 47) then Some (i4, (-1)%Z)
      else
        let c3 := tl c2 in
        if negb (hd0 c3 =? 47) then None
        else
          let c4 := tl c3 in
          if at_end c4 then None
          else let '(v, cend) := strtol_c c4 in
               let v := to_int32 v in
               if (v <? 0)%Z || (CIDR6_MAX <? v)%Z || negb (at_end cend) then None
               else Some (i4, v)
  end.

Section Core.
Variable D : dns.
Variable X : sess.
Variable makro : bytes -> bytes -> bool -> Cres (mres * list qev).

Definition cidr_res (ds : option bytes) (rest : bytes) : dsres :=
  match parse_cidr rest with
  | None => DErr SPF_PERMERROR
  | Some (i4, i6) => DOk ds i4 i6
  end.

Definition spf_domainspec (domain tok : bytes) : Cres (dsres * list qev) :=
  if at_end tok then Ok (DOk None (-1)%Z (-1)%Z, [])
  else if hd0 tok =? 47 then Ok (cidr_res None tok, [])
  else
    match ds_scan tok SNone 0 None with
    | None => Ok (DErr SPF_PERMERROR, [])
    | Some (tlen, te, st) =>
        match st with
        | SNone =>
            let dsc := firstn tlen tok in
            let ends_in_macro := match te with Some e => Nat.eqb (S e) tlen | None => false end in
            if negb ends_in_macro && negb (toplabel_ok dsc) then Ok (DErr SPF_PERMERROR, [])
            else
              do r <- makro tok domain false;
              let '(m, q) := r in
              match m with
              | MOk out => Ok (cidr_res (Some out) (skipn tlen tok), q)
              | MPerm => Ok (DErr SPF_PERMERROR, q)
              | MLocal => Ok (DErr (-1)%Z, q)
              end
        | _ => Ok (DErr SPF_PERMERROR, [])
        end
    end.

(* ---------------------------------------------------------------- mechanisms *)
Definition addr_result (e : dnserr) : Z :=
  match e with ETemp => SPF_TEMPERROR | ELocal => (-1)%Z | EPerm => SPF_DNS_HARD_ERROR end.

(** domainspec of a and mx: (lookup name, ip4 length, ip6 length) or the value to return *)
Definition ds_a_mx (domain tok : bytes) : Cres ((Z + (bytes * N * N)) * list qev) :=
  let m := may_have_domainspec tok in
  if (m =? 0)%Z then Ok (inr (domain, 32, 128), [])
  else if (m =? 1)%Z then
    let tok' := if hd0 tok =? 58 then tl tok else tok in
    do r <- spf_domainspec domain tok';
    let '(d, q) := r in
    match d with
    | DErr c => Ok (inl c, q)
    | DOk ds i4 i6 =>
        let l4 := if (i4 <? 0)%Z then 32 else Z.to_N i4 in
        let l6 := if (i6 <? 0)%Z then 128 else Z.to_N i6 in
        Ok (inr (match ds with Some n => n | None => domain end, l4, l6), q)
    end
  else Ok (inl SPF_PERMERROR, []).

Definition spfa (domain tok : bytes) : Cres (Z * list qev) :=
  do r <- ds_a_mx domain tok;
  let '(x, q) := r in
  match x with
  | inl c => Ok (c, q)
  | inr (name, l4, l6) =>
      let '(ans, qe) := ask_client_family D X name in
      let res :=
        match ans with
        | AErr e => addr_result e
        | AList l =>
            if client_v4 X
            then (if existsb (fun a => is_v4mapped a && ip4_matchnet (s_client X) a l4) l then SPF_PASS else SPF_NONE)
            else (if existsb (fun a => negb (is_v4mapped a) && ip6_matchnet (s_client X) a l6) l then SPF_PASS else SPF_NONE)
        end in
      Ok (res, q ++ [qe])
  end.

Definition spfmx (domain tok : bytes) : Cres (Z * list qev) :=
  do r <- ds_a_mx domain tok;
  let '(x, q) := r in
  match x with
  | inl c => Ok (c, q)
  | inr (name, l4, l6) =>
      let res :=
        match d_mx D name with
        | MxNoHost | MxNull => SPF_NONE
        | MxErr ETemp => SPF_TEMPERROR
        | MxErr EPerm => SPF_DNS_HARD_ERROR
        | MxErr ELocal => (-1)%Z
        | MxList [] => SPF_NONE
        | MxList (((prio, _) :: _) as l) =>
            if 65536 <=? prio then SPF_NONE
            else if Nat.ltb SPF_MX_LIMIT (S (length l)) then SPF_FAIL
            else
              let all := concat (map snd l) in
              if client_v4 X
              then (if existsb (fun a => is_v4mapped a && ip4_matchnet (s_client X) a l4) all then SPF_PASS else SPF_NONE)
              else (if existsb (fun a => negb (is_v4mapped a) && ip6_matchnet (s_client X) a l6) all then SPF_PASS else SPF_NONE)
        end in
      Ok (res, q ++ [QM name])
  end.

Definition spfexists (domain tok : bytes) : Cres (Z * list qev) :=
  do r <- spf_domainspec domain tok;
  let '(d, q) := r in
  match d with
  | DErr c => Ok (c, q)
  | DOk ds i4 i6 =>
      match ds with
      | None => Ok (SPF_PERMERROR, q)
      | Some name =>
          if (0 <? i4)%Z || (0 <? i6)%Z then Ok (SPF_PERMERROR, q)
          else
            let res := match d_a D name with
                       | AList [] => SPF_NONE
                       | AErr e => addr_result e
                       | AList _ => SPF_PASS
                       end in
            Ok (res, q ++ [QA name])
      end
  end.

(** the comparison loop of spfptr() *)
Definition ptr_match (checkdom : bytes) (v : bytes) : bool :=
  let dlen := length v in
  let dslen := length checkdom in
  if Nat.ltb dlen dslen then false
  else if Nat.eqb dlen dslen then ci_eqb v checkdom
  else (nth (dlen - dslen - 1) v 0 =? 46) && ci_eqb (skipn (dlen - dslen) v) checkdom.

Definition spfptr (domain tok : bytes) : Cres (Z * list qev) :=
  let m := may_have_domainspec tok in
  do r <- (if (m =? 0)%Z then Ok (inr None, [])
           else if (m =? 1)%Z then
             let tok' := if hd0 tok =? 58 then tl tok else tok in
             do r <- spf_domainspec domain tok';
             let '(d, q) := r in
             match d with
             | DErr c => Ok (inl c, q)
             | DOk ds i4 i6 => if (0 <=? i4)%Z || (0 <=? i6)%Z then Ok (inl SPF_PERMERROR, q) else Ok (inr ds, q)
             end
           else Ok (inl SPF_PERMERROR, []));
  let '(x, q) := r in
  match x with
  | inl c => Ok (c, q)
  | inr ds =>
      match s_remotehost X with
      | [] => Ok (SPF_NONE, q)
      | _ =>
          let '(v, qv) := validate_domain D X in
          let res :=
            match v with
            | inl e => addr_result e           (* with NDEBUG the assert is gone: the loops do not run *)
            | inr vs =>
                let checkdom := match ds with Some n => n | None => domain end in
                if existsb (ptr_match checkdom) vs then SPF_PASS else SPF_NONE
            end in
          Ok (res, q ++ qv)
      end
  end.


(** the "/len" part of ip4 and ip6: None = SPF_PERMERROR *)
Definition ip_prefix (rest : bytes) (lo hi : N) : option N :=
  if hd0 rest =? 47 then
    let '(u, q) := strtoul_c (tl rest) in
    if (u <? lo) || (hi <? u) || negb (at_end q) then None else Some u
  else if at_end rest then Some hi else None.

Definition spfip4 (tok : bytes) : Z :=
  if negb (client_v4 X) then SPF_NONE
  else
    let a := take_while ip4_char tok in
    let rest := drop_while ip4_char tok in
    if Nat.leb 16 (length a) || Nat.ltb (length a) IP4_MINLEN then SPF_PERMERROR
    else match ip_prefix rest IP4_PREFIX_MIN IP4_PREFIX_MAX with
         | None => SPF_PERMERROR
         | Some u =>
             match inet_pton4 a with
             | None => SPF_PERMERROR
             | Some o => if ip4_matchnet (s_client X) (octets_to_N o) u then SPF_PASS else SPF_NONE
             end
         end.

Definition spfip6 (tok : bytes) : Z :=
  if client_v4 X then SPF_NONE
  else
    let a := take_while ip6_char tok in
    let rest := drop_while ip6_char tok in
    if Nat.leb 46 (length a) || Nat.ltb (length a) IP6_MINLEN then SPF_PERMERROR
    else match ip_prefix rest IP6_PREFIX_MIN IP6_PREFIX_MAX with
         | None => SPF_PERMERROR
         | Some u =>
             match inet_pton6 a with
             | None => SPF_PERMERROR
             | Some o => if ip6_matchnet (s_client X) (octets_to_N o) u then SPF_PASS else SPF_NONE
             end
         end.

(* ---------------------------------------------------------------- TXT lookup *)
(** the length loop of txtlookup(): [rem] = len - offs; None = EINVAL *)
Fixpoint txt_trim (scanning : bool) (s : bytes) (rem : Z) : option bytes :=
  if negb scanning && (0 <=? rem)%Z && (rem <=? SPF_TXT_MAXLEN)%Z then Some (firstn (Z.to_nat rem) s)
  else match s with
       | [] => None
       | c :: t => if c =? 46 then txt_trim false t (rem - 1)%Z else txt_trim true t (rem - 1)%Z
       end.
Fixpoint strip_dots_rev (r : bytes) : bytes :=
  match r with c :: t => if c =? 46 then strip_dots_rev t else r | [] => [] end.
Definition strip_trailing_dots (s : bytes) : bytes := rev (strip_dots_rev (rev s)).

Definition txtlookup (domain : bytes) : txtans * list qev :=
  let len := length (strip_trailing_dots domain) in
  match txt_trim false domain (Z.of_nat len) with
  | None => (TxtErr TEInval, [])
  | Some name => (d_txt D name, [QT name])
  end.

Definition txt_result (e : txterr) : Z :=
  match e with
  | TENoent => SPF_NONE
  | TETemp => SPF_TEMPERROR
  | TEInval => SPF_DNS_HARD_ERROR
  | TEOther => (-1)%Z
  end.

(** the scan over the TXT records: None = more than one SPF record *)
Fixpoint scan_records (recs : list bytes) (valid : option bytes) : option (option bytes) :=
  match recs with
  | [] => Some valid
  | r :: rs =>
      if is_prefix SPF_VERSION r then
        match valid with
        | Some _ => None
        | None =>
            let t := skipn (length SPF_VERSION) r in
            match t with
            | [] => scan_records rs (Some t)
            | c :: _ => if c =? 32 then scan_records rs (Some t) else scan_records rs None
            end
        end
      else scan_records rs valid
  end.

(* ---------------------------------------------------------------- the term loop *)
(** what one iteration yields: the new [result] and local [mechanism], or an immediate return *)
Inductive tres := TRes (result : Z) (mechl : option bytes) (g : gst) | TRet (z : Z) (g : gst).

(** result of an included record as seen by the including one *)
Definition include_result (r : Z) (q : nat) : Z :=
  if (r =? SPF_NONE)%Z then SPF_PERMERROR
  else if (r =? SPF_TEMPERROR)%Z || (r =? SPF_PERMERROR)%Z || (r =? SPF_PASS)%Z || (r =? -1)%Z then r
  else if (r =? SPF_FAIL)%Z && Nat.ltb SPF_INCLUDE_KEEP_FAIL q then r
  else SPF_NONE.

Section Loop.
(** the recursive call spflookup(n, queries) *)
Variable rec : bytes -> gst -> Cres (Z * gst).

(** a mechanism that counts as DNS querying term: limit test, then evaluation *)
Definition dns_mech (f : Cres (Z * list qev)) (name : bytes) (g : gst) : Cres tres :=
  let '(over, g1) := g_limit g in
  if over then Ok (TRes SPF_FAIL (Some name) g1)
  else do r <- f; let '(res, q) := r in Ok (TRes res (Some name) (g_addq (g_term g1) q)).

(** the qualifier: (prefix, text after it); None = neither qualifier nor letter *)
Definition qualifier (tk : bytes) : option (Z * bytes) :=
  let c := hd0 tk in
  if c =? 45 then Some (SPF_FAIL, tl tk)
  else if c =? 126 then Some (SPF_SOFTFAIL, tl tk)
  else if c =? 43 then Some (SPF_PASS, tl tk)
  else if c =? 63 then Some (SPF_NEUTRAL, tl tk)
  else if is_alpha c then Some (SPF_PASS, tk)
  else None.

(** the include mechanism up to the mapping of the result; [nx]: text after "include" *)
Definition include_eval (domain nx : bytes) (g : gst) : Cres (Z * gst) :=
  if (may_have_domainspec nx =? 1)%Z then
    do r <- spf_domainspec domain (tl nx);
    let '(d, q) := r in
    let g0 := g_addq g q in
    match d with
    | DErr c => Ok (c, g0)
    | DOk ds i4 i6 =>
        if (0 <=? i4)%Z || (0 <=? i6)%Z then Ok (SPF_PERMERROR, g0)
        else
          let '(over, g1) := g_limit g0 in
          if over then Ok (SPF_FAIL, g1)
          else match ds with
               | Some n => rec n (g_term g1)
               | None => Crash 1        (* spflookup(NULL, ...) *)
               end
    end
  else Ok (SPF_PERMERROR, g).

(** a term that is no mechanism: modifier or garbage.  [tk]: the whole term, [tok]: after the qualifier *)
Definition modifier_eval (domain tk tok : bytes) (mechl : option bytes) (g : gst) : Cres tres :=
  let eq := spf_modifier_name tok in
  if Nat.eqb eq 0 then
    Ok (TRes SPF_PERMERROR mechl (g_setexp g (Some (record_bad_token tk))))
  else if negb (is_alpha (hd0 tk)) then
    (* "modifier must not have qualification": token[-1] is the qualifier, not white space *)
    Ok (TRes SPF_PERMERROR mechl (g_setexp g (Some (record_bad_token tk))))
  else
    do r <- makro (skipn (S eq) tok) domain false;
    let '(m, q) := r in
    let g0 := g_addq g q in
    match m with
    | MOk _ => Ok (TRes SPF_NONE mechl g0)
    | MPerm => Ok (TRes SPF_PERMERROR mechl (g_setexp g0 (Some (record_bad_token tk))))
    | MLocal => Ok (TRes (-1)%Z mechl g0)
    end.

(** the chain of match_mechanism() tests *)
Definition mech_eval (domain tk tok : bytes) (mechl : option bytes) (g : gst) : Cres tres :=
  match match_mechanism tok MECH_mx with
  | Some nx => dns_mech (spfmx domain nx) M_MX g
  | None =>
  match match_mechanism tok MECH_ptr with
  | Some nx => dns_mech (spfptr domain nx) M_PTR g
  | None =>
  match match_mechanism tok MECH_exists with
  | Some nx =>
      if hd0 nx =? 58 then dns_mech (spfexists domain (tl nx)) M_EXISTS g
      else Ok (TRes SPF_PERMERROR mechl g)
  | None =>
  match match_mechanism tok MECH_all with
  | Some _ => Ok (TRes SPF_PASS (Some M_ALL) g)
  | None =>
  match match_mechanism tok MECH_a with
  | Some nx => dns_mech (spfa domain nx) M_A g
  | None =>
  match match_mechanism tok MECH_ip4 with
  | Some nx =>
      if hd0 nx =? 58 then Ok (TRes (spfip4 (tl nx)) (Some M_IP4) g)
      else Ok (TRes SPF_PERMERROR mechl g)
  | None =>
  match match_mechanism tok MECH_ip6 with
  | Some nx =>
      if hd0 nx =? 58 then Ok (TRes (spfip6 (tl nx)) (Some M_IP6) g)
      else Ok (TRes SPF_PERMERROR mechl g)
  | None =>
  match match_mechanism tok MECH_include with
  | Some nx =>
      do r <- include_eval domain nx g;
      let '(res, g2) := r in
      Ok (TRes (include_result res (g_q g2)) (Some M_INCLUDE) g2)
  | None => modifier_eval domain tk tok mechl g
  end end end end end end end end.

(** [tk]: text from the start of the term; evaluates it *)
Definition term_eval (domain : bytes) (tk : bytes) (mechl : option bytes) (g : gst) : Cres (Z * tres) :=
  match qualifier tk with
  | None => Ok (0%Z, TRet SPF_PERMERROR g)
  | Some (prefix, tok) => do t <- mech_eval domain tk tok mechl g; Ok (prefix, t)
  end.

(** outcome of the while loop: (result, prefix, mechanism) and state, or an immediate return *)
Inductive lres := LDone (result prefix : Z) (mechl : option bytes) (g : gst) | LRet (z : Z) (g : gst).

(** the while loop over the record, one character at a time.
    [intok]: skipping the rest of a term ("skip to the end of this token"),
    else skipping white space at the start of an iteration. *)
Fixpoint term_loop (domain : bytes) (s : bytes) (intok : bool) (prefix : Z) (mechl : option bytes) (g : gst)
  : Cres lres :=
  match s with
  | [] => if intok then Ok (LDone SPF_NONE prefix mechl g)           (* *token == 0 at the loop head *)
          else Ok (LDone SPF_NONE prefix (Some M_DEFAULT) g)          (* only white space was left *)
  | c :: t =>
      if wspace c then term_loop domain t false prefix mechl g
      else if intok then term_loop domain t true prefix mechl g
      else
        do r <- term_eval domain s mechl g;
        let '(prefix', tr) := r in
        match tr with
        | TRet z g' => Ok (LRet z g')
        | TRes res mechl' g' =>
            if (res =? SPF_NONE)%Z then term_loop domain t true prefix' mechl' g'
            else Ok (LDone res prefix' mechl' g')
        end
  end.

(** the exp= handling after a fail *)
Definition do_exp (domain : bytes) (expl : bytes) (g : gst) : Cres gst :=
  do r <- makro expl domain false;
  let '(m, q) := r in
  let g0 := g_addq g q in
  match m with
  | MOk target =>
      let target' := strip_trailing_dots target in
      match target' with
      | [] => Ok g0
      | _ =>
          let '(ans, qt) := txtlookup target' in
          let g1 := g_addq g0 qt in
          match ans with
          | TxtRecs (e :: _) =>
              do r2 <- makro e domain true;
              let '(m2, q2) := r2 in
              let g2 := g_addq g1 q2 in
              match m2 with
              | MOk text => Ok (g_setexp g2 (exp_sanitise text))
              | _ => Ok (g_setexp g2 None)
              end
          | _ => Ok g1
          end
      end
  | _ => Ok g0
  end.

(** the redirect modifier; [rd]: text after "redirect=" *)
Definition redirect_eval (domain rd : bytes) (g1 : gst) : Cres (Z * gst) :=
  do r <- spf_domainspec domain rd;
  let '(d, q) := r in
  let g2 := g_addq g1 q in
  match d with
  | DErr c => Ok (c, g2)
  | DOk ds i4 i6 =>
      if negb (i4 =? -1)%Z || negb (i6 =? -1)%Z then Ok (SPF_PERMERROR, g2)
      else
        let '(over, g3) := g_limit g2 in
        if over then Ok (SPF_FAIL, g3)
        else match ds with
             | None => Crash 2         (* spflookup(NULL, ...) *)
             | Some n =>
                 do r2 <- rec n (g_term (g_setexp g3 None));
                 let '(res, g4) := r2 in
                 Ok (if (res =? SPF_NONE)%Z then SPF_FAIL else res, g4)
             end
  end.

(** spflookup() after the TXT records are there *)
Definition eval_record (domain : bytes) (valid : bytes) (g : gst) : Cres (Z * gst) :=
  let red := find_modifier MOD_REDIRECT valid 49 in
  let red_bad := match red with
                 | Some nx => at_end nx || match find_modifier MOD_REDIRECT nx 61 with Some _ => true | None => false end
                 | None => false
                 end in
  if red_bad then Ok (SPF_PERMERROR, g) else
  let ex := find_modifier MOD_EXP valid 49 in
  let ex_bad := match ex with
                | Some nx => match find_modifier MOD_EXP nx 61 with Some _ => true | None => false end
                | None => false
                end in
  if ex_bad then Ok (SPF_PERMERROR, g) else
  let expl := match ex with Some nx => if at_end nx then None else Some nx | None => None end in
  do l <- term_loop domain valid true 0%Z None g;
  match l with
  | LRet z g' => Ok (z, g')
  | LDone result prefix mechl g1 =>
      if (result <? 0)%Z then Ok (result, g1)
      else if negb (result =? SPF_NONE)%Z then
        let result' := if (result =? SPF_PASS)%Z then prefix else result in
        do g2 <- (if (result' =? SPF_FAIL)%Z
                  then match expl with Some e => do_exp domain e g1 | None => Ok g1 end
                  else Ok g1);
        Ok (result', g_setmech g2 mechl)
      else
        match red with
        | Some rd => redirect_eval domain rd g1
        | None => Ok (SPF_NEUTRAL, g1)
        end
  end.

(** spflookup() after the TXT lookup *)
Definition records_eval (domain : bytes) (ans : txtans) (g0 : gst) : Cres (Z * gst) :=
  match ans with
  | TxtErr e => Ok (txt_result e, g0)
  | TxtRecs [] => Ok (SPF_NONE, g0)
  | TxtRecs recs =>
      match scan_records recs None with
      | None => Ok (SPF_PERMERROR, g0)
      | Some None => Ok (SPF_NONE, g0)
      | Some (Some valid) => eval_record domain valid g0
      end
  end.

(** spflookup(domain, queries) up to the recursion *)
Definition spflookup_body (domain : bytes) (g : gst) : Cres (Z * gst) :=
  if Nat.eqb (g_q g) 0 then
    (* "don't enforce valid domains on redirects" *)
    if domain_invalid domain then Ok (SPF_PERMERROR, g)
    else records_eval domain (d_txt D domain) (g_addq g [QT domain])
  else
    let '(a, q) := txtlookup domain in records_eval domain a (g_addq g q).

End Loop.

(** the recursion: [fuel] levels of include/redirect nesting *)
Fixpoint spflookup (fuel : nat) (domain : bytes) (g : gst) : Cres (Z * gst) :=
  match fuel with
  | O => OutOfFuel
  | S f => spflookup_body (spflookup f) domain g
  end.

Definition g_init (e : option bytes) (m : option bytes) : gst :=
  {| g_q := 0; g_log := []; g_exp := e; g_mech := m |}.

(** check_host(domain) with xmitstat.spfexp = [e0], xmitstat.spfmechanism = [m0] on entry *)
Definition check_host (domain : bytes) (e0 m0 : option bytes) : Cres (Z * gst) :=
  spflookup (SPF_TERM_LIMIT + 2) domain (g_init e0 m0).

(* ---------------------------------------------------------------- spfreceived *)
Definition lit (i : nat) : bytes := nth i RCV_LIT [].
Definition spfdomain : bytes := match s_mailfrom X with [] => HELOSTR X | m => m end.

(** spfreceived(fd, spf): the bytes written; None = nothing written (SPF_IGNORE) or error return *)
Definition spfreceived (spf : Z) (g : gst) : option bytes :=
  if (spf =? SPF_IGNORE)%Z then Some [] else
  let head := lit 0 ++ nth (Z.to_nat spf) RCV_RESULT [] ++ lit 1 ++ s_heloname X ++ lit 2 in
  let tail := lit 20 ++ s_heloname X ++ lit 21 ++ s_iptext X
              ++ match g_mech g with Some m => lit 22 ++ m | None => [] end
              ++ lit 23 ++ HELOSTR X ++ lit 24 ++ s_mailfrom X ++ lit 25 in
  if (spf =? SPF_PERMERROR)%Z then
    Some (head ++ lit 3 ++ spfdomain ++ lit 4
          ++ match g_exp g with
             | Some e => (if mem 37 e then lit 5 else lit 6) ++ e
             | None => []
             end
          ++ lit 7 ++ tail)
  else if (spf =? SPF_DNS_HARD_ERROR)%Z || (spf =? SPF_TEMPERROR)%Z then
    Some (head ++ lit 8 ++ spfdomain ++ lit 9 ++ tail)
  else if (spf =? SPF_NONE)%Z then
    Some (head ++ lit 10 ++ spfdomain ++ lit 11)
  else if (spf =? SPF_SOFTFAIL)%Z || (spf =? SPF_FAIL)%Z then
    Some (head ++ lit 12 ++ spfdomain ++ lit 13 ++ s_iptext X ++ lit 14 ++ tail)
  else if (spf =? SPF_NEUTRAL)%Z then
    Some (head ++ s_iptext X ++ lit 15 ++ spfdomain ++ lit 16 ++ tail)
  else if (spf =? SPF_PASS)%Z then
    Some (head ++ lit 17 ++ spfdomain ++ lit 18 ++ s_iptext X ++ lit 19 ++ tail)
  else None.

End Core.

(** check_host with the macro expander of this development *)
Definition check_host_c (D : dns) (X : sess) (domain : bytes) (e0 m0 : option bytes) : Cres (Z * gst) :=
  check_host D X (spf_makro D X) domain e0 m0.

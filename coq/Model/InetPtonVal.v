(** inet_pton(AF_INET / AF_INET6) of glibc 2.36 (resolv/inet_pton.c) with the address it stores:
    the value-producing twins of Model/InetPton.v (which decides validity only and which C14 proved
    equivalent to the textual grammar, Proofs/LiteralEquiv.v).  Proofs/InetPtonValProofs.v shows that a
    value exists exactly when InetPton.v says "valid".  Tied to libc by the correspondence run. *)
From Coq Require Import List NArith Bool Arith.
From Qv Require Import Common.Bytes Model.InetPton.
Import ListNotations.
Local Open Scope bool_scope.

(** inet_pton4: [done] = tmp[0 .. tp), [cur] = *tp *)
Fixpoint pton4v_loop (src : bytes) (cur : N) (saw_digit : bool) (octets : nat) (done : list N) : option (list N) :=
  match src with
  | [] => if Nat.leb 4 octets then Some (done ++ [cur]) else None
  | ch :: src' =>
      if is_digit ch then
        let new := (cur * 10 + (ch - 48))%N in
        if saw_digit && N.eqb cur 0 then None
        else if N.ltb 255 new then None
        else if saw_digit then pton4v_loop src' new true octets done
        else if Nat.ltb 4 (S octets) then None
        else pton4v_loop src' new true (S octets) done
      else if N.eqb ch DOT && saw_digit then
        if Nat.eqb octets 4 then None else pton4v_loop src' 0%N false octets (done ++ [cur])
      else None
  end.

Definition pton4_val (s : bytes) : option (list N) := pton4v_loop s 0%N false 0 [].

(** what follows the loop of inet_pton6: [out] = tmp[0 .. tp), [colonp] = position of "::" *)
Definition pton6v_finish (out : list N) (colonp : option nat) (xd : nat) (val : N) : option (list N) :=
  if Nat.ltb 0 xd && Nat.ltb 16 (length out + 2) then None else
  let out' := if Nat.ltb 0 xd then out ++ [N.shiftr val 8; N.land val 255] else out in
  match colonp with
  | Some c => if Nat.eqb (length out') 16 then None
              else Some (firstn c out' ++ repeat 0%N (16 - length out') ++ skipn c out')
  | None => if Nat.eqb (length out') 16 then Some out' else None
  end.

Fixpoint pton6v_loop (src curtok : bytes) (out : list N) (colonp : option nat) (xd : nat) (val : N) : option (list N) :=
  match src with
  | [] => pton6v_finish out colonp xd val
  | ch :: src' =>
      match hexval ch with
      | Some d =>
          if Nat.eqb xd 4 then None else
          let val' := (val * 16 + d)%N in
          if N.ltb 65535 val' then None else pton6v_loop src' curtok out colonp (S xd) val'
      | None =>
          if N.eqb ch 58 then
            if Nat.eqb xd 0 then (match colonp with Some _ => None | None => pton6v_loop src' src' out (Some (length out)) 0 val end)
            else match src' with
                 | [] => None
                 | _ => if Nat.ltb 16 (length out + 2) then None
                        else pton6v_loop src' src' (out ++ [N.shiftr val 8; N.land val 255]) colonp 0 0%N
                 end
          else if N.eqb ch DOT && Nat.leb (length out + 4) 16 then
            match pton4_val curtok with
            | Some q => pton6v_finish (out ++ q) colonp 0 0%N
            | None => None
            end
          else None
      end
  end.

Definition pton6v_core (s : bytes) : option (list N) :=
  match s with
  | [] => None
  | c :: s' =>
      if N.eqb c 58 then
        match s' with
        | c2 :: _ => if N.eqb c2 58 then pton6v_loop s' s' [] None 0 0%N else None
        | [] => None
        end
      else pton6v_loop s s [] None 0 0%N
  end.

Definition pton6_val (s : bytes) : option (list N) := if forallb ip6char s then pton6v_core s else None.

(** lib/dns_helpers.c:inet_pton_v4mapped(): ::ffff:a.b.c.d *)
Definition pton_v4mapped_val (s : bytes) : option (list N) :=
  match pton4_val s with
  | Some q => Some ([0; 0; 0; 0; 0; 0; 0; 0; 0; 0; 255; 255]%N ++ q)
  | None => None
  end.

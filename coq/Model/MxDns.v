(** Executable model of lib/qdns.c:ask_dnsmx, qremote/conn.c:getmxlist (without the "[address literal]"
    branch) and the statement sequence of qremote/qremote.c:main() behind it (property C20).
    The resolver (dnsmx / dnsip6 of include/libowfatconn.h) is an oracle: a table from names to
    an answer, and the list of MX records of the target with an error flag. *)
From Coq Require Import List NArith Bool Arith.
From Qv Require Import Common.Bytes Gen.GenMx Model.Mx Model.MxRoute.
Import ListNotations.
Local Open Scope bool_scope.

(** ask_dnsaaaa(): > 0 addresses, 0 (nothing), or one of the error codes *)
Inductive aaaa_answer : Type :=
| ANone | AAddrs (l : list addr) | ATemp | APerm | ALocal.

(** what the resolver knows about a name: addresses, or an error marker *)
Inductive dns_entry : Type :=
| DAddrs (l : list addr) | DTemp | DPerm | DLocal.

Definition ask_dnsaaaa (tab : list (bytes * dns_entry)) (name : bytes) : aaaa_answer :=
  match assoc name tab with
  | None => ANone                           (* dnsip6 fails with ENOENT *)
  | Some (DAddrs []) => ANone
  | Some (DAddrs (a :: r)) => AAddrs (a :: r)
  | Some DTemp => ATemp
  | Some DPerm => APerm
  | Some DLocal => ALocal
  end.

(** result of ask_dnsmx(): 0 with a list, 1, 2 (null MX), DNS_ERROR_TEMP/PERM/LOCAL *)
Inductive mx_answer : Type :=
| MxList (l : list mx) | MxNoHost | MxNull | MxTemp | MxPerm | MxLocal.

(** identification of an entry by its name: index of the first MX record with that name (see harness name_id) *)
Fixpoint name_index (i : N) (recs : list (N * bytes)) (name : bytes) : option N :=
  match recs with
  | [] => None
  | (_, n) :: r => if list_eqb n name then Some i else name_index (i + 1)%N r name
  end.
Definition rec_ident (recs : list (N * bytes)) (name : bytes) (dflt : N) : N :=
  match name_index 0%N recs name with Some i => N.land i 255 | None => dflt end.

(** the while loop over the MX records: every record whose name has addresses is put IN FRONT of the list.
    [errtype] is ASSIGNED (1 << -rc) at every failing lookup, so the last failure decides. *)
Fixpoint mx_loop (tab : list (bytes * dns_entry)) (allrecs recs : list (N * bytes)) (acc : list mx) (errtype : N)
  : mx_answer :=
  match recs with
  | [] => match acc with
          | _ :: _ => MxList acc
          | [] => if N.eqb (N.land errtype 4) 4 then MxTemp
                  else if N.eqb (N.land errtype 2) 2 then MxNoHost
                  else MxPerm
          end
  | (p, nm) :: r =>
      match ask_dnsaaaa tab nm with
      | ALocal => MxLocal                                  (* the stub reports ENOMEM *)
      | AAddrs a => mx_loop tab allrecs r (mkmx p (rec_ident allrecs nm 254%N) a :: acc) errtype
      | ANone => mx_loop tab allrecs r acc errtype
      | ATemp => mx_loop tab allrecs r acc 4%N             (* 1 << 2 *)
      | APerm => mx_loop tab allrecs r acc 8%N             (* 1 << 3 *)
      end
  end.

(** [flag]: 0 dnsmx() succeeded, 1 failed with ENOENT, 2 timeout, 3 other error, 4 out of memory *)
Definition ask_dnsmx (tab : list (bytes * dns_entry)) (flag : N) (recs : list (N * bytes)) (name : bytes) : mx_answer :=
  if N.eqb flag 2 then MxTemp else if N.eqb flag 3 then MxPerm else if N.eqb flag 4 then MxLocal
  else
    let recs := if N.eqb flag 0 then recs else [] in
    match recs with
    | [] =>                                      (* no MX record: the name itself, priority MX_PRIORITY_IMPLICIT *)
        match ask_dnsaaaa tab name with
        | AAddrs a => MxList [mkmx MX_PRIORITY_IMPLICIT (rec_ident recs name 254%N) a]
        | ANone => MxNoHost
        | ATemp => MxTemp | APerm => MxPerm | ALocal => MxLocal
        end
    | [(_, [d])] => if N.eqb d DOT then MxNull else mx_loop tab recs recs [] 0%N     (* l == 4 && r[2] == '.' *)
    | _ => mx_loop tab recs recs [] 0%N
    end.

(** getmxlist(): the route decides; without relay addresses DNS is asked; the port is the route's *)
Inductive mxlist_result : Type :=
| GDie (why : N)                   (* 0: configuration error (err_confn), 1: "D5.1.10 only null MX", 2: "Z4.4.3 cannot find a mail exchanger" *)
| GList (l : list mx) (port : N).

Definition plain_table (tab : list (bytes * dns_entry)) : list (bytes * list addr) :=
  map (fun kv => (fst kv, match snd kv with DAddrs l => l | _ => [] end)) tab.

Definition set_dns (cfg : route_cfg) (t : list (bytes * list addr)) : route_cfg :=
  mkcfg (dir_exists cfg) (dir_files cfg) (routes_file cfg) t.

Definition getmxlist (cfg : route_cfg) (tab : list (bytes * dns_entry)) (flag : N) (recs : list (N * bytes)) (remhost : bytes)
  : Cres mxlist_result :=
  do r <- smtproute (set_dns cfg (plain_table tab)) remhost;
  match r with
  | RouteFatal => Ok (GDie 0)
  | RouteOther => Ok (GDie 99)
  | Route (Some addrs) port =>
      (* in6_to_ips(a, cnt, 0): one entry with priority 0; its name is the relay *)
      Ok (GList [mkmx 0 253%N addrs] port)
  | Route None port =>
      match ask_dnsmx tab flag recs remhost with
      | MxList l => Ok (GList l port)
      | MxNull => Ok (GDie 1)
      | _ => Ok (GDie 2)
      end
  end.

Inductive main_result : Type :=
| MDie (why : N)
| MRun (port : N) (t : targets_result).

Definition qremote_main (cfg : route_cfg) (tab : list (bytes * dns_entry)) (flag : N) (recs : list (N * bytes)) (remhost : bytes)
           (gia_fails : bool) (ifs : list iface) (cs0 : nat) (oracle : list N) (ncalls : nat) : Cres main_result :=
  do g <- getmxlist cfg tab flag recs remhost;
  match g with
  | GDie w => Ok (MDie w)
  | GList l port => do t <- qremote_targets port gia_fails ifs l cs0 oracle ncalls; Ok (MRun port t)
  end.

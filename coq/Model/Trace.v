(** Model of the trace header written in front of every message: qsmtpd/data.c:write_received()
    (the Received: field) and the SPF_NONE case of qsmtpd/spf.c:spfreceived() (the Received-SPF:
    field; the other results are modelled in Model/Spf.v, property C11).  Definitions only. *)
From Qv Require Import Common.Bytes.

Definition str (s : list nat) : bytes := map N.of_nat s.

Record tin := {
  t_remotehost : bytes;            (* xmitstat.remotehost (reverse lookup), [] if none *)
  t_authhide : bool;               (* control/authhide *)
  t_remoteip : bytes;              (* xmitstat.remoteip *)
  t_remoteport : option bytes;     (* TCPREMOTEPORT *)
  t_helostr : bytes;               (* xmitstat.helostr, [] when identical to the reverse lookup *)
  t_authname : bytes;              (* xmitstat.authname *)
  t_tlsclient : option bytes;      (* xmitstat.tlsclient *)
  t_remoteinfo : option bytes;     (* TCPREMOTEINFO *)
  t_heloname : bytes;              (* control/me *)
  t_version : bytes;               (* VERSIONSTRING *)
  t_esmtp : bool;
  t_cipher : option bytes;         (* Some = TLS active, the cipher name *)
  t_chunked : bool;
  t_first : bytes;                 (* first recipient of the transaction *)
  t_date : bytes                   (* date822(): 31 octets *)
}.

(* "Received: from " *)
Definition s_received_from : bytes := [82;101;99;101;105;118;101;100;58;32;102;114;111;109;32]%N.
Definition s_unknown : bytes := [117;110;107;110;111;119;110]%N.
Definition s_auth : bytes := [41;32;40;97;117;116;104;61]%N.            (* ") (auth=" *)
Definition s_cert : bytes := [41;32;40;99;101;114;116;61]%N.            (* ") (cert=" *)
Definition s_ident : bytes := [41;32;40;105;100;101;110;116;61]%N.      (* ") (ident=" *)
Definition s_helo : bytes := [32;72;69;76;79;32]%N.                     (* " HELO " *)
Definition s_by : bytes := [41;10;9;98;121;32]%N.                       (* ")\n\tby " *)
Definition s_with : bytes := [41;32;119;105;116;104;32]%N.              (* ") with " *)
Definition s_for : bytes := [10;9;102;111;114;32;60]%N.                 (* "\n\tfor <" *)
Definition s_smtp : bytes := [83;77;84;80]%N.
Definition s_esmtp : bytes := [69;83;77;84;80]%N.
Definition s_chunked_esmtp : bytes := [40;99;104;117;110;107;101;100;41;32;69;83;77;84;80]%N.   (* "(chunked) ESMTP" *)
Definition s_chunked_open : bytes := [40;99;104;117;110;107;101;100;32]%N.                       (* "(chunked " *)
Definition s_enc_esmtps : bytes := [32;101;110;99;114;121;112;116;101;100;41;32;69;83;77;84;80;83]%N.  (* " encrypted) ESMTPS" *)

Definition t_authed (t : tin) : bool :=
  negb (match t_authname t with [] => true | _ => false end)
  || match t_tlsclient t with Some _ => true | None => false end.
Definition t_i (t : tin) : bool := t_authhide t && t_authed t.       (* the local variable i of write_received() *)

Definition host_part (t : tin) : bytes :=
  match t_remotehost t with
  | [] => s_unknown
  | h => if t_authhide t then s_unknown else h
  end.
Definition ip_part (t : tin) : bytes :=
  if t_i t then [] else
    [32; 40; 91]%N ++ t_remoteip t
    ++ (match t_remoteport t with Some p => [93; 58]%N ++ p | None => [93]%N end)
    ++ (match t_helostr t with [] => [] | h => s_helo ++ h end).
Definition auth_part (t : tin) : bytes :=
  match t_authname t, t_tlsclient t, t_remoteinfo t with
  | (_ :: _) as a, _, _ => (if t_i t then skipn 1 s_auth else s_auth) ++ a
  | [], Some c, _ => (if t_i t then skipn 1 s_cert else s_cert) ++ c
  | [], None, Some r => if t_i t then [] else s_ident ++ r
  | [], None, None => []
  end.
Definition proto_part (t : tin) : bytes :=
  if negb (t_esmtp t) then s_smtp
  else match t_cipher t with
       | None => if t_chunked t then s_chunked_esmtp else s_esmtp
       | Some c => (if t_chunked t then s_chunked_open else [40]%N) ++ c ++ s_enc_esmtps
       end.
Definition a_part (t : tin) : bytes := match t_authname t with [] => [] | _ => [65]%N end.   (* ESMTPA / ESMTPSA *)

Definition received_field (t : tin) : bytes :=
  s_received_from ++ host_part t ++ ip_part t ++ auth_part t
  ++ s_by ++ t_heloname t ++ [32; 40]%N ++ t_version t ++ s_with ++ proto_part t ++ a_part t
  ++ s_for ++ t_first t ++ [62; 59; 32]%N ++ t_date t ++ [10]%N.

(* "Received-SPF: None (" heloname ": domain of " spfdomain " does not designate permitted sender hosts)\n" *)
Definition spf_none_field (heloname spfdomain : bytes) : bytes :=
  [82;101;99;101;105;118;101;100;45;83;80;70;58;32;78;111;110;101;32;40]%N ++ heloname
  ++ [58;32;100;111;109;97;105;110;32;111;102;32]%N ++ spfdomain
  ++ [32;100;111;101;115;32;110;111;116;32;100;101;115;105;103;110;97;116;101;32;112;101;114;109;105;116;116;101;100;32;115;101;110;100;101;114;32;104;111;115;116;115;41;10]%N.

(** what smtp_data() puts in front of the data in the harness configuration (SPF result "none"; no Received-SPF
    for clients that may relay by IP or are authenticated) *)
Definition trace_header (t : tin) (mailfrom : bytes) (relay_by_ip : bool) : bytes :=
  (if relay_by_ip || t_authed t then []
   else spf_none_field (t_heloname t) (match mailfrom with [] => t_helostr t | m => m end))
  ++ received_field t.

(** the same with the Received-SPF field handed in: write_received() calls spfreceived(queuefd_data, xmitstat.spf), whose literal
    model for every SPF result is Model/Spf.v:spfreceived (property C11); the correspondence run of the session engine takes
    [spf] from the extracted C11 model (check_host + spfreceived on the zone of the harness' fake resolver) *)
Definition trace_header_with (spf : bytes) (t : tin) (relay_by_ip : bool) : bytes :=
  (if relay_by_ip || t_authed t then [] else spf) ++ received_field t.

(** Model of the Qsmtpd command loop (qsmtpd/qsmtpd.c:smtploop), the command
    handlers of qsmtpd/commands.c, smtp_data (qsmtpd/data.c) and the hand-off to
    qmail-queue (qsmtpd/queue.c), on top of the byte-level line reader of
    Model/NetRead.v.  Definitions only.

    The client is a list of byte segments sent in lock step (a segment arrives
    when the server blocks in read()); the observable behaviour is the list of
    events: reply codes, hand-offs (envelope and message bytes accepted by
    qmail-queue) and the end of the connection.

    Parsing of addresses and HELO arguments, the user data base, DNS, the relay
    list and qmail-queue are ORACLES (record [oracles]): the theorems hold for
    every oracle; the correspondence run instantiates them to match the scratch
    configuration of the harness.  The dispatcher is driven by the commands[]
    table regenerated from the C source (Gen/GenSession.v). *)
From Qv Require Import Common.Bytes Gen.GenNetio Gen.GenSession Model.NetRead.

(** ---------- oracles ---------- *)
Inductive rclass := RLocal | RNotLocal.
Inductive ap_result :=
| AP_nobracket                       (* no '<' where the path must start: EINVAL *)
| AP_syntax                          (* addrsyntax refused: 501 written, EBOGUS *)
| AP_nouser                          (* local domain, no such user: 550 written, result -1 *)
| AP_ok (addr : bytes) (more : option bytes) (cls : rclass).

Inductive ext_result := Ext_ok (thisbytes : N) (bonus : nat) (body8 : option bool) | Ext_einval | Ext_enoexec.
Inductive qq_outcome :=
| QQ_ok                              (* reads everything, exits 0 *)
| QQ_exit (code : nat)               (* reads everything, exits with a non-zero code *)
| QQ_die_write                       (* dies before the envelope was written completely: the envelope write or waitpid shows it *)
| QQ_die_early                       (* is dead before the first data line is written: that write fails with EPIPE *)
| QQ_signal                          (* reads everything, killed by a signal *)
| QQ_nostart                         (* queue_init() fails: pipe() or fork() failed, or the child was already gone when queue_init() looked
                                        (waitpid(WNOHANG): exec of $QMAILQUEUE failed - _exit(120) - or the program died at once):
                                        "451 4.3.2 can not connect to queue", no 354 *)
| QQ_die_hdr.                        (* the child was still there when queue_init() looked and is gone before the Received: header is
                                        written: write_received() fails with EPIPE, err_write at once *)
Definition qq_nostart (q : qq_outcome) : bool := match q with QQ_nostart => true | _ => false end.
Definition qq_die_hdr (q : qq_outcome) : bool := match q with QQ_die_hdr => true | _ => false end.
(** smtp_auth on the text behind "AUTH ": the mechanism table, base64 decoding and the backend (checkpassword) are the oracle *)
Inductive auth_result :=
| Auth_ok (name : bytes)             (* mechanism handler returned 0: "235", xmitstat.authname = name (not empty) *)
| Auth_done (code : N)               (* a final reply was written and EDONE returned: 535 (after sleep), 504, 501, 454 *)
| Auth_multi.                        (* the mechanism goes on reading lines: outside this model (property C09) *)

(** result of a command handler: errno-style code as in smtploop (HEXIT: the process ends, e.g. dieerror()) *)
Inductive hres := H0 | HEINVAL | HE2BIG | HENOEXEC | HSEQ (* 1 *) | HEDONE | HEBOGUS | HEMSGSIZE | HUNKNOWN | HEXIT | HEPROTO | HENOMEM.

(** the one evaluation of tls_verify() (qsmtpd/starttls.c) that gets past its guard on a connection: control/tlsclients,
    clientca.pem, the rehandshake that requests the client certificate, its verification and the comparison of its
    address with the list (all of it: Model/TlsVerify.v, property C01t) *)
Inductive tv_result :=
| TV_no                              (* 0: not entitled (no list, no CA file, no certificate, does not verify, address not listed) *)
| TV_yes (name : bytes)              (* 1: xmitstat.tlsclient = name *)
| TV_err (wrote454 : bool) (h : hres). (* < 0: -errno of loadlistfd / strdup (nothing written), or tls_out() after its "454 4.3.0 TLS ..."
                                        went out; h: the class of that errno in smtploop's switch (HEPROTO after a failed session id
                                        context or rehandshake, HENOMEM, ...).  HEXIT: the process ends without a further reply -
                                        the rehandshake timed out (dieerror(ETIMEDOUT) inside tls_check_cert) or ECONNRESET *)

Record oracles := {
  o_helo : bytes -> bool;                         (* helovalid() accepts the argument *)
  o_addr : bool -> bytes -> ap_result;            (* addrparse on the text after "MAIL FROM:" / "RCPT TO:" *)
  o_ext : bytes -> ext_result;                    (* smtp_from_extensions on the text behind '>' *)
  o_relay : Z;                                    (* lookupipbl_name(relayclients): <0 error, 0 no match, >0 match *)
  o_mx : bytes -> nat;                            (* ask_dnsmx on the address' domain: 0 ok, 1 none, 2 null MX *)
  o_qq : nat -> qq_outcome;                       (* behaviour of the k-th qmail-queue invocation *)
  o_databytes : N;                                (* control/databytes, 0 = unlimited *)
  o_liphost : bytes;                              (* control/localiphost (default: control/me) *)
  o_check2822 : bool;                             (* the recipients' check_strict_rfc2822 setting (uniform in the harness: global filterconf) *)
  o_authperm : bool;                              (* auth_permitted(): a backend is configured (and, with forcesslauth, TLS is active) *)
  o_auth : bytes -> auth_result;                  (* the mechanism handler on the text behind "AUTH " *)
  o_trace : bytes -> option bytes -> bytes -> bytes -> bool -> bytes -> N -> bytes;  (* Received-SPF + Received lines: authname, tlsclient, helo, sender, esmtp, first recipient, relayclient *)
  o_submission : bool;                            (* submission_mode: TCPLOCALPORT is "587" *)
  o_subm_date : bytes;                            (* the 31 octets date822() left in datebuf + 3 when the Received: line was written *)
  o_subm_stamp : bytes;                           (* gettimeofday() as ultostr(tv_sec) "." ultostr(tv_usec) *)
  o_msgidhost : bytes;                            (* control/msgidhost (default: the HELO name of control/me) *)
  o_tls : bool;                                   (* xmitstat.ssl != NULL: this channel is inside TLS *)
  o_tlsverify : tv_result                         (* what tls_verify() does behind its guard (reached at most once per connection) *)
}.

(** ---------- state ---------- *)
Record sstate := {
  rd : rstate;
  comstate : N;
  esmtp : bool;
  helostr : bytes;
  mailfrom : bytes;                   (* xmitstat.mailfrom: [] for none and for <> *)
  rcpts : list (bytes * bool);        (* head: address, ok *)
  rcptcount : nat;
  goodrcpt : nat;
  badcmds : nat;
  relayclient : N;
  thisbytes : N;
  qcount : nat;
  check2822 : N;                      (* xmitstat.check2822: 2 = not decided yet, 1 = every recipient so far wants the check, 0 = off *)
  datatype : bool;                     (* xmitstat.datatype: the client declared 8-bit data *)
  authname : bytes;                   (* xmitstat.authname: [] = not authenticated; never reset on a connection *)
  tlsclient : option bytes;           (* xmitstat.tlsclient: the address of an accepted client certificate; None = NULL; reset by freedata() *)
  ssl_verified : bool                 (* static ssl_verified of starttls.c: tls_verify() has done its check on this connection *)
}.

(** Ghost notes: not observable on the wire; they mark, inside the event
    stream, the points at which the property texts speak about the session. *)
Inductive note :=
| NBoundary                                  (* sender and recipients are discarded (freedata) *)
| NHelo                                      (* HELO / EHLO accepted *)
| NEsmtp (e : bool)                          (* ... and which of the two it was: true = EHLO (stands right behind NHelo) *)
| NMail (sender : bytes)                     (* MAIL FROM accepted *)
| NRcpt (addr : bytes) (cls : rclass)        (* RCPT TO accepted *)
| NWithdraw                                  (* second recipient of a bounce: all recipients accepted so far are withdrawn *)
| NData (k : nat)                            (* DATA accepted: 354 sent, k-th qmail-queue invocation runs *)
| NAuth (name : bytes)                        (* AUTH succeeded: xmitstat.authname = name *)
| NCert (name : bytes)                        (* tls_verify() accepted the client certificate: xmitstat.tlsclient = name, relayclient = 1 *)
| NBad                                       (* check_max_bad_commands() counted one more bad command *)
| NBadReset                                  (* the bad command counter was set to 0 *)
| NBadClose.                                 (* check_max_bad_commands() ends the connection *)

Inductive event :=
| Reply (code : N)
| Handoff (envelope message : bytes)
| Closed
| EStuck
| Note (n : note).

Definition set_rd (s : sstate) (r : rstate) : sstate :=
  {| rd := r; comstate := comstate s; esmtp := esmtp s; helostr := helostr s; mailfrom := mailfrom s; rcpts := rcpts s;
     rcptcount := rcptcount s; goodrcpt := goodrcpt s; badcmds := badcmds s; relayclient := relayclient s;
     thisbytes := thisbytes s; qcount := qcount s; check2822 := check2822 s; datatype := datatype s; authname := authname s ; tlsclient := tlsclient s; ssl_verified := ssl_verified s |}.
Definition set_comstate (s : sstate) (c : N) : sstate :=
  {| rd := rd s; comstate := c; esmtp := esmtp s; helostr := helostr s; mailfrom := mailfrom s; rcpts := rcpts s;
     rcptcount := rcptcount s; goodrcpt := goodrcpt s; badcmds := badcmds s; relayclient := relayclient s;
     thisbytes := thisbytes s; qcount := qcount s; check2822 := check2822 s; datatype := datatype s; authname := authname s; tlsclient := tlsclient s; ssl_verified := ssl_verified s |}.
Definition set_badcmds (s : sstate) (b : nat) : sstate :=
  {| rd := rd s; comstate := comstate s; esmtp := esmtp s; helostr := helostr s; mailfrom := mailfrom s; rcpts := rcpts s;
     rcptcount := rcptcount s; goodrcpt := goodrcpt s; badcmds := b; relayclient := relayclient s;
     thisbytes := thisbytes s; qcount := qcount s; check2822 := check2822 s; datatype := datatype s; authname := authname s; tlsclient := tlsclient s; ssl_verified := ssl_verified s |}.

(** xmitstat.authname.len != 0: AUTH succeeded on this connection *)
Definition authed (s : sstate) : bool := match authname s with [] => false | _ => true end.
(** is_authenticated_client(): an AUTH name or the address of an accepted client certificate *)
Definition authed_client (s : sstate) : bool := authed s || match tlsclient s with Some _ => true | None => false end.

Definition helo_state (e : bool) : N := if e then 16%N else 8%N.      (* 0x008 << esmtp *)
Definition TRANS_STATES : N := 2144%N.                                 (* 0x0860: MAIL, RCPT, BDAT *)

(** freedata(): sender, recipients, counters, the certificate name; leaves the transaction states *)
Definition freedata (s : sstate) : sstate :=
  {| rd := rd s;
     comstate := if N.eqb (N.land (comstate s) TRANS_STATES) 0 then comstate s else helo_state (esmtp s);
     esmtp := esmtp s; helostr := helostr s; mailfrom := []; rcpts := []; rcptcount := 0; goodrcpt := 0;
     badcmds := badcmds s; relayclient := relayclient s; thisbytes := thisbytes s; qcount := qcount s; check2822 := check2822 s; datatype := datatype s; authname := authname s; tlsclient := None; ssl_verified := ssl_verified s |}.

(** data_pending(): a byte waiting in the current segment is pulled into lineinn *)
Definition data_pending (s : sstate) : bool * sstate :=
  match inn (rd s) with
  | _ :: _ => (true, s)
  | [] =>
      match cur (en (rd s)) with
      | b :: c' => (true, set_rd s {| inn := [b]; en := {| cur := c'; future := future (en (rd s)) |} |})
      | [] => (false, s)
      end
  end.

Definition tarpit (s : sstate) : sstate := snd (data_pending s).

Definition strncaseeq (name line : bytes) : bool :=
  Nat.leb (length name) (length line)
  && bytes_eqb (map to_upper (firstn (length name) line)) (map to_upper name).

(** line_valid(): every byte is 1..127 *)
Definition line_valid (l : bytes) : bool := forallb (fun b => N.ltb 0 b && N.ltb b 128) l.

(** wait_for_quit(): only QUIT is accepted, everything else 503 until too many bad commands *)
Fixpoint wait_for_quit (fuel : nat) (s : sstate) : list event :=
  match fuel with
  | O => [EStuck]
  | S f =>
      let '(it, r') := net_read (rd s) in
      let s := set_rd s r' in
      match it with
      | Dead => []
      | Stuck => [EStuck]
      | _ =>
          (* linein is stale after a read error; the harness never sends QUIT in that situation *)
          let isquit := match it with Line l => strncaseeq [81; 85; 73; 84]%N l && Nat.eqb (length l) 4 | _ => false end in
          if isquit then [Reply 221; Closed]
          else if Nat.ltb MAXBADCMDS (badcmds s) then [Note NBadClose; Reply 550; Closed]
          else Note NBad :: Reply 503 :: wait_for_quit f (set_badcmds s (S (badcmds s)))
      end
  end.

(** sync_pipelining(): None = fine, Some evs = the session ends in wait_for_quit *)
Definition sync_pipelining (fuel : nat) (s : sstate) : option (list event) * sstate :=
  let '(p, s') := data_pending s in
  if negb p then (None, s')
  else if esmtp s' then (Some (Reply 503 :: wait_for_quit fuel s'), s')
  else
    (* hasinput(1): consume one line, 550, wait for quit *)
    let '(it, r') := net_read (rd s') in
    let s'' := set_rd s' r' in
    match it with
    | Line _ => (Some (Reply 550 :: wait_for_quit fuel s''), s'')
    | Dead => (Some [], s'')
    | _ => (Some (Reply 503 :: wait_for_quit fuel s''), s'')       (* read error: falls back to the 503 path *)
    end.

(** ---------- DATA ---------- *)
Definition is_dot (l : bytes) : bool := match l with [46%N] => true | _ => false end.
Definition unstuff (l : bytes) : bytes := match l with 46%N :: r => r | _ => l end.
Definition maxbytes (o : oracles) : N := if N.eqb (o_databytes o) 0 then 18446744073709550615%N else o_databytes o.
Definition is_received (l : bytes) : bool := strncaseeq [82; 101; 99; 101; 105; 118; 101; 100; 58]%N l.

Inductive dend :=
| D_eod (msg : bytes) (msgsize : N) (seen : list bytes)   (* terminating dot reached, message complete *)
| D_toobig (linein : bytes) (seen : list bytes)           (* msgsize > maxbytes: drain, EMSGSIZE *)
| D_loop (linein : bytes) (seen : list bytes)             (* too many hops: drain, 554 *)
| D_readerr (e2big : bool) (linein : bytes)    (* net_read failed: drain, 500 / E2BIG; linein keeps the previous line *)
| D_wfail (linein : bytes)                     (* a write to qmail-queue failed (EPIPE): err_write *)
| D_reject (code : N) (linein : bytes)         (* errmsgs[] set: RfC 2822 header check (550) or Delivered-To: loop (554): drain, reply *)
| D_dead | D_stuck.

(** [seen] is a ghost: the data lines written to the queue so far, oldest first; it does not
    influence the behaviour and exists for the statements of C02 / C15. *)

(** one net_read inside smtp_data *)
Definition dread (r : rstate) (prev : bytes) : (dend + bytes) * rstate :=
  let '(it, r') := net_read r in
  match it with
  | Dead => (inl D_dead, r')
  | Stuck => (inl D_stuck, r')
  | Einval => (inl (D_readerr false prev), r')
  | E2big => (inl (D_readerr true prev), r')
  | Line l => (inr l, r')
  end.

Definition dfinal (o : oracles) (l msg : bytes) (msgsize : N) (seen : list bytes) : dend :=
  if N.ltb (maxbytes o) msgsize then D_toobig l seen else D_eod msg msgsize seen.

(** what smtp_data needs to know besides the reader: does the next write to qmail-queue fail, is the RfC 2822 header
    check on (xmitstat.check2822 & 1), did the client declare 8-bit data, the accepted recipients (Delivered-To:),
    submission mode and the variable pieces of the header fields it adds (xmitstat.mailfrom among them) *)
Record dcfg := { d_wfail : bool; d_chk : bool; d_dt : bool; d_rcpts : list bytes;
                 d_subm : bool; d_date : bytes; d_from : bytes; d_stamp : bytes; d_idhost : bytes }.

Definition has8 (l : bytes) : bool := existsb (fun b => N.leb 128 b) l.
(** check_rfc822_headers(): Date: / From: / Message-Id: (bits 1, 2, 4) *)
Definition known_hdr (l : bytes) : option N :=
  if strncaseeq [68; 97; 116; 101; 58]%N l then Some 1%N
  else if strncaseeq [70; 114; 111; 109; 58]%N l then Some 2%N
  else if strncaseeq [77; 101; 115; 115; 97; 103; 101; 45; 73; 100; 58]%N l then Some 4%N
  else None.
Definition s_delivered_to : bytes := [68; 101; 108; 105; 118; 101; 114; 101; 100; 45; 84; 111; 58]%N.   (* "Delivered-To:" *)
Definition is_delivered_to (rc : list bytes) (l : bytes) : bool :=
  Nat.leb 20 (length l) && bytes_eqb (firstn 13 l) s_delivered_to && existsb (bytes_eqb (skipn 14 l)) rc.

(** the body loop: [l] is the line in linein *)
Fixpoint body_loop (fuel : nat) (o : oracles) (dc : dcfg) (r : rstate) (l msg : bytes) (msgsize : N) (seen : list bytes)
  : dend * rstate :=
  match fuel with
  | O => (D_stuck, r)
  | S f =>
      if is_dot l || N.ltb (maxbytes o) msgsize then (dfinal o l msg msgsize seen, r)
      else if d_chk dc && negb (d_dt dc) && has8 l then (D_reject 550 l, r)
      else if d_wfail dc then (D_wfail l, r)
      else
        let msg' := msg ++ unstuff l ++ [LF] in
        let sz' := (msgsize + N.of_nat (length (unstuff l)) + 2)%N in
        match dread r l with
        | (inl d, r') => (d, r')
        | (inr l', r') => body_loop f o dc r' l' msg' sz' (seen ++ [l])
        end
  end.

(** submission mode, after the header loop: the fields whose flag is not set are written with one writev(), in the
    order Date, From, Message-Id: "Date: " datebuf+3 (32 octets: the date of the Received: line and its LF),
    "From: <" xmitstat.mailfrom ">\n", "Message-Id: <" sec "." usec "@" msgidhost ">\n".  msgsize is not touched. *)
Definition subm_additions (dc : dcfg) (hf : N) : bytes :=
  (if N.eqb (N.land hf 1) 0 then SUBM_DATE_PFX ++ d_date dc ++ [LF] else [])
  ++ (if N.eqb (N.land hf 2) 0 then SUBM_FROM_PFX ++ d_from dc ++ SUBM_FROM_END else [])
  ++ (if N.eqb (N.land hf 4) 0 then SUBM_MSGID_PFX ++ d_stamp dc ++ SUBM_MSGID_AT ++ d_idhost dc ++ SUBM_MSGID_END else []).

(** the header checks of one line that does not start with a dot: None = refused with 550,
    Some (flags, flagr): new header flags, "may be a Received: or Delivered-To: line".
    They run when (xmitstat.check2822 & 1) || submission_mode. *)
Definition hdr_check (dc : dcfg) (hf : N) (l : bytes) : option (N * bool) :=
  if negb (d_chk dc || d_subm dc) then Some (hf, true)
  else if has8 l then None
  else match known_hdr l with
       | Some bit => if N.eqb (N.land hf bit) 0 then Some (N.lor hf bit, false) else None
       | None => Some (hf, true)
       end.

(** the header loop, then the empty line and the body *)
Fixpoint hdr_loop (fuel : nat) (o : oracles) (dc : dcfg) (r : rstate) (l msg : bytes) (msgsize : N) (hops : nat) (hf : N)
  (seen : list bytes) : dend * rstate :=
  match fuel with
  | O => (D_stuck, r)
  | S f =>
      if is_dot l || N.ltb (maxbytes o) msgsize || Nat.eqb (length l) 0 || Nat.ltb MAXHOPS hops then
        (* submission mode: the missing ones of Date, From, Message-Id are written (a writev() of nothing does not fail);
           otherwise Date: and From: are required when the check is on *)
        let add := if d_subm dc then subm_additions dc hf else [] in
        if d_subm dc && d_wfail dc && negb (Nat.eqb (length add) 0) then (D_wfail l, r)
        else if negb (d_subm dc) && d_chk dc && (N.eqb (N.land hf 1) 0 || N.eqb (N.land hf 2) 0) then (D_reject 550 l, r)
        else
        let msg := msg ++ add in
        match l with
        | [] =>
            (* "\n" is written, msgsize += 2, next line, body loop *)
            if d_wfail dc then (D_wfail l, r) else
            match dread r l with
            | (inl d, r') => (d, r')
            | (inr l', r') => body_loop f o dc r' l' (msg ++ [LF]) (msgsize + 2)%N (seen ++ [l])
            end
        | _ => (dfinal o l msg msgsize seen, r)
        end
      else
        let dotl := N.eqb (nth 0 l 0%N) DOT in
        match (if dotl then Some (hf, false) else hdr_check dc hf l) with
        | None => (D_reject 550 l, r)
        | Some (hf', flagr) =>
            let rcv := negb dotl && flagr && is_received l in
            let hops' := if rcv then S hops else hops in
            if rcv && Nat.ltb MAXHOPS hops' then (D_loop l seen, r)
            else if negb dotl && flagr && negb (is_received l) && is_delivered_to (d_rcpts dc) l then (D_reject 554 l, r)
            else if d_wfail dc then (D_wfail l, r)
            else
              let msg' := msg ++ unstuff l ++ [LF] in
              let sz' := (msgsize + N.of_nat (length (unstuff l)) + 2)%N in
              match dread r l with
              | (inl d, r') => (d, r')
              | (inr l', r') => hdr_loop f o dc r' l' msg' sz' hops' hf' (seen ++ [l])
              end
        end
  end.

Definition data_loop (fuel : nat) (o : oracles) (dc : dcfg) (r : rstate) (trace : bytes) : dend * rstate :=
  match dread r [] with
  | (inl d, r') => (d, r')
  | (inr l, r') => hdr_loop fuel o dc r' l trace 0%N 0 0%N []
  end.

(** eat everything up to the line with the single dot (loop_data / err_write); [prev_dot]: linein already is "." *)
Fixpoint drain (fuel : nat) (r : rstate) (lastline : bytes) : bool * rstate :=
  if is_dot lastline then (true, r) else
  match fuel with
  | O => (false, r)
  | S f =>
      let '(it, r') := net_read r in
      match it with
      | Dead | Stuck => (false, r')
      | Line l => drain f r' l
      | _ => drain f r' lastline          (* linein keeps the previous line after a read error *)
      end
  end.

(** the drain loop of err_write: it stops at the first read error (second component: stopped by an error) *)
Fixpoint drain_break (fuel : nat) (r : rstate) (lastline : bytes) : bool * bool * rstate :=
  if is_dot lastline then (true, false, r) else
  match fuel with
  | O => (false, false, r)
  | S f =>
      let '(it, r') := net_read r in
      match it with
      | Dead | Stuck => (false, false, r')
      | Line l => drain_break f r' l
      | _ => (true, true, r')
      end
  end.

(** queue_envelope(): a recipient whose domain is an address literal (it was accepted only because the
    literal is the local IP address) is written as local@localiphost *)
Fixpoint rewrite_literal (liphost addr : bytes) : bytes :=
  match addr with
  | [] => []
  | 64%N :: 91%N :: _ => 64%N :: liphost            (* "@[" *)
  | b :: r => if N.eqb b 64 then addr else b :: rewrite_literal liphost r
  end.

Definition envelope (liphost from : bytes) (rc : list (bytes * bool)) : bytes :=
  [70%N] ++ from ++ [0%N]
  ++ concat (map (fun x => [84%N] ++ rewrite_literal liphost (fst x) ++ [0%N]) (filter (fun x => snd x) rc))
  ++ [0%N].

(** ---------- handlers ---------- *)
Definition set_relayclient (s : sstate) (rc : N) : sstate :=
  {| rd := rd s; comstate := comstate s; esmtp := esmtp s; helostr := helostr s; mailfrom := mailfrom s;
     rcpts := rcpts s; rcptcount := rcptcount s; goodrcpt := goodrcpt s; badcmds := badcmds s;
     relayclient := rc; thisbytes := thisbytes s; qcount := qcount s; check2822 := check2822 s; datatype := datatype s; authname := authname s; tlsclient := tlsclient s; ssl_verified := ssl_verified s |}.
Definition set_authname (s : sstate) (nm : bytes) : sstate :=
  {| rd := rd s; comstate := comstate s; esmtp := esmtp s; helostr := helostr s; mailfrom := mailfrom s;
     rcpts := rcpts s; rcptcount := rcptcount s; goodrcpt := goodrcpt s; badcmds := badcmds s;
     relayclient := relayclient s; thisbytes := thisbytes s; qcount := qcount s; check2822 := check2822 s; datatype := datatype s; authname := nm; tlsclient := tlsclient s; ssl_verified := ssl_verified s |}.

Definition set_tlsclient (s : sstate) (tc : option bytes) : sstate :=
  {| rd := rd s; comstate := comstate s; esmtp := esmtp s; helostr := helostr s; mailfrom := mailfrom s;
     rcpts := rcpts s; rcptcount := rcptcount s; goodrcpt := goodrcpt s; badcmds := badcmds s;
     relayclient := relayclient s; thisbytes := thisbytes s; qcount := qcount s; check2822 := check2822 s; datatype := datatype s; authname := authname s; tlsclient := tc; ssl_verified := ssl_verified s |}.
Definition set_verified (s : sstate) : sstate :=
  {| rd := rd s; comstate := comstate s; esmtp := esmtp s; helostr := helostr s; mailfrom := mailfrom s;
     rcpts := rcpts s; rcptcount := rcptcount s; goodrcpt := goodrcpt s; badcmds := badcmds s;
     relayclient := relayclient s; thisbytes := thisbytes s; qcount := qcount s; check2822 := check2822 s; datatype := datatype s; authname := authname s; tlsclient := tlsclient s; ssl_verified := true |}.

(** tls_verify(): "if (!xmitstat.ssl || ssl_verified || is_authenticated_client()) return 0; ssl_verified = 1;" and then the
    check, whose outcome is the oracle.  None = returned 0 at once. *)
Definition tls_verify (o : oracles) (s : sstate) : option tv_result * sstate :=
  if negb (o_tls o) || ssl_verified s || authed_client s then (None, s)
  else (Some (o_tlsverify o), set_verified s).

(** result of is_authenticated(): may relay / may not / an error code (< 0) that the caller passes on *)
Inductive rdres := RD_ok (allowed : bool) | RD_fail (h : hres).

(** is_authenticated() for an address outside rcpthosts.
    1. is_authenticated_client(): an AUTH name or an accepted certificate entitles; nothing else is consulted.
    2. the relay list is looked up once and the outcome is cached in relayclient (1 allowed, 2 not); it is set to 2
       BEFORE the result is inspected, so an unreadable or malformed list never allows relaying (421 written, -EDONE).
    3. "if (!(relayclient & 1)) { i = tls_verify(); if (i < 0) return i; relayclient = i ? 1 : relayclient; }"
    4. "return (relayclient == 1) ? 1 : 0".
    Result: (decision, new state, what was written: a 421 / 454 reply; the ghost note of an accepted certificate). *)
Definition relay_decide (o : oracles) (s : sstate) (cls : rclass) : rdres * sstate * list event :=
  match cls with
  | RLocal => (RD_ok true, s, [])
  | RNotLocal =>
      if authed_client s then (RD_ok true, s, []) else
      let '(lerr, s1) :=
        if N.eqb (relayclient s) 0 then (Z.ltb (o_relay o) 0, set_relayclient s (if Z.ltb 0 (o_relay o) then 1%N else 2%N))
        else (false, s) in
      if lerr then (RD_fail HEDONE, s1, [Reply 421])
      else if N.eqb (N.land (relayclient s1) 1) 0 then
        match tls_verify o s1 with
        | (None, s2) | (Some TV_no, s2) => (RD_ok (N.eqb (relayclient s2) 1), s2, [])
        | (Some (TV_yes name), s2) => (RD_ok true, set_relayclient (set_tlsclient s2 (Some name)) 1%N, [Note (NCert name)])
        | (Some (TV_err w h), s2) =>
            (RD_fail (match h with H0 => HUNKNOWN | _ => h end), s2,
             (if w then [Reply 454] else []) ++ (match h with HEXIT => [Closed] | _ => [] end))
        end
      else (RD_ok (N.eqb (relayclient s1) 1), s1, [])
  end.

(** the gate of smtp_from in submission mode: the same is_authenticated() as for a recipient outside rcpthosts
    (AUTH or certificate on this connection, or the relay list, cached in relayclient); on other ports there is no gate *)
Definition subm_gate (o : oracles) (s : sstate) : rdres * sstate * list event :=
  if o_submission o then relay_decide o s RNotLocal else (RD_ok true, s, []).

Definition h_rcpt (o : oracles) (s : sstate) (arg : bytes) : list event * hres * sstate :=
  match o_addr o true arg with
  | AP_nobracket => ([], HEINVAL, s)
  | _ =>
  if Nat.leb MAXRCPT (rcptcount s) then ([Reply 452], H0, s)
  else match o_addr o true arg with
  | AP_nobracket => ([], HEINVAL, s)
  | AP_syntax => ([Reply 501], HEBOGUS, tarpit s)
  | AP_nouser => ([Reply 550], HEBOGUS, tarpit s)
  | AP_ok addr more cls =>
      let '(res, s1, pre) := relay_decide o s cls in
      match res with
      | RD_fail h => (pre, h, s1)                       (* error reading the relay list (421 written) or in tls_verify(): nothing accepted *)
      | RD_ok allowed =>
      if negb allowed then (pre ++ [Reply 551], HEBOGUS, tarpit s1)
      else
        let mx := match cls with RNotLocal => o_mx o addr | RLocal => 0 end in
        if Nat.eqb mx 1 then (pre ++ [Reply 451], HEDONE, s1)
        else if Nat.eqb mx 2 then (pre ++ [Reply 556], HEDONE, s1)
        else match more with
        | Some _ => (pre, HEINVAL, s1)
        | None =>
            let bounce2 := Nat.ltb 0 (rcptcount s1) && match mailfrom s1 with [] => true | _ => false end in
            if bounce2 then
              (* 550, the first recipient is withdrawn, goodrcpt = 0 *)
              let rc' := match rcpts s1 with (a, _) :: t => (a, false) :: t | [] => [] end ++ [(addr, false)] in
              (pre ++ [Note NWithdraw; Reply 550], HEBOGUS,
               tarpit {| rd := rd s1; comstate := comstate s1; esmtp := esmtp s1; helostr := helostr s1; mailfrom := mailfrom s1;
                         rcpts := rc'; rcptcount := S (rcptcount s1); goodrcpt := 0; badcmds := badcmds s1;
                         relayclient := relayclient s1; thisbytes := thisbytes s1; qcount := qcount s1; check2822 := check2822 s1; datatype := datatype s1; authname := authname s1; tlsclient := tlsclient s1; ssl_verified := ssl_verified s1 |})
            else
              (pre ++ [Note (NRcpt addr cls); Reply 250], H0,
               {| rd := rd s1; comstate := comstate s1; esmtp := esmtp s1; helostr := helostr s1; mailfrom := mailfrom s1;
                  rcpts := rcpts s1 ++ [(addr, true)]; rcptcount := S (rcptcount s1); goodrcpt := S (goodrcpt s1);
                  badcmds := badcmds s1; relayclient := relayclient s1; thisbytes := thisbytes s1; qcount := qcount s1;
                  (* cb_check2822: one recipient without the setting switches the check off for the connection *)
                  check2822 := if N.eqb (check2822 s1) 0 then 0%N else if o_check2822 o then 1%N else 0%N;
                  datatype := datatype s1; authname := authname s1; tlsclient := tlsclient s1; ssl_verified := ssl_verified s1 |})
        end
      end
  end
  end.

Definition h_from (o : oracles) (s : sstate) (arg : bytes) (linelen : nat) : list event * hres * sstate :=
  let clear (s : sstate) :=
    {| rd := rd s; comstate := comstate s; esmtp := esmtp s; helostr := helostr s; mailfrom := []; rcpts := rcpts s;
       rcptcount := rcptcount s; goodrcpt := goodrcpt s; badcmds := badcmds s; relayclient := relayclient s;
       thisbytes := 0%N; qcount := qcount s; check2822 := check2822 s; datatype := false; authname := authname s; tlsclient := tlsclient s; ssl_verified := ssl_verified s |} in
  let s := clear s in
  match o_addr o false arg with
  | AP_nobracket => ([], HEINVAL, s)
  | apr =>
  (* "if we are in submission mode we require authentication before any mail": is_authenticated(), before addrparse *)
  let '(res, s, pre) := subm_gate o s in
  match res with
  | RD_fail h => (pre, h, s)                          (* error reading the relay list (421 written) or in tls_verify() *)
  | RD_ok allowed =>
  if negb allowed then (pre ++ [Reply 550], HEDONE, s)      (* "550 5.7.1 authentication required" *)
  else
  match apr with
  | AP_nobracket => (pre, HEINVAL, s)
  | AP_syntax => (pre ++ [Reply 501], HEBOGUS, tarpit s)
  | AP_nouser => (pre ++ [Reply 550], HEBOGUS, tarpit s)
  | AP_ok addr more _ =>
      match (if esmtp s then None else more) with
      | Some _ => (pre, HEINVAL, s)
      | None =>
          match (match more with Some m => o_ext o m | None => Ext_ok 0%N 0 None end) with
          | Ext_einval => (pre, HEINVAL, s)
          | Ext_enoexec => (pre, HENOEXEC, s)
          | Ext_ok tb bonus body8 =>
              if Nat.ltb (CMD_LINE_MAX + bonus) linelen then (pre, HE2BIG, s)
              else if negb (N.eqb (o_databytes o) 0) && N.ltb (o_databytes o) tb then (pre ++ [Reply 452], HEDONE, s)
              else
                (pre ++ [Note (NMail addr); Reply 250], H0,
                 {| rd := rd s; comstate := comstate s; esmtp := esmtp s; helostr := helostr s; mailfrom := addr; rcpts := rcpts s;
                    rcptcount := rcptcount s; goodrcpt := 0; badcmds := badcmds s; relayclient := relayclient s;
                    thisbytes := tb; qcount := qcount s; check2822 := check2822 s;
                    datatype := match body8 with Some b => b | None => false end; authname := authname s; tlsclient := tlsclient s; ssl_verified := ssl_verified s |})
          end
      end
  end
  end
  end.

(** what linein holds when smtp_data starts: the command line (any line that is not the lone dot would do) *)
Definition s_data_line : bytes := [68; 65; 84; 65]%N.

Definition h_data (fuel : nat) (o : oracles) (s : sstate) : list event * hres * sstate :=
  if Nat.eqb (goodrcpt s) 0 then ([Reply 554], HEDONE, tarpit s)
  else
    let '(sp, s) := sync_pipelining fuel s in
    match sp with
    | Some evs => (evs, HEXIT, s)
    | None =>
        let k := qcount s in
        let s := {| rd := rd s; comstate := comstate s; esmtp := esmtp s; helostr := helostr s; mailfrom := mailfrom s;
                    rcpts := rcpts s; rcptcount := rcptcount s; goodrcpt := goodrcpt s; badcmds := badcmds s;
                    relayclient := relayclient s; thisbytes := thisbytes s; qcount := S k; check2822 := check2822 s; datatype := datatype s; authname := authname s; tlsclient := tlsclient s; ssl_verified := ssl_verified s |} in
        (* queue_init(): no reply yet, nothing of the transaction is touched; the client may try DATA again *)
        if qq_nostart (o_qq o k) then ([Reply 451], HEDONE, s)
        else if qq_die_hdr (o_qq o k) then
          (* 354, write_received() fails: err_write with the DATA command line still in linein *)
          let '(alive, _, r2) := drain_break fuel (rd s) s_data_line in
          if negb alive then ([Note (NData k); Reply 354], HEXIT, set_rd s r2)
          else ([Note (NData k); Reply 354; Note NBoundary; Reply 451], HEDONE, freedata (set_rd s r2))
        else
        let first := match rcpts s with (a, _) :: _ => a | [] => [] end in
        let trace := o_trace o (authname s) (tlsclient s) (helostr s) (mailfrom s) (esmtp s) first (relayclient s) in
        let dc := {| d_wfail := match o_qq o k with QQ_die_early => true | _ => false end;
                     d_chk := N.eqb (check2822 s) 1; d_dt := datatype s;
                     d_rcpts := map fst (filter (fun x => snd x) (rcpts s));
                     d_subm := o_submission o; d_date := o_subm_date o; d_from := mailfrom s;
                     d_stamp := o_subm_stamp o; d_idhost := o_msgidhost o |} in
        let '(de, r') := data_loop fuel o dc (rd s) trace in
        let s' := set_rd s r' in
        match de with
        | D_dead => ([Note (NData k); Reply 354], HEXIT, s')
        | D_stuck => ([Note (NData k); Reply 354; EStuck], HEXIT, s')
        | D_eod msg _ _ =>
            (* queue_envelope (freedata) + queue_result *)
            let env := envelope (o_liphost o) (mailfrom s') (rcpts s') in
            let sf := freedata s' in
            match o_qq o k with
            | QQ_ok => ([Note (NData k); Reply 354; Handoff env msg; Note NBoundary; Reply 250], H0, sf)
            | QQ_exit c =>
                if Nat.leb QQ_PERM_LO c && Nat.leb c QQ_PERM_HI then ([Note (NData k); Reply 354; Note NBoundary; Reply 554], HEDONE, sf)
                else ([Note (NData k); Reply 354; Note NBoundary; Reply 451], HEDONE, sf)
            | QQ_signal => ([Note (NData k); Reply 354; Note NBoundary; Reply 451], HEDONE, sf)
            | QQ_die_write | QQ_die_early | QQ_nostart | QQ_die_hdr => ([Note (NData k); Reply 354; Note NBoundary; Reply 451], HEDONE, sf)
            end
        | D_wfail l =>
            (* err_write: the transaction is dropped, the rest of the data is read up to the dot or to the first read error, 451 *)
            let '(alive, _, r2) := drain_break fuel r' l in
            if negb alive then ([Note (NData k); Reply 354], HEXIT, set_rd s' r2)
            else ([Note (NData k); Reply 354; Note NBoundary; Reply 451], HEDONE, freedata (set_rd s' r2))
        | D_toobig l _ =>
            let '(alive, r2) := drain fuel r' l in
            if alive then ([Note (NData k); Reply 354; Note NBoundary], HEMSGSIZE, freedata (set_rd s' r2)) else ([Note (NData k); Reply 354], HEXIT, set_rd s' r2)
        | D_loop l _ =>
            let '(alive, r2) := drain fuel r' l in
            if alive then ([Note (NData k); Reply 354; Note NBoundary; Reply 554], HEDONE, freedata (set_rd s' r2)) else ([Note (NData k); Reply 354], HEXIT, set_rd s' r2)
        | D_reject code l =>
            let '(alive, r2) := drain fuel r' l in
            if alive then ([Note (NData k); Reply 354; Note NBoundary; Reply code], HEDONE, freedata (set_rd s' r2)) else ([Note (NData k); Reply 354], HEXIT, set_rd s' r2)
        | D_readerr big l =>
            let '(alive, r2) := drain fuel r' l in
            if negb alive then ([Note (NData k); Reply 354], HEXIT, set_rd s' r2)
            else if big then ([Note (NData k); Reply 354; Note NBoundary], HE2BIG, freedata (set_rd s' r2))
            else ([Note (NData k); Reply 354; Note NBoundary; Reply 500], HEDONE, freedata (set_rd s' r2))
        end
    end.

(** ---------- the command loop ---------- *)
Fixpoint find_cmd (tbl : list (list N * N * nat * Z * N)) (i : nat) (line : bytes)
  : option (nat * (list N * N * nat * Z * N)) :=
  match tbl with
  | [] => None
  | c :: t => let '(name, _, _, _, _) := c in
              if strncaseeq name line then Some (i, c) else find_cmd t (S i) line
  end.

(** the error branch of smtploop for a non-zero flagbogus *)
Definition on_error (s : sstate) (h : hres) : list event * option sstate :=
  if Nat.ltb MAXBADCMDS (badcmds s) then ([Note NBadClose; Reply 550; Closed], None)
  else
    let s := set_badcmds s (S (badcmds s)) in
    match h with
    | HEINVAL | HE2BIG => ([Note NBad; Reply 500], Some (tarpit s))
    | HENOEXEC => ([Note NBad; Reply 501], Some (tarpit s))
    | HSEQ => ([Note NBad; Reply 503], Some (tarpit s))
    | HEDONE => ([Note NBad; Note NBadReset], Some (set_badcmds s 0))
    | HEMSGSIZE => ([Note NBad; Note NBadReset; Reply 552], Some (set_badcmds s 0))
    | HUNKNOWN => ([Note NBad; Note NBadReset; Reply 500], Some (set_badcmds s 0))   (* default branch: "500 5.3.0 unknown error" *)
    | HEBOGUS => ([Note NBad], Some s)
    | HEPROTO => ([Note NBad; Reply 550], Some s)                                     (* "550 5.7.5 data encryption error" *)
    | HENOMEM => ([Note NBad; Note NBadReset; Reply 452], Some (set_badcmds s 0))     (* "452-4.3.0 out of memory" ... "452 4.3.0 please try again later" *)
    | H0 | HEXIT => ([], Some s)
    end.

(** the command handlers, selected by the handler column of commands[]; the fourth
    component is what commands[i].state is after the handler ran *)
Definition run_handler (f : nat) (o : oracles) (s : sstate) (l : bytes) (namelen : nat) (hid : nat) (st : Z)
  : list event * hres * sstate * Z :=
  let rest_ := skipn namelen l in
  match hid with
  | 0 => (* smtp_noop *)
      let '(sp, s') := sync_pipelining f s in
      match sp with
      | Some e => (e, HEXIT, s', st)
      | None => ([Reply 250], H0, s', st)
      end
  | 1 => ([Reply 221; Closed], HEXIT, s, st)
  | 2 => (* smtp_rset *)
      if N.leb 8 (comstate s) then ([Note NBoundary; Reply 250], H0, freedata s, Z.of_N (helo_state (esmtp s)))
      else ([Reply 250], H0, s, st)
  | 3 => (* smtp_helo *)
      let s' := freedata s in
      let s' := {| rd := rd s'; comstate := comstate s'; esmtp := false; helostr := helostr s'; mailfrom := mailfrom s';
                   rcpts := rcpts s'; rcptcount := rcptcount s'; goodrcpt := goodrcpt s'; badcmds := badcmds s';
                   relayclient := relayclient s'; thisbytes := thisbytes s'; qcount := qcount s'; check2822 := check2822 s'; datatype := false; authname := authname s'; tlsclient := tlsclient s'; ssl_verified := ssl_verified s' |} in
      if o_helo o (skipn 5 l) then
        ([Note NBoundary; Note NHelo; Note (NEsmtp false); Reply 250], H0,
         {| rd := rd s'; comstate := comstate s'; esmtp := false; helostr := skipn 5 l; mailfrom := mailfrom s';
            rcpts := rcpts s'; rcptcount := rcptcount s'; goodrcpt := goodrcpt s'; badcmds := badcmds s';
            relayclient := relayclient s'; thisbytes := thisbytes s'; qcount := qcount s'; check2822 := check2822 s'; datatype := datatype s'; authname := authname s'; tlsclient := tlsclient s'; ssl_verified := ssl_verified s' |}, st)
      else ([Note NBoundary], HEINVAL, s', st)
  | 4 => (* smtp_ehlo *)
      let s' := freedata s in
      if o_helo o (skipn 5 l) then
        ([Note NBoundary; Note NHelo; Note (NEsmtp true); Reply 250], H0,
         {| rd := rd s'; comstate := comstate s'; esmtp := true; helostr := skipn 5 l; mailfrom := mailfrom s';
            rcpts := rcpts s'; rcptcount := rcptcount s'; goodrcpt := goodrcpt s'; badcmds := badcmds s';
            relayclient := relayclient s'; thisbytes := thisbytes s'; qcount := qcount s'; check2822 := check2822 s'; datatype := datatype s'; authname := authname s'; tlsclient := tlsclient s'; ssl_verified := ssl_verified s' |}, st)
      else ([Note NBoundary], HEINVAL, s', st)
  | 5 => let '(e, h, s') := h_from o s rest_ (length l) in (e, h, s', st)
  | 6 => let '(e, h, s') := h_rcpt o s rest_ in (e, h, s', st)
  | 7 => let '(e, h, s') := h_data f o s in
         (e, h, s', match h with H0 => Z.of_N (helo_state (esmtp s')) | _ => st end)
  | 8 => (* smtp_starttls: "if (xmitstat.ssl || !xmitstat.esmtp) return 1" (no TLS in this model; the flag can be clear in the
            EHLO state: a refused HELO clears it); then, without a certificate (harness configuration), tls_err() writes 454
            and returns -EDONE, which smtploop does not know: "500 5.3.0 unknown error" follows *)
         if negb (esmtp s) then ([], HSEQ, s, st) else ([Reply 454], HUNKNOWN, s, st)
  | 9 => (* smtp_auth: "if (xmitstat.authname.len || !auth_permitted()) return 1" *)
      if authed s || negb (o_authperm o) then ([], HSEQ, s, st)
      else match o_auth o (skipn 5 l) with
           | Auth_ok name => ([Note (NAuth name); Reply 235], H0, set_authname s name, st)
           | Auth_done c => ([Reply c], HEDONE, s, st)
           | Auth_multi => ([EStuck], HEXIT, s, st)
           end
  | 10 => ([Reply 252], H0, s, st)
  | 12 => (* http_post *)
      if N.eqb (comstate s) 1 && bytes_eqb (sub l 4 10) [32; 47; 32; 72; 84; 84; 80; 47; 49; 46]%N
      then ([Closed], HEXIT, s, st)
      else ([], HEINVAL, s, st)
  | _ => ([], HEINVAL, s, st)
  end.

(** what smtploop does with the handler's result *)
Definition after_handler (i : nat) (r : list event * hres * sstate * Z) : list event * hres * sstate :=
  let '(evs, h, s1, newstate) := r in
  match h with
  | H0 =>
      let c := if Z.ltb 0 newstate then Z.to_N newstate
               else if Z.eqb newstate 0 then N.shiftl 1 (N.of_nat i)
               else comstate s1 in
      (evs, H0, set_badcmds (set_comstate s1 c) 0)
  | _ => (evs, h, s1)
  end.

(** find the command, check state mask, length and argument shape, run the handler *)
Definition dispatch (f : nat) (o : oracles) (s : sstate) (l : bytes) : list event * hres * sstate :=
  if negb (line_valid l) then ([], HEINVAL, s)
  else match find_cmd commands 0 l with
  | None => ([], HEINVAL, s)
  | Some (i, (name, mask, hid, st, flags)) =>
      if N.eqb (N.land (comstate s) mask) 0 then ([], HSEQ, s)
      else if N.eqb (N.land flags 2) 0 && Nat.ltb CMD_LINE_MAX (length l) then ([], HE2BIG, s)
      else
        let rest_ := skipn (length name) l in
        if N.eqb (N.land flags 1) 0 && negb (Nat.eqb (length rest_) 0) then ([], HEINVAL, s)
        else if negb (N.eqb (N.land flags 4) 0) && negb (N.eqb (nth 0 rest_ 0%N) SP) then ([], HEINVAL, s)
        else after_handler i (run_handler f o s l (length name) hid st)
  end.

(** one round of the smtploop: read a line (or fail to), act on it.  [f] bounds the loops inside handlers. *)
Definition step (f : nat) (o : oracles) (s : sstate) : list event * option sstate :=
  let '(it, r') := net_read (rd s) in
  let s := set_rd s r' in
  match it with
  | Dead => ([], None)
  | Stuck => ([EStuck], None)
  | Einval => on_error s HEINVAL
  | E2big => on_error s HE2BIG
  | Line l =>
      let '(evs, h, s1) := dispatch f o s l in
      match h with
      | HEXIT => (evs, None)
      | H0 => (evs ++ [Note NBadReset], Some s1)        (* badcmds = 0 *)
      | _ => let '(ev, so) := on_error s1 h in (evs ++ ev, so)
      end
  end.

Fixpoint serve (fuel : nat) (o : oracles) (s : sstate) : list event :=
  match fuel with
  | O => [EStuck]
  | S f =>
      let '(ev, so) := step f o s in
      ev ++ match so with Some s' => serve f o s' | None => [] end
  end.

Definition init_state (chunks : list bytes) : sstate :=
  {| rd := {| inn := []; en := {| cur := []; future := chunks |} |};
     comstate := 1%N; esmtp := false; helostr := []; mailfrom := []; rcpts := []; rcptcount := 0; goodrcpt := 0;
     badcmds := 0; relayclient := 0%N; thisbytes := 0%N; qcount := 0; check2822 := 2%N; datatype := false; authname := []; tlsclient := None; ssl_verified := false |}.

Definition session_fuel (chunks : list bytes) : nat := S (S (length (concat chunks))).

(** greeting, then the loop *)
Definition run_session (o : oracles) (chunks : list bytes) : list event :=
  Reply 220 :: serve (session_fuel chunks) o (init_state chunks).

(** Functional (L2) models of the buffer code of qremote/qrdata.c: the input is
    consumed left to right with a small state and the concatenated output is
    produced, without staging buffer, offsets or fuel.  Proofs/QrPlainProofs.v
    shows that the literal models of Model/QrData.v write exactly this (as the
    concatenation of their netnwrite() calls), whatever the buffer boundaries. *)
From Qv Require Import Common.Bytes Gen.GenQrdata Model.Mime Model.QrData.

(** send_plain: [llen] = the C variable (is something on the current line already?) *)
Fixpoint plain_enc (llen : bool) (l : bytes) : bytes :=
  match l with
  | [] => []
  | c :: r =>
      if N.eqb c CR then
        match r with
        | c2 :: r2 => if N.eqb c2 LF then CR :: LF :: plain_enc false r2 else CR :: LF :: plain_enc false r
        | [] => [CR; LF]
        end
      else if N.eqb c LF then CR :: LF :: plain_enc false r
      else if N.eqb c DOT && negb llen then DOT :: DOT :: plain_enc true r
      else c :: plain_enc true r
  end.

(** need_recode over the rest of the buffer *)
Definition nr_final (res : Flags) (llen : nat) (inbody : bool) : Flags :=
  if Nat.ltb NR_LIMIT llen then set_long res inbody else res.

Fixpoint nr_fun (rest : bytes) (res : Flags) (llen : nat) (inbody : bool) : Flags :=
  match rest with
  | [] => nr_final res llen inbody
  | c :: r =>
      if f8 res && fline res then nr_final res llen inbody else
      let res := nr_final res llen inbody in
      if is8 c then nr_fun r (mkFlags true (fline res) (fhdr res)) (S llen) inbody
      else if is_eol c then
        let inbody1 := if Nat.eqb llen 0 then true else inbody in
        match r with
        | c2 :: r2 =>
            if N.eqb c CR && N.eqb c2 LF then
              if Nat.ltb (S (length r2)) NR_SHORT && f8 res then res else nr_fun r2 res 0 inbody1
            else
              if Nat.ltb (S (length r)) NR_SHORT && f8 res then res else nr_fun r res 0 inbody1
        | [] => if Nat.ltb 1 NR_SHORT && f8 res then res else nr_final res 0 inbody1
        end
      else nr_fun r res (S llen) inbody
  end.

(* ------------------------------------------------------------------ recode_qp *)
(** The one place where the staging buffer shows in the output: at a soft line break the C looks at
    the previous output octet (a blank is then followed by the next plain character, or recoded)
    only if that octet is still in sendbuf.  [vs] lists, for the soft breaks that follow a literal
    blank, whether it was (true) or had already been written out (false).
    [held] = a literal blank that has been taken from the input (and counted in [llen]) but not yet
    emitted, because the next step may still recode it. *)
Definition olist (h : option N) : bytes := match h with Some c => [c] | None => [] end.
Definition SOFT : bytes := [EQUALS; CR; LF].
Definition blank_code (c : N) : bytes := if N.eqb c HT then [EQUALS; 48; 57]%N else [EQUALS; 50; 48]%N.
Definition hex_code (c : N) : bytes := [EQUALS; hexchar (N.land (N.shiftr c 4) 15); hexchar (N.land c 15)].

Fixpoint qp_enc (vs : list bool) (llen : nat) (held : option N) (rest : bytes) {struct rest} : bytes :=
  match rest with
  | [] => olist held
  | c :: r =>
      if N.eqb c CR then
        olist held ++ CR :: LF ::
          match r with
          | c2 :: r2 => if N.eqb c2 LF then qp_enc vs 0 None r2 else qp_enc vs 0 None r
          | [] => []
          end
      else if N.eqb c LF then olist held ++ CR :: LF :: qp_enc vs 0 None r
      else
        (* [c] taken at line length [l], nothing held, after [pre] has been emitted *)
        let normal (pre : bytes) (vs : list bool) (l : nat) : bytes :=
          if Nat.eqb l 0 && N.eqb c DOT then pre ++ DOT :: DOT :: qp_enc vs 1 None r
          else if is_blank c then
            match r with
            | [] => pre ++ blank_code c ++ CRLF
            | c2 :: r2 =>
                if N.eqb c2 CR then
                  pre ++ blank_code c ++ CRLF ++
                    match r2 with
                    | c3 :: r3 => if N.eqb c3 LF then qp_enc vs 0 None r3 else qp_enc vs 0 None r2
                    | [] => []
                    end
                else if N.eqb c2 LF then pre ++ blank_code c ++ CRLF ++ qp_enc vs 0 None r2
                else pre ++ qp_enc vs (S l) (Some c) r
            end
          else if qp_must_encode c then pre ++ hex_code c ++ qp_enc vs (l + 3) None r
          else pre ++ c :: qp_enc vs (S l) None r in
        if Nat.ltb QP_SOFT llen then
          match held with
          | Some hb =>
              match vs with
              | true :: vs' =>
                  if qp_plain_next c then hb :: c :: SOFT ++ qp_enc vs' 0 None r
                  else normal (blank_code hb ++ SOFT) vs' 0
              | _ :: vs' => normal (hb :: SOFT) vs' 0
              | [] => normal (hb :: SOFT) [] 0
              end
          | None => normal SOFT vs 0
          end
        else normal (olist held) vs llen
  end.

(** [c] (neither CR nor LF) taken at line length [l <= QP_SOFT] with nothing held, after [pre] has been
    emitted: the local [normal] of [qp_enc] as a definition of its own *)
Definition qp_norm (c : N) (r : bytes) (pre : bytes) (vs : list bool) (l : nat) : bytes :=
  if Nat.eqb l 0 && N.eqb c DOT then pre ++ DOT :: DOT :: qp_enc vs 1 None r
  else if is_blank c then
    match r with
    | [] => pre ++ blank_code c ++ CRLF
    | c2 :: r2 =>
        if N.eqb c2 CR then
          pre ++ blank_code c ++ CRLF ++
            match r2 with
            | c3 :: r3 => if N.eqb c3 LF then qp_enc vs 0 None r3 else qp_enc vs 0 None r2
            | [] => []
            end
        else if N.eqb c2 LF then pre ++ blank_code c ++ CRLF ++ qp_enc vs 0 None r2
        else pre ++ qp_enc vs (S l) (Some c) r
    end
  else if qp_must_encode c then pre ++ hex_code c ++ qp_enc vs (l + 3) None r
  else pre ++ c :: qp_enc vs (S l) None r.

(** Functional (L2) models of the buffer code of qremote/qrdata.c: the input is
    consumed left to right with a small state and the concatenated output is
    produced, without staging buffer, offsets or fuel.  Proofs/QrPlainProofs.v
    shows that the literal models of Model/QrData.v write exactly this (as the
    concatenation of their netnwrite() calls), whatever the buffer boundaries. *)
From Qv Require Import Common.Bytes Gen.GenQrdata Model.Mime Model.QrData.

(** send_plain: [llen] = the C variable (is something on the current line already?) *)
Fixpoint plain_enc (llen : bool) (l : bytes) : bytes :=
  match l with
  | [] => []
  | c :: r =>
      if N.eqb c CR then
        match r with
        | c2 :: r2 => if N.eqb c2 LF then CR :: LF :: plain_enc false r2 else CR :: LF :: plain_enc false r
        | [] => [CR; LF]
        end
      else if N.eqb c LF then CR :: LF :: plain_enc false r
      else if N.eqb c DOT && negb llen then DOT :: DOT :: plain_enc true r
      else c :: plain_enc true r
  end.

(** need_recode over the rest of the buffer *)
Definition nr_final (res : Flags) (llen : nat) (inbody : bool) : Flags :=
  if Nat.ltb NR_LIMIT llen then set_long res inbody else res.

Fixpoint nr_fun (rest : bytes) (res : Flags) (llen : nat) (inbody : bool) : Flags :=
  match rest with
  | [] => nr_final res llen inbody
  | c :: r =>
      if f8 res && fline res then nr_final res llen inbody else
      let res := nr_final res llen inbody in
      if is8 c then nr_fun r (mkFlags true (fline res) (fhdr res)) (S llen) inbody
      else if is_eol c then
        let inbody1 := if Nat.eqb llen 0 then true else inbody in
        match r with
        | c2 :: r2 =>
            if N.eqb c CR && N.eqb c2 LF then
              if Nat.ltb (S (length r2)) NR_SHORT && f8 res then res else nr_fun r2 res 0 inbody1
            else
              if Nat.ltb (S (length r)) NR_SHORT && f8 res then res else nr_fun r res 0 inbody1
        | [] => if Nat.ltb 1 NR_SHORT && f8 res then res else nr_final res 0 inbody1
        end
      else nr_fun r res (S llen) inbody
  end.

(** Model of Qremote from the established connection on (property C04):
    qremote/reply.c (netget, dieerror), qremote/client.c (checkreply),
    qremote/envelope.c (send_envelope, pipelined and not), qremote/qrdata.c
    (send_data: the reply handling; the encoded message is an opaque input),
    qremote/status.c (the four write_status* functions), qremote/qremote.c
    (main from the argument check on, quitmsg, net_conn_shutdown).
    Executable definitions only.

    The server is a script: one [event] per net_read() call.  Observable: the
    exit code, the bytes written to fd 1 (status stream) and to the socket.
    All letters, masks, bounds and texts come from Gen/GenQremote.v, i.e. from
    the C sources of this run.  C strings are byte lists cut at the first NUL
    ([cstr]) wherever the C uses strlen().

    Not modelled (stubbed in the harness, listed as assumptions): MX lookup,
    connect, greeting/EHLO/STARTTLS (the extension set is an input), TLS, the
    encoding of the message body (C06/C07), failing write()/malloc(). *)
From Qv Require Import Common.Bytes Gen.GenNetio Gen.GenQremote Model.NetWriten.
Local Open Scope bool_scope.

(** one result of net_read(1) *)
Inductive event :=
| EvLine (l : bytes)   (* a CRLF-terminated line, [l] without the CRLF; may hold any byte *)
| EvInval              (* stray CR or LF: errno EINVAL *)
| EvTooLong            (* line longer than the buffer: errno E2BIG *)
| EvIOErr              (* read() failed with another errno (the harness uses EIO) *)
| EvTimeout            (* poll() timed out: net_read calls dieerror(ETIMEDOUT) *)
| EvClose.             (* read() returned 0: net_read calls dieerror(ECONNRESET) *)
Definition script := list event.   (* an exhausted script is a closed connection *)

Record world := mkW {
  w_linein : bytes;    (* linein.s[0 .. linein.len) *)
  w_status : bytes;    (* everything written to statusfd so far *)
  w_net : bytes;       (* everything written to the socket so far *)
  w_sock : bool        (* socketd >= 0 *)
}.

(** a C function either returns (value, remaining script, world) or the process exits *)
Inductive res (A : Type) :=
| Ret (a : A) (scr : script) (w : world)
| Exit (code : nat) (w : world)
| Unmodelled (why : N).     (* net_writen's own undefined behaviour (see Model/NetWriten.v) *)
Arguments Ret {A} a scr w.
Arguments Exit {A} code w.
Arguments Unmodelled {A} why.

(** strlen() view of a buffer *)
Fixpoint cstr (b : bytes) : bytes :=
  match b with
  | [] => []
  | x :: b' => if N.eqb x 0 then [] else x :: cstr b'
  end.

(* ---------------------------------------------------------------- status.c *)
Definition st_put (b : bytes) (w : world) : world :=
  mkW (w_linein w) (w_status w ++ b) (w_net w) (w_sock w).
(** write_status_raw(str, len): exactly the bytes given *)
Definition write_status_raw (b : bytes) (w : world) : world := st_put b w.
(** write_status(str): strlen(str) bytes, then "\n" with iov_len 2 (newline and NUL) *)
Definition write_status (s : bytes) (w : world) : world := st_put (cstr s ++ QR_STATUS_TERM) w.
Definition write_status_raw_m (strs : list bytes) (w : world) : world := st_put (concat (map cstr strs)) w.
Definition write_status_m (strs : list bytes) (w : world) : world :=
  st_put (concat (map cstr strs) ++ QR_STATUS_TERM) w.

(* ---------------------------------------------------------------- socket *)
Definition net_put (b : bytes) (w : world) : world :=
  mkW (w_linein w) (w_status w) (w_net w ++ b) (w_sock w).
Definition netwrite (s : bytes) (w : world) : world := net_put (cstr s) w.
Definition net_write_multiline (parts : list bytes) (w : world) : world := net_put (concat (map cstr parts)) w.
(** net_writen(): the C10 model, applied to the strlen() view of the parts *)
Definition net_writen_cmd (parts : list bytes) (w : world) : Cres world :=
  match map cstr parts with
  | [] => Crash 100
  | s0 :: ps => do ls <- net_writen s0 ps; Ok (net_put (concat ls) w)
  end.

(* ---------------------------------------------------------------- qremote.c: quitmsg, net_conn_shutdown *)
(** quitmsg(): QUIT, then replies are read with net_read(0) until one without '-'
    (errors only logged, nothing is written to the status stream): the reads are
    not modelled because nothing observable follows them.  That net_read(0) really
    returns whatever the server does -- also inside an over-long line, where loop_long()
    used to call dieerror() -- is theorem C04_quitmsg_silent over the byte-level model
    of the same function in Model/TlsClient.v. *)
Definition quitmsg (w : world) : world :=
  let w1 := netwrite QR_CMD_QUIT w in mkW (w_linein w1) (w_status w1) (w_net w1) false.
(** both end in exit(): the pair is (exit code, final world) *)
Definition shutdown_clean (w : world) : nat * world :=
  (QR_EXIT_CODE, if w_sock w then quitmsg w else w).
Definition shutdown_abort (w : world) : nat * world :=
  (QR_EXIT_CODE, mkW (w_linein w) (w_status w) (w_net w) false).
Definition exit_with {A} (p : nat * world) : res A := Exit (fst p) (snd p).

(* ---------------------------------------------------------------- reply.c *)
Definition dieerror_timedout (w : world) : nat * world := shutdown_abort (write_status QR_MSG_TIMEDOUT w).
Definition dieerror_reset (w : world) : nat * world := shutdown_abort (write_status QR_MSG_DIED w).

Definition set_linein (l : bytes) (w : world) : world := mkW l (w_status w) (w_net w) (w_sock w).

Definition zch (l : bytes) (i : nat) : Z := Z.of_N (nth i l 0%N).

(** the reply-code arithmetic of netget() on linein *)
Definition netget_code (l : bytes) : option Z :=
  if Nat.ltb 3 (length l) && (N.eqb (nth 3 l 0%N) SP || N.eqb (nth 3 l 0%N) DASH) then
    let r := (zch l 0 - 48)%Z in
    let q := (zch l 1 - 48)%Z in
    if (QR_NG_D0_MIN <=? r)%Z && (r <=? QR_NG_D0_MAX)%Z && (0 <=? q)%Z && (q <=? 9)%Z then
      let r := (r * 10 + q)%Z in
      let q := (zch l 2 - 48)%Z in
      if (0 <=? q)%Z && (q <=? 9)%Z then Some (r * 10 + q)%Z else None
    else None
  else None.

Definition syntax_exit (w : world) : nat * world := shutdown_clean (write_status QR_MSG_SYNTAX w).

(** strerror(EIO); libc text, only used by the EvIOErr event *)
Definition STRERROR_EIO : bytes :=
  [73; 110; 112; 117; 116; 47; 111; 117; 116; 112; 117; 116; 32; 101; 114; 114; 111; 114]%N.

(** netget(1) on one event: exit (left) or the reply code with linein set (right) *)
Definition netget_ev (ev : event) (w : world) : (nat * world) + (Z * world) :=
  match ev with
  | EvLine l =>
      let w1 := set_linein l w in
      match netget_code l with
      | Some c => inr (c, w1)
      | None => inl (syntax_exit w1)
      end
  | EvInval | EvTooLong => inl (syntax_exit w)
  | EvIOErr => inl (shutdown_clean (write_status_m [QR_MSG_IOERR_PRE; STRERROR_EIO] w))
  | EvTimeout => inl (dieerror_timedout w)
  | EvClose => inl (dieerror_reset w)
  end.

Definition netget1 (scr : script) (w : world) : res Z :=
  match scr with
  | [] => exit_with (dieerror_reset w)
  | ev :: scr' =>
      match netget_ev ev w with
      | inr (c, w1) => Ret c scr' w1
      | inl e => exit_with e
      end
  end.

(* ---------------------------------------------------------------- client.c: checkreply *)
(** the buffered continuation line as written by write_status_raw(): with '\n'
    stored at its end, measured by strlen() or by linein.len (Gen: which one the C uses) *)
Definition cont_line (l : bytes) : bytes :=
  (if QR_CR_CONT_STRLEN then cstr l else l) ++ [LF].

(** [while (linein.s[3] == '-')] *)
Fixpoint ml_loop (ignore : bool) (scr : script) (w : world) : res unit :=
  if N.eqb (nth 3 (w_linein w) 0%N) DASH then
    let w1 := if ignore then w else write_status_raw (cont_line (w_linein w)) w in
    match scr with
    | [] => exit_with (dieerror_reset w1)
    | ev :: scr' =>
        match netget_ev ev w1 with
        | inr (_, w2) => ml_loop ignore scr' w2
        | inl e => exit_with e
        end
    end
  else Ret tt scr w.

(** checkreply() between netget(1) and the continuation loop: the [if (status) { ... }]
    block.  Result: the value of [ignore] and the world after the writes. *)
Definition cr_head (status : option bytes) (pre : option (list bytes)) (mask : N) (res : Z) (w1 : world)
  : bool * world :=
  match status with
  | None => (true, w1)
  | Some st =>
      let '(ign, m) :=
        if (QR_SUCCESS_MINIMUM_STATUS <=? res)%Z && (res <=? QR_SUCCESS_MAXIMUM_STATUS)%Z then
          (if N.eqb (nth 0 st 0%N) SP then (true, 0) else (false, 0))
        else if (QR_TEMP_MINIMUM_STATUS <=? res)%Z && (res <=? QR_TEMP_MAXIMUM_STATUS)%Z then (false, 1)
        else (false, 2) in
      if ign then (true, w1) else
        let wa := write_status_raw [nth m st 0%N] w1 in
        let wb := match pre with
                  | Some p => if negb (N.eqb (N.land (N.shiftl 1 (N.of_nat m)) mask) 0)
                              then write_status_raw_m p wa else wa
                  | None => wa
                  end in
        if Nat.eqb m 0 && negb (N.eqb (N.land mask QR_CR_NOMSG_MASK) 0)
        then (true, write_status_raw [0%N] wb)
        else (false, wb)
  end.

Definition checkreply (status : option bytes) (pre : option (list bytes)) (mask : N)
                      (scr : script) (w : world) : res Z :=
  match netget1 scr w with
  | Ret res scr1 w1 =>
      let '(ignore, w2) := cr_head status pre mask res w1 in
      match ml_loop ignore scr1 w2 with
      | Ret _ scr3 w3 =>
          let w4 := if ignore then w3 else write_status (w_linein w3) w3 in
          Ret (if (res <? QR_CR_CLAMP_BELOW)%Z then QR_CR_CLAMP_TO else res) scr3 w4
      | Exit c w' => Exit c w'
      | Unmodelled y => Unmodelled y
      end
  | Exit c w' => Exit c w'
  | Unmodelled y => Unmodelled y
  end.

(* ---------------------------------------------------------------- envelope.c: send_envelope *)
Record input := mkIn {
  i_ext : N;            (* smtpext after the greeting *)
  i_rhost : bytes;
  i_sender : bytes;     (* argv[2] *)
  i_sizestr : bytes;    (* ultostr(msgsize) *)
  i_recodeflag : N;     (* need_recode(msgdata, msgsize) *)
  i_body : bytes;       (* what send_plain()/send_qp() put on the wire between DATA and the dot *)
  i_lastlf : bool;      (* lastlf after that *)
  i_rcpts : list bytes; (* argv[3..] *)
  i_script : script
}.

Definition has (ext bit : N) : bool := negb (N.eqb (N.land ext bit) 0).

Definition mailerrmsg (rhost : bytes) : list bytes := [QR_MAILERR_0; rhost; QR_MAILERR_2].

(** netmsg[] after the SIZE and 8BITMIME blocks *)
Definition mail_parts (i : input) : list bytes :=
  [QR_CMD_MAIL; i_sender i]
  ++ (if has (i_ext i) QR_ESMTP_SIZE then [QR_CMD_SIZE; i_sizestr i] else [QR_CMD_GT])
  ++ (if has (i_ext i) QR_ESMTP_8BITMIME
      then [if negb (N.eqb (N.land (i_recodeflag i) 1) 0) then QR_CMD_BODY8 else QR_CMD_BODY7]
      else []).

(** [for (int i = 1; i < rcptcount; i++)] of the pipelined branch; [cur] = netmsg[0..lastmsg) *)
Fixpoint pipe_rcpts (idx n : nat) (rs : list bytes) (cur : list bytes) (w : world) : world :=
  match rs with
  | [] => w
  | r :: rs' =>
      let cur1 := cur ++ [r] in
      if Nat.eqb idx (n - 1) || Nat.eqb (Nat.modulo idx QR_PIPE_MOD) QR_PIPE_REM
      then pipe_rcpts (S idx) n rs' [QR_CMD_RCPT] (net_write_multiline (cur1 ++ [QR_CMD_PIPE_END]) w)
      else pipe_rcpts (S idx) n rs' (cur1 ++ [QR_CMD_PIPE_NEXT]) w
  end.

(** [for (int i = rcptcount; i > 0; i--) checkreply(NULL, NULL, 0);] *)
Fixpoint drain_replies (k : nat) (scr : script) (w : world) : res unit :=
  match k with
  | O => Ret tt scr w
  | S k' =>
      match checkreply None None 0 scr w with
      | Ret _ scr1 w1 => drain_replies k' scr1 w1
      | Exit c w' => Exit c w'
      | Unmodelled y => Unmodelled y
      end
  end.

(** [for (...) if (checkreply("rsh", NULL, 8) < 300) rcptstat = 0;] of the pipelined branch *)
Fixpoint rcpt_replies (k : nat) (rcptstat : Z) (scr : script) (w : world) : res Z :=
  match k with
  | O => Ret rcptstat scr w
  | S k' =>
      match checkreply (Some QR_ST_RCPT) None QR_MASK_RCPT scr w with
      | Ret r scr1 w1 => rcpt_replies k' (if (r <? QR_RCPT_OK_BELOW)%Z then 0%Z else rcptstat) scr1 w1
      | Exit c w' => Exit c w'
      | Unmodelled y => Unmodelled y
      end
  end.

(** the one-by-one loop of the branch without PIPELINING *)
Fixpoint rcpt_each (rs : list bytes) (rcptstat : Z) (scr : script) (w : world) : res Z :=
  match rs with
  | [] => Ret rcptstat scr w
  | r :: rs' =>
      match net_writen_cmd [QR_CMD_RCPT; r; QR_CMD_RCPT_END] w with
      | Ok w0 =>
          match checkreply (Some QR_ST_RCPT) None QR_MASK_RCPT scr w0 with
          | Ret c scr1 w1 => rcpt_each rs' (if (c <? QR_RCPT_OK_BELOW)%Z then 0%Z else rcptstat) scr1 w1
          | Exit c w' => Exit c w'
          | Unmodelled y => Unmodelled y
          end
      | Crash y => Unmodelled y
      | OutOfFuel => Unmodelled 101
      end
  end.

Definition send_envelope (i : input) (scr : script) (w : world) : res Z :=
  let n := length (i_rcpts i) in
  if has (i_ext i) QR_ESMTP_PIPELINING then
    let w1 := net_write_multiline (mail_parts i ++ [QR_CMD_PIPE_FIRST; nth 0 (i_rcpts i) []; QR_CMD_PIPE_END]) w in
    let w2 := pipe_rcpts 1 n (tl (i_rcpts i)) [QR_CMD_RCPT] w1 in
    match checkreply (Some QR_ST_MAIL) (Some (mailerrmsg (i_rhost i))) QR_MASK_MAIL scr w2 with
    | Ret r scr1 w3 =>
        if (QR_FAIL_FROM <=? r)%Z then
          match drain_replies n scr1 w3 with
          | Ret _ scr2 w4 => Ret 1%Z scr2 w4
          | Exit c w' => Exit c w'
          | Unmodelled y => Unmodelled y
          end
        else rcpt_replies n 1%Z scr1 w3
    | Exit c w' => Exit c w'
    | Unmodelled y => Unmodelled y
    end
  else
    match net_writen_cmd (mail_parts i) w with
    | Ok w1 =>
        match checkreply (Some QR_ST_MAIL) (Some (mailerrmsg (i_rhost i))) QR_MASK_MAIL scr w1 with
        | Ret r scr1 w2 =>
            if (QR_FAIL_FROM <=? r)%Z then Ret 1%Z scr1 w2
            else rcpt_each (i_rcpts i) 1%Z scr1 w2
        | Exit c w' => Exit c w'
        | Unmodelled y => Unmodelled y
        end
    | Crash y => Unmodelled y
    | OutOfFuel => Unmodelled 101
    end.

(* ---------------------------------------------------------------- qrdata.c: send_data *)
Definition successmsg (i : input) : list bytes :=
  [i_rhost i; QR_SUCC_1;
   (if (negb (has (i_ext i) QR_ESMTP_8BITMIME) && has (i_recodeflag i) QR_RECODE_8BIT) || has (i_recodeflag i) QR_RECODE_LONG
    then QR_SUCC_2_QP else QR_SUCC_2_PLAIN);
   QR_SUCC_3; QR_SUCC_4; QR_SUCC_5; QR_SUCC_6].

Definition send_data (i : input) (scr : script) (w : world) : res unit :=
  let w1 := netwrite QR_CMD_DATA w in
  match netget1 scr w1 with
  | Ret num scr1 w2 =>
      if negb (num =? QR_DATA_GO)%Z then
        exit_with (shutdown_clean (write_status_m [(if (QR_DATA_PERM_FROM <=? num)%Z then QR_DATA_REJ_PERM else QR_DATA_REJ_TEMP);
                                        QR_DATA_REJ_TXT; skipn 4 (w_linein w2)] w2))
      else
        let w3 := net_put (i_body i) w2 in
        let w4 := netwrite (if i_lastlf i then QR_DOT_AFTER_LF else QR_DOT_NO_LF) w3 in
        match checkreply (Some QR_ST_DOT) (Some (successmsg i)) QR_MASK_DOT scr1 w4 with
        | Ret _ scr2 w5 => Ret tt scr2 w5
        | Exit c w' => Exit c w'
        | Unmodelled y => Unmodelled y
        end
  | Exit c w' => Exit c w'
  | Unmodelled y => Unmodelled y
  end.

(* ---------------------------------------------------------------- qremote.c: main *)
Definition w_init : world := mkW [] [] [] false.

(** observable result of a run *)
Inductive obs :=
| Obs (code : nat) (status net : bytes)
| ObsUnmodelled (why : N)
| ObsReturned.            (* main() returned without exit(): never *)

Definition qremote_main (i : input) : obs :=
  let r : res unit :=
    if Nat.eqb (length (i_rcpts i)) 0 then
      (* rcptcount <= 0 *)
      exit_with (shutdown_abort (write_status QR_MSG_ARGS w_init))
    else
      (* getmxlist .. connect_mx succeeded: socketd >= 0, rhost and smtpext set *)
      let w := mkW [] [] [] true in
      match send_envelope i (i_script i) w with
      | Ret r scr1 w1 =>
          if negb (r =? 0)%Z then exit_with (shutdown_clean w1)
          else
            match send_data i scr1 w1 with
            | Ret _ _ w2 => exit_with (shutdown_clean w2)
            | Exit c w' => Exit c w'
            | Unmodelled y => Unmodelled y
            end
      | Exit c w' => Exit c w'
      | Unmodelled y => Unmodelled y
      end in
  match r with
  | Exit c w => Obs c (w_status w) (w_net w)
  | Ret _ _ _ => ObsReturned
  | Unmodelled y => ObsUnmodelled y
  end.

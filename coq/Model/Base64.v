(** Model of lib/base64.c: b64decode and b64encode.  Executable definitions only.

    Literal transcription: C variables [in], [l], [i], [j], [a[]], [b[]], [s]
    (the output pointer, kept as the reversed list of bytes stored so far),
    [oline], [shift].  Every access to [in[]] goes through [rd] (out of range =
    [Crash 1]), every store through [put] (past the malloc'ed size = [Crash 2]).
    Alphabet, padding character, shift amounts and buffer sizes come from
    Gen/GenBase64.v, i.e. from the C source of this run.

    The code modelled is the one with fixes/C09-b64-nul.diff applied:
    strchr() finds the terminating NUL of the alphabet string for a NUL input
    byte; the fixed code rejects that hit ([!*c]). *)
From Qv Require Import Common.Bytes Gen.GenBase64.

Definition rd (inp : bytes) (k : nat) : Cres N :=
  match nth_error inp k with Some b => Ok b | None => Crash 1 end.

(** [*s++ = b] into a buffer of [size] bytes; [acc] = bytes stored so far, newest first *)
Definition put (size : nat) (acc : bytes) (b : N) : Cres bytes :=
  if Nat.ltb (length acc) size then Ok (b :: acc) else Crash 2.

Fixpoint index_of (c : N) (s : bytes) (k : nat) : option nat :=
  match s with
  | [] => None
  | x :: s' => if N.eqb x c then Some k else index_of c s' (S k)
  end.

(** strchr(b64alpha, ch): the C string is the alphabet followed by its NUL, and
    strchr finds that NUL when asked for it *)
Definition strchr_alpha (c : N) : option nat := index_of c (B64_ALPHA ++ [0%N]) 0.

Definition u8 (x : N) : N := N.modulo x 256.

(** the CRLF skip in front of symbol [j]; [None] = return 1 *)
Definition skip_crlf (inp : bytes) (l i j : nat) : Cres (option nat) :=
  if Nat.ltb (i + j) l then
    do c <- rd inp (i + j);
    if N.eqb c CR then
      if Nat.eqb (i + j + 1) l then Ok None
      else
        let i1 := S i in
        do c2 <- rd inp (i1 + j);
        if negb (N.eqb c2 LF) then Ok None else Ok (Some (S i1))
    else Ok (Some i)
  else Ok (Some i).

(** one round of the inner [for (j…)] loop: new [i] and [a[j]]; [None] = return 1 *)
Definition sym_step (inp : bytes) (l i j : nat) : Cres (option (nat * N)) :=
  do r <- skip_crlf inp l i j;
  match r with
  | None => Ok None
  | Some i =>
      if Nat.ltb (i + j) l then
        do c <- rd inp (i + j);
        if negb (N.eqb c B64_PAD) then
          match strchr_alpha c with
          | None => Ok None
          | Some k => if N.eqb c 0 then Ok None          (* !*c : the hit is the terminator *)
                      else Ok (Some (i, N.of_nat k))
          end
        else Ok (Some (i, 0%N))
      else Ok (Some (i, 0%N))
  end.

Definition dec_b0 (a0 a1 : N) : N := u8 (N.lor (N.shiftl a0 B64_D_0L) (N.shiftr a1 B64_D_1R)).
Definition dec_b1 (a1 a2 : N) : N := u8 (N.lor (N.shiftl a1 B64_D_1L) (N.shiftr a2 B64_D_2R)).
Definition dec_b2 (a2 a3 : N) : N := u8 (N.lor (N.shiftl a2 B64_D_2L) a3).

Inductive dstep : Type :=
| DRej
| DStop (acc : bytes)
| DCont (i : nat) (acc : bytes).

(** [(i + k >= l) || (in[i + k] == B64PAD)] *)
Definition brk (inp : bytes) (l i k : nat) : Cres bool :=
  if Nat.leb l (i + k) then Ok true
  else do c <- rd inp (i + k); Ok (N.eqb c B64_PAD).

(** one round of the outer loop of b64decode *)
Definition group (inp : bytes) (l size i : nat) (acc : bytes) : Cres dstep :=
  do r0 <- sym_step inp l i 0;
  match r0 with None => Ok DRej | Some (i, a0) =>
  do r1 <- sym_step inp l i 1;
  match r1 with None => Ok DRej | Some (i, a1) =>
  do r2 <- sym_step inp l i 2;
  match r2 with None => Ok DRej | Some (i, a2) =>
  do r3 <- sym_step inp l i 3;
  match r3 with None => Ok DRej | Some (i, a3) =>
    do acc <- put size acc (dec_b0 a0 a1);
    do s1 <- brk inp l i B64_BRK1;
    if s1 then Ok (DStop acc) else
    do acc <- put size acc (dec_b1 a1 a2);
    do s2 <- brk inp l i B64_BRK2;
    if s2 then Ok (DStop acc) else
    do acc <- put size acc (dec_b2 a2 a3);
    Ok (DCont (i + B64_GROUP) acc)
  end end end end.

Fixpoint dloop (fuel : nat) (inp : bytes) (l size i : nat) (acc : bytes) : Cres (option bytes) :=
  if Nat.ltb i l then
    match fuel with
    | O => OutOfFuel
    | S f =>
        do r <- group inp l size i acc;
        match r with
        | DRej => Ok None
        | DStop acc => Ok (Some acc)
        | DCont i acc => dloop f inp l size i acc
        end
    end
  else Ok (Some acc).

(** [while (out->len && !out->s[out->len - 1]) --out->len;] on the reversed list *)
Fixpoint drop0 (acc : bytes) : bytes :=
  match acc with
  | b :: acc' => if N.eqb b 0 then drop0 acc' else acc
  | [] => []
  end.

(** b64decode(in, l, out): [Ok None] = return 1, [Ok (Some o)] = return 0 with
    out->len = |o| (out->s[out->len] is 0).  malloc is assumed to succeed. *)
Definition b64decode (inp : bytes) : Cres (option bytes) :=
  let l := length inp in
  if Nat.eqb l 0 then Ok (Some [])
  else
    let size := l + B64_DEC_SLACK in
    do r <- dloop (S l) inp l size 0 [];
    match r with
    | None => Ok None
    | Some acc =>
        if Nat.ltb (length acc) size then Ok (Some (rev (drop0 acc))) else Crash 3   (* *s = '\0' *)
    end.

(** ------------------------------------------------------------------ encoder *)

Definition alpha_at (k : N) : Cres N :=
  match nth_error B64_ALPHA (N.to_nat k) with Some c => Ok c | None => Crash 4 end.

Fixpoint puts (size : nat) (acc : bytes) (bs : bytes) : Cres bytes :=
  match bs with
  | [] => Ok acc
  | b :: bs' => do acc <- put size acc b; puts size acc bs'
  end.

(** the line wrapping after a group: [acc] newest first *)
Definition wrap (size : nat) (w oline : N) (acc : bytes) : Cres (N * bytes) :=
  if N.leb w oline then
    let shift := (oline - w + 1)%N in
    let sh := N.to_nat shift in
    if Nat.ltb B64_E_MOVEBUF sh then Crash 5            (* movebuf[] too small *)
    else if Nat.ltb (length acc) sh then Crash 6        (* s - shift in front of the buffer *)
    else
      let moved := rev (firstn sh acc) in
      do acc <- puts size (skipn sh acc) ([CR; LF] ++ moved);
      Ok (shift, acc)
  else Ok (oline, acc).

Fixpoint eloop (fuel : nat) (inp : bytes) (len size : nat) (w : N) (i : nat) (oline : N) (acc : bytes)
  : Cres bytes :=
  if Nat.ltb i len then
    match fuel with
    | O => OutOfFuel
    | S f =>
        do a <- rd inp i;
        do b <- (if Nat.ltb (i + 1) len then rd inp (i + 1) else Ok 0%N);
        do c <- (if Nat.ltb (i + 2) len then rd inp (i + 2) else Ok 0%N);
        do s0 <- alpha_at (N.shiftr a B64_E_0R);
        do acc <- put size acc s0;
        do s1 <- alpha_at (N.lor (N.shiftl (N.land a B64_E_1M) B64_E_1L) (N.shiftr b B64_E_1R));
        do acc <- put size acc s1;
        do s2 <- (if Nat.leb len (i + 1) then Ok B64_PAD
                  else alpha_at (N.lor (N.shiftl (N.land b B64_E_2M) B64_E_2L) (N.shiftr c B64_E_2R)));
        do acc <- put size acc s2;
        do s3 <- (if Nat.leb len (i + 2) then Ok B64_PAD else alpha_at (N.land c B64_E_3M));
        do acc <- put size acc s3;
        do r <- wrap size w (oline + 4)%N acc;
        let '(oline, acc) := r in
        eloop f inp len size w (i + 3) oline acc
    end
  else Ok acc.

(** b64encode(in, out, wraplimit); [w] = wraplimit (an unsigned int; -1 in
    qsmtpd/auth.c is 4294967295).  [oline] is modelled without wrap-around:
    statements about the encoder are made for outputs shorter than 2^32. *)
Definition b64encode (inp : bytes) (w : N) : Cres bytes :=
  let len := length inp in
  if Nat.eqb len 0 then Ok []
  else if N.eqb w 0 then Crash 7                     (* i / wraplimit *)
  else
    let i := (N.of_nat len / B64_E_IN * B64_E_OUT)%N in
    let size := N.to_nat (i + (i / w) * B64_E_PERWRAP + B64_E_SLACK)%N in
    do acc <- eloop (S len) inp len size w 0 0%N [];
    if Nat.ltb (length acc) size then Ok (rev acc) else Crash 3.

(** Models of the real filter functions of rcpt_cbs[] that stage 3 of C12 drives one at a time
    (engine rfilters): qsmtpd/filters/badmailfrom.c, helo.c, ipbl.c, soberg.c, check2822.c, forceesmtp.c, badcc.c,
    nomail.c, with the helpers of qsmtpd/backends/user_vpopm (getfile, userconf_get_buffer with "!inherit",
    userconf_find_domain) and qsmtpd/antispam.c (lookupipbl, check_rbl).  Executable definitions only.

    Reused models (each tied and proved in its own property): Filters.parse_conf / getsetting (C12 stage 1),
    FindDomain.finddomain, MatchNet.check_ip4/6, LoadFile.loadoneliner (C16), Addr.checkaddr / domainvalid (C14).

    The directory tree is a list of files (level 0 user / 1 domain / 2 global, name, content); the descriptors of
    struct userconf are the two booleans "the user directory exists" / "the domain directory is consulted".
    DNS is an oracle: the list of answers ask_dnsa() gives, in call order.  [None] = undefined behaviour of the C. *)
From Qv Require Import Common.Bytes Gen.GenFilters Gen.GenControl Model.Filters Model.FindDomain Model.MatchNet
  Model.LoadFile Model.InetPton Model.Addr Spec.ControlSpec.
Local Open Scope bool_scope.

Definition AT_SIGN : N := 64%N.
Definition DOT_CH : N := 46%N.

(* ------------------------------------------------------------------------------------------------ *)
(** * The directory tree and getfile() *)

Definition fsys := list (N * bytes * bytes).

Fixpoint fs_find (fs : fsys) (lvl : N) (name : bytes) : option bytes :=
  match fs with
  | [] => None
  | (l, n, c) :: r => if N.eqb l lvl && bytes_eqb n name then Some c else fs_find r lvl name
  end.

(** getfile(ds, fn, &type, flags): ( *type, the opened file or ENOENT) *)
Definition getfile (userdir domdir : bool) (fs : fsys) (name : bytes) (global : bool) : Z * option bytes :=
  match (if userdir then fs_find fs 0 name else None) with
  | Some c => (CONFIG_USER, Some c)
  | None =>
      if domdir then
        match fs_find fs 1 name with
        | Some c => (CONFIG_DOMAIN, Some c)
        | None => if global then (CONFIG_GLOBAL, fs_find fs 2 name) else (CONFIG_DOMAIN, None)
        end
      else if global then (CONFIG_GLOBAL, fs_find fs 2 name)
      else ((if userdir then CONFIG_USER else CONFIG_NONE), None)
  end.

(* ------------------------------------------------------------------------------------------------ *)
(** * loadlistfd with a check function, userconf_get_buffer, userconf_find_domain *)

Inductive cfkind := CfNone | CfCheckaddr | CfDomainvalid | CfDomainOrInherit.

Definition INHERIT : bytes := [33; 105; 110; 104; 101; 114; 105; 116]%N.   (* "!inherit" *)

(** does the check function accept the entry (return 0)?  [None]: the model of the function reports UB *)
Definition cf_accepts (cf : cfkind) (e : bytes) : option bool :=
  match cf with
  | CfNone => Some true
  | CfCheckaddr => match Addr.checkaddr pton4_ref pton6_ref (e ++ [0%N]) with Ok r => Some (Nat.eqb r 0) | _ => None end
  | CfDomainvalid => match Addr.domainvalid (e ++ [0%N]) with Ok r => Some (Nat.eqb r 0) | _ => None end
  | CfDomainOrInherit =>
      if bytes_eqb e INHERIT then Some true
      else match Addr.domainvalid (e ++ [0%N]) with Ok r => Some (Nat.eqb r 0) | _ => None end
  end.

Fixpoint cf_filter (cf : cfkind) (l : list bytes) : option (list bytes) :=
  match l with
  | [] => Some []
  | e :: r => match cf_accepts cf e, cf_filter cf r with
              | Some true, Some r' => Some (e :: r')
              | Some false, Some r' => Some r'
              | _, _ => None
              end
  end.

Inductive ucres :=
| UCrash
| UErr                                       (* negative errno *)
| UNone                                      (* CONFIG_NONE *)
| UList (type : Z) (vals : list bytes).

Fixpoint index_of (x : bytes) (l : list bytes) : option nat :=
  match l with
  | [] => None
  | e :: r => if bytes_eqb e x then Some 0 else option_map S (index_of x r)
  end.

Fixpoint remove_nth {A} (i : nat) (l : list A) : list A :=
  match l, i with
  | [], _ => []
  | _ :: r, O => r
  | a :: r, S i' => a :: remove_nth i' r
  end.

Fixpoint replace_nth {A} (i : nat) (x : A) (l : list A) : list A :=
  match l, i with
  | [], _ => []
  | _ :: r, O => x :: r
  | a :: r, S i' => a :: replace_nth i' x r
  end.

(** the two ways userconf_get_buffer puts the inherited values in: in place of "!inherit" when it is a single value
    not longer than "!inherit", else own values without "!inherit" followed by the inherited ones *)
Definition merge_inherit (vals : list bytes) (i : nat) (inh : list bytes) : list bytes :=
  match inh with
  | [x] => if Nat.leb (length x) (length INHERIT) then replace_nth i x vals else remove_nth i vals ++ inh
  | _ => remove_nth i vals ++ inh
  end.

(** userconf_get_buffer(ds, key, &values, cf, flags); [depth] bounds the recursion user -> domain -> global *)
Fixpoint get_buffer (depth : nat) (userdir domdir : bool) (fs : fsys) (key : bytes) (cf : cfkind)
                    (global inherit : bool) : ucres :=
  match getfile userdir domdir fs key global with
  | (_, None) => UNone
  | (ty, Some content) =>
      match parse_conf content with
      | None => UErr
      | Some raw =>
          match cf_filter cf raw with
          | None => UCrash
          | Some [] => UNone
          | Some vals =>
              if inherit && (Z.eqb ty CONFIG_USER || (Z.eqb ty CONFIG_DOMAIN && global)) then
                match index_of INHERIT vals, depth with
                | Some i, S d =>
                    match get_buffer d false (if Z.eqb ty CONFIG_DOMAIN then false else domdir) fs key cf global inherit with
                    | UList r inh =>
                        if Z.eqb r CONFIG_DOMAIN || Z.eqb r CONFIG_GLOBAL then UList ty (merge_inherit vals i inh)
                        else UList ty vals
                    | UNone => UList ty vals
                    | UErr => UErr
                    | UCrash => UCrash
                    end
                | _, _ => UList ty vals
                end
              else UList ty vals
          end
      end
  end.

Definition userconf_get_buffer (userdir : bool) (fs : fsys) (key : bytes) (cf : cfkind) (global inherit : bool) : ucres :=
  get_buffer 3 userdir true fs key cf global inherit.

(** finddomain never reports UB (FindDomainProofs.finddomain_correct); [None] keeps that visible here *)
Definition finddomain_o (buf dom : bytes) : option bool :=
  match FindDomain.finddomain buf dom with Ok b => Some b | _ => None end.

(** userconf_find_domain(ds, key, domain, flags): [Some CONFIG_NONE] or [Some type] *)
Definition userconf_find_domain (userdir : bool) (fs : fsys) (key dom : bytes) (global : bool) : option Z :=
  match getfile userdir true fs key global with
  | (_, None) => Some CONFIG_NONE
  | (ty, Some buf) =>
      match finddomain_o buf dom with
      | None => None
      | Some true => Some ty
      | Some false => Some CONFIG_NONE
      end
  end.

(* ------------------------------------------------------------------------------------------------ *)
(** * The session as the filters see it, and what a filter leaves behind *)

Record rsession := mk_rsession {
  r_userdir : bool;        (* ds->userdirfd >= 0 *)
  r_ipv4 : bool;           (* connection_is_ipv4() *)
  r_esmtp : bool;
  r_ssl : bool;
  r_auth : bool;
  r_helostatus : N;        (* xmitstat.helostatus, 0..7 *)
  r_check2822 : N;         (* xmitstat.check2822, 0..3 *)
  r_mailfrom : bytes;      (* xmitstat.mailfrom, [] = bounce *)
  r_helo : bytes;          (* HELOSTR *)
  r_ip : bytes;            (* xmitstat.sremoteip, 16 bytes *)
  r_rcpts : list bytes;    (* the recipient list before this recipient *)
  r_dns : list N;          (* answers of ask_dnsa() in call order *)
  r_t0 : Z;                (* *t on entry: what the previous filter left there *)
  r_fromdomain : Z;        (* xmitstat.fromdomain: 0 ok, 1 no MX, 2 null MX, DNS_ERROR_TEMP, DNS_ERROR_PERM *)
  r_mx : list bytes        (* xmitstat.frommx: the addresses (16 bytes each) of all list nodes in order; [] = NULL *)
}.

Record fout := mk_fout {
  o_res : fres;
  o_type : Z;              (* *t *)
  o_reply : bytes;         (* what the filter has sent itself *)
  o_check2822 : N;         (* xmitstat.check2822 afterwards *)
  o_dnscalls : nat
}.

Definition plain (s : rsession) (r : fres) (t : Z) : fout := mk_fout r t [] (r_check2822 s) 0.

(** strcasecmp(a, b) == 0 for NUL-free strings *)
Definition ci_eqb (a b : bytes) : bool := bytes_eqb (lower a) (lower b).

Definition has_at (e : bytes) : bool := existsb (N.eqb AT_SIGN) e.

(** strchr(s, c): the rest of the string from the first [c] on *)
Fixpoint from_first (c : N) (s : bytes) : option bytes :=
  match s with
  | [] => None
  | x :: r => if N.eqb x c then Some s else from_first c r
  end.

(** strrchr(s, c) *)
Fixpoint from_last (c : N) (s : bytes) : option bytes :=
  match s with
  | [] => None
  | x :: r => match from_last c r with
              | Some t => Some t
              | None => if N.eqb x c then Some s else None
              end
  end.

(* ------------------------------------------------------------------------------------------------ *)
(** * badmailfrom.c *)

(** one round of the [while (a[i])] loop of lookupbmf: does entry [e] hit?  [dotrule]: the test ( *a[i] == '.')
    is part of the condition (badmailfrom.c has it, badcc.c has not) *)
Definition bmf_entry_hit (dotrule : bool) (addr : bytes) (at_ : option bytes) (e : bytes) : bool :=
  match e with
  | [] => false
  | c :: _ =>
      if N.eqb c AT_SIGN then
        match at_ with Some s => ci_eqb e s | None => false end
      else if negb (has_at e) then
        let k := length e in
        if Nat.ltb k (length addr) then
          let suffix := skipn (length addr - k) addr in
          let prev := nth (length addr - k - 1) addr 0%N in
          ci_eqb suffix e && ((dotrule && N.eqb c DOT_CH) || N.eqb prev DOT_CH || N.eqb prev AT_SIGN)
        else false
      else ci_eqb e addr
  end.

Definition lookupbmf (addr : bytes) (at_ : option bytes) (a : list bytes) : bool :=
  existsb (bmf_entry_hit true addr at_) a.

Definition KEY_BADMAILFROM : bytes := [98; 97; 100; 109; 97; 105; 108; 102; 114; 111; 109]%N.
Definition KEY_GOODMAILFROM : bytes := [103; 111; 111; 100; 109; 97; 105; 108; 102; 114; 111; 109]%N.

Definition cb_badmailfrom (s : rsession) (fs : fsys) : option fout :=
  match r_mailfrom s with
  | [] => Some (plain s FPassed 0)
  | mf =>
      match userconf_get_buffer (r_userdir s) fs KEY_BADMAILFROM CfNone true true with
      | UCrash => None
      | UErr => Some (plain s FError 0)
      | UNone => Some (plain s FPassed 0)
      | UList t a =>
          let at_ := from_first AT_SIGN mf in
          if negb (lookupbmf mf at_ a) then Some (plain s FPassed t) else
          match userconf_get_buffer (r_userdir s) fs KEY_GOODMAILFROM CfCheckaddr true false with
          | UCrash => None
          | UErr => Some (plain s FError t)
          | UNone => Some (plain s FDeniedUnspec t)
          | UList _ g => if lookupbmf mf at_ g then Some (plain s FPassed t) else Some (plain s FDeniedUnspec t)
          end
      end
  end.

(* ------------------------------------------------------------------------------------------------ *)
(** * helo.c *)

Definition KEY_HELOVALID : bytes := [104; 101; 108; 111; 118; 97; 108; 105; 100]%N.
Definition KEY_BADHELO : bytes := [98; 97; 100; 104; 101; 108; 111]%N.

Definition cb_helo (s : rsession) (fs : fsys) (uc dc gc : list bytes) : option fout :=
  let hv := getsettingglobal uc dc gc KEY_HELOVALID in
  if negb (N.eqb (r_helostatus s) 0)
     && negb (Z.eqb (Z.land (Z.shiftl 1 (Z.of_N (r_helostatus s))) (setting_value hv)) 0)
  then Some (plain s FDeniedUnspec (setting_type hv))
  else
    match userconf_find_domain (r_userdir s) fs KEY_BADHELO (r_helo s) true with
    | None => None
    | Some t => if Z.eqb t CONFIG_NONE then Some (plain s FPassed t) else Some (plain s FDeniedUnspec t)
    end.

(* ------------------------------------------------------------------------------------------------ *)
(** * ipbl.c *)

(** lookupipbl(fd) on an opened file: an empty file is "no match"; [None] = UB inside check_ip4/6 *)
Definition lookupipbl (ipv4 : bool) (ip buf : bytes) : option Z :=
  match buf with
  | [] => Some 0%Z
  | _ => match (if ipv4 then check_ip4 ip buf else check_ip6 ip buf) with Ok z => Some z | _ => None end
  end.

Definition NAME_IPBL : bytes := [105; 112; 98; 108]%N.
Definition NAME_IPWL : bytes := [105; 112; 119; 108]%N.
Definition SUFFIX_V6 : bytes := [118; 54]%N.

Definition cb_ipbl (s : rsession) (fs : fsys) : option fout :=
  let fnb := if r_ipv4 s then NAME_IPBL else NAME_IPBL ++ SUFFIX_V6 in
  let fnw := if r_ipv4 s then NAME_IPWL else NAME_IPWL ++ SUFFIX_V6 in
  match getfile (r_userdir s) true fs fnb true with
  | (t, None) => Some (plain s FPassed t)
  | (t, Some buf) =>
      match lookupipbl (r_ipv4 s) (r_ip s) buf with
      | None => None
      | Some i =>
          if (0 <? i)%Z then
            match getfile (r_userdir s) true fs fnw true with
            | (_, None) => Some (plain s FDeniedUnspec t)                       (* i = 0 *)
            | (_, Some w) =>
                match lookupipbl (r_ipv4 s) (r_ip s) w with
                | None => None
                | Some j => if Z.eqb j 0 then Some (plain s FDeniedUnspec t) else Some (plain s FPassed t)
                end
            end
          else Some (plain s FPassed t)
      end
  end.

(* ------------------------------------------------------------------------------------------------ *)
(** * soberg.c *)

Definition KEY_SOBERG : bytes := [98; 108; 111; 99; 107; 95; 83; 111; 98; 101; 114; 71]%N.
Definition REPLY_SOBERG : bytes :=
  [53; 53; 48; 32; 53; 46; 55; 46; 49; 32; 109; 97; 105; 108; 32; 108; 111; 111; 107; 115; 32; 108; 105; 107; 101; 32;
   83; 111; 98; 101; 114; 71; 32; 119; 111; 114; 109; 13; 10]%N.

(** strncasecmp(a, b, n) == 0 for NUL-free strings: the first n characters agree, or both end before *)
Definition ci_prefix_eqb (a b : bytes) (n : nat) : bool := ci_eqb (firstn n a) (firstn n b).

Definition cb_soberg (s : rsession) (uc dc gc : list bytes) : option fout :=
  match r_mailfrom s with
  | [] => Some (plain s FPassed 0)
  | mf =>
      let st := getsettingglobal uc dc gc KEY_SOBERG in
      if (setting_value st <=? 0)%Z then Some (plain s FPassed (setting_type st)) else
      match from_first AT_SIGN mf with
      | None => None                                       (* at - mailfrom.s with at == NULL *)
      | Some rest =>
          let userl := length mf - length rest in
          if negb (ci_prefix_eqb (r_helo s) mf userl) then Some (plain s FPassed (setting_type st)) else
          match from_last DOT_CH mf with
          | None => None                                   (* strcasecmp(.., NULL) *)
          | Some tail =>
              if ci_eqb (skipn userl (r_helo s)) tail
              then Some (mk_fout FDeniedMsg (setting_type st) REPLY_SOBERG (r_check2822 s) 0)
              else Some (plain s FPassed (setting_type st))
          end
      end
  end.

(* ------------------------------------------------------------------------------------------------ *)
(** * check2822.c *)

Definition KEY_CHECK2822 : bytes :=
  [99; 104; 101; 99; 107; 95; 115; 116; 114; 105; 99; 116; 95; 114; 102; 99; 50; 56; 50; 50]%N.

Definition cb_check2822 (s : rsession) (uc dc gc : list bytes) : option fout :=
  if N.eqb (r_check2822 s) 0 then Some (mk_fout FPassed 0 [] 0 0) else
  let st := getsettingglobal uc dc gc KEY_CHECK2822 in
  if Z.eqb (setting_value st) 0 then Some (mk_fout FPassed (setting_type st) [] 0 0)
  else Some (mk_fout FPassed (setting_type st) [] 1 0).

(* ------------------------------------------------------------------------------------------------ *)
(** * antispam.c:check_rbl and forceesmtp.c *)

Definition DNS_LOCAL : N := 255%N.
Definition DNS_TEMP : N := 254%N.
Definition DNS_PERM : N := 253%N.

Definition dec_len (b : N) : nat := if N.ltb b 10 then 1 else if N.ltb b 100 then 2 else 3.

(** offset in lookup[] where the list name goes: strlen("d.c.b.a") + 1 for IPv4 clients, 64 for IPv6 *)
Definition rbl_prefix_len (ipv4 : bool) (ip : bytes) : nat :=
  if ipv4 then dec_len (nth 12 ip 0%N) + dec_len (nth 13 ip 0%N) + dec_len (nth 14 ip 0%N) + dec_len (nth 15 ip 0%N) + 4
  else 64.

Inductive rblres := RblHit (i : nat) | RblNone | RblAgain | RblLocal.

(** check_rbl(rbls, txt): result, answers left, calls made *)
Fixpoint check_rbl (l : nat) (rbls : list bytes) (dns : list N) (i : nat) (again : bool) (calls : nat)
  : rblres * list N * nat :=
  match rbls with
  | [] => ((if again then RblAgain else RblNone), dns, calls)
  | e :: rest =>
      if Nat.leb (256 - l) (length e) then check_rbl l rest dns (S i) again calls      (* name of rbl too long *)
      else
        let '(ans, dns') := match dns with [] => (0%N, []) | a :: d => (a, d) end in
        if N.eqb ans DNS_LOCAL then (RblLocal, dns', S calls)
        else if N.eqb ans DNS_TEMP then check_rbl l rest dns' (S i) true (S calls)
        else if N.eqb ans DNS_PERM || N.eqb ans 0 || N.ltb 240 ans then check_rbl l rest dns' (S i) again (S calls)
        else (RblHit i, dns', S calls)
  end.

Definition NAME_FORCEESMTP : bytes := [102; 111; 114; 99; 101; 101; 115; 109; 116; 112]%N.

Definition cb_forceesmtp (s : rsession) (fs : fsys) : option fout :=
  if r_esmtp s then Some (plain s FPassed 0) else
  let fnb := if r_ipv4 s then NAME_FORCEESMTP else NAME_FORCEESMTP ++ SUFFIX_V6 in
  match userconf_get_buffer (r_userdir s) fs fnb CfDomainvalid true false with
  | UCrash => None
  | UErr => Some (plain s FError 0)
  | UNone => Some (plain s FPassed 0)
  | UList t a =>
      let '(r, _, calls) := check_rbl (rbl_prefix_len (r_ipv4 s) (r_ip s)) a (r_dns s) 0 false 0 in
      let res := match r with
                 | RblHit _ => FDeniedUnspec
                 | RblNone => FPassed
                 | RblAgain => FDeniedTemp
                 | RblLocal => FError
                 end in
      Some (mk_fout res t [] (r_check2822 s) calls)
  end.

(* ------------------------------------------------------------------------------------------------ *)
(** * badcc.c *)

Definition KEY_BADCC : bytes := [98; 97; 100; 99; 99]%N.

Definition badcc_rcpt_hit (a : list bytes) (rcpt : bytes) : bool :=
  existsb (bmf_entry_hit false rcpt (from_first AT_SIGN rcpt)) a.

Definition cb_badcc (s : rsession) (fs : fsys) : option fout :=
  match r_rcpts s with
  | [] => Some (plain s FPassed 0)                         (* only one recipient *)
  | others =>
      match userconf_get_buffer (r_userdir s) fs KEY_BADCC CfCheckaddr true false with
      | UCrash => None
      | UErr => Some (plain s FError 0)
      | UNone => Some (plain s FPassed 0)
      | UList t a => if existsb (badcc_rcpt_hit a) others then Some (plain s FDeniedUnspec t) else Some (plain s FPassed t)
      end
  end.

(* ------------------------------------------------------------------------------------------------ *)
(** * nomail.c *)

Definition NAME_NOMAIL : bytes := [110; 111; 109; 97; 105; 108]%N.
Definition NOMAIL_DEFAULT_CODE : bytes := [53; 53; 48; 32; 53; 46; 55; 46; 49; 32]%N.   (* "550 5.7.1 " *)

(** the replacement of control characters *)
Definition nomail_clean (c : N) : N := if (N.ltb c 32 && negb (N.eqb c 9)) || N.eqb c 127 then 63%N else c.

(** "([45])[0-9][0-9] ([45])\.[0-9]\.[0-9] " with \1 == \2 at the start of a text longer than 10 *)
Definition nomail_has_code (m : bytes) : bool :=
  Nat.ltb 10 (length m) &&
  let c i := nth i m 0%N in
  (N.eqb (c 0) 52 || N.eqb (c 0) 53) && is_digit (c 1) && is_digit (c 2) && N.eqb (c 3) 32
  && N.eqb (c 4) (c 0) && N.eqb (c 5) 46 && is_digit (c 6) && N.eqb (c 7) 46 && is_digit (c 8) && N.eqb (c 9) 32.

Definition cb_nomail (s : rsession) (fs : fsys) : option fout :=
  match getfile (r_userdir s) true fs NAME_NOMAIL false with
  | (t, None) => Some (plain s FPassed t)
  | (t, Some content) =>
      match loadoneliner content with
      | Ok LErr => Some (plain s FError t)                                   (* EINVAL *)
      | Ok (LOk None) => Some (plain s FDeniedUnspec t)                      (* ENOENT: no text *)
      | Ok (LOk (Some line)) =>
          let m := map nomail_clean line in
          let text := if nomail_has_code m then m else NOMAIL_DEFAULT_CODE ++ m in
          Some (mk_fout FDeniedMsg t (text ++ [13; 10]%N) (r_check2822 s) 0)
      | _ => None
      end
  end.

(* ------------------------------------------------------------------------------------------------ *)
(** * dnsbl.c *)

Definition NAME_DNSBL : bytes := [100; 110; 115; 98; 108]%N.
Definition NAME_WHITEDNSBL : bytes := [119; 104; 105; 116; 101; 100; 110; 115; 98; 108]%N.

(** [log_by_j]: the "whitelisted by" log line names c[j] (GenFilters.DNSBL_LOG_WHITELIST_BY_J); with c[i] the line
    reads behind the whitelist array when the blacklist index is larger than the whitelist is long *)
Definition cb_dnsbl_gen (log_by_j : bool) (s : rsession) (fs : fsys) : option fout :=
  let fnb := if r_ipv4 s then NAME_DNSBL else NAME_DNSBL ++ SUFFIX_V6 in
  let fnw := if r_ipv4 s then NAME_WHITEDNSBL else NAME_WHITEDNSBL ++ SUFFIX_V6 in
  let l := rbl_prefix_len (r_ipv4 s) (r_ip s) in
  match userconf_get_buffer (r_userdir s) fs fnb CfDomainOrInherit true true with
  | UCrash => None
  | UErr => Some (plain s FError 0)
  | UNone => Some (plain s FPassed 0)
  | UList t a =>
      let '(r, dns', calls) := check_rbl l a (r_dns s) 0 false 0 in
      match r with
      | RblNone => Some (mk_fout FPassed t [] (r_check2822 s) calls)
      | RblAgain => Some (mk_fout FDeniedTemp t [] (r_check2822 s) calls)
      | RblLocal => Some (mk_fout FError t [] (r_check2822 s) calls)
      | RblHit i =>
          let refuse calls' := Some (mk_fout FDeniedMsg t (REPLY_DNSBL ++ nth i a [] ++ [13; 10]%N) (r_check2822 s) calls') in
          match userconf_get_buffer (r_userdir s) fs fnw CfDomainvalid false false with
          | UCrash => None
          | UErr => Some (mk_fout FError t [] (r_check2822 s) calls)
          | UNone => refuse calls
          | UList _ c =>
              let '(r2, _, calls2) := check_rbl l c dns' 0 false calls in
              match r2 with
              | RblHit _ =>
                  if log_by_j || Nat.leb i (length c) then Some (mk_fout FPassed t [] (r_check2822 s) calls2)
                  else None                                   (* strlen() of whatever lies behind the array *)
              | RblNone => refuse calls2
              | RblAgain => Some (mk_fout FDeniedTemp t [] (r_check2822 s) calls2)
              | RblLocal => Some (mk_fout FError t [] (r_check2822 s) calls2)
              end
          end
      end
  end.

Definition cb_dnsbl := cb_dnsbl_gen DNSBL_LOG_WHITELIST_BY_J.

(* ------------------------------------------------------------------------------------------------ *)
(** * namebl.c *)

Definition NAME_NAMEBL : bytes := [110; 97; 109; 101; 98; 108]%N.

(** the strings [d] runs through: the domain, then what follows each of its dots *)
Fixpoint tails_after_dot (l : bytes) : list bytes :=
  match l with
  | [] => []
  | c :: r => if N.eqb c DOT_CH then r :: tails_after_dot r else tails_after_dot r
  end.

Inductive nblres := NblHit | NblLocal | NblGoOn (temp : bool).

(** the inner [while (d != NULL)] loop for one list *)
Fixpoint namebl_inner (alen : nat) (ds : list bytes) (dns : list N) (temp : bool) (calls : nat) : nblres * list N * nat :=
  match ds with
  | [] => (NblGoOn temp, dns, calls)
  | d :: rest =>
      if Nat.ltb (length d + alen) 256 then
        let '(ans, dns') := match dns with [] => (0%N, []) | a :: x => (a, x) end in
        if N.eqb ans DNS_LOCAL then (NblLocal, dns', S calls)
        else if N.eqb ans DNS_TEMP then namebl_inner alen rest dns' true (S calls)
        else if N.eqb ans DNS_PERM || N.eqb ans 0 || N.ltb 240 ans then namebl_inner alen rest dns' temp (S calls)
        else (NblHit, dns', S calls)
      else namebl_inner alen rest dns temp calls
  end.

(** the outer loop over the lists: (result, the list that hit) *)
Fixpoint namebl_outer (a : list bytes) (ds : list bytes) (dns : list N) (temp : bool) (calls : nat)
  : nblres * bytes * nat :=
  match a with
  | [] => (NblGoOn temp, [], calls)
  | e :: rest =>
      match namebl_inner (S (length e)) ds dns temp calls with
      | (NblHit, _, c) => (NblHit, e, c)
      | (NblLocal, _, c) => (NblLocal, e, c)
      | (NblGoOn t', dns', c) => namebl_outer rest ds dns' t' c
      end
  end.

(** [early]: blocktype[*t] is evaluated on entry (GenFilters.NAMEBL_BLOCKTYPE_ON_ENTRY); an index outside the
    five-element array is undefined behaviour *)
Definition cb_namebl_gen (early : bool) (s : rsession) (fs : fsys) : option fout :=
  if early && negb ((0 <=? r_t0 s)%Z && (r_t0 s <? 5)%Z) then None else
  match r_mailfrom s with
  | [] => Some (plain s FPassed 0)
  | mf =>
      match userconf_get_buffer (r_userdir s) fs NAME_NAMEBL CfDomainOrInherit true true with
      | UCrash => None
      | UErr => Some (plain s FError 0)
      | UNone => Some (plain s FPassed 0)
      | UList t a =>
          match from_first AT_SIGN mf with
          | None => None                                        (* strchr() + 1 of a string without '@' *)
          | Some at_dom =>
              let dom := skipn 1 at_dom in
              let '(r, hit, calls) := namebl_outer a (dom :: tails_after_dot dom) (r_dns s) false 0 in
              match r with
              | NblHit => Some (mk_fout FDeniedMsg t (REPLY_NAMEBL ++ hit ++ [13; 10]%N) (r_check2822 s) calls)
              | NblLocal => Some (mk_fout FError t [] (r_check2822 s) calls)
              | NblGoOn true => Some (mk_fout FDeniedTemp t [] (r_check2822 s) calls)
              | NblGoOn false => Some (mk_fout FPassed t [] (r_check2822 s) calls)
              end
          end
      end
  end.

Definition cb_namebl := cb_namebl_gen NAMEBL_BLOCKTYPE_ON_ENTRY.

(* ------------------------------------------------------------------------------------------------ *)
(** * fromdomain.c *)

(** IN6_IS_ADDR_V4MAPPED and friends of <netinet/in.h> on the 16 bytes of an address *)
Definition is_v4mapped (a : bytes) : bool :=
  forallb (N.eqb 0) (firstn 10 a) && N.eqb (nth 10 a 0%N) 255 && N.eqb (nth 11 a 0%N) 255.
Definition is_linklocal (a : bytes) : bool := N.eqb (nth 0 a 0%N) 254 && N.eqb (N.land (nth 1 a 0%N) 192) 128.
Definition is_sitelocal (a : bytes) : bool := N.eqb (nth 0 a 0%N) 254 && N.eqb (N.land (nth 1 a 0%N) 192) 192.
Definition is_unspecified (a : bytes) : bool := forallb (N.eqb 0) (firstn 16 a).
Definition is_loopback (a : bytes) : bool := forallb (N.eqb 0) (firstn 15 a) && N.eqb (nth 15 a 0%N) 1.

(** the [for] loops over reserved_netsv4[] / reserved_netsv6[]: does a table entry match?  [None] = UB in the matcher *)
Fixpoint any_net (matchf : bytes -> bytes -> N -> Cres bool) (a : bytes) (nets : list (bytes * N)) : option bool :=
  match nets with
  | [] => Some false
  | (n, len) :: rest => match matchf a n len with
                        | Ok true => Some true
                        | Ok false => any_net matchf a rest
                        | _ => None
                        end
  end.

Definition bit_set (u b : Z) : bool := negb (Z.eqb (Z.land u b) 0).

(** flagtmp for one MX address *)
Definition fd_addr_hit (u : Z) (a : bytes) : option bool :=
  if is_v4mapped a then
    match (if bit_set u FD_BIT_PRIVATE then any_net ip4_matchnet a FD_NETS4 else Some false) with
    | None => None
    | Some f1 => Some (f1 || (bit_set u FD_BIT_LOCALHOST && (N.eqb (nth 12 a 0%N) 0 || N.eqb (nth 12 a 0%N) 127)))
    end
  else
    match (if bit_set u FD_BIT_PRIVATE then any_net ip6_matchnet a FD_NETS6 else Some false) with
    | None => None
    | Some f1 =>
        let f2 := f1 || (bit_set u FD_BIT_PRIVATE && (is_linklocal a || is_sitelocal a)) in
        Some (f2 || (bit_set u FD_BIT_LOCALHOST && (is_loopback a || is_unspecified a)))
    end.

(** FOREACH_STRUCT_IPS with "flaghit &= flagtmp; if (!flaghit) break;" *)
Fixpoint fd_all_hit (u : Z) (mx : list bytes) : option bool :=
  match mx with
  | [] => Some true
  | a :: rest => match fd_addr_hit u a with
                 | None => None
                 | Some false => Some false
                 | Some true => fd_all_hit u rest
                 end
  end.

Definition cb_fromdomain (s : rsession) (uc dc gc : list bytes) : option fout :=
  match r_mailfrom s with
  | [] => Some (plain s FPassed 0)
  | _ =>
      let st := getsettingglobal uc dc gc KEY_FROMDOMAIN in
      let u := setting_value st in
      let t := setting_type st in
      let own m := Some (mk_fout FDeniedMsg t m (r_check2822 s) 0) in
      if (u <=? 0)%Z then Some (plain s FPassed t) else
      match r_mx s with
      | [] =>
          if bit_set u FD_BIT_DNS then
            if Z.eqb (r_fromdomain s) DNS_ERROR_TEMP_Z then own REPLY_FD_TEMP
            else if Z.eqb (r_fromdomain s) DNS_ERROR_PERM_Z then own REPLY_FD_PERM
            else if Z.eqb (r_fromdomain s) 1 then own REPLY_FD_NOMX
            else if Z.eqb (r_fromdomain s) 2 then own REPLY_FD_NULLMX
            else Some (plain s FPassed t)
          else Some (plain s FPassed t)
      | mx =>
          if bit_set u FD_BIT_LOCALHOST || bit_set u FD_BIT_PRIVATE then
            match fd_all_hit u mx with
            | None => None
            | Some true => own REPLY_FD_UNROUTABLE
            | Some false => Some (plain s FPassed t)
            end
          else Some (plain s FPassed t)
      end
  end.

(* ------------------------------------------------------------------------------------------------ *)
(** * One case of the rfilters engine *)

Inductive rf_result :=
| RBadCase | RGlobalErr | RConfErr | RCrash
| RDone (o : fout).

Definition ID_BADCC : N := 0%N.
Definition ID_BADMAILFROM : N := 1%N.
Definition ID_CHECK2822 : N := 3%N.
Definition ID_DNSBL : N := 4%N.
Definition ID_FORCEESMTP : N := 5%N.
Definition ID_NAMEBL : N := 9%N.
Definition ID_FROMDOMAIN : N := 6%N.
Definition ID_HELO : N := 7%N.
Definition ID_IPBL : N := 8%N.
Definition ID_NOMAIL : N := 10%N.
Definition ID_SOBERG : N := 12%N.

Definition name_char_ok (c : N) : bool := is_lower c || is_digit c || N.eqb c 95.

(** file field: level, length of the name, name, content *)
Definition decode_file (userdir : bool) (f : bytes) : option (N * bytes * bytes) :=
  match f with
  | lvl :: nl :: rest =>
      let n := N.to_nat nl in
      if N.leb lvl 2 && Nat.leb 1 n && Nat.leb n 32 && Nat.leb n (length rest)
         && forallb name_char_ok (firstn n rest) && (userdir || negb (N.eqb lvl 0))
      then Some (lvl, firstn n rest, skipn n rest) else None
  | _ => None
  end.

Fixpoint decode_files (userdir : bool) (l : list bytes) : option fsys :=
  match l with
  | [] => Some []
  | f :: r => match decode_file userdir f, decode_files userdir r with
              | Some x, Some xs => Some (x :: xs)
              | _, _ => None
              end
  end.

(** split at LF, empty pieces dropped *)
Fixpoint split_lf (l : bytes) (cur : bytes) : list bytes :=
  match l with
  | [] => match cur with [] => [] | _ => [cur] end
  | c :: r => if N.eqb c 10 then match cur with [] => split_lf r [] | _ => cur :: split_lf r [] end
              else split_lf r (cur ++ [c])
  end.

Definition has_nul (l : bytes) : bool := existsb (N.eqb 0) l.

Definition NAME_FILTERCONF : bytes := [102; 105; 108; 116; 101; 114; 99; 111; 110; 102]%N.

Definition conf_of (fs : fsys) (lvl : N) : option (list bytes) :=
  match fs_find fs lvl NAME_FILTERCONF with
  | None => Some []
  | Some c => parse_conf c
  end.

Definition run_filter (id : N) (s : rsession) (fs : fsys) (uc dc gc : list bytes) : option (option fout) :=
  if N.eqb id ID_BADMAILFROM then Some (cb_badmailfrom s fs)
  else if N.eqb id ID_HELO then Some (cb_helo s fs uc dc gc)
  else if N.eqb id ID_IPBL then Some (cb_ipbl s fs)
  else if N.eqb id ID_SOBERG then Some (cb_soberg s uc dc gc)
  else if N.eqb id ID_CHECK2822 then Some (cb_check2822 s uc dc gc)
  else if N.eqb id ID_FORCEESMTP then Some (cb_forceesmtp s fs)
  else if N.eqb id ID_BADCC then Some (cb_badcc s fs)
  else if N.eqb id ID_NOMAIL then Some (cb_nomail s fs)
  else if N.eqb id ID_DNSBL then Some (cb_dnsbl s fs)
  else if N.eqb id ID_NAMEBL then Some (cb_namebl s fs)
  else if N.eqb id ID_FROMDOMAIN then Some (cb_fromdomain s uc dc gc)
  else None.

Definition rf_case (id : N) (misc mailfrom helo ip rcpts dns mx : bytes) (files : list bytes) : rf_result :=
  let m i := nth i misc 0%N in
  let userdir := N.testbit (m 0) 0 in
  if has_nul mailfrom || has_nul helo || has_nul rcpts || negb (Nat.eqb (length ip) 16)
     || match helo with [] => true | _ => false end || Nat.ltb 60 (length files)
     || (N.ltb 4 (m 4) && negb (N.eqb (m 4) 234)) || negb (Nat.eqb (length mx mod 16) 0)
  then RBadCase else
  match decode_files userdir files with
  | None => RBadCase
  | Some fs =>
      match conf_of fs 2 with
      | None => RGlobalErr
      | Some gc =>
          match (if userdir then conf_of fs 0 else Some []), conf_of fs 1 with
          | Some uc, Some dc =>
              let s := mk_rsession userdir (N.testbit (m 0) 1) (N.testbit (m 0) 2) (N.testbit (m 0) 3) (N.testbit (m 0) 4)
                                   (N.land (m 1) 7) (N.land (m 2) 3) mailfrom helo ip (split_lf rcpts []) dns
                                   (if N.eqb (m 4) 234 then (-22)%Z else Z.of_N (m 4))
                                   (if N.eqb (m 3) 254 then DNS_ERROR_TEMP_Z else if N.eqb (m 3) 253 then DNS_ERROR_PERM_Z
                                    else Z.of_N (N.land (m 3) 3))
                                   (chunks (length mx) 16 mx) in
              match run_filter id s fs uc dc gc with
              | None => RBadCase
              | Some None => RCrash
              | Some (Some o) => RDone o
              end
          | _, _ => RConfErr
          end
      end
  end.

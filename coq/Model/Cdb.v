(** Model of lib/cdb.c (cdb_hash, cdb_unpack, cdb_seekmm) and of the record parser in vget_dir()
    (qsmtpd/backends/user_vpopm/vpop.c), with fixes/C13-cdb-bounds.diff applied, plus a Gallina constant
    database writer [cdb_make] (the standard cdbmake algorithm).

    Executable definitions only.  The mmap'ed users/cdb is an arbitrary list of bytes [f]; the mapping is
    exactly [length f] bytes long: a read at an offset >= length f is [Crash] (the kernel would hand out zeros
    up to the end of the last page, SIGBUS or foreign memory behind it).  Offsets and sizes are [N]; the 32 bit
    quantities of the C are reduced modulo 2^32 where the C wraps, the 64 bit ones ([size], the slot address)
    are plain [N]. *)
From Qv Require Import Common.Bytes Gen.GenCdb.
Local Open Scope N_scope.

Definition M32 : N := 4294967296.
Definition u32 (x : N) : N := x mod M32.

(** [(uint32_t) *buf] for a plain (signed) char *)
Definition sx (c : N) : N := if c <? 128 then c else c + 4294967040.

(** cdb_hash: h += (h << 5); h ^= (uint32_t) *buf++ *)
Fixpoint cdb_hash_from (h : N) (key : bytes) : N :=
  match key with
  | [] => h
  | c :: k => cdb_hash_from (N.lxor (u32 (h + N.shiftl h CDB_SHIFT)) (sx c)) k
  end.
Definition cdb_hash (key : bytes) : N := cdb_hash_from CDB_HASHSTART key.

(** one byte of the mapping *)
Definition rd (f : bytes) (size o : N) : Cres N :=
  if o <? size then Ok (nth (N.to_nat o) f 0) else Crash 1.

(** cdb_unpack: four bytes, little endian *)
Definition unpack (f : bytes) (size o : N) : Cres N :=
  do b0 <- rd f size o;
  do b1 <- rd f size (o + 1);
  do b2 <- rd f size (o + 2);
  do b3 <- rd f size (o + 3);
  Ok (b3 * 16777216 + b2 * 65536 + b1 * 256 + b0).

(** strncmp(mm + o, key, n) == 0 with [key] followed by its terminating NUL *)
Fixpoint strncmp_eq (f : bytes) (size o : N) (key : bytes) (n : nat) : Cres bool :=
  match n with
  | O => Ok true
  | S n' =>
      do a <- rd f size o;
      let b := hd 0 key in
      if a =? b then
        if a =? 0 then Ok true else strncmp_eq f size (o + 1) (tl key) n'
      else Ok false
  end.

(** result of cdb_seekmm: a pointer into the mapping (as offset), or NULL with errno *)
Inductive seek :=
| SFound (off : N)
| SNone (errno : N).

(** the for loop; [fuel] = remaining iterations (lenhash - loop) *)
Fixpoint walk (f : bytes) (size : N) (key : bytes) (len h pos lenhash : N) (fuel : nat) (h2 : N) : Cres seek :=
  match fuel with
  | O => Ok (SNone 0)
  | S fuel' =>
      let next := walk f size key len h pos lenhash fuel' (if h2 + 1 =? lenhash then 0 else h2 + 1) in
      let cur := pos + 8 * h2 in
      do poskd <- unpack f size (cur + 4);
      if poskd =? 0 then Ok (SNone 0) else
      do hh <- unpack f size cur;
      if hh =? h then
        if (size <? poskd) || (size - poskd <? 8) then Ok (SNone CDB_EINVAL) else
        do klen <- unpack f size poskd;
        if klen =? len then
          do dlen <- unpack f size (poskd + 4);
          if (size - poskd - 8 <? len) || (size - poskd - 8 - len <? dlen) then Ok (SNone CDB_EINVAL) else
          do e <- strncmp_eq f size (poskd + 8) key (N.to_nat len);
          if e then Ok (SFound (poskd + 8 + len)) else next
        else next
      else next
  end.

Definition cdb_seekmm (f : bytes) (key : bytes) : Cres seek :=
  let size := N.of_nat (length f) in
  let len := N.of_nat (length key) in
  if size =? 0 then Ok (SNone 0) else
  if size <? CDB_HDR then Ok (SNone CDB_EINVAL) else
  let h := cdb_hash key in
  let pos := 8 * N.land h CDB_TABMASK in
  do lenhash <- unpack f size (pos + 4);
  if lenhash =? 0 then Ok (SNone 0) else
  let h2 := N.shiftr h CDB_HSHIFT mod lenhash in
  do tpos <- unpack f size pos;
  if (size <? tpos) || ((size - tpos) / 8 <? lenhash) then Ok (SNone CDB_EINVAL) else
  walk f size key len h tpos lenhash (N.to_nat lenhash) h2.

(** ** vget_dir(): from the value pointer to the domain path *)

(** memchr(mm + p, 0, size - p): offset of the first NUL at or behind p *)
Fixpoint nul_index (l : bytes) : option nat :=
  match l with
  | [] => None
  | b :: l' => if b =? 0 then Some O else match nul_index l' with Some i => Some (S i) | None => None end
  end.
Definition memchr0 (f : bytes) (p : N) : option N :=
  match nul_index (skipn (N.to_nat p) f) with
  | Some i => Some (p + N.of_nat i)
  | None => None
  end.

(** for (i = 4; i > 0; i--) { fieldend = memchr(...); if (!fieldend) corrupt; if (i > 1) cdb_buf = fieldend + 1; }
    result: offset of the last field and of its terminator *)
Fixpoint fields (f : bytes) (i : nat) (p : N) : option (N * N) :=
  match i with
  | O => None
  | S i' =>
      match memchr0 f p with
      | None => None
      | Some e => match i' with O => Some (p, e) | _ => fields f i' (e + 1) end
      end
  end.

(** while ( *(cdb_buf + len - 1) == '/') --len; *)
Fixpoint strip_slashes (f : bytes) (size p : N) (len : nat) : Cres nat :=
  if p + N.of_nat len =? 0 then Crash 2 else
  do c <- rd f size (p + N.of_nat len - 1);
  if c =? CDB_STRIP then
    match len with
    | O => Crash 3            (* --len wraps to SIZE_MAX *)
    | S l => strip_slashes f size p l
    end
  else Ok len.

Inductive vres :=
| VErr (rc : Z)            (* negative return value *)
| VNone                    (* 0: domain not in the database *)
| VPath (path : bytes).    (* 1: ds->domainpath (with the trailing '/') *)

(** after cdb_seekmm() returned a pointer at offset [off] *)
Definition parse_record (f : bytes) (off : N) (edone : Z) : Cres vres :=
  let size := N.of_nat (length f) in
  match fields f CDB_NFIELDS off with
  | None => Ok (VErr edone)
  | Some (p, e) =>
      (* len = strlen(cdb_buf): the field is terminated at e *)
      do len <- strip_slashes f size p (N.to_nat (e - p));
      Ok (VPath (firstn len (skipn (N.to_nat p) f) ++ [CDB_APPEND]))
  end.

(** vget_dir() on a fresh struct userconf; [file] = None when users/cdb does not exist.
    [keyfirst]/[keylast]/[keybuf]/[efault]/[enomem]/[edone] come from GenVpop (same values the record-list model uses). *)
Definition vget_dir_file (keybuf : nat) (keyfirst keylast : N) (efault enomem edone : Z)
    (file : option bytes) (domain : bytes) : Cres vres :=
  if (keybuf <=? (length domain + 2) + 1)%nat then Ok (VErr efault) else
  match file with
  | None => Ok VNone
  | Some f =>
      do r <- cdb_seekmm f (keyfirst :: domain ++ [keylast]);
      match r with
      | SNone e =>
          if e =? 0 then Ok VNone
          else if existsb (N.eqb e) CDB_NOMEM_SET then Ok (VErr enomem)
          else Ok (VErr edone)
      | SFound off => parse_record f off edone
      end
  end.

(** ** writing a constant database (cdbmake) *)
Definition le32 (x : N) : bytes :=
  [x mod 256; (x / 256) mod 256; (x / 65536) mod 256; (x / 16777216) mod 256].

(** the hash of the file format: bytes taken as unsigned char *)
Fixpoint std_hash_from (h : N) (key : bytes) : N :=
  match key with
  | [] => h
  | c :: k => std_hash_from (N.lxor (u32 (h + N.shiftl h 5)) c) k
  end.
Definition std_hash (key : bytes) : N := std_hash_from 5381 key.

Definition ser_rec (kv : bytes * bytes) : bytes :=
  le32 (N.of_nat (length (fst kv))) ++ le32 (N.of_nat (length (snd kv))) ++ fst kv ++ snd kv.

(** position of every record, the first one at [pos] *)
Fixpoint rec_positions (pos : N) (recs : list (bytes * bytes)) : list N :=
  match recs with
  | [] => []
  | kv :: r => pos :: rec_positions (pos + N.of_nat (length (ser_rec kv))) r
  end.

(** a slot of a hash table: empty, or the index of a record *)
Definition islot := option nat.

Definition set_nth {A} (l : list A) (i : nat) (x : A) : list A := firstn i l ++ x :: skipn (S i) l.

(** the successor of slot [s] in a table of [n] slots: if (++h2 == lenhash) h2 = 0 *)
Definition nxt (n s : nat) : nat := if (S s =? n)%nat then O else S s.

(** linear probing: the first empty slot at s, nxt s, ...; at most [fuel] probes *)
Fixpoint probe_empty (tbl : list islot) (fuel : nat) (s : nat) : option nat :=
  match fuel with
  | O => None
  | S fuel' =>
      match nth s tbl None with
      | None => Some s
      | Some _ => probe_empty tbl fuel' (nxt (length tbl) s)
      end
  end.

(** (h >> 8) % n *)
Definition start_slot (h : N) (n : nat) : nat := N.to_nat ((h / 256) mod N.of_nat n).

Definition tbl_insert (hs : list N) (tbl : list islot) (i : nat) : list islot :=
  match probe_empty tbl (length tbl) (start_slot (nth i hs 0) (length tbl)) with
  | Some s => set_nth tbl s (Some i)
  | None => tbl
  end.

(** the records of table t (h & 255 == t), in the order of the file *)
Definition table_members (t : N) (hs : list N) : list nat :=
  filter (fun i => nth i hs 0 mod 256 =? t) (seq 0 (length hs)).

Definition make_table (hs : list N) (t : N) : list islot :=
  let mine := table_members t hs in
  fold_left (tbl_insert hs) mine (repeat None (2 * length mine)).

Definition ser_islot (hs ps : list N) (s : islot) : bytes :=
  match s with
  | None => le32 0 ++ le32 0
  | Some i => le32 (nth i hs 0) ++ le32 (nth i ps 0)
  end.

(** header entries: position and slot count of every table, the first table at [pos] *)
Fixpoint header (pos : N) (tbls : list (list islot)) : bytes :=
  match tbls with
  | [] => []
  | t :: r => le32 pos ++ le32 (N.of_nat (length t)) ++ header (pos + 8 * N.of_nat (length t)) r
  end.

Definition cdb_make (recs : list (bytes * bytes)) : bytes :=
  let body := concat (map ser_rec recs) in
  let hs := map (fun kv => std_hash (fst kv)) recs in
  let ps := rec_positions 2048 recs in
  let tbls := map (fun t => make_table hs (N.of_nat t)) (seq 0 256) in
  header (2048 + N.of_nat (length body)) tbls ++ body ++ concat (map (fun t => concat (map (ser_islot hs ps) t)) tbls).

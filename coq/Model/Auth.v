(** Model of qsmtpd/auth.c (smtp_auth, auth_plain, auth_login, authgetl, err_input,
    err_base64, auth_permitted) and of the checkpassword backend
    qsmtpd/backends/auth_chkpw/qsauth_backend_cp.c:auth_backend_execute.
    Executable definitions only.

    Environment (explicit, no axioms):
    - [rds]  : the results of the successive net_readline(64, …) calls
               ([RdChunk b]: b copied to the buffer, |b| returned; [RdErr e]: -1, errno = e);
               an exhausted list reads as [RdErr ECONN_H] (harness convention);
    - [ws]   : one entry per netwrite() call, 0 = written, e = failed with errno e
               (exhausted = written);
    - the backend is a function [ios -> user -> pass -> ios * Z] (it may write a reply).
    Recorded: [out] every text passed to netwrite (newest first), [calls] every
    (user, pass) handed to the backend, [pipes] what the checkpassword backend
    wrote into the pipe that is descriptor 3 of the child.

    [string]s of the C are lists of their [len] bytes; s[len] is 0 for every
    string built here (b64decode terminates its output, authgetl its line).
    malloc/realloc are assumed to succeed; tarpit() and sleep() do nothing. *)
From Qv Require Import Common.Bytes Common.AuthDefs Gen.GenAuth Model.Base64.

Record ios : Type := {
  rds : list rdres;
  ws : list N;
  out : list bytes;
  calls : list (bytes * bytes);
  pipes : list bytes }.

Definition ECONN_H : N := 104%N.

Definition backend : Type := ios -> bytes -> bytes -> ios * Z.

(** netwrite(msg): 0 or the errno it failed with *)
Definition nw (s : ios) (msg : bytes) : ios * N :=
  match ws s with
  | [] => ({| rds := rds s; ws := []; out := msg :: out s; calls := calls s; pipes := pipes s |}, 0%N)
  | e :: ws' => ({| rds := rds s; ws := ws'; out := msg :: out s; calls := calls s; pipes := pipes s |}, e)
  end.

(** [if (!netwrite(msg)) return -EDONE; return -errno;] *)
Definition nw_done (s : ios) (msg : bytes) : ios * Z :=
  let '(s, e) := nw s msg in
  (s, if N.eqb e 0 then (- Z.of_N EDONE)%Z else (- Z.of_N e)%Z).

Definition err_input (s : ios) : ios * Z := nw_done s MSG_501_INPUT.
Definition err_base64 (s : ios) : ios * Z := nw_done s MSG_501_B64.

(** the do … while loop of authgetl: one net_readline(AUTH_CHUNK, …) per round *)
Fixpoint authgetl_read (r : list rdres) (authin : bytes) : Cres (list rdres * (bytes + N)) :=
  match r with
  | [] => Ok ([], inr ECONN_H)
  | RdErr e :: r' => if N.eqb e 0 then Crash 22        (* -1 with errno 0: "return -errno" reads as success, the freed line is used *)
                     else Ok (r', inr e)
  | RdChunk b :: r' =>
      if Nat.ltb AUTH_CHUNK (length b) then Crash 20            (* more than the buffer has room for *)
      else
        let authin := authin ++ b in
        match authin with
        | [] => Crash 21                                         (* authin->s[authin->len - 1] with len == 0 *)
        | _ => if N.eqb (last authin 0%N) LF then Ok (r', inl authin)
               else authgetl_read r' authin
        end
  end.

Inductive getl_res : Type := GLine (authin : bytes) | GErr (r : Z).

Definition set_rds (s : ios) (r : list rdres) : ios :=
  {| rds := r; ws := ws s; out := out s; calls := calls s; pipes := pipes s |}.

Definition authgetl (s : ios) : Cres (ios * getl_res) :=
  do r <- authgetl_read (rds s) [];
  let '(r', res) := r in
  let s := set_rds s r' in
  match res with
  | inr e => Ok (s, GErr (- Z.of_N e)%Z)
  | inl authin =>
      let len := length authin - 1 in                             (* --authin->len *)
      if negb (Nat.eqb len 0) then
        let len := if N.eqb (nth (len - 1) authin 0%N) CR then len - 1 else len in
        if Nat.eqb len 1 && N.eqb (nth 0 authin 0%N) 42 then       (* "*" *)
          let '(s, z) := nw_done s MSG_501_CANCEL in Ok (s, GErr z)
        else if Nat.eqb len 0 then
          let '(s, z) := err_input s in Ok (s, GErr z)
        else Ok (s, GLine (firstn len authin))
      else
        let '(s, z) := err_input s in Ok (s, GErr z)
  end.

Definition call_be (be : backend) (s : ios) (user pass : bytes) : ios * Z :=
  be {| rds := rds s; ws := ws s; out := out s; calls := (user, pass) :: calls s; pipes := pipes s |} user pass.

(** the initial response or, after the challenge [chal], the next client line, decoded:
    [inl d] = result of b64decode, [inr z] = return z *)
Definition get_blob (s : ios) (linein chal : bytes) : Cres (ios * (option bytes + Z)) :=
  if Nat.ltb AUTH_IR_OFF (length linein) then
    do d <- b64decode (skipn AUTH_IR_OFF linein); Ok (s, inl d)
  else
    let '(s, e) := nw s chal in
    if negb (N.eqb e 0) then Ok (s, inr (- Z.of_N e)%Z)
    else
      do g <- authgetl s;
      let '(s, g) := g in
      match g with
      | GErr r => Ok (s, inr r)
      | GLine a => do d <- b64decode a; Ok (s, inl d)
      end.

(** result: state, return value, *user *)
Definition auth_plain (be : backend) (s : ios) (linein : bytes) : Cres (ios * Z * bytes) :=
  do r <- get_blob s linein MSG_334_PLAIN;
  let '(s, r) := r in
  match r with
  | inr z => Ok (s, z, [])
  | inl None => let '(s, z) := err_base64 s in Ok (s, z, [])
  | inl (Some slop) =>
      let id := S (length (cstr slop)) in           (* skip the authorize-id and its NUL *)
      let user := if Nat.ltb id (length slop) then cstr (skipn id slop) else [] in
      let pass := if Nat.ltb id (length slop) && Nat.ltb (id + length user + 1) (length slop)
                  then cstr (skipn (id + length user + 1) slop) else [] in
      if Nat.eqb (length user) 0 || Nat.eqb (length pass) 0 then
        let '(s, z) := err_input s in Ok (s, z, user)
      else
        let '(s, r) := call_be be s user pass in Ok (s, r, user)
  end.

Definition auth_login (be : backend) (s : ios) (linein : bytes) : Cres (ios * Z * bytes) :=
  do r <- get_blob s linein MSG_334_USER;
  let '(s, r) := r in
  match r with
  | inr z => Ok (s, z, [])
  | inl None => let '(s, z) := err_base64 s in Ok (s, z, [])
  | inl (Some user) =>
      let '(s, e) := nw s MSG_334_PASS in
      if negb (N.eqb e 0) then Ok (s, (- Z.of_N e)%Z, user)
      else
        do g <- authgetl s;
        let '(s, g) := g in
        match g with
        | GErr r => Ok (s, r, user)
        | GLine a =>
            do d <- b64decode a;
            match d with
            | None => let '(s, z) := err_base64 s in Ok (s, z, user)
            | Some pass =>
                if Nat.eqb (length user) 0 || Nat.eqb (length pass) 0 then
                  let '(s, z) := err_input s in Ok (s, z, user)
                else
                  let '(s, r) := call_be be s user pass in Ok (s, r, user)
            end
        end
  end.

Definition auth_permitted (c : acfg) : bool :=
  if negb (auth_host_set c) then false
  else if sslauth_on c && negb (ssl_on c) then false
  else true.

Fixpoint mech_loop (be : backend) (s : ios) (linein type : bytes) (mechs : list (bytes * N))
  : Cres (ios * Z * bytes) :=
  match mechs with
  | [] =>
      let '(s, e) := nw s MSG_504 in
      Ok (s, (if N.eqb e 0 then Z.of_N EDONE else Z.of_N e), [])
  | (text, h) :: rest =>
      if mech_match text type then
        do r <- (if N.eqb h 0 then auth_login be s linein else auth_plain be s linein);
        let '(s, r, user) := r in
        if Z.eqb r 0 then
          let '(s, e) := nw s MSG_235 in Ok (s, Z.of_N e, user)
        else if Z.eqb r 1 then
          let '(s, e) := nw s MSG_535 in
          Ok (s, (if N.eqb e 0 then Z.of_N EDONE else Z.of_N e), [])
        else Ok (s, (- r)%Z, [])
      else mech_loop be s linein type rest
  end.

(** smtp_auth(): return value and xmitstat.authname afterwards ([an0] before) *)
Definition smtp_auth (be : backend) (c : acfg) (an0 : bytes) (linein : bytes) (s : ios)
  : Cres (ios * Z * bytes) :=
  if negb (Nat.eqb (length an0) 0) || negb (auth_permitted c) then Ok (s, 1%Z, an0)
  else mech_loop be s linein (skipn AUTH_TYPE_OFF linein) AUTH_MECHS.

(** ------------------------------------------------------------------ backends *)

(** the stand-in used by the [auth] harness: returns what the case says *)
Definition be_stub (mode val : N) : backend := fun s _ _ =>
  if N.eqb mode 0 then (s, Z.of_N val)
  else if N.eqb mode 1 then (s, (- Z.of_N val)%Z)
  else nw_done s MSG_TEMPNOAUTH.

(** auth_backend_execute of the checkpassword backend.
    [fault]: 0 none, 1 wpipe, 2 fork_clean, 3 close(pi[0]), 4/5/6 first/second/third
    write, 7 close(pi[1]), 8 waitpid fails.
    [chk]: the checkpassword program as a function of what it reads on descriptor 3. *)
Inductive child_res : Type := CExit (n : N) | CKilled.

Definition add_pipe (s : ios) (p : bytes) : ios :=
  {| rds := rds s; ws := ws s; out := out s; calls := calls s; pipes := p :: pipes s |}.

Definition be_cp (fault : N) (chk : bytes -> child_res) : backend := fun s user pass =>
  let tmp := fun s => nw_done s MSG_TEMPNOAUTH in
  if N.eqb fault 1 then tmp s
  else if N.eqb fault 2 || N.eqb fault 3 then tmp (add_pipe s [])
  else if N.eqb fault 4 then tmp (add_pipe s [])
  else
    let p := user ++ [0%N] in
    if N.eqb fault 5 then tmp (add_pipe s p)
    else
      let p := p ++ pass ++ [0%N] in
      if N.eqb fault 6 then tmp (add_pipe s p)
      else
        let p := p ++ [0%N] in
        let s := add_pipe s p in
        if N.eqb fault 7 || N.eqb fault 8 then tmp s
        else
          match chk p with
          | CKilled => tmp s
          | CExit n => (s, if N.eqb n 0 then 0%Z else 1%Z)
          end.

(** the backend a harness case asks for (see harness/auth_h.c) *)
Definition backend_of (mode val : N) : backend :=
  if N.leb mode 2 then be_stub mode val
  else if N.eqb mode 3 then be_cp 0 (fun _ => CExit val)
  else if N.eqb mode 4 then be_cp 0 (fun _ => CKilled)
  else be_cp val (fun _ => CExit 0).

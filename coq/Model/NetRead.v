(** Model of the line reader of lib/netio.c: find_eol, readinput (over a byte
    stream and a read schedule), loop_long, net_read, and the reader that
    iterates net_read until the connection is dead.  Definitions only.

    Buffers are lists: [inn] = lineinn[0..linenlen), [buf] = lineinbuf[0..readoffset).
    The environment is the byte stream cut into segments (see [env]).  A read
    at the end of the stream is the closed connection: net_read(fatal=1) does
    not return (dieerror), modelled as [Dead]. *)
From Qv Require Import Common.Bytes Gen.GenNetio.

Fixpoint index_of (c : N) (l : bytes) : option nat :=
  match l with
  | [] => None
  | b :: l' => if N.eqb b c then Some 0 else option_map S (index_of c l')
  end.

(** find_eol(buffer, buflen): (p, valid); p = None is the NULL return *)
Definition find_eol (b : bytes) : option nat * bool :=
  let n := length b in
  match index_of CR b, index_of LF b with
  | None, None => (None, false)
  | Some c, Some l =>
      if Nat.eqb l (S c) then (Some (S l), true)
      else if Nat.ltb c l then
        (* cr < lf: is the LF a stray one as well? *)
        if negb (N.eqb (nth (l - 1) b 0%N) CR) then (Some (S l), false) else (Some (S c), false)
      else
        (* lf < cr *)
        if Nat.ltb (c + 2) n && negb (N.eqb (nth (S c) b 0%N) LF) then (Some (S c), false)
        else (Some (S l), false)
  | None, Some l => (Some (S l), false)
  | Some c, None => (Some (S c), false)
  end.

(** the network: [cur] = bytes of the current segment not yet read, [future] =
    segments that arrive later.  A read() returns bytes of one segment only (it
    blocks until the next one arrives when [cur] is empty); any sequence of
    read() results can be produced by a suitable segmentation. *)
Record env := { cur : bytes; future : list bytes }.

Definition rest (e : env) : bytes := cur e ++ concat (future e).

(** the next non-empty segment becomes current *)
Fixpoint next_segment (f : list bytes) : option (bytes * list bytes) :=
  match f with
  | [] => None
  | c :: f' => match c with [] => next_segment f' | _ => Some (c, f') end
  end.

(** readinput(buf, len, fatal=1): at most len-1 bytes *)
Definition readinput (e : env) (len : nat) : option (bytes * env) :=
  let seg := match cur e with
             | [] => next_segment (future e)
             | _ => Some (cur e, future e)
             end in
  match seg with
  | None => None                                   (* read() = 0: connection closed *)
  | Some (c, f) =>
      let k := Nat.min (length c) (len - 1) in
      Some (firstn k c, {| cur := skipn k c; future := f |})
  end.

Inductive item := Line (l : bytes) | Einval | E2big | Dead | Stuck.

(** loop_long(has_cr): returns the new lineinn *)
Fixpoint loop_long (fuel : nat) (e : env) (has_cr : bool) : option bytes * env :=
  match fuel with
  | O => (None, e)
  | S f =>
      match readinput e LINEINBUF with
      | None => (None, e)
      | Some (b, e') =>
          if has_cr && N.eqb (nth 0 b 0%N) LF then (Some (skipn 1 b), e')
          else
            let '(p, valid) := find_eol b in
            match p with
            | None => loop_long f e' false
            | Some p' =>
                if negb valid && Nat.eqb p' (length b) && N.eqb (nth (p' - 1) b 0%N) CR
                then loop_long f e' true
                else (Some (skipn p' b), e')
            end
      end
  end.

Record rstate := { inn : bytes; en : env }.

(** the do-while of net_read; [buf] is what is in lineinbuf so far *)
Fixpoint read_loop (fuel : nat) (buf : bytes) (e : env) : item * rstate :=
  match fuel with
  | O => (Stuck, {| inn := []; en := e |})
  | S f =>
      match readinput e (LINEINBUF - length buf) with
      | None => (Dead, {| inn := []; en := e |})
      | Some (d, e') =>
          let buf' := buf ++ d in
          let ro := length buf' in
          let '(p, valid) := find_eol buf' in
          let retry := match p with
                       | Some p' => negb valid && Nat.eqb p' ro && Nat.ltb ro (LINEINBUF - 1)
                                    && N.eqb (nth (p' - 1) buf' 0%N) CR
                       | None => false end in
          let p := if retry then None else p in
          match p with
          | None =>
              if Nat.ltb ro (LINEINBUF - 1) then read_loop f buf' e'
              else (* buffer full, neither CR nor LF *)
                match loop_long (S (length (rest e'))) e' false with
                | (Some i, e'') => (E2big, {| inn := i; en := e'' |})
                | (None, e'') => (Dead, {| inn := []; en := e'' |})
                end
          | Some p' =>
              if valid then (Line (firstn (p' - 2) buf'), {| inn := skipn p' buf'; en := e' |})
              else if Nat.eqb p' (LINEINBUF - 1) && N.eqb (nth (p' - 1) buf' 0%N) CR then
                match loop_long (S (length (rest e'))) e' true with
                | (Some i, e'') => (E2big, {| inn := i; en := e'' |})
                | (None, e'') => (Dead, {| inn := []; en := e'' |})
                end
              else (Einval, {| inn := skipn p' buf'; en := e' |})
          end
      end
  end.

Definition net_read (s : rstate) : item * rstate :=
  match inn s with
  | [] => read_loop (S (length (rest (en s)))) [] (en s)
  | _ =>
      let '(p, valid) := find_eol (inn s) in
      match p with
      | None => read_loop (S (length (rest (en s)))) (inn s) (en s)
      | Some p' =>
          if valid then (Line (firstn (p' - 2) (inn s)), {| inn := skipn p' (inn s); en := en s |})
          else if N.eqb (nth (p' - 1) (inn s) 0%N) CR && Nat.eqb p' (length (inn s))
          then read_loop (S (length (rest (en s)))) (inn s) (en s)
          else (Einval, {| inn := skipn p' (inn s); en := en s |})
      end
  end.

(** iterate until the connection is dead; each item is paired with the number
    of stream bytes still unconsumed (buffered + unread) after it *)
Fixpoint reader (fuel : nat) (s : rstate) : list (item * nat) :=
  match fuel with
  | O => [(Stuck, 0)]
  | S f =>
      let '(it, s') := net_read s in
      let left := length (inn s') + length (rest (en s')) in
      match it with
      | Dead => [(Dead, left)]
      | Stuck => [(Stuck, left)]
      | _ => (it, left) :: reader f s'
      end
  end.

(** cut a stream into segments of the given sizes (0 counts as 1; what is left after the last cut is one segment) *)
Fixpoint segments (stream : bytes) (cuts : list nat) : list bytes :=
  match cuts with
  | [] => [stream]
  | k :: cuts' =>
      match stream with
      | [] => []
      | _ => firstn (Nat.max 1 k) stream :: segments (skipn (Nat.max 1 k) stream) cuts'
      end
  end.

Definition run_reader (stream : bytes) (cuts : list nat) : list (item * nat) :=
  reader (S (S (length stream))) {| inn := []; en := {| cur := []; future := segments stream cuts |} |}.

(** Literal model of qremote/mime.c (skipwhitespace, mime_token, mime_param,
    is_multipart, getfieldlen, find_boundary).  Executable definitions only.

    The message is one mapping [m] (msgdata .. msgdata+msgsize); every C
    pointer into it is a [nat] offset.  Every read goes through [rd]: an offset
    outside the mapping is [Crash] (what the guard page of the harness, or the
    end of the mmap() in production, turns into SIGSEGV).  Loops run on fuel
    that the callers set to (a linear function of) the length of the data. *)
From Qv Require Import Common.Bytes Gen.GenQrdata.

Definition rd (m : bytes) (i : nat) : Cres N :=
  match nth_error m i with
  | Some b => Ok b
  | None => Crash 1%N
  end.

(** [n] bytes from offset [i] (source of a memcpy / netnwrite straight from the mapping) *)
Definition rdn (m : bytes) (i n : nat) : Cres bytes :=
  let s := sub m i n in
  if Nat.eqb (length s) n then Ok s else Crash 3%N.

Definition is_ws (c : N) : bool := N.eqb c SP || N.eqb c HT || N.eqb c CR || N.eqb c LF.   (* WSPACE() *)
Definition is_eol (c : N) : bool := N.eqb c CR || N.eqb c LF.
Definition BSLASH : N := 92%N.
Definition DQUOTE : N := 34%N.
Definition SEMI : N := 59%N.
Definition EQUALS : N := 61%N.
Definition LPAR : N := 40%N.
Definition RPAR : N := 41%N.

(** TSPECIAL() of include/mime_chars.h *)
Definition tspecial (c : N) : bool :=
  existsb (N.eqb c) [40; 41; 60; 62; 64; 44; 59; 58; 92; 34; 47; 91; 93; 63; 61]%N.

(** strncasecmp(m + p, lit, |lit|) == 0, reading the mapping only up to the first difference
    ([lit] has no NUL, so a NUL in the mapping is a difference as well) *)
Fixpoint casecmp_at (m : bytes) (p : nat) (lit : bytes) : Cres bool :=
  match lit with
  | [] => Ok true
  | x :: lit' =>
      do c <- rd m p;
      if N.eqb (to_lower c) (to_lower x) then casecmp_at m (S p) lit' else Ok false
  end.

(** strncmp(m + p, m + q, n) == 0 where the second string (the boundary) has no NUL *)
Fixpoint cmp_at (m : bytes) (p : nat) (lit : bytes) : Cres bool :=
  match lit with
  | [] => Ok true
  | x :: lit' =>
      do c <- rd m p;
      if N.eqb c x then cmp_at m (S p) lit' else Ok false
  end.

(** skipwhitespace(line, len): [Some c] = pointer returned, [None] = NULL.
    mode 0: head of the outer while; 1: the blank-skipping while; 2: body of the do-while over a comment *)
Fixpoint skw (fuel : nat) (m : bytes) (line c l : nat) (mode : nat) (brace : nat) : Cres (option nat) :=
  match fuel with
  | O => OutOfFuel
  | S fu =>
      match mode with
      | 0 => if Nat.eqb l 0 then Ok (Some c) else skw fu m line c l 1 0
      | 1 =>
          do x <- rd m c;
          if is_ws x then
            if Nat.eqb (l - 1) 0 then Ok (Some (S c)) else skw fu m line (S c) (l - 1) 1 brace
          else if negb (N.eqb x LPAR) then Ok (Some c)
          else skw fu m line c l 2 brace
      | _ =>
          if Nat.eqb (l - 1) 0 then Ok None else
          do x <- rd m c;
          do brace1 <-
            (if N.eqb x LPAR then
               if Nat.eqb c line then Ok (S brace)
               else do y <- rd m (c - 1); Ok (if negb (N.eqb y BSLASH) then S brace else brace)
             else if N.eqb x RPAR then
               do y <- rd m (c - 1); Ok (if negb (N.eqb y BSLASH) then brace - 1 else brace)
             else Ok brace);
          if Nat.eqb brace1 0 then skw fu m line (S c) (l - 1) 0 0
          else skw fu m line (S c) (l - 1) 2 brace1
      end
  end.

Definition skipwhitespace (m : bytes) (line len : nat) : Cres (option nat) :=
  skw (3 * len + 3) m line line len 0 0.

(** mime_token(line, len) *)
Fixpoint mime_token_loop (fuel : nat) (m : bytes) (line len i : nat) : Cres nat :=
  match fuel with
  | O => OutOfFuel
  | S fu =>
      if Nat.ltb i len then
        do x <- rd m (line + i);
        if N.eqb x SEMI || N.eqb x EQUALS then Ok i
        else if is_ws x then
          do e <- skipwhitespace m (line + i) (len - i);
          Ok (match e with Some p => if Nat.eqb p (line + len) then i else 0 | None => 0 end)
        else if N.leb x 32 || N.leb 128 x || tspecial x then Ok 0     (* (line[i] <= 32) with signed char *)
        else mime_token_loop fu m line len (S i)
      else Ok i
  end.

Definition mime_token (m : bytes) (line len : nat) : Cres nat := mime_token_loop (S len) m line len 0.

(** the for loop of mime_param looking for the closing quote; returns the i at which it stops *)
Fixpoint quote_end (fuel : nat) (m : bytes) (line len i : nat) : Cres nat :=
  match fuel with
  | O => OutOfFuel
  | S fu =>
      if Nat.ltb i len then
        do x <- rd m (line + i);
        do stop <- (if N.eqb x DQUOTE then do y <- rd m (line + i - 1); Ok (negb (N.eqb y BSLASH)) else Ok false);
        if stop then Ok i else quote_end fu m line len (S i)
      else Ok i
  end.

Definition mime_param (m : bytes) (line len : nat) : Cres nat :=
  do i <- mime_token m line len;
  if Nat.eqb i 0 || Nat.eqb i len then Ok 0 else
  do x <- rd m (line + i);
  if negb (N.eqb x EQUALS) then Ok 0 else
  let i := S i in
  do q <- rd m (line + i);
  if N.eqb q DQUOTE then
    do i <- quote_end (S len) m line len (S i);
    if Nat.eqb i len then Ok 0 else
    let i := S i in
    if Nat.eqb i len then Ok i else
    do y <- rd m (line + i);
    if negb (N.eqb y SEMI) && negb (N.eqb y LPAR) && negb (is_ws y) then Ok 0 else Ok i
  else
    if is_ws q then Ok 0 else
    do j <- mime_token m (line + i) (len - i);
    let i := i + j in
    if Nat.eqb i len then Ok i else
    do y <- rd m (line + i);
    if N.eqb y SEMI || is_ws y then Ok i else Ok 0.

(** result of is_multipart *)
Inductive MpRes :=
| MpYes (bs bl : nat)     (* 1, boundary at offset bs, length bl *)
| MpNo                    (* 0 *)
| MpSyntax                (* -1 *)
| MpDie (why : N).        (* write_status + net_conn_shutdown: 3 empty, 4 too long, 5 ends in space, 6 invalid character *)

(** memchr(m + p, DQUOTE, n) as an offset; [None] = NULL *)
Fixpoint memchr_q (m : bytes) (p n : nat) : Cres (option nat) :=
  match n with
  | O => Ok None
  | S n' => do x <- rd m p; if N.eqb x DQUOTE then Ok (Some p) else memchr_q m (S p) n'
  end.

(** unquoted boundary: while (!WSPACE(s[j]) && s[j] != ';' && s + j < end) j++   (reads before it tests the bound) *)
Fixpoint bnd_len (fuel : nat) (m : bytes) (bs lend j : nat) : Cres nat :=
  match fuel with
  | O => OutOfFuel
  | S fu =>
      do x <- rd m (bs + j);
      if negb (is_ws x) && negb (N.eqb x SEMI) && Nat.ltb (bs + j) lend then bnd_len fu m bs lend (S j) else Ok j
  end.

Definition bchar_ok (quoted : bool) (x : N) : bool :=
  (N.leb 97 x && N.leb x 122) || (N.leb 65 x && N.leb x 90)
  || (quoted && N.eqb x SP)
  || (N.leb 43 x && N.leb x 58)
  || existsb (N.eqb x) [39; 40; 41; 95; 61; 63]%N.

(** while (j > 0) { j--; ... } over the boundary characters; true = all allowed *)
Fixpoint bchars (m : bytes) (bs : nat) (quoted : bool) (j : nat) : Cres bool :=
  match j with
  | O => Ok true
  | S j' => do x <- rd m (bs + j'); if bchar_ok quoted x then bchars m bs quoted j' else Ok false
  end.

Definition MULTIPART_S : bytes := [109; 117; 108; 116; 105; 112; 97; 114; 116; 47]%N.   (* "multipart/" *)
Definition BOUNDARY_S : bytes := [98; 111; 117; 110; 100; 97; 114; 121; 61]%N.           (* "boundary=" *)
Definition CT_LEN : nat := 13.   (* strlen("Content-Type:") *)

(** the while (1) loop of is_multipart; [ch] absolute, [i] as in the C *)
Fixpoint mp_params (fuel : nat) (m : bytes) (ls ll : nat) (ch i : nat) : Cres MpRes :=
  match fuel with
  | O => OutOfFuel
  | S fu =>
      let ch := ch + i in
      if Nat.ltb (ls + ll) ch then Crash 20%N else        (* believed impossible: ch past the field *)
      do r <- skipwhitespace m ch (ls + ll - ch);
      match r with
      | None => Ok MpSyntax
      | Some ch =>
          if Nat.eqb ch (ls + ll) then Ok MpSyntax else
          do i <- mime_param m ch (ls + ll - ch);
          do isb <- (if Nat.ltb (length BOUNDARY_S) i then casecmp_at m ch BOUNDARY_S else Ok false);
          if isb then
            let bs := ch + length BOUNDARY_S in
            do x <- rd m bs;
            do qbj <-
              (if N.eqb x DQUOTE then
                 if Nat.ltb (ls + ll) (ch + 10) then Crash 21%N else
                 do e <- memchr_q m (ch + 10) (ls + ll - 10 - ch);
                 match e with
                 | None => Crash 22%N            (* assert(e != NULL) *)
                 | Some e => Ok (true, S bs, e - ch - 10)
                 end
               else do j <- bnd_len (S ll) m bs (ls + ll) 0; Ok (false, bs, j));
            let '(quoted, bs, j) := qbj in
            if Nat.eqb j 0 then Ok (MpDie 3%N)
            else if Nat.ltb BOUNDARY_MAX j then Ok (MpDie 4%N)
            else
              do lastc <- rd m (bs + j - 1);
              if quoted && N.eqb lastc SP then Ok (MpDie 5%N) else
              do ok <- bchars m bs quoted j;
              if ok then Ok (MpYes bs j) else Ok (MpDie 6%N)
          else
            if Nat.eqb i 0 then Ok MpSyntax else
            do y <- rd m (ch + i);
            mp_params fu m ls ll ch (if N.eqb y SEMI then S i else i)
      end
  end.

(** is_multipart(line = (ls, ll), &boundary) *)
Definition is_multipart (m : bytes) (ls ll : nat) : Cres MpRes :=
  if Nat.eqb ll 0 then Ok MpNo else
  if Nat.ltb ll CT_LEN then Crash 23%N else       (* assert(line->len >= ct_len) *)
  do r <- skipwhitespace m (ls + CT_LEN) (ll - CT_LEN);
  match r with
  | None => Ok MpSyntax
  | Some ch =>
      if Nat.eqb ch (ls + ll) then Ok MpSyntax else
      do mp <- casecmp_at m ch MULTIPART_S;
      if negb mp then Ok MpNo else
      let i := length MULTIPART_S in
      if Nat.ltb (ls + ll) (ch + i) then Crash 24%N else
      do j <- mime_token m (ch + i) (ls + ll - ch - i);
      let i := i + j in
      if Nat.eqb j 0 then Ok MpSyntax else
      do x <- rd m (ch + i);
      if N.eqb x EQUALS then Ok MpSyntax
      else if negb (N.eqb x SEMI) then Ok MpSyntax
      else mp_params (S ll) m ls ll ch (S i)
  end.

(** getfieldlen(msg, len); the loops flattened: mode 0 = skipping to the line end, then the two
    optional CR / LF steps and the continuation test *)
Fixpoint gfl (fuel : nat) (m : bytes) (msg len cr r : nat) : Cres nat :=
  match fuel with
  | O => OutOfFuel
  | S fu =>
      do stop <- (if Nat.eqb r 0 then Ok true else do x <- rd m (msg + cr); Ok (is_eol x));
      if negb stop then gfl fu m msg len (S cr) (r - 1) else
      do s1 <- (if Nat.eqb r 0 then Ok (cr, r) else do x <- rd m (msg + cr); Ok (if N.eqb x CR then (S cr, r - 1) else (cr, r)));
      let '(cr, r) := s1 in
      do s2 <- (if Nat.eqb r 0 then Ok (cr, r) else do x <- rd m (msg + cr); Ok (if N.eqb x LF then (S cr, r - 1) else (cr, r)));
      let '(cr, r) := s2 in
      do again <- (if Nat.eqb r 0 then Ok false else do x <- rd m (msg + cr); Ok (N.eqb x SP || N.eqb x HT));
      if again then gfl fu m msg len cr r else
      if Nat.eqb cr 0 then Crash 25%N else        (* *(cr - 1) before the data *)
      do z <- rd m (msg + cr - 1);
      Ok (if is_eol z then len - r else 0)
  end.

Definition getfieldlen (m : bytes) (msg len : nat) : Cres nat := gfl (2 * len + 2) m msg len 0 len.

(** find_boundary(buf, len, boundary): offset behind the next boundary line start, 0 = none *)
Fixpoint fb_loop (fuel : nat) (m : bytes) (buf len : nat) (bnd : bytes) (pos : nat) : Cres nat :=
  match fuel with
  | O => OutOfFuel
  | S fu =>
      let bl := length bnd in
      if Nat.leb (pos + 3 + bl) len then
        do x <- rd m (buf + pos);
        do hit <- (if is_eol x then
                     do y <- rd m (buf + pos + 1);
                     if N.eqb y DASH then
                       do z <- rd m (buf + pos + 2);
                       if N.eqb z DASH then cmp_at m (buf + pos + 3) bnd else Ok false
                     else Ok false
                   else Ok false);
        do res <-
          (if hit then
             let pos1 := pos + 3 + bl in
             if Nat.eqb pos1 len then Ok (Some pos1) else
             do w <- rd m (buf + pos1);
             if is_ws w then Ok (Some pos1) else
             if Nat.ltb (pos1 + 1) len then
               do w1 <- rd m (buf + pos1 + 1);
               if N.eqb w DASH && N.eqb w1 DASH then
                 if Nat.eqb (pos1 + 2) len then Ok (Some pos1)
                 else do w2 <- rd m (buf + pos1 + 2); Ok (if is_ws w2 then Some pos1 else None)
               else Ok None
             else Ok None
           else Ok None);
        match res with
        | Some p => Ok p
        | None =>
            (* the C adds 3 + boundary->len to pos before the tests and then pos++ on a failed tail test *)
            fb_loop fu m buf len bnd (if hit then pos + 3 + bl + 1 else S pos)
        end
      else Ok 0
  end.

Definition find_boundary (m : bytes) (buf len : nat) (bnd : bytes) : Cres nat :=
  if Nat.ltb len (length bnd + 3) then Ok 0 else fb_loop (S len) m buf len bnd 0.
